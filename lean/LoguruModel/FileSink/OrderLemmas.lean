import LoguruModel.FileSink.Lemmas
/-!
A second, generic pass over the sink's code: any predicate preserved by the six "leaf" computations
is preserved by `write`/`stop`/`init` under every fault vector.  Instantiated with "every file and
archive holds its ids in strictly increasing (= logging) order".
-/
namespace FileSink
open Py

structure Leafs (P : W → Prop) : Prop where
  insens : Insens P
  create : ∀ cfg n, Triple P (createFile cfg n) (fun _ => P) P
  close : Triple P closeFile (fun _ => P) P
  renameSame : ∀ o new old, Triple P (renameSame o new old) (fun _ => P) P
  compression : ∀ k p ct, Triple P (compression k p ct) (fun _ => P) P
  retStep : ∀ s, Triple P (retStep s) (fun _ => P) P

section generic
variable {P : W → Prop} (L : Leafs P)
include L

theorem retention_gen (cfg : Cfg) (steps : List RetStep) : Triple P (retention cfg steps) (fun _ => P) P := by
  unfold retention
  refine Triple.seq (Triple.seqM _ ?_) (Triple.seqM _ ?_)
  · intro a ha
    rw [List.eq_of_mem_replicate ha]
    exact tick_spec L.insens _
  · intro a ha
    obtain ⟨s, _, rfl⟩ := List.mem_map.1 ha
    exact L.retStep s

theorem rotatePrep_gen (o : Orc) (rotating : Bool) (old : Option Name) :
    Triple P (rotatePrep o rotating old) (fun _ => P) P := by
  unfold rotatePrep
  exact Triple.ite (fun _ => Triple.seq (tick_spec L.insens _) (L.renameSame _ _ _))
    (fun _ => Triple.post (Triple.ret _) (fun _ _ h => h.2))

theorem compressOld_gen (cfg : Cfg) (o : Orc) (old : Option Name) :
    Triple P (compressOld cfg o old) (fun _ => P) P := by
  unfold compressOld
  split
  · exact L.compression _ _ _
  · exact tick_spec L.insens _
  · exact Triple.unit

theorem finishOld_gen (cfg : Cfg) (o : Orc) (old : Option Name) :
    Triple P (finishOld cfg o old) (fun _ => P) P := by
  unfold finishOld
  exact Triple.seq (compressOld_gen L _ _ _) (Triple.whenM (fun _ => retention_gen L _ _))

theorem terminate_gen (cfg : Cfg) (o : Orc) (rotating : Bool) :
    Triple P (terminate cfg o rotating) (fun _ => P) P := by
  unfold terminate
  refine Triple.bindGet (fun w0 => Triple.pre ?_ (fun w h => h.2))
  refine Triple.seq (Triple.whenM (fun _ => L.close)) ?_
  refine Triple.bind (rotatePrep_gen L _ _ _) (fun old => ?_)
  refine Triple.seq (Triple.whenM (fun _ => finishOld_gen L _ _ _)) ?_
  exact Triple.whenM (fun _ => L.create _ _)

theorem reopen_gen (cfg : Cfg) : Triple P (reopenIfNeeded cfg) (fun _ => P) P := by
  unfold reopenIfNeeded
  refine Triple.bindGet (fun w0 => Triple.pre ?_ (fun w h => h.2))
  split
  · exact Triple.unit
  · refine Triple.seq (tick_spec L.insens _) (Triple.ite (fun _ => ?_) (fun _ => Triple.unit))
    refine Triple.seqM _ (fun a ha => ?_)
    obtain ⟨s, _, rfl⟩ := List.mem_map.1 ha
    cases s with
    | close => exact L.close
    | mkdirs => exact tick_spec L.insens _
    | create => exact L.create _ _

theorem lazyCreate_gen (cfg : Cfg) (o : Orc) : Triple P (lazyCreate cfg o) (fun _ => P) P := by
  unfold lazyCreate
  exact Triple.seq (tick_spec L.insens _) (L.create _ _)

theorem stopBody_gen (cfg : Cfg) (o : Orc) : Triple P (stopBody cfg o) (fun _ => P) P := by
  unfold stopBody
  refine Triple.seqM _ (fun a ha => ?_)
  obtain ⟨s, _, rfl⟩ := List.mem_map.1 ha
  cases s with
  | reopen => exact Triple.whenM (fun _ => reopen_gen L _)
  | terminate => exact terminate_gen L _ _ _

/-- `write` = a prefix that keeps `P`, then the actual `file.write` -/
theorem writeBody_gen (cfg : Cfg) (o : Orc) {Q E : W → Prop} (hPE : ∀ w, P w → E w)
    (hw : Triple P writeMsg (fun _ => Q) E) : Triple P (writeBody cfg o) (fun _ => Q) E := by
  have weak : ∀ {m : M Unit}, Triple P m (fun _ => P) P → Triple P m (fun _ => P) E :=
    fun h => Triple.conseq h (fun _ x => x) (fun _ _ x => x) hPE
  unfold writeBody
  refine Triple.bindGet (fun w0 => Triple.pre ?_ (fun w h => h.2))
  refine Triple.seq (weak (Triple.whenM (fun _ => lazyCreate_gen L _ _))) ?_
  refine Triple.seq (weak (Triple.whenM (fun _ => reopen_gen L _))) ?_
  refine Triple.seq (weak (Triple.whenM (fun _ => ?_))) hw
  unfold rotateIfDue
  exact Triple.seq (tick_spec L.insens _) (Triple.whenM (fun _ => terminate_gen L _ _ _))

end generic

/-! ### content-preserving changes of the directory -/

/-- every entry of `fs'` is empty or holds exactly what some entry of `fs` holds -/
def Sub (fs' fs : FS) : Prop :=
  ∀ n e', fs'.get n = some e' → e'.content = [] ∨ ∃ n0 e0, fs.get n0 = some e0 ∧ e'.content = e0.content

theorem Sub.refl (fs : FS) : Sub fs fs := fun n e h => Or.inr ⟨n, e, h, rfl⟩

theorem Sub.set {f fs : FS} (h : Sub f fs) (n : Name) (e : Entry)
    (he : e.content = [] ∨ ∃ n0 e0, fs.get n0 = some e0 ∧ e.content = e0.content) : Sub (f.set n e) fs := by
  intro n' e' hg
  rw [get_set] at hg
  by_cases hx : n' = n
  · simp only [hx, ↓reduceIte, Option.some.injEq] at hg; subst hg; exact he
  · simp only [hx, ↓reduceIte] at hg; exact h n' e' hg

theorem Sub.del {f fs : FS} (h : Sub f fs) (n : Name) : Sub (f.del n) fs := by
  intro n' e' hg
  rw [get_del] at hg
  by_cases hx : n' = n
  · simp [hx] at hg
  · simp only [hx, ↓reduceIte] at hg; exact h n' e' hg

/-- the sink's own fields (everything in `W` except the directory, the fault vector and the other ghosts) -/
structure Core where
  cur : Option Name
  closed : Bool
  detached : Bool
  mismatch : Bool
  nextId : Nat
  orphaned : List Nat      -- ghost: only `writeMsg` changes it

def W.core (w : W) : Core := ⟨w.cur, w.closed, w.detached, w.mismatch, w.nextId, w.orphaned⟩

/-- a predicate on (directory, sink fields) that content-preserving changes of the directory keep -/
def SubClosed (R : FS → Core → Prop) : Prop := ∀ fs fs' c, R fs c → Sub fs' fs → R fs' c

/-- … and that only looks at the next message id among the sink fields -/
def OnlyNextId (R : FS → Core → Prop) : Prop := ∀ fs c c', R fs c → c'.nextId = c.nextId → R fs c'

section subclosed
variable {R : FS → Core → Prop} (hR : SubClosed R)
include hR

theorem sc_insens : Insens (fun w => R w.fs w.core) := fun _ _ _ h => h

theorem sc_create (hN : OnlyNextId R) (cfg : Cfg) (n : Name) :
    Triple (fun w => R w.fs w.core) (createFile cfg n) (fun _ w => R w.fs w.core) (fun w => R w.fs w.core) := by
  unfold createFile
  refine Triple.seq (tick_spec (sc_insens hR) _) (Triple.seq (modW_spec _ ?_)
    (Triple.ite (fun _ => Triple.seq (tick_spec (sc_insens hR) _) (modW_spec _ (fun w h => hN _ _ _ h rfl))) (fun _ => Triple.unit)))
  intro w hw
  refine hN _ _ _ (hR _ _ _ hw ?_) rfl
  simp only [fileMode_append, ↓reduceIte]
  cases hg : w.fs.get n with
  | some e => exact Sub.refl _
  | none => exact (Sub.refl _).set n _ (Or.inl rfl)

theorem sc_closeStep (hN : OnlyNextId R) (s : CloseStep) :
    Triple (fun w => R w.fs w.core) (closeStep s) (fun _ w => R w.fs w.core) (fun w => R w.fs w.core) := by
  cases s with
  | flush =>
    unfold closeStep
    refine Triple.bindGet (fun a => Triple.pre ?_ (fun w h => h.2))
    exact Triple.seq (tick_spec (sc_insens hR) _) (Triple.ite (fun _ => Triple.throw _) (fun _ => Triple.unit))
  | bindFile => exact Triple.unit
  | close =>
    unfold closeStep
    refine Triple.bindGet (fun a => Triple.pre ?_ (fun w h => h.2))
    exact Triple.seq (modW_spec _ (fun w hw => hN _ _ _ hw rfl)) (Triple.seq (tick_spec (sc_insens hR) _) (modW_spec _ (fun w hw => hN _ _ _ hw rfl)))
  | resetFile => exact modW_spec _ (fun w hw => hN _ _ _ hw rfl)
  | resetPath => exact Triple.unit
  | resetDev => exact modW_spec _ (fun w hw => hN _ _ _ hw rfl)
  | resetIno => exact Triple.unit

theorem sc_close (hN : OnlyNextId R) :
    Triple (fun w => R w.fs w.core) closeFile (fun _ w => R w.fs w.core) (fun w => R w.fs w.core) := by
  unfold closeFile
  apply Triple.seqM
  intro a ha
  obtain ⟨s, _, rfl⟩ := List.mem_map.1 ha
  exact sc_closeStep hR hN s

theorem sc_rename (a b : Name) :
    Triple (fun w => R w.fs w.core) (rename a b) (fun _ w => R w.fs w.core) (fun w => R w.fs w.core) := by
  unfold rename
  refine Triple.seq (tick_spec (sc_insens hR) _) (Triple.bindGet (fun w0 => ?_))
  cases hg : w0.fs.get a with
  | none => exact Triple.throw' _ (fun w h => h.2)
  | some e =>
    refine modW_spec _ ?_
    rintro w ⟨rfl, hw⟩
    exact hR _ _ _ hw (((Sub.refl _).del a).set b e (Or.inr ⟨a, e, hg, rfl⟩))

theorem sc_renameSame (o : Orc) (new : Name) (old : Option Name) :
    Triple (fun w => R w.fs w.core) (renameSame o new old) (fun _ w => R w.fs w.core) (fun w => R w.fs w.core) := by
  unfold renameSame
  refine Triple.ite (fun _ => ?_) (fun _ => Triple.post (Triple.ret _) (fun _ _ h => h.2))
  refine Triple.seq (getCtime_spec (sc_insens hR) _) (Triple.bindGet (fun w1 => ?_))
  cases hg : genRename w1.fs (fun c => Name.ren new o.ct1 c) with
  | none => exact Triple.throw' _ (fun w h => h.2)
  | some r =>
    refine Triple.pre (Triple.seq (sc_rename hR new r) (Triple.post (Triple.ret _) (fun _ _ h => h.2))) (fun w h => h.2)

theorem sc_compressFn (k : CompKind) (p out : Name) :
    Triple (fun w => R w.fs w.core) (compressFn k p out) (fun _ w => R w.fs w.core) (fun w => R w.fs w.core) := by
  rw [compressFn_eq]
  unfold compressFnHand
  refine Triple.seq (openSrc_spec (sc_insens hR) k p) ?_
  refine Triple.seq (tick_spec (sc_insens hR) _) ?_
  refine Triple.seq (modW_spec _ (fun w hw => hR _ _ _ hw ((Sub.refl _).set out _ (Or.inl rfl)))) ?_
  refine Triple.seq (tick_spec (sc_insens hR) _) (Triple.bindGet (fun w0 => ?_))
  cases hg : w0.fs.get p with
  | none => exact Triple.throw' _ (fun w h => h.2)
  | some e =>
    refine modW_spec _ ?_
    rintro w ⟨rfl, hw⟩
    exact hR _ _ _ hw ((Sub.refl _).set out _ (Or.inr ⟨p, e, hg, rfl⟩))

theorem sc_remove (n : Name) :
    Triple (fun w => R w.fs w.core) (remove n) (fun _ w => R w.fs w.core) (fun w => R w.fs w.core) := by
  unfold remove
  refine Triple.seq (tick_spec (sc_insens hR) _) (Triple.bindGet (fun w0 => ?_))
  refine Triple.ite (fun _ => Triple.throw' _ (fun w h => h.2)) (fun _ => modW_spec _ ?_)
  rintro w ⟨rfl, hw⟩
  exact hR _ _ _ hw ((Sub.refl _).del n)

theorem sc_compression (k : CompKind) (p : Name) (ct : Nat) :
    Triple (fun w => R w.fs w.core) (compression k p ct) (fun _ w => R w.fs w.core) (fun w => R w.fs w.core) := by
  unfold compression
  apply Triple.seqM
  intro a ha
  obtain ⟨s, _, rfl⟩ := List.mem_map.1 ha
  cases s with
  | pathOut => exact Triple.unit
  | collisionRename =>
    unfold cStep
    refine Triple.bindGet (fun w0 => Triple.pre ?_ (fun w h => h.2))
    refine Triple.ite (fun _ => ?_) (fun _ => Triple.unit)
    refine Triple.seq (getCtime_spec (sc_insens hR) _) (Triple.bindGet (fun w1 => ?_))
    cases hg : genRename w1.fs (fun c => Name.arc (Name.ren p ct c)) with
    | none => exact Triple.throw' _ (fun w h => h.2)
    | some r => exact Triple.pre (sc_rename hR _ r) (fun w h => h.2)
  | compress => exact sc_compressFn hR k p _
  | removeSource => exact sc_remove hR p

theorem sc_retStep (s : RetStep) :
    Triple (fun w => R w.fs w.core) (retStep s) (fun _ w => R w.fs w.core) (fun w => R w.fs w.core) := by
  cases s with
  | stat => exact tick_spec (sc_insens hR) _
  | del n =>
    unfold retStep
    refine Triple.seq (tick_spec (sc_insens hR) _) (Triple.bindGet (fun w0 => ?_))
    cases hg : w0.fs.get n with
    | none => exact Triple.throw' _ (fun w h => h.2)
    | some e =>
      refine modW_spec _ ?_
      rintro w ⟨rfl, hw⟩
      exact hR _ _ _ hw ((Sub.refl _).del n)

theorem sc_leafs (hN : OnlyNextId R) : Leafs (fun w => R w.fs w.core) :=
  { insens := sc_insens hR, create := sc_create hR hN, close := sc_close hR hN, renameSame := sc_renameSame hR,
    compression := sc_compression hR, retStep := sc_retStep hR }

end subclosed

/-! ### logging order inside every file and archive -/

/-- every entry holds strictly increasing ids, all below `b` -/
def OrdF (fs : FS) (b : Nat) : Prop :=
  ∀ n e, fs.get n = some e → e.content.Pairwise (· < ·) ∧ ∀ x ∈ e.content, x < b

theorem OrdF.sub {fs fs' : FS} {b : Nat} (h : OrdF fs b) (hs : Sub fs' fs) : OrdF fs' b := by
  intro n e' hg
  rcases hs n e' hg with h0 | ⟨n0, e0, h0, hc⟩
  · rw [h0]; exact ⟨List.Pairwise.nil, by intro x hx; cases hx⟩
  · rw [hc]; exact h n0 e0 h0

theorem OrdF.mono {fs : FS} {b b' : Nat} (h : OrdF fs b) (hb : b ≤ b') : OrdF fs b' :=
  fun n e hg => ⟨(h n e hg).1, fun x hx => Nat.lt_of_lt_of_le ((h n e hg).2 x hx) hb⟩

theorem writeMsg_ord (b : Nat) :
    Triple (fun w => OrdF w.fs w.nextId ∧ w.nextId = b) writeMsg
      (fun _ w => OrdF w.fs (b + 1) ∧ w.nextId = b) (fun w => OrdF w.fs (b + 1) ∧ w.nextId = b) := by
  have hI : Insens (fun w => OrdF w.fs w.nextId ∧ w.nextId = b) := fun _ _ _ h => h
  have weak : ∀ w : W, (OrdF w.fs w.nextId ∧ w.nextId = b) → (OrdF w.fs (b + 1) ∧ w.nextId = b) :=
    fun w h => ⟨(h.2 ▸ h.1).mono (Nat.le_succ b), h.2⟩
  unfold writeMsg
  refine Triple.seq (tick_specE hI weak _) (Triple.bindGet (fun w0 => ?_))
  refine Triple.ite (fun _ => Triple.throw' _ (fun w h => weak w h.2)) (fun _ => ?_)
  cases hcur : w0.cur with
  | none => exact Triple.throw' _ (fun w h => weak w h.2)
  | some p =>
    simp only
    refine Triple.ite (fun _ => modW_spec _ (fun w h => weak w h.2)) (fun _ => ?_)
    cases hg : w0.fs.get p with
    | none => exact modW_spec _ (fun w h => weak w h.2)
    | some e =>
      refine modW_spec _ ?_
      rintro w ⟨rfl, ho, hb⟩
      refine ⟨?_, hb⟩
      intro n e' hg'
      rw [get_set] at hg'
      by_cases hx : n = p
      · simp only [hx, ↓reduceIte, Option.some.injEq] at hg'
        subst hg'
        obtain ⟨h1, h2⟩ := ho p e hg
        have hc : (e.append w.nextId).content = e.content ++ [w.nextId] := by cases e <;> rfl
        rw [hc]
        refine ⟨List.pairwise_append.2 ⟨h1, List.pairwise_singleton _ _, ?_⟩, ?_⟩
        · intro x hx y hy
          simp only [List.mem_singleton] at hy; subst hy; exact h2 x hx
        · intro x hx
          simp only [List.mem_append, List.mem_singleton] at hx
          rcases hx with hx | hx
          · have := h2 x hx; omega
          · omega
      · simp only [hx, ↓reduceIte] at hg'
        exact ((weak w ⟨ho, hb⟩).1) n e' hg'

theorem envTouch_fs (n : Name) (w : W) : (envTouch n w).fs = w.fs := by
  unfold envTouch; split <;> rfl

theorem envTouch_nextId (n : Name) (w : W) : (envTouch n w).nextId = w.nextId := by
  unfold envTouch; split <;> rfl

theorem step_ord (cfg : Cfg) (op : Op) (w : W) (hw : OrdF w.fs w.nextId) :
    OrdF (step cfg op w).2.fs (step cfg op w).2.nextId := by
  have L : Leafs (fun x => OrdF x.fs x.nextId) :=
    sc_leafs (R := fun fs c => OrdF fs c.nextId) (fun _ _ _ h hs => h.sub hs) (fun fs c c' h e => by show OrdF fs c'.nextId; rw [e]; exact h)
  cases op with
  | init o => exact Triple.snd (lazyCreate_gen L cfg o) w hw
  | stop o => exact Triple.snd (stopBody_gen L cfg o) w hw
  | restart => exact hw
  | write o =>
    have L' : Leafs (fun x => OrdF x.fs x.nextId ∧ x.nextId = w.nextId) :=
      sc_leafs (R := fun fs c => OrdF fs c.nextId ∧ c.nextId = w.nextId)
        (fun _ _ _ h hs => ⟨h.1.sub hs, h.2⟩)
        (fun fs c c' h e => by show OrdF fs c'.nextId ∧ c'.nextId = w.nextId; rw [e]; exact h)
    have := writeBody_gen L' cfg o (fun x h => ⟨(h.2 ▸ h.1).mono (Nat.le_succ _), h.2⟩) (writeMsg_ord w.nextId) w ⟨hw, rfl⟩
    simp only [step]
    match hm : writeBody cfg o w with
    | (.ok u, w') => rw [hm] at this; simp only; rw [this.2]; exact this.1
    | (.error e, w') => rw [hm] at this; simp only; rw [this.2]; exact this.1
  | extDelete n =>
    cases hg : w.fs.get n with
    | none => simp only [step, hg]; exact hw
    | some e =>
      have : OrdF (w.fs.del n) w.nextId := hw.sub ((Sub.refl _).del n)
      simp only [step, hg, envTouch_fs, envTouch_nextId]; exact this
  | extReplace n =>
    cases hg : w.fs.get n with
    | none => simp only [step, hg]; exact hw
    | some e =>
      have : OrdF (w.fs.set n (.file [])) w.nextId := hw.sub ((Sub.refl _).set n _ (Or.inl rfl))
      simp only [step, hg, envTouch_fs, envTouch_nextId]; exact this

theorem run_ord (cfg : Cfg) (ops : List Op) (w : W) (hw : OrdF w.fs w.nextId) :
    OrdF (run cfg ops w).fs (run cfg ops w).nextId := by
  induction ops generalizing w with
  | nil => exact hw
  | cons op rest ih => exact ih _ (step_ord cfg op w hw)

end FileSink
