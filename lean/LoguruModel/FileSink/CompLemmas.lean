import LoguruModel.FileSink.Lemmas
/-!
Exact file-system effect of `Compression.compression` (C18): where the old archive goes, what the new
archive holds, and that the source is only touched by the final `os.remove`.
-/
namespace FileSink
open Py

theorem insens_fs (Q : FS → Prop) : Insens (fun w => Q w.fs) := fun _ _ _ h => h

theorem rename_exact (a b : Name) (fs0 : FS) :
    Triple (fun w => w.fs = fs0) (rename a b)
      (fun _ w => ∃ e, fs0.get a = some e ∧ w.fs = (fs0.del a).set b e) (fun w => w.fs = fs0) := by
  unfold rename
  refine Triple.seq (tick_spec (insens_fs (· = fs0)) _) (Triple.bindGet (fun w0 => ?_))
  cases hg : w0.fs.get a with
  | none => exact Triple.throw' _ (fun w h => h.2)
  | some e =>
    refine modW_spec _ ?_
    rintro w ⟨rfl, rfl⟩
    exact ⟨e, hg, rfl⟩

theorem remove_exact (p : Name) (f2 : FS) :
    Triple (fun w => w.fs = f2) (remove p) (fun _ w => w.fs = f2.del p) (fun w => w.fs = f2) := by
  unfold remove
  refine Triple.seq (tick_spec (insens_fs (· = f2)) _) (Triple.bindGet (fun w0 => ?_))
  refine Triple.ite (fun _ => Triple.throw' _ (fun w h => h.2)) (fun _ => modW_spec _ ?_)
  rintro w ⟨rfl, rfl⟩
  rfl

theorem cand_ne (p : Name) (ct c : Nat) : Name.arc (Name.ren p ct c) ≠ p := by
  intro h
  have := congrArg sizeOf h
  simp at this
  omega

theorem Triple.withPre {α} {P : W → Prop} {m : M α} {Q : α → W → Prop} {E : W → Prop}
    (h : ∀ w0, P w0 → Triple (fun w => w = w0) m Q E) : Triple P m Q E :=
  fun w hw => h w hw w rfl

/-- the collision branch: an archive already present under the target name is moved, unchanged, to a
name that did not exist; on any failure nothing has changed -/
theorem collision_exact (k : CompKind) (p : Name) (ct : Nat) (fs0 : FS) :
    Triple (fun w => w.fs = fs0) (cStep k p ct .collisionRename)
      (fun _ w => w.fs.get p = fs0.get p ∧ w.fs.get (.arc p) = none ∧
        ∀ a, fs0.get (.arc p) = some a → ∃ r, r ≠ .arc p ∧ r ≠ p ∧ fs0.get r = none ∧ w.fs.get r = some a)
      (fun w => w.fs = fs0) := by
  unfold cStep
  refine Triple.bindGet (fun w0 => ?_)
  refine Triple.ite (fun hc => ?_) (fun hc => ?_)
  · refine Triple.pre (P := fun w => w.fs = fs0) ?_ (fun w h => h.2)
    refine Triple.seq (getCtime_spec (insens_fs (· = fs0)) _) (Triple.bindGet (fun w1 => ?_))
    refine Triple.withPre ?_
    rintro w ⟨rfl, hfs⟩
    cases hg : genRename w.fs (fun c => Name.arc (Name.ren p ct c)) with
    | none => exact Triple.throw' _ (fun w' h => by rw [h]; exact hfs)
    | some r =>
      obtain ⟨hfresh, c', _, hrc⟩ := renameLoop_fresh _ _ _ _ r hg
      have hfresh' : fs0.get r = none := by rw [← hfs]; exact (has_false_iff _ _).1 hfresh
      refine Triple.conseq (rename_exact (.arc p) r fs0) (fun w' h => by rw [h]; exact hfs) ?_ (fun _ h => h)
      rintro _ w' ⟨e, he, hw'⟩
      have hne1 : r ≠ Name.arc p := by
        intro h; rw [h] at hfresh'; rw [hfresh'] at he; cases he
      have hne2 : r ≠ p := by rw [hrc]; exact cand_ne p ct c'
      refine ⟨?_, ?_, ?_⟩
      · rw [hw']; simp [get_set, get_del, hne2.symm, (Name.arc_ne p).symm]
      · rw [hw']; simp [get_set, get_del, hne1.symm]
      · intro a ha
        rw [he] at ha; cases ha
        exact ⟨r, hne1, hne2, hfresh', by rw [hw']; simp [get_set]⟩
  · intro w hw
    obtain ⟨rfl, hfs⟩ := hw
    have hnone : w.fs.get (.arc p) = none := by
      apply (has_false_iff _ _).1; simpa using hc
    refine ⟨by rw [hfs], hnone, ?_⟩
    intro a ha
    rw [← hfs, hnone] at ha; cases ha

/-- the compress function writes only the target; on success the target holds the source's content under
the source's base name -/
theorem compressFn_exact (k : CompKind) (p out : Name) (hne : out ≠ p) (f1 : FS) :
    Triple (fun w => w.fs = f1) (compressFn k p out)
      (fun _ w => ∃ e, f1.get p = some e ∧ w.fs.get out = some (.arch (innerOf k p) e.content) ∧
        ∀ n, n ≠ out → w.fs.get n = f1.get n)
      (fun w => ∀ n, n ≠ out → w.fs.get n = f1.get n) := by
  unfold compressFn
  have hpo : p ≠ out := fun h => hne h.symm
  refine Triple.seq (Triple.conseq (openSrc_spec (insens_fs (· = f1)) k p) (fun _ h => h) (fun _ _ h => h)
    (fun w h n _ => by rw [h])) ?_
  refine Triple.seq (tick_specE (insens_fs (· = f1)) (fun w h n _ => by rw [h]) _) ?_
  refine Triple.bind (Q := fun _ w => ∀ n, n ≠ out → w.fs.get n = f1.get n) (modW_spec _ ?_) (fun _ => ?_)
  · rintro w rfl n hn
    simp [get_set, hn]
  · refine Triple.seq (tick_spec (insens_fs (fun fs => ∀ n, n ≠ out → fs.get n = f1.get n)) _)
      (Triple.bindGet (fun w0 => ?_))
    cases hg : w0.fs.get p with
    | none => exact Triple.throw' _ (fun w h => h.2)
    | some e =>
      refine modW_spec _ ?_
      rintro w ⟨rfl, hfr⟩
      refine ⟨e, by rw [← hfr p hpo]; exact hg, (get_set _ _ _ _).trans (if_pos rfl), ?_⟩
      intro n hn
      simp [get_set, hn, hfr n hn]

/-- what `Compression.compression` does to the directory, for every fault vector -/
theorem compression_exact (k : CompKind) (p : Name) (ct : Nat) (fs0 : FS) :
    Triple (fun w => w.fs = fs0) (compression k p ct)
      (fun _ w => (∃ e, fs0.get p = some e ∧ w.fs.get (.arc p) = some (.arch (innerOf k p) e.content)) ∧
        w.fs.get p = none ∧
        ∀ a, fs0.get (.arc p) = some a → ∃ r, fs0.get r = none ∧ w.fs.get r = some a)
      (fun w => w.fs.get p = fs0.get p ∧
        ∀ a, fs0.get (.arc p) = some a → w.fs.get (.arc p) = some a ∨ ∃ r, fs0.get r = none ∧ w.fs.get r = some a) := by
  unfold compression
  simp only [Gen.compressionOrder, List.map, seqM]
  refine Triple.seq (P := fun w => w.fs = fs0) (by unfold cStep; exact Triple.unit) ?_
  refine Triple.bind (Triple.conseq (collision_exact k p ct fs0) (fun _ h => h) (fun _ _ h => h)
    (fun w h => ⟨by rw [h], fun a ha => Or.inl (by rw [h]; exact ha)⟩)) (fun _ => ?_)
  -- after the collision branch
  refine Triple.withPre ?_
  rintro w1 ⟨hp1, hout1, hmoved⟩
  have hmoved' : ∀ (w : W), (∀ n, n ≠ Name.arc p → w.fs.get n = w1.fs.get n) →
      ∀ a, fs0.get (.arc p) = some a → ∃ r, r ≠ p ∧ fs0.get r = none ∧ w.fs.get r = some a := by
    intro w hfr a ha
    obtain ⟨r, hr1, hr2, hr3, hr4⟩ := hmoved a ha
    exact ⟨r, hr2, hr3, by rw [hfr r hr1]; exact hr4⟩
  refine Triple.bind (Q := fun _ w => ∃ e, fs0.get p = some e ∧
      w.fs.get (.arc p) = some (.arch (innerOf k p) e.content) ∧
      ∀ n, n ≠ Name.arc p → w.fs.get n = w1.fs.get n) ?_ (fun _ => ?_)
  · show Triple _ (compressFn k p (.arc p)) _ _
    refine Triple.conseq (compressFn_exact k p (.arc p) (Name.arc_ne p) w1.fs) (fun w h => by rw [h]) ?_ ?_
    · rintro _ w ⟨e, he, h2, h3⟩
      exact ⟨e, by rw [← hp1]; exact he, h2, h3⟩
    · intro w h
      refine ⟨by rw [h p (Name.arc_ne p).symm, hp1], fun a ha => ?_⟩
      obtain ⟨r, _, hr2, hr3⟩ := hmoved' w h a ha
      exact Or.inr ⟨r, hr2, hr3⟩
  · -- remove the source
    refine Triple.withPre ?_
    rintro w2 ⟨e, he, harc, hfr⟩
    refine Triple.bind (Q := fun _ w => w.fs = w2.fs.del p) ?_ (fun _ => ?_)
    · show Triple _ (remove p) _ _
      refine Triple.conseq (remove_exact p w2.fs) (fun w h => by rw [h]) (fun _ _ h => h) ?_
      intro w h
      refine ⟨by rw [h, hfr p (Name.arc_ne p).symm, hp1], fun a ha => ?_⟩
      obtain ⟨r, _, hr2, hr3⟩ := hmoved' w2 hfr a ha
      exact Or.inr ⟨r, hr2, by rw [h]; exact hr3⟩
    · intro w3 h3
      refine ⟨⟨e, he, by rw [h3]; simp [get_del, Name.arc_ne p, harc]⟩, by rw [h3]; simp [get_del], ?_⟩
      intro a ha
      obtain ⟨r, hr1, hr2, hr3⟩ := hmoved' w2 hfr a ha
      exact ⟨r, hr2, by rw [h3]; simp [get_del, hr1, hr3]⟩

end FileSink
