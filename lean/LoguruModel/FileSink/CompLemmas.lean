import LoguruModel.FileSink.Lemmas
/-!
Exact file-system effect of `Compression.compression` (C18): where the old archive goes, what the new
archive holds, and that the source is only touched by the final `os.remove`.
-/
namespace FileSink
open Py

theorem insens_fs (Q : FS → Prop) : Insens (fun w => Q w.fs) := fun _ _ _ h => h

theorem rename_exact (a b : Name) (fs0 : FS) :
    Triple (fun w => w.fs = fs0) (rename a b)
      (fun _ w => ∃ e, fs0.get a = some e ∧ w.fs = (fs0.del a).set b e) (fun w => w.fs = fs0) := by
  unfold rename
  refine Triple.seq (tick_spec (insens_fs (· = fs0)) _) (Triple.bindGet (fun w0 => ?_))
  cases hg : w0.fs.get a with
  | none => exact Triple.throw' _ (fun w h => h.2)
  | some e =>
    refine modW_spec _ ?_
    rintro w ⟨rfl, rfl⟩
    exact ⟨e, hg, rfl⟩

theorem remove_exact (p : Name) (f2 : FS) :
    Triple (fun w => w.fs = f2) (remove p) (fun _ w => w.fs = f2.del p) (fun w => w.fs = f2) := by
  unfold remove
  refine Triple.seq (tick_spec (insens_fs (· = f2)) _) (Triple.bindGet (fun w0 => ?_))
  refine Triple.ite (fun _ => Triple.throw' _ (fun w h => h.2)) (fun _ => modW_spec _ ?_)
  rintro w ⟨rfl, rfl⟩
  rfl

theorem cand_ne (p : Name) (ct c : Nat) : Name.arc (Name.ren p ct c) ≠ p := by
  intro h
  have := congrArg sizeOf h
  simp at this
  omega

theorem Triple.withPre {α} {P : W → Prop} {m : M α} {Q : α → W → Prop} {E : W → Prop}
    (h : ∀ w0, P w0 → Triple (fun w => w = w0) m Q E) : Triple P m Q E :=
  fun w hw => h w hw w rfl

/-- the collision branch: an archive already present under the target name is moved, unchanged, to a
name that did not exist; on any failure nothing has changed -/
theorem collision_exact (k : CompKind) (p : Name) (ct : Nat) (fs0 : FS) :
    Triple (fun w => w.fs = fs0) (cStep k p ct .collisionRename)
      (fun _ w => w.fs.get p = fs0.get p ∧ w.fs.get (.arc p) = none ∧
        ∀ a, fs0.get (.arc p) = some a → ∃ r, r ≠ .arc p ∧ r ≠ p ∧ fs0.get r = none ∧ w.fs.get r = some a)
      (fun w => w.fs = fs0) := by
  unfold cStep
  refine Triple.bindGet (fun w0 => ?_)
  refine Triple.ite (fun hc => ?_) (fun hc => ?_)
  · refine Triple.pre (P := fun w => w.fs = fs0) ?_ (fun w h => h.2)
    refine Triple.seq (getCtime_spec (insens_fs (· = fs0)) _) (Triple.bindGet (fun w1 => ?_))
    refine Triple.withPre ?_
    rintro w ⟨rfl, hfs⟩
    cases hg : genRename w.fs (fun c => Name.arc (Name.ren p ct c)) with
    | none => exact Triple.throw' _ (fun w' h => by rw [h]; exact hfs)
    | some r =>
      obtain ⟨hfresh, c', _, hrc⟩ := renameLoop_fresh _ _ _ _ r hg
      have hfresh' : fs0.get r = none := by rw [← hfs]; exact (has_false_iff _ _).1 hfresh
      refine Triple.conseq (rename_exact (.arc p) r fs0) (fun w' h => by rw [h]; exact hfs) ?_ (fun _ h => h)
      rintro _ w' ⟨e, he, hw'⟩
      have hne1 : r ≠ Name.arc p := by
        intro h; rw [h] at hfresh'; rw [hfresh'] at he; cases he
      have hne2 : r ≠ p := by rw [hrc]; exact cand_ne p ct c'
      refine ⟨?_, ?_, ?_⟩
      · rw [hw']; simp [get_set, get_del, hne2.symm, (Name.arc_ne p).symm]
      · rw [hw']; simp [get_set, get_del, hne1.symm]
      · intro a ha
        rw [he] at ha; cases ha
        exact ⟨r, hne1, hne2, hfresh', by rw [hw']; simp [get_set]⟩
  · intro w hw
    obtain ⟨rfl, hfs⟩ := hw
    have hnone : w.fs.get (.arc p) = none := by
      apply (has_false_iff _ _).1; simpa using hc
    refine ⟨by rw [hfs], hnone, ?_⟩
    intro a ha
    rw [← hfs, hnone] at ha; cases ha

/-- the compress function writes only the target; on success the target holds the source's content under
the source's base name -/
theorem compressFn_exact (k : CompKind) (p out : Name) (hne : out ≠ p) (f1 : FS) :
    Triple (fun w => w.fs = f1) (compressFn k p out)
      (fun _ w => ∃ e, f1.get p = some e ∧ w.fs.get out = some (.arch (innerOf k p) e.content) ∧
        ∀ n, n ≠ out → w.fs.get n = f1.get n)
      (fun w => ∀ n, n ≠ out → w.fs.get n = f1.get n) := by
  rw [compressFn_eq]
  unfold compressFnHand
  have hpo : p ≠ out := fun h => hne h.symm
  refine Triple.seq (Triple.conseq (openSrc_spec (insens_fs (· = f1)) k p) (fun _ h => h) (fun _ _ h => h)
    (fun w h n _ => by rw [h])) ?_
  refine Triple.seq (tick_specE (insens_fs (· = f1)) (fun w h n _ => by rw [h]) _) ?_
  refine Triple.bind (Q := fun _ w => ∀ n, n ≠ out → w.fs.get n = f1.get n) (modW_spec _ ?_) (fun _ => ?_)
  · rintro w rfl n hn
    simp [get_set, hn]
  · refine Triple.seq (tick_spec (insens_fs (fun fs => ∀ n, n ≠ out → fs.get n = f1.get n)) _)
      (Triple.bindGet (fun w0 => ?_))
    cases hg : w0.fs.get p with
    | none => exact Triple.throw' _ (fun w h => h.2)
    | some e =>
      refine modW_spec _ ?_
      rintro w ⟨rfl, hfr⟩
      refine ⟨e, by rw [← hfr p hpo]; exact hg, (get_set _ _ _ _).trans (if_pos rfl), ?_⟩
      intro n hn
      simp [get_set, hn, hfr n hn]

/-- what `Compression.compression` does to the directory, for every fault vector -/
theorem compression_exact (k : CompKind) (p : Name) (ct : Nat) (fs0 : FS) :
    Triple (fun w => w.fs = fs0) (compression k p ct)
      (fun _ w => (∃ e, fs0.get p = some e ∧ w.fs.get (.arc p) = some (.arch (innerOf k p) e.content)) ∧
        w.fs.get p = none ∧
        ∀ a, fs0.get (.arc p) = some a → ∃ r, fs0.get r = none ∧ w.fs.get r = some a)
      (fun w => w.fs.get p = fs0.get p ∧
        ∀ a, fs0.get (.arc p) = some a → w.fs.get (.arc p) = some a ∨ ∃ r, fs0.get r = none ∧ w.fs.get r = some a) := by
  unfold compression
  simp only [Gen.compressionOrder, List.map, seqM]
  refine Triple.seq (P := fun w => w.fs = fs0) (by unfold cStep; exact Triple.unit) ?_
  refine Triple.bind (Triple.conseq (collision_exact k p ct fs0) (fun _ h => h) (fun _ _ h => h)
    (fun w h => ⟨by rw [h], fun a ha => Or.inl (by rw [h]; exact ha)⟩)) (fun _ => ?_)
  -- after the collision branch
  refine Triple.withPre ?_
  rintro w1 ⟨hp1, hout1, hmoved⟩
  have hmoved' : ∀ (w : W), (∀ n, n ≠ Name.arc p → w.fs.get n = w1.fs.get n) →
      ∀ a, fs0.get (.arc p) = some a → ∃ r, r ≠ p ∧ fs0.get r = none ∧ w.fs.get r = some a := by
    intro w hfr a ha
    obtain ⟨r, hr1, hr2, hr3, hr4⟩ := hmoved a ha
    exact ⟨r, hr2, hr3, by rw [hfr r hr1]; exact hr4⟩
  refine Triple.bind (Q := fun _ w => ∃ e, fs0.get p = some e ∧
      w.fs.get (.arc p) = some (.arch (innerOf k p) e.content) ∧
      ∀ n, n ≠ Name.arc p → w.fs.get n = w1.fs.get n) ?_ (fun _ => ?_)
  · show Triple _ (compressFn k p (.arc p)) _ _
    refine Triple.conseq (compressFn_exact k p (.arc p) (Name.arc_ne p) w1.fs) (fun w h => by rw [h]) ?_ ?_
    · rintro _ w ⟨e, he, h2, h3⟩
      exact ⟨e, by rw [← hp1]; exact he, h2, h3⟩
    · intro w h
      refine ⟨by rw [h p (Name.arc_ne p).symm, hp1], fun a ha => ?_⟩
      obtain ⟨r, _, hr2, hr3⟩ := hmoved' w h a ha
      exact Or.inr ⟨r, hr2, hr3⟩
  · -- remove the source
    refine Triple.withPre ?_
    rintro w2 ⟨e, he, harc, hfr⟩
    refine Triple.bind (Q := fun _ w => w.fs = w2.fs.del p) ?_ (fun _ => ?_)
    · show Triple _ (remove p) _ _
      refine Triple.conseq (remove_exact p w2.fs) (fun w h => by rw [h]) (fun _ _ h => h) ?_
      intro w h
      refine ⟨by rw [h, hfr p (Name.arc_ne p).symm, hp1], fun a ha => ?_⟩
      obtain ⟨r, _, hr2, hr3⟩ := hmoved' w2 hfr a ha
      exact Or.inr ⟨r, hr2, by rw [h]; exact hr3⟩
    · intro w3 h3
      refine ⟨⟨e, he, by rw [h3]; simp [get_del, Name.arc_ne p, harc]⟩, by rw [h3]; simp [get_del], ?_⟩
      intro a ha
      obtain ⟨r, hr1, hr2, hr3⟩ := hmoved' w2 hfr a ha
      exact ⟨r, hr2, by rw [h3]; simp [get_del, hr1, hr3]⟩

/-! ### no failure is swallowed: a normal return means no consumed fault bit was set -/

/-- the fault bits consumed so far (since the vector was `f0`) were all `false` -/
def NF (f0 : List Bool) (w : W) : Prop := ∃ pre, f0 = pre ++ w.faults ∧ ∀ b ∈ pre, b = false

theorem NF.frame {f0 : List Bool} {w w' : W} (h : NF f0 w) (hf : w'.faults = w.faults) : NF f0 w' := by
  obtain ⟨pre, h1, h2⟩ := h
  exact ⟨pre, by rw [hf]; exact h1, h2⟩

theorem tick_nf (f0 : List Bool) (e : Ev) : Triple (NF f0) (tick e) (fun _ => NF f0) (fun _ => True) := by
  rintro w ⟨pre, h1, h2⟩
  cases hw : w.faults with
  | nil =>
    have : tick e w = (.ok (), { w with trace := e :: w.trace, faults := [] }) := by simp [tick, hw]
    rw [this]
    exact ⟨pre, by rw [h1, hw], h2⟩
  | cons b t =>
    cases b with
    | true =>
      have : tick e w = (.error .osError, { w with trace := e :: w.trace, faults := t }) := by simp [tick, hw]
      rw [this]; trivial
    | false =>
      have : tick e w = (.ok (), { w with trace := e :: w.trace, faults := t }) := by simp [tick, hw]
      rw [this]
      refine ⟨pre ++ [false], by rw [h1, hw]; simp, ?_⟩
      intro b hb
      rcases List.mem_append.1 hb with hb | hb
      · exact h2 b hb
      · simpa using hb

theorem modW_nf (f0 : List Bool) (f : W → W) (hf : ∀ w, (f w).faults = w.faults) :
    Triple (NF f0) (modW f) (fun _ => NF f0) (fun _ => True) :=
  modW_spec _ (fun w h => h.frame (hf w))

theorem throw_nf {α} (f0 : List Bool) (e : Err) {P : W → Prop} {Q : α → W → Prop} :
    Triple P (M.throw e : M α) Q (fun _ => True) := fun _ _ => trivial

theorem getCtime_nf (f0 : List Bool) (n : Name) : Triple (NF f0) (getCtime n) (fun _ => NF f0) (fun _ => True) := by
  unfold getCtime
  refine Triple.seq (tick_nf f0 _) (Triple.bindGet (fun a => Triple.pre ?_ (fun w h => h.2)))
  exact Triple.ite (fun _ => throw_nf f0 _) (fun _ => Triple.unit)

theorem rename_nf (f0 : List Bool) (a b : Name) : Triple (NF f0) (rename a b) (fun _ => NF f0) (fun _ => True) := by
  unfold rename
  refine Triple.seq (tick_nf f0 _) (Triple.bindGet (fun w0 => Triple.pre ?_ (fun w h => h.2)))
  cases w0.fs.get a with
  | none => exact throw_nf f0 _
  | some e => exact modW_nf f0 _ (fun _ => rfl)

theorem remove_nf (f0 : List Bool) (n : Name) : Triple (NF f0) (remove n) (fun _ => NF f0) (fun _ => True) := by
  unfold remove
  refine Triple.seq (tick_nf f0 _) (Triple.bindGet (fun w0 => Triple.pre ?_ (fun w h => h.2)))
  exact Triple.ite (fun _ => throw_nf f0 _) (fun _ => modW_nf f0 _ (fun _ => rfl))

theorem compressFn_nf (f0 : List Bool) (k : CompKind) (p out : Name) :
    Triple (NF f0) (compressFn k p out) (fun _ => NF f0) (fun _ => True) := by
  rw [compressFn_eq]
  unfold compressFnHand
  refine Triple.seq ?_ (Triple.seq (tick_nf f0 _) (Triple.seq (modW_nf f0 _ (fun _ => rfl))
    (Triple.seq (tick_nf f0 _) (Triple.bindGet (fun w0 => Triple.pre ?_ (fun w h => h.2))))))
  · unfold openSrc
    refine Triple.ite (fun _ => ?_) (fun _ => Triple.unit)
    refine Triple.seq (tick_nf f0 _) (Triple.bindGet (fun a => Triple.pre ?_ (fun w h => h.2)))
    exact Triple.ite (fun _ => throw_nf f0 _) (fun _ => Triple.unit)
  · cases w0.fs.get p with
    | none => exact throw_nf f0 _
    | some e => exact modW_nf f0 _ (fun _ => rfl)

/-- `Compression.compression` has no handler: when it returns normally, none of the primitives it performed
had failed (whatever the kind of failure) -/
theorem compression_nf (f0 : List Bool) (k : CompKind) (p : Name) (ct : Nat) :
    Triple (NF f0) (compression k p ct) (fun _ => NF f0) (fun _ => True) := by
  unfold compression
  apply Triple.seqM
  intro a ha
  obtain ⟨s, _, rfl⟩ := List.mem_map.1 ha
  cases s with
  | pathOut => exact Triple.unit
  | collisionRename =>
    unfold cStep
    refine Triple.bindGet (fun w0 => Triple.pre ?_ (fun w h => h.2))
    refine Triple.ite (fun _ => ?_) (fun _ => Triple.unit)
    refine Triple.seq (getCtime_nf f0 _) (Triple.bindGet (fun w1 => Triple.pre ?_ (fun w h => h.2)))
    cases genRename w1.fs (fun c => Name.arc (Name.ren p ct c)) with
    | none => exact throw_nf f0 _
    | some r => exact rename_nf f0 _ r
  | compress => exact compressFn_nf f0 k p _
  | removeSource => exact remove_nf f0 p

/-! ### the existence probe of `generate_rename_path`, as a parameter -/

/-- the counter loop with an arbitrary "is this name taken?" test -/
def renameLoopP (taken : Name → Bool) (cand : Nat → Name) : Nat → Nat → Option Name
  | 0, _ => none
  | fuel + 1, c => if taken (cand c) then renameLoopP taken cand fuel (c + 1) else some (cand c)

theorem renameLoop_eq (fs : FS) (cand : Nat → Name) (fuel c : Nat) :
    renameLoop fs cand fuel c = renameLoopP fs.has cand fuel c := by
  induction fuel generalizing c with
  | zero => rfl
  | succ f ih => simp only [renameLoop, renameLoopP, ih]

theorem renameLoopP_not_taken (taken : Name → Bool) (cand : Nat → Name) (fuel c : Nat) (r : Name)
    (h : renameLoopP taken cand fuel c = some r) : taken r = false := by
  induction fuel generalizing c with
  | zero => simp [renameLoopP] at h
  | succ f ih =>
    simp only [renameLoopP] at h
    by_cases hc : taken (cand c) = true
    · simp only [hc, ↓reduceIte] at h; exact ih (c + 1) h
    · simp only [hc, Bool.false_eq_true, ↓reduceIte, Option.some.injEq] at h
      subst h; simpa using hc

end FileSink
