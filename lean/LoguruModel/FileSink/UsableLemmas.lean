import LoguruModel.FileSink.CompLemmas
import LoguruModel.FileSink.OrderLemmas
/-!
`sink_usable_after_any_fault`, provable part: a logging call whose rotation predicate says "no", on a
sink without `watch`, succeeds from ANY state in which no fault is pending and the file object (if any)
is not a closed one – whatever half-finished rotation preceded it.
-/
namespace FileSink
open Py

def isOk (r : Except Err Unit) : Bool := match r with | .ok _ => true | .error _ => false

/-- no fault pending, and the open file object (if any) is not a closed one -/
def Good (w : W) : Prop := w.faults = [] ∧ w.closed = false

theorem tick_good {P : W → Prop} (hP : ∀ w t f, P w → P { w with trace := t, faults := f }) (e : Ev) :
    Triple (fun w => w.faults = [] ∧ P w) (tick e) (fun _ w => w.faults = [] ∧ P w) (fun _ => False) := by
  rintro w ⟨hf, hp⟩
  have : tick e w = (.ok (), { w with trace := e :: w.trace, faults := [] }) := by
    simp [tick, hf]
  rw [this]
  exact ⟨rfl, hP _ _ _ hp⟩

theorem createFile_good (cfg : Cfg) (n : Name) (hw : cfg.watch = false) :
    Triple Good (createFile cfg n) (fun _ w => Good w ∧ w.cur.isSome = true) (fun _ => False) := by
  unfold createFile
  refine Triple.seq (tick_good (P := fun w => w.closed = false) (fun _ _ _ h => h) _) ?_
  refine Triple.bind (Q := fun _ w => Good w ∧ w.cur.isSome = true) (modW_spec _ (fun w h => ⟨⟨h.1, rfl⟩, rfl⟩)) (fun _ => ?_)
  simp only [hw, Bool.false_eq_true, ↓reduceIte]
  exact Triple.unit

theorem writeMsg_good :
    Triple (fun w => Good w ∧ w.cur.isSome = true) writeMsg (fun _ _ => True) (fun _ => False) := by
  unfold writeMsg
  refine Triple.pre (Triple.seq (tick_good (P := fun w => w.closed = false ∧ w.cur.isSome = true) (fun _ _ _ h => h) _)
    (Triple.bindGet (fun w0 => ?_))) (fun w h => ⟨h.1.1, h.1.2, h.2⟩)
  refine Triple.withPre ?_
  rintro w ⟨rfl, hf, hc, hcur⟩
  simp only [hc, Bool.false_eq_true, ↓reduceIte]
  cases hp : w.cur with
  | none => rw [hp] at hcur; cases hcur
  | some p =>
    simp only
    refine Triple.ite (fun _ => modW_spec _ (fun _ _ => trivial)) (fun _ => ?_)
    cases w.fs.get p with
    | none => exact modW_spec _ (fun _ _ => trivial)
    | some e => exact modW_spec _ (fun _ _ => trivial)

theorem writeBody_good (cfg : Cfg) (o : Orc) (hr : o.rot = false) (hw : cfg.watch = false) :
    Triple Good (writeBody cfg o) (fun _ _ => True) (fun _ => False) := by
  unfold writeBody
  refine Triple.withPre ?_
  rintro w0 hg
  refine Triple.bindGet (fun w1 => ?_)
  refine Triple.withPre ?_
  rintro w2 ⟨rfl, rfl⟩
  refine Triple.bind (Q := fun _ w => Good w ∧ w.cur.isSome = true) ?_ (fun _ => ?_)
  · unfold whenM
    refine Triple.ite (fun _ => ?_) (fun hn => ?_)
    · unfold lazyCreate mkdirs
      refine Triple.pre (P := Good) ?_ (fun w h => h ▸ hg)
      exact Triple.seq (tick_good (P := fun w => w.closed = false) (fun _ _ _ h => h) _) (createFile_good cfg _ hw)
    · intro w h
      subst h
      refine ⟨hg, ?_⟩
      cases hc : w.cur with
      | none => simp [hc] at hn
      | some p => rfl
  · simp only [hw, whenM, Bool.false_eq_true, ↓reduceIte]
    refine Triple.seq Triple.unit ?_
    refine Triple.seq ?_ writeMsg_good
    refine Triple.ite (fun _ => ?_) (fun _ => Triple.unit)
    unfold rotateIfDue
    simp only [hr, whenM, Bool.false_eq_true, ↓reduceIte]
    refine Triple.seq ?_ Triple.unit
    exact Triple.pre (Triple.post (tick_good (P := fun w => w.closed = false ∧ w.cur.isSome = true) (fun _ _ _ h => h) _)
      (fun _ w h => ⟨⟨h.1, h.2.1⟩, h.2.2⟩)) (fun w h => ⟨h.1.1, h.1.2, h.2⟩)

theorem write_ok_of_good (cfg : Cfg) (o : Orc) (w : W) (hf : w.faults = []) (hc : w.closed = false)
    (hr : o.rot = false) (hw : cfg.watch = false) : isOk (writeBody cfg o w).1 = true := by
  have := writeBody_good cfg o hr hw w ⟨hf, hc⟩
  match hm : writeBody cfg o w with
  | (.ok u, w') => rfl
  | (.error e, w') => rw [hm] at this; exact this.elim

/-! ### the sink never keeps a closed file object (since `_close_file` forgets the object before closing it) -/

def NotClosed (w : W) : Prop := w.closed = false

theorem NotClosed.insens : Insens NotClosed := fun _ _ _ h => h

theorem closeFile_notClosed : Triple NotClosed closeFile (fun _ => NotClosed) NotClosed := by
  unfold closeFile
  simp only [Gen.closeOrder, List.map, seqM]
  -- file = self._file
  refine Triple.seq (P := NotClosed) (by unfold closeStep; exact Triple.unit) ?_
  -- file.flush()
  refine Triple.seq (P := NotClosed) ?_ ?_
  · unfold closeStep
    refine Triple.bindGet (fun a => Triple.pre ?_ (fun w h => h.2))
    exact Triple.seq (tick_spec NotClosed.insens _) (Triple.ite (fun _ => Triple.throw _) (fun _ => Triple.unit))
  -- self._file = None  (from here on the sink holds no file object)
  refine Triple.bind (Q := fun _ w => w.closed = false ∧ w.cur = none) ?_ (fun _ => ?_)
  · unfold closeStep
    exact modW_spec _ (fun w _ => ⟨rfl, rfl⟩)
  have hI : Insens (fun w => w.closed = false ∧ w.cur = none) := fun _ _ _ h => h
  have toE : ∀ w : W, (w.closed = false ∧ w.cur = none) → NotClosed w := fun w h => h.1
  refine Triple.seq (P := fun w => w.closed = false ∧ w.cur = none) (by unfold closeStep; exact Triple.unit) ?_
  refine Triple.seq (P := fun w => w.closed = false ∧ w.cur = none)
    (by unfold closeStep; exact modW_spec _ (fun w h => h)) ?_
  refine Triple.seq (P := fun w => w.closed = false ∧ w.cur = none) (by unfold closeStep; exact Triple.unit) ?_
  -- file.close(): a failure here leaves `_file = None`
  refine Triple.bind (Q := fun _ => NotClosed) ?_ (fun _ => Triple.unit)
  unfold closeStep
  refine Triple.bindGet (fun a => ?_)
  refine Triple.bind (Q := fun _ w => w.closed = false ∧ w.cur = none) (modW_spec _ ?_) (fun _ => ?_)
  · rintro w ⟨rfl, hc, hn⟩
    exact ⟨by simp [hn], hn⟩
  · exact Triple.seq (tick_specE hI toE _) (modW_spec _ (fun w _ => rfl))

theorem createFile_notClosed (cfg : Cfg) (n : Name) :
    Triple NotClosed (createFile cfg n) (fun _ => NotClosed) NotClosed := by
  unfold createFile
  refine Triple.seq (tick_spec NotClosed.insens _) (Triple.seq (modW_spec _ (fun w _ => rfl))
    (Triple.ite (fun _ => Triple.seq (tick_spec NotClosed.insens _) (modW_spec _ (fun w h => h))) (fun _ => Triple.unit)))

theorem notClosed_leafs : Leafs NotClosed :=
  { insens := NotClosed.insens
    create := createFile_notClosed
    close := closeFile_notClosed
    renameSame := sc_renameSame (R := fun _ c => c.closed = false) (fun _ _ _ h _ => h)
    compression := sc_compression (R := fun _ c => c.closed = false) (fun _ _ _ h _ => h)
    retStep := sc_retStep (R := fun _ c => c.closed = false) (fun _ _ _ h _ => h) }

theorem writeMsg_notClosed : Triple NotClosed writeMsg (fun _ => NotClosed) NotClosed := by
  unfold writeMsg
  refine Triple.seq (tick_spec NotClosed.insens _) (Triple.bindGet (fun w0 => ?_))
  refine Triple.ite (fun _ => Triple.throw' _ (fun w h => h.2)) (fun _ => ?_)
  cases w0.cur with
  | none => exact Triple.throw' _ (fun w h => h.2)
  | some p =>
    simp only
    refine Triple.ite (fun _ => modW_spec _ (fun w h => h.2)) (fun _ => ?_)
    cases w0.fs.get p with
    | none => exact modW_spec _ (fun w h => h.2)
    | some e => exact modW_spec _ (fun w h => h.2)

theorem envTouch_closed (n : Name) (w : W) : (envTouch n w).closed = w.closed := by
  unfold envTouch; split <;> rfl

theorem step_notClosed (cfg : Cfg) (op : Op) (w : W) (hw : w.closed = false) : (step cfg op w).2.closed = false := by
  cases op with
  | init o => exact Triple.snd (lazyCreate_gen notClosed_leafs cfg o) w hw
  | stop o => exact Triple.snd (stopBody_gen notClosed_leafs cfg o) w hw
  | restart => rfl
  | write o =>
    have := Triple.snd (writeBody_gen notClosed_leafs cfg o (fun _ h => h) writeMsg_notClosed) w hw
    simp only [step]
    exact this
  | extDelete n =>
    cases hg : w.fs.get n with
    | none => simp only [step, hg]; exact hw
    | some e => simp only [step, hg, envTouch_closed]; exact hw
  | extReplace n =>
    cases hg : w.fs.get n with
    | none => simp only [step, hg]; exact hw
    | some e => simp only [step, hg, envTouch_closed]; exact hw

/-- after ANY history and ANY faults the sink does not hold a closed file object -/
theorem run_notClosed (cfg : Cfg) (ops : List Op) (w : W) (hw : w.closed = false) : (run cfg ops w).closed = false := by
  induction ops generalizing w with
  | nil => exact hw
  | cons op rest ih => exact ih _ (step_notClosed cfg op w hw)

end FileSink
