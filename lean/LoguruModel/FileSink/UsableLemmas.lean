import LoguruModel.FileSink.CompLemmas
/-!
`sink_usable_after_any_fault`, provable part: a logging call whose rotation predicate says "no", on a
sink without `watch`, succeeds from ANY state in which no fault is pending and the file object (if any)
is not a closed one – whatever half-finished rotation preceded it.
-/
namespace FileSink
open Py

def isOk (r : Except Err Unit) : Bool := match r with | .ok _ => true | .error _ => false

/-- no fault pending, and the open file object (if any) is not a closed one -/
def Good (w : W) : Prop := w.faults = [] ∧ w.closed = false

theorem tick_good {P : W → Prop} (hP : ∀ w t f, P w → P { w with trace := t, faults := f }) (e : Ev) :
    Triple (fun w => w.faults = [] ∧ P w) (tick e) (fun _ w => w.faults = [] ∧ P w) (fun _ => False) := by
  rintro w ⟨hf, hp⟩
  have : tick e w = (.ok (), { w with trace := e :: w.trace, faults := [] }) := by
    simp [tick, hf]
  rw [this]
  exact ⟨rfl, hP _ _ _ hp⟩

theorem createFile_good (cfg : Cfg) (n : Name) (hw : cfg.watch = false) :
    Triple Good (createFile cfg n) (fun _ w => Good w ∧ w.cur.isSome = true) (fun _ => False) := by
  unfold createFile
  refine Triple.seq (tick_good (P := fun w => w.closed = false) (fun _ _ _ h => h) _) ?_
  refine Triple.bind (Q := fun _ w => Good w ∧ w.cur.isSome = true) (modW_spec _ (fun w h => ⟨⟨h.1, rfl⟩, rfl⟩)) (fun _ => ?_)
  simp only [hw, Bool.false_eq_true, ↓reduceIte]
  exact Triple.unit

theorem writeMsg_good :
    Triple (fun w => Good w ∧ w.cur.isSome = true) writeMsg (fun _ _ => True) (fun _ => False) := by
  unfold writeMsg
  refine Triple.pre (Triple.seq (tick_good (P := fun w => w.closed = false ∧ w.cur.isSome = true) (fun _ _ _ h => h) _)
    (Triple.bindGet (fun w0 => ?_))) (fun w h => ⟨h.1.1, h.1.2, h.2⟩)
  refine Triple.withPre ?_
  rintro w ⟨rfl, hf, hc, hcur⟩
  simp only [hc, Bool.false_eq_true, ↓reduceIte]
  cases hp : w.cur with
  | none => rw [hp] at hcur; cases hcur
  | some p =>
    simp only
    refine Triple.ite (fun _ => modW_spec _ (fun _ _ => trivial)) (fun _ => ?_)
    cases w.fs.get p with
    | none => exact modW_spec _ (fun _ _ => trivial)
    | some e => exact modW_spec _ (fun _ _ => trivial)

theorem writeBody_good (cfg : Cfg) (o : Orc) (hr : o.rot = false) (hw : cfg.watch = false) :
    Triple Good (writeBody cfg o) (fun _ _ => True) (fun _ => False) := by
  unfold writeBody
  refine Triple.withPre ?_
  rintro w0 hg
  refine Triple.bindGet (fun w1 => ?_)
  refine Triple.withPre ?_
  rintro w2 ⟨rfl, rfl⟩
  refine Triple.bind (Q := fun _ w => Good w ∧ w.cur.isSome = true) ?_ (fun _ => ?_)
  · unfold whenM
    refine Triple.ite (fun _ => ?_) (fun hn => ?_)
    · unfold lazyCreate mkdirs
      refine Triple.pre (P := Good) ?_ (fun w h => h ▸ hg)
      exact Triple.seq (tick_good (P := fun w => w.closed = false) (fun _ _ _ h => h) _) (createFile_good cfg _ hw)
    · intro w h
      subst h
      refine ⟨hg, ?_⟩
      cases hc : w.cur with
      | none => simp [hc] at hn
      | some p => rfl
  · simp only [hw, whenM, Bool.false_eq_true, ↓reduceIte]
    refine Triple.seq Triple.unit ?_
    refine Triple.seq ?_ writeMsg_good
    refine Triple.ite (fun _ => ?_) (fun _ => Triple.unit)
    unfold rotateIfDue
    simp only [hr, whenM, Bool.false_eq_true, ↓reduceIte]
    refine Triple.seq ?_ Triple.unit
    exact Triple.pre (Triple.post (tick_good (P := fun w => w.closed = false ∧ w.cur.isSome = true) (fun _ _ _ h => h) _)
      (fun _ w h => ⟨⟨h.1, h.2.1⟩, h.2.2⟩)) (fun w h => ⟨h.1.1, h.1.2, h.2⟩)

theorem write_ok_of_good (cfg : Cfg) (o : Orc) (w : W) (hf : w.faults = []) (hc : w.closed = false)
    (hr : o.rot = false) (hw : cfg.watch = false) : isOk (writeBody cfg o w).1 = true := by
  have := writeBody_good cfg o hr hw w ⟨hf, hc⟩
  match hm : writeBody cfg o w with
  | (.ok u, w') => rfl
  | (.error e, w') => rw [hm] at this; exact this.elim

end FileSink
