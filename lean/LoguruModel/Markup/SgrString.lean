import LoguruModel.Markup.Spec
/-
Markup (C06) – the SGR reading of a PRINTED STRING (what a terminal does with the handler's output, as far as the
property goes): `ESC [ body m` with `body ∈ [0-9;]*` is a control sequence – body `0` or empty resets all styles,
any other sequence is added to the styles in force; every other character is visible and carries the styles in
force.  Same automaton as `unansi`, which keeps only the characters.
-/
namespace Markup.Spec
open Py Markup

/-- the styles in force after the sequence `ESC [ body m` -/
def sgrAfter (st : List Str) (body : Str) : List Str :=
  if body == ['0'] || body == [] then [] else st ++ [ESC :: '[' :: (body ++ ['m'])]

def sgrStrGo : List Str → US → Str → List (Char × List Str)
  | _, .normal, [] => []
  | st, .esc, [] => [(ESC, st)]
  | st, .body acc, [] => (ESC :: '[' :: acc).map (fun c => (c, st))
  | st, .normal, c :: r => if c == ESC then sgrStrGo st .esc r else (c, st) :: sgrStrGo st .normal r
  | st, .esc, c :: r =>
    if c == '[' then sgrStrGo st (.body []) r
    else if c == ESC then (ESC, st) :: sgrStrGo st .esc r
    else (ESC, st) :: (c, st) :: sgrStrGo st .normal r
  | st, .body acc, c :: r =>
    if isSgrBody c then sgrStrGo st (.body (acc ++ [c])) r
    else if c == 'm' then sgrStrGo (sgrAfter st acc) .normal r
    else if c == ESC then (ESC :: '[' :: acc).map (fun c => (c, st)) ++ sgrStrGo st .esc r
    else (ESC :: '[' :: acc).map (fun c => (c, st)) ++ (c, st) :: sgrStrGo st .normal r

/-- every visible character of a printed string with the SGR sequences in force since the last reset -/
def sgrStr (s : Str) : List (Char × List Str) := sgrStrGo [] .normal s

/-- a sequence that is not a reset -/
def NotReset (a : Str) : Prop := a ≠ "\x1b[0m".toList ∧ a ≠ "\x1b[m".toList

end Markup.Spec
