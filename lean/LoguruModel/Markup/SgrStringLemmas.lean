import LoguruModel.Markup.SgrString
import LoguruModel.Markup.Lemmas
/-
Markup (C06) – the SGR reading of the colourised STRING equals the SGR reading of the token list.
-/
namespace Markup.Lemmas
open Py Markup Markup.Spec

theorem sgrStr_text (st : List Str) (t r : Str) (h : ∀ c ∈ t, c ≠ ESC) :
    sgrStrGo st .normal (t ++ r) = t.map (fun c => (c, st)) ++ sgrStrGo st .normal r := by
  induction t with
  | nil => rfl
  | cons c t ih =>
    have hc : c ≠ ESC := h c (by simp)
    have ih' := ih (fun d hd => h d (by simp [hd]))
    simp [sgrStrGo, hc, ih']

theorem sgrStr_body (st : List Str) (body r acc : Str) (h : ∀ c ∈ body, isSgrBody c = true) :
    sgrStrGo st (.body acc) (body ++ 'm' :: r) = sgrStrGo (sgrAfter st (acc ++ body)) .normal r := by
  induction body generalizing acc with
  | nil =>
    have : isSgrBody 'm' = false := by decide
    simp [sgrStrGo, this]
  | cons c b ih =>
    have hc : isSgrBody c = true := h c (by simp)
    simp [sgrStrGo, hc, ih (acc ++ [c]) (fun d hd => h d (by simp [hd]))]

/-- a non-reset SGR sequence is added to the styles in force -/
theorem sgrStr_sgr (st : List Str) (a r : Str) (h : IsSgr a) (hn : NotReset a) :
    sgrStrGo st .normal (a ++ r) = sgrStrGo (st ++ [a]) .normal r := by
  obtain ⟨body, rfl, hb⟩ := h
  have e : ESC :: '[' :: (body ++ ['m']) ++ r = ESC :: '[' :: (body ++ 'm' :: r) := by simp
  rw [e]
  have h0 : body ≠ ['0'] := by
    intro hh; subst hh; exact hn.1 (by decide)
  have h1 : body ≠ [] := by
    intro hh; subst hh; exact hn.2 (by decide)
  have hs : sgrAfter st body = st ++ [ESC :: '[' :: (body ++ ['m'])] := by
    simp [sgrAfter, h0, h1]
  have hb' := sgrStr_body st body r [] hb
  simp only [List.nil_append] at hb'
  simp [sgrStrGo, hb', hs]

/-- the reset sequence clears them -/
theorem sgrStr_reset (st : List Str) (r : Str) :
    sgrStrGo st .normal ("\x1b[0m".toList ++ r) = sgrStrGo [] .normal r := by
  simp [sgrStrGo, sgrAfter, ESC, isSgrBody]

theorem sgrStr_codes (st : List Str) (lv : List Str) (r : Str) (h : ∀ a ∈ lv, IsSgr a ∧ NotReset a) :
    sgrStrGo st .normal (lv.flatten ++ r) = sgrStrGo (st ++ lv) .normal r := by
  induction lv generalizing st with
  | nil => simp
  | cons a l ih =>
    simp only [List.flatten_cons, List.append_assoc]
    rw [sgrStr_sgr st a _ (h a (by simp)).1 (h a (by simp)).2, ih _ (fun b hb => h b (by simp [hb]))]
    simp

/-- tokens whose ANSI sequences are not resets -/
def TokNR : Tok → Prop
  | .ansi a => NotReset a
  | _ => True

theorem closing_is_reset : Gen.closingCode = "\x1b[0m".toList := by decide +kernel

/-- THE STRING-LEVEL READING: for clean tokens without reset sequences and a level colour made of non-reset SGR
sequences `lv`, reading the colourised string character by character gives the token-level reading -/
theorem sgrStr_colorize (lv : List Str) (hl : ∀ a ∈ lv, IsSgr a ∧ NotReset a) (toks : List Tok) (st : List Str) (out : Str)
    (hc : ∀ t ∈ toks, TokClean t) (hn : ∀ t ∈ toks, TokNR t)
    (h : colorize toks (some lv.flatten) = .ok out) : sgrStrGo st .normal out = sgr lv st toks := by
  induction toks generalizing out st with
  | nil => simp [colorize] at h; subst h; rfl
  | cons t r ih =>
    have hr : ∀ t ∈ r, TokClean t := fun t ht => hc t (by simp [ht])
    have hnr : ∀ t ∈ r, TokNR t := fun t ht => hn t (by simp [ht])
    have ht : TokClean t := hc t (by simp)
    have htn : TokNR t := hn t (by simp)
    cases t with
    | text s =>
      simp only [colorize] at h
      split at h
      · rename_i o ho
        injection h with h; subst h
        simp only [Tok.value, sgr]
        rw [sgrStr_text st s o ht]; congr 1; exact ih st o hr hnr ho
      · cases h
    | ansi a =>
      simp only [colorize] at h
      split at h
      · rename_i o ho
        injection h with h; subst h
        simp only [Tok.value, sgr, tokCodes]
        rw [sgrStr_sgr st a o ht htn]; exact ih _ o hr hnr ho
      · cases h
    | closing =>
      simp only [colorize] at h
      split at h
      · rename_i o ho
        injection h with h; subst h
        simp only [Tok.value, sgr, closing_is_reset]
        rw [sgrStr_reset st o]; exact ih _ o hr hnr ho
      · cases h
    | level =>
      simp only [colorize] at h
      split at h
      · rename_i o ho
        injection h with h; subst h
        simp only [sgr, tokCodes]
        rw [sgrStr_codes st lv o hl]; exact ih _ o hr hnr ho
      · cases h

/-! ### no sequence `_get_ansicode` can return is a reset -/

theorem notReset_of_semi (a : Str) (h : ';' ∈ a) : NotReset a := by
  constructor <;> (intro e; subst e; revert h; decide)

theorem lookup_val_mem (t : List (Str × Nat)) (k : Str) (v : Nat) (h : lookup t k = some v) : ∃ e ∈ t, e.2 = v := by
  induction t with
  | nil => simp [lookup] at h
  | cons e r ih =>
    obtain ⟨k', v'⟩ := e
    simp only [lookup] at h
    split at h
    · injection h with h; exact ⟨(k', v'), by simp, h⟩
    · obtain ⟨e, he, hv⟩ := ih h
      exact ⟨e, by simp [he], hv⟩

theorem tables_notReset :
    ∀ e ∈ Gen.styleTable ++ Gen.fgTable ++ Gen.bgTable,
      esc e.2 ≠ "\x1b[0m".toList ∧ esc e.2 ≠ "\x1b[m".toList := by decide +kernel

theorem esc_lookup_notReset (t : List (Str × Nat)) (k : Str) (n : Nat) (h : lookup t k = some n)
    (ht : ∀ e ∈ t, e ∈ Gen.styleTable ++ Gen.fgTable ++ Gen.bgTable) : NotReset (esc n) := by
  obtain ⟨e, he, hv⟩ := lookup_val_mem t k n h
  subst hv
  exact tables_notReset e (ht e he)

theorem tmpl8_semi (sel color : Str) : ';' ∈ interp Gen.tmpl8 [sel, color] := by
  have : interp Gen.tmpl8 [sel, color] = ESC :: '[' :: ((sel ++ (";5;".toList ++ color)) ++ ['m']) := by
    simp [interp, Gen.tmpl8, ESC]
  rw [this]; simp

theorem tmpl24_semi (sel r g b : Str) : ';' ∈ interp Gen.tmpl24 [sel, r, g, b] := by
  have : interp Gen.tmpl24 [sel, r, g, b] =
      ESC :: '[' :: ((sel ++ (";2;".toList ++ (r ++ ([';'] ++ (g ++ ([';'] ++ b)))))) ++ ['m']) := by
    simp [interp, Gen.tmpl24, ESC]
  rw [this]; simp

theorem rgbForm_notReset (sel color a : Str) (h : colorForm.rgbForm sel color = some a) : NotReset a := by
  simp only [colorForm.rgbForm] at h
  split at h
  · rename_i hcount
    split at h
    · rename_i hall
      injection h with h; subst h
      have hlen := splitOn_length ',' color
      have hc2 : color.count ',' = 2 := by simpa using hcount
      rw [hc2] at hlen
      generalize splitOn ',' color = parts at hall hlen
      match parts, hall, hlen with
      | [r, g, b], _, _ => exact notReset_of_semi _ (tmpl24_semi sel r g b)
    · cases h
  · cases h

theorem colorForm_notReset (isFg : Bool) (color a : Str) (h : colorForm isFg color = some a) : NotReset a := by
  simp only [colorForm] at h
  split at h
  · rename_i n hn
    injection h with h; subst h
    cases isFg with
    | true => exact esc_lookup_notReset Gen.fgTable _ n (by simpa using hn) (by intro e he; simp [he])
    | false => exact esc_lookup_notReset Gen.bgTable _ n (by simpa using hn) (by intro e he; simp [he])
  · split at h
    · injection h with h; subst h
      exact notReset_of_semi _ (tmpl8_semi _ _)
    · split at h
      · split at h
        · split at h
          · injection h with h; subst h
            exact notReset_of_semi _ (tmpl24_semi _ _ _ _)
          · cases h
        · exact rgbForm_notReset _ _ _ h
      · exact rgbForm_notReset _ _ _ h

theorem getAnsiCode_notReset (tag a : Str) (h : getAnsiCode tag = some a) : NotReset a := by
  simp only [getAnsiCode] at h
  split at h
  · rename_i n hn
    injection h with h; subst h
    exact esc_lookup_notReset Gen.styleTable tag n hn (by intro e he; simp [he])
  · split at h
    · rename_i n hn
      injection h with h; subst h
      exact esc_lookup_notReset Gen.fgTable tag n hn (by intro e he; simp [he])
    · split at h
      · rename_i n hn
        injection h with h; subst h
        exact esc_lookup_notReset Gen.bgTable tag n hn (by intro e he; simp [he])
      · split at h
        · exact colorForm_notReset _ _ _ h
        · exact colorForm_notReset _ _ _ h
        · cases h

/-! ### the parser never emits a reset as a colour token -/

structure NR (p : P) : Prop where
  toks : ∀ t ∈ p.tokens, TokNR t
  stack : ∀ e ∈ p.stack, TokNR e.2

theorem nr_add (p : P) (ts : List Tok) (hp : NR p) (ht : ∀ t ∈ ts, TokNR t) :
    NR { p with tokens := p.tokens ++ ts } := by
  refine ⟨?_, hp.stack⟩
  intro t hm
  simp at hm
  rcases hm with hm | hm
  · exact hp.toks t hm
  · exact ht t hm

theorem nr_feedTag (p p' : P) (inner : Str) (hp : NR p) (h : feedTag p inner = .ok p') : NR p' := by
  unfold feedTag at h
  split at h
  · split at h
    · rename_i top tk below hst
      split at h
      · injection h with h; subst h
        have hb : ∀ e ∈ below, TokNR e.2 := fun e he => hp.stack e (by rw [hst]; simp [he])
        refine ⟨?_, hb⟩
        intro t hm
        simp at hm
        rcases hm with hm | hm | hm
        · exact hp.toks t hm
        · subst hm; trivial
        · obtain ⟨a, hm⟩ := hm
          exact hb _ hm
      · cases h
    · cases h
  · split at h
    · injection h with h; subst h
      refine ⟨?_, ?_⟩
      · intro t hm
        simp at hm
        rcases hm with hm | hm
        · exact hp.toks t hm
        · subst hm; trivial
      · intro e he
        simp at he
        rcases he with rfl | he
        · trivial
        · exact hp.stack e he
    · split at h
      · rename_i a ha
        injection h with h; subst h
        have hna : TokNR (.ansi a) := getAnsiCode_notReset _ a ha
        refine ⟨?_, ?_⟩
        · intro t hm
          simp at hm
          rcases hm with hm | hm
          · exact hp.toks t hm
          · subst hm; exact hna
        · intro e he
          simp at he
          rcases he with rfl | he
          · exact hna
          · exact hp.stack e he
      · cases h

theorem nr_feedSeg (p p' : P) (s : Seg) (hp : NR p) (h : feedSeg p s = .ok p') : NR p' := by
  unfold feedSeg at h
  split at h
  · injection h with h; subst h
    exact nr_add p _ hp (by intro t ht; simp at ht; rcases ht with rfl | rfl <;> trivial)
  · refine nr_feedTag _ p' s.inner ?_ h
    exact nr_add p _ hp (by
      intro t ht
      simp at ht
      rcases ht with rfl | ht
      · trivial
      · rw [ht.2]; trivial)

theorem nr_feedSegs (p p' : P) (segs : List Seg) (hp : NR p) (h : feedSegs p segs = .ok p') : NR p' := by
  induction segs generalizing p with
  | nil => simp [feedSegs] at h; subst h; exact hp
  | cons s r ih =>
    simp only [feedSegs] at h
    split at h
    · rename_i p1 h1
      exact ih p1 (nr_feedSeg p p1 s hp h1) h
    · cases h

theorem nr_feed (p p' : P) (text : Str) (raw : Bool) (hp : NR p) (h : feed p text raw = .ok p') : NR p' := by
  unfold feed at h
  split at h
  · injection h with h; subst h
    exact nr_add p _ hp (by intro t ht; simp at ht; subst ht; trivial)
  · split at h
    rename_i segs tail hsc
    split at h
    · rename_i p1 h1
      injection h with h; subst h
      exact nr_add p1 _ (nr_feedSegs p p1 _ hp h1) (by intro t ht; simp at ht; subst ht; trivial)
    · cases h

theorem nr_init : NR {} where
  toks := by intro t ht; cases ht
  stack := by intro e he; cases he

end Markup.Lemmas
