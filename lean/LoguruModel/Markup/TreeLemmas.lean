import LoguruModel.Markup.Tree
import LoguruModel.Markup.Lemmas
/-
Markup (C06) – the stack machine of `AnsiParser.feed`/`done` simulates, and is simulated by, the
recursive-descent reference reader `Markup.Spec.descend` (tree equivalence).
-/
namespace Markup.Lemmas
open Py Markup Markup.Spec

/-! ### the machine, item by item -/

/-- the colour token an opening tag pushes -/
def tagTok (tag : Str) : Option Tok :=
  if Gen.levelTags.contains tag then some .level else (getAnsiCode tag).map Tok.ansi

def feedOpen (p : P) (tag : Str) : Except Err P :=
  match tagTok tag with
  | some tk => .ok { tokens := p.tokens ++ [tk], stack := (tag, tk) :: p.stack }
  | none => .error .valueError

def feedClose (p : P) (c : Str) : Except Err P :=
  match p.stack with
  | (top, _) :: below =>
    if c.isEmpty || c == top then
      .ok { tokens := p.tokens ++ [.closing] ++ below.reverse.map (·.2), stack := below }
    else .error .valueError
  | [] => .error .valueError

def feedItem (p : P) : Item → Except Err P
  | .lit s => .ok { p with tokens := p.tokens ++ [.text s] }
  | .opn t => feedOpen p t
  | .cls c => feedClose p c

def feedItems : P → List Item → Except Err P
  | p, [] => .ok p
  | p, i :: r => match feedItem p i with
    | .ok p' => feedItems p' r
    | .error e => .error e

theorem feedTag_close (p : P) (c : Str) : feedTag p ('/' :: c) = feedClose p c := by
  rfl

theorem feedTag_open (p : P) (t : Str) (h : t.head? ≠ some '/') : feedTag p t = feedOpen p t := by
  unfold feedTag
  split
  · simp at h
  · simp only [feedOpen, tagTok]
    split
    · rfl
    · cases getAnsiCode t <;> rfl

theorem feedItems_append (p : P) (a b : List Item) :
    feedItems p (a ++ b) = match feedItems p a with
      | .ok p' => feedItems p' b
      | .error e => .error e := by
  induction a generalizing p with
  | nil => rfl
  | cons i r ih =>
    simp only [List.cons_append, feedItems]
    cases feedItem p i with
    | ok p1 => exact ih p1
    | error e => rfl

theorem feedItems_single (p : P) (i : Item) : feedItems p [i] = feedItem p i := by
  simp only [feedItems]; cases feedItem p i <;> rfl

theorem feedTag_tagItem (q : P) (inner : Str) : feedTag q inner = feedItem q (tagItem inner) := by
  unfold tagItem
  split
  · exact feedTag_close q _
  · rename_i hne
    apply feedTag_open
    intro hh
    cases inner with
    | nil => simp at hh
    | cons c r => simp at hh; subst hh; exact hne r rfl

theorem feedItems_lit (p : P) (s : Str) (r : List Item) :
    feedItems p (.lit s :: r) = feedItems { p with tokens := p.tokens ++ [.text s] } r := rfl

theorem feedSeg_items (p : P) (s : Seg) : feedSeg p s = feedItems p (segItems s) := by
  unfold feedSeg segItems
  split
  · simp [feedItems, feedItem]
  · by_cases hn : s.nb > 0
    · simp only [hn, if_true, List.cons_append, List.nil_append]
      rw [feedItems_lit, feedItems_lit, feedItems_single, feedTag_tagItem]
      simp [List.append_assoc]
    · simp only [hn, if_false, List.nil_append]
      rw [feedItems_lit, feedItems_single, feedTag_tagItem]

theorem feedSegs_items (p : P) (segs : List Seg) : feedSegs p segs = feedItems p (segs.flatMap segItems) := by
  induction segs generalizing p with
  | nil => rfl
  | cons s r ih =>
    simp only [feedSegs, List.flatMap_cons, feedItems_append, feedSeg_items]
    cases feedItems p (segItems s) with
    | ok p1 => exact ih p1
    | error e => rfl

theorem feed_items (p : P) (text : Str) : feed p text false = feedItems p (lexItems text) := by
  simp only [feed, lexItems, itemsOf, feedItems_append, feedSegs_items, Bool.false_eq_true, if_false]
  cases feedItems p ((scan text).1.flatMap segItems) with
  | ok p1 => simp [feedItems, feedItem]
  | error e => rfl

/-! ### invariants along items -/

theorem inv_feedItem (lvl : List Str) (p p' : P) (i : Item) (hi : Inv lvl p) (h : feedItem p i = .ok p') :
    Inv lvl p' := by
  cases i with
  | lit s =>
    simp only [feedItem] at h
    injection h with h; subst h
    exact inv_text lvl p _ hi (by intro t ht; simp at ht; exact ⟨_, ht⟩)
  | cls c =>
    simp only [feedItem, ← feedTag_close] at h
    exact inv_feedTag lvl p p' _ hi h
  | opn t =>
    simp only [feedItem, feedOpen] at h
    split at h
    · rename_i tk htk
      injection h with h; subst h
      have hcol : Tok.isColor tk = true := by
        simp only [tagTok] at htk
        split at htk
        · injection htk with htk; subst htk; rfl
        · cases hg : getAnsiCode t with
          | none => simp [hg] at htk
          | some a => simp [hg] at htk; subst htk; rfl
      refine ⟨?_, ?_⟩
      · have := hi.state
        simp only [P.colorTokens] at this
        simp only [P.colorTokens, sgrState_append, List.reverse_cons, List.map_append, List.map_cons, List.map_nil]
        rw [this]
        cases tk with
        | text s => simp [Tok.isColor] at hcol
        | closing => simp [Tok.isColor] at hcol
        | ansi a => simp [sgrState, codes, tokCodes]
        | level => simp [sgrState, codes, tokCodes]
      · intro e he
        simp at he
        rcases he with rfl | he
        · exact hcol
        · exact hi.colors e he
    · cases h

theorem inv_feedItems (lvl : List Str) (p p' : P) (items : List Item) (hi : Inv lvl p)
    (h : feedItems p items = .ok p') : Inv lvl p' := by
  induction items generalizing p with
  | nil => simp [feedItems] at h; subst h; exact hi
  | cons i r ih =>
    simp only [feedItems] at h
    split at h
    · rename_i p1 h1
      exact ih p1 (inv_feedItem lvl p p1 i hi h1) h
    · cases h

/-! ### the SGR reading of token lists -/

theorem sgr_append (lvl : List Str) (st : List Str) (a b : List Tok) :
    sgr lvl st (a ++ b) = sgr lvl st a ++ sgr lvl (sgrState lvl st a) b := by
  induction a generalizing st with
  | nil => rfl
  | cons t r ih => cases t <;> simp [sgr, sgrState, ih]

theorem sgr_colors (lvl : List Str) (st : List Str) (ts : List Tok) (h : ∀ t ∈ ts, Tok.isColor t = true) :
    sgr lvl st ts = [] := by
  induction ts generalizing st with
  | nil => rfl
  | cons t r ih =>
    have hr : ∀ t ∈ r, Tok.isColor t = true := fun t ht => h t (by simp [ht])
    have ht := h t (by simp)
    cases t with
    | text s => simp [Tok.isColor] at ht
    | closing => simp [Tok.isColor] at ht
    | ansi a => simp [sgr, ih _ hr]
    | level => simp [sgr, ih _ hr]

/-- when a run leaves the stack as it was, the SGR state after the new tokens is the state before them -/
theorem state_restored (lvl : List Str) (p p' : P) (new : List Tok) (hi : Inv lvl p) (hi' : Inv lvl p')
    (hs : p'.stack = p.stack) (ht : p'.tokens = p.tokens ++ new) :
    sgrState lvl (codes lvl p.colorTokens) new = codes lvl p.colorTokens := by
  have h1 := hi'.state
  rw [ht, sgrState_append, hi.state] at h1
  rw [h1]; simp [P.colorTokens, hs]

/-! ### the simulation -/

/-- what a result of `descend` (run with the codes of `p`'s stack in force) says about the machine started
in state `p` on the same items -/
def Sim (lvl : List Str) (p : P) (items : List Item) :
    Except TErr (List (Char × List Str) × Option (Str × List Item)) → Prop
  | .ok (cs, none) => ∃ p' new, feedItems p items = .ok p' ∧ p'.stack = p.stack ∧ p'.tokens = p.tokens ++ new ∧
      sgr lvl (codes lvl p.colorTokens) new = cs
  | .ok (cs, some (c, r')) => ∃ pre p' new, items = pre ++ .cls c :: r' ∧ feedItems p pre = .ok p' ∧
      p'.stack = p.stack ∧ p'.tokens = p.tokens ++ new ∧ sgr lvl (codes lvl p.colorTokens) new = cs
  | .error .bad => feedItems p items = .error .valueError
  | .error .unclosed => ∃ p' ext, feedItems p items = .ok p' ∧ ext ≠ [] ∧ p'.stack = ext ++ p.stack

/-- a stack-neutral machine run over `pre` in front of a simulated remainder -/
theorem sim_prefix (lvl : List Str) (p p1 : P) (pre r : List Item) (new1 : List Tok)
    (hi : Inv lvl p) (hi1 : Inv lvl p1)
    (h1 : feedItems p pre = .ok p1) (hs : p1.stack = p.stack) (ht : p1.tokens = p.tokens ++ new1)
    (res : Except TErr (List (Char × List Str) × Option (Str × List Item))) (hsim : Sim lvl p1 r res) :
    Sim lvl p (pre ++ r) (match (generalizing := false) res with
      | .ok (cs, k) => .ok (sgr lvl (codes lvl p.colorTokens) new1 ++ cs, k)
      | .error e => .error e) := by
  have hst := state_restored lvl p p1 new1 hi hi1 hs ht
  have hct : p1.colorTokens = p.colorTokens := by simp [P.colorTokens, hs]
  match res, hsim with
  | .ok (cs, none), hsim =>
    obtain ⟨p', new, hf, hs', ht', hg⟩ := hsim
    refine ⟨p', new1 ++ new, ?_, by rw [hs', hs], by rw [ht', ht, List.append_assoc], ?_⟩
    · rw [feedItems_append, h1]; exact hf
    · rw [sgr_append, hst, ← hct, hg]
  | .ok (cs, some (c, r')), hsim =>
    obtain ⟨pre2, p', new, hr, hf, hs', ht', hg⟩ := hsim
    refine ⟨pre ++ pre2, p', new1 ++ new, by rw [hr, List.append_assoc], ?_, by rw [hs', hs],
      by rw [ht', ht, List.append_assoc], ?_⟩
    · rw [feedItems_append, h1]; exact hf
    · rw [sgr_append, hst, ← hct, hg]
  | .error .bad, hsim =>
    show feedItems p (pre ++ r) = .error .valueError
    rw [feedItems_append, h1]; exact hsim
  | .error .unclosed, hsim =>
    obtain ⟨p', ext, hf, hne, hs'⟩ := hsim
    refine ⟨p', ext, ?_, hne, by rw [hs', hs]⟩
    rw [feedItems_append, h1]; exact hf

theorem tagTok_codes (lvl : List Str) (t : Str) :
    tagCodes lvl t = (tagTok t).map (tokCodes lvl) := by
  simp only [tagCodes, tagTok]
  split
  · rfl
  · cases getAnsiCode t <;> rfl

/-- THE SIMULATION: for every state `p` of the machine satisfying the invariant and every item list, the result
of the recursive-descent reader (started with the codes of `p`'s tag stack in force) describes exactly what the
machine does from `p` – same acceptance, same failure class, same styled characters -/
theorem descend_sim (lvl : List Str) : ∀ (fuel : Nat) (items : List Item) (p : P), Inv lvl p → items.length < fuel →
    Sim lvl p items (descend lvl fuel (codes lvl p.colorTokens) items) := by
  intro fuel
  induction fuel with
  | zero => intro items p _ h; omega
  | succ f ih =>
    intro items p hi hlen
    match items, hlen with
    | [], _ =>
      simp only [descend]
      exact ⟨p, [], rfl, rfl, by simp, rfl⟩
    | .lit s :: r, hlen =>
      simp only [descend]
      have hi1 : Inv lvl { p with tokens := p.tokens ++ [.text s] } :=
        inv_text lvl p _ hi (by intro t ht; simp at ht; exact ⟨_, ht⟩)
      have hsim := ih r { p with tokens := p.tokens ++ [.text s] } hi1 (by simp at hlen; omega)
      have hct : ({ p with tokens := p.tokens ++ [.text s] } : P).colorTokens = p.colorTokens := rfl
      rw [hct] at hsim
      have := sim_prefix lvl p _ [.lit s] r [.text s] hi hi1 (by simp [feedItems, feedItem]) rfl rfl _ hsim
      simp only [sgr, List.append_nil, List.singleton_append] at this
      revert this
      cases descend lvl f (codes lvl p.colorTokens) r with
      | ok v => obtain ⟨cs, k⟩ := v; exact id
      | error e => exact id
    | .cls c :: r, _ =>
      simp only [descend]
      exact ⟨[], p, [], rfl, rfl, rfl, by simp, rfl⟩
    | .opn t :: r, hlen =>
      simp only [descend, tagTok_codes]
      cases htk : tagTok t with
      | none =>
        simp only [Option.map_none]
        show feedItems p (.opn t :: r) = .error .valueError
        simp [feedItems, feedItem, feedOpen, htk]
      | some tk =>
        simp only [Option.map_some]
        have hop : feedItem p (.opn t) = .ok { tokens := p.tokens ++ [tk], stack := (t, tk) :: p.stack } := by
          simp [feedItem, feedOpen, htk]
        have hi1 := inv_feedItem lvl p _ _ hi hop
        have hct1 : codes lvl ({ tokens := p.tokens ++ [tk], stack := (t, tk) :: p.stack } : P).colorTokens =
            codes lvl p.colorTokens ++ tokCodes lvl tk := by
          simp [P.colorTokens, codes]
        have hsim := ih r _ hi1 (by simp at hlen; omega)
        rw [hct1] at hsim
        have hstep : ∀ q, feedItems p (.opn t :: q) =
            feedItems { tokens := p.tokens ++ [tk], stack := (t, tk) :: p.stack } q := by
          intro q; simp only [feedItems, hop]
        have hcol : Tok.isColor tk = true := hi1.colors (t, tk) (by simp)
        have hsgr1 : ∀ x, sgr lvl (codes lvl p.colorTokens) (tk :: x) =
            sgr lvl (codes lvl p.colorTokens ++ tokCodes lvl tk) x := by
          intro x
          cases tk with
          | text s => simp [Tok.isColor] at hcol
          | closing => simp [Tok.isColor] at hcol
          | ansi a => rfl
          | level => rfl
        match hd : descend lvl f (codes lvl p.colorTokens ++ tokCodes lvl tk) r, hsim with
        | .error .bad, hsim =>
          show feedItems p (.opn t :: r) = .error .valueError
          rw [hstep]; exact hsim
        | .error .unclosed, hsim =>
          obtain ⟨p', ext, hf, hne, hs'⟩ := hsim
          refine ⟨p', ext ++ [(t, tk)], ?_, by simp, by rw [hs']; simp⟩
          rw [hstep]; exact hf
        | .ok (inner, none), hsim =>
          obtain ⟨p', new, hf, hs', _, _⟩ := hsim
          refine ⟨p', [(t, tk)], ?_, by simp, by rw [hs']; simp⟩
          rw [hstep]; exact hf
        | .ok (inner, some (c, r')), hsim =>
          obtain ⟨pre, p2, new, hr, hf, hs2, ht2, hg2⟩ := hsim
          rw [hct1] at hg2
          simp only
          by_cases hc : c = [] ∨ c = t
          · simp only [hc, if_true]
            -- the closing tag pops the frame pushed for `t`
            have hcl : feedItem p2 (.cls c) =
                .ok { tokens := p2.tokens ++ [.closing] ++ p.stack.reverse.map (·.2), stack := p.stack } := by
              simp only [feedItem, feedClose, hs2]
              have : (c.isEmpty || c == t) = true := by
                rcases hc with rfl | rfl <;> simp
              simp [this]
            have hi2 := inv_feedItems lvl _ p2 pre hi1 hf
            have hi3 := inv_feedItem lvl p2 _ _ hi2 hcl
            have hlen' : r'.length < f := by
              have : r.length = pre.length + (r'.length + 1) := by rw [hr]; simp
              simp at hlen; omega
            have hsim3 := ih r' _ hi3 hlen'
            have hct3 : ({ tokens := p2.tokens ++ [.closing] ++ p.stack.reverse.map (·.2), stack := p.stack } : P).colorTokens
                = p.colorTokens := rfl
            rw [hct3] at hsim3
            have hrun : feedItems p (.opn t :: pre ++ [.cls c]) =
                .ok { tokens := p2.tokens ++ [.closing] ++ p.stack.reverse.map (·.2), stack := p.stack } := by
              rw [List.cons_append, hstep, feedItems_append, hf]
              simp only [feedItems, hcl]
            have hcols : ∀ x ∈ p.stack.reverse.map (·.2), Tok.isColor x = true := by
              intro x hx
              simp at hx
              obtain ⟨a, hm⟩ := hx
              exact hi.colors _ hm
            have := sim_prefix lvl p _ (.opn t :: pre ++ [.cls c]) r'
              (tk :: new ++ [.closing] ++ p.stack.reverse.map (·.2)) hi hi3 hrun rfl
              (by simp [ht2, List.append_assoc]) _ hsim3
            have hsg : sgr lvl (codes lvl p.colorTokens) (tk :: new ++ [.closing] ++ p.stack.reverse.map (·.2)) = inner := by
              rw [List.cons_append, List.cons_append, hsgr1, List.append_assoc, sgr_append, hg2]
              simp only [List.singleton_append, sgr]
              rw [sgr_colors lvl [] _ hcols]; simp
            rw [hsg] at this
            have hitems : .opn t :: r = (.opn t :: pre ++ [.cls c]) ++ r' := by rw [hr]; simp
            rw [hitems]
            revert this
            cases descend lvl f (codes lvl p.colorTokens) r' with
            | ok v => obtain ⟨cs, k⟩ := v; exact id
            | error e => exact id
          · simp only [hc, if_false]
            show feedItems p (.opn t :: r) = .error .valueError
            rw [hstep, hr, feedItems_append, hf]
            simp only [feedItems, feedItem, feedClose, hs2]
            have : (c.isEmpty || c == t) = false := by
              have h1 : c ≠ [] := fun h => hc (Or.inl h)
              have h2 : c ≠ t := fun h => hc (Or.inr h)
              simp [h1, h2]
            simp [this]

/-- tree equivalence at the level of `parse` (= `prepare_simple_message`: one `feed`, strict `done`):
the reference reader accepts exactly when the parser does, and then the SGR reading of the parser's tokens is the
reference's list of characters with the codes of their enclosing tags -/
theorem tree_machine (lvl : List Str) (text : Str) :
    match tree lvl text with
    | .ok cs => ∃ toks, parse text = .ok toks ∧ sgr lvl [] toks = cs
    | .error _ => parse text = .error .valueError := by
  have hsim := descend_sim lvl ((lexItems text).length + 1) (lexItems text) {} (inv_init lvl) (by omega)
  have h0 : codes lvl ({} : P).colorTokens = [] := rfl
  rw [h0] at hsim
  have hfeed : feed {} text = feedItems {} (lexItems text) := feed_items {} text
  simp only [tree, treeItems, parse, hfeed]
  match hd : descend lvl ((lexItems text).length + 1) [] (lexItems text), hsim with
  | .ok (cs, none), hsim =>
    obtain ⟨p', new, hf, hs', ht', hg⟩ := hsim
    have hs0 : p'.stack = [] := hs'
    simp only [hf, done, hs0]
    refine ⟨p'.tokens, by simp, ?_⟩
    have : p'.tokens = new := by rw [ht']; rfl
    rw [this]; exact hg
  | .ok (cs, some (c, r')), hsim =>
    obtain ⟨pre, p', new, hr, hf, hs', _, _⟩ := hsim
    have hs0 : p'.stack = [] := hs'
    simp only [hr, feedItems_append, hf, feedItems, feedItem, feedClose, hs0]
  | .error .bad, hsim =>
    have : feedItems {} (lexItems text) = .error .valueError := hsim
    simp only [this]
  | .error .unclosed, hsim =>
    obtain ⟨p', ext, hf, hne, hs'⟩ := hsim
    have : p'.stack.isEmpty = false := by
      have hs0 : p'.stack = ext ++ [] := hs'
      rw [hs0]; cases ext with
      | nil => exact absurd rfl hne
      | cons a b => rfl
    simp [hf, done, this]

end Markup.Lemmas
