import LoguruModel.Py.Basic
import LoguruModel.Generated.Ansi
/-
Markup (C06) – model of `loguru/_colorizer.py` `AnsiParser`: the tag scanner equivalent to the regex
`(\\*)(</?(?:[fb]g\s)?[^<>\s]*>)`, `feed`/`done`, `_get_ansicode` over the GENERATED tables and
templates, `strip`/`colorize`/`wrap`, `Colorizer.ansify`.  Mathlib-free, total, computable.
The model mirrors the code as it is.
-/
namespace Markup
open Py

deriving instance DecidableEq for Except

/-- tokens of `AnsiParser` – `(TokenType.TEXT, s)`, `(TokenType.ANSI, code)`, `(TokenType.LEVEL, None)`,
`(TokenType.CLOSING, "\033[0m")` -/
inductive Tok where
  | text (s : Str)
  | ansi (s : Str)
  | level
  | closing
  deriving DecidableEq, Repr, Inhabited

/-! ### character classes of the regex -/

/-- code points matched by `\s` in a `str` pattern (= `str.isspace`); swept against `re` by the harness -/
def wsCodes : List Nat :=
  [9, 10, 11, 12, 13, 28, 29, 30, 31, 32, 133, 160, 5760, 8192, 8193, 8194, 8195, 8196, 8197, 8198, 8199,
   8200, 8201, 8202, 8232, 8233, 8239, 8287, 12288]

def isWs (c : Char) : Bool := wsCodes.contains c.toNat

/-- `[^<>\s]` -/
def isTagChar (c : Char) : Bool := c != '<' && c != '>' && !isWs c

/-! ### the scanner -/

/-- longest prefix of characters satisfying `p`, and the rest -/
def spanP (p : Char → Bool) : Str → Str × Str
  | [] => ([], [])
  | c :: r => if p c then ((c :: (spanP p r).1), (spanP p r).2) else ([], c :: r)

/-- `[^<>\s]*>` after the already matched prefix `pre` -/
def tagBody (pre r2 : Str) : Option (Str × Str) :=
  match spanP isTagChar r2 with
  | (body, '>' :: r4) => some (pre ++ body, r4)
  | _ => none

/-- `(?:[fb]g\s)?` then the body -/
def tagPre (slash r1 : Str) : Option (Str × Str) :=
  match r1 with
  | a :: 'g' :: w :: r => if (a == 'f' || a == 'b') && isWs w then tagBody (slash ++ [a, 'g', w]) r else tagBody slash r1
  | _ => tagBody slash r1

/-- `tagAt rest` – `rest` is the text right after a `<`.  Succeeds when `/?(?:[fb]g\s)?[^<>\s]*>` matches
there; returns the text between `<` and `>` and the remainder after `>`.  (The optional groups never need
backtracking: when the greedy choice fails, so do the alternatives – see design_notes.) -/
def tagAt (rest : Str) : Option (Str × Str) :=
  match rest with
  | '/' :: r => tagPre ['/'] r
  | r => tagPre [] r

/-- one regex match: the literal text before it, the number of backslashes, the text between `<` and `>` -/
structure Seg where
  pre : Str
  nb : Nat
  inner : Str
  deriving DecidableEq, Repr

def bs (n : Nat) : Str := List.replicate n '\\'

/-- `finditer`: leftmost matches, left to right.  `acc` = literal text since the last match, `n` = length
of the backslash run just read. -/
def scanFuel : Nat → Str → Nat → Str → List Seg × Str
  | 0, acc, n, _ => ([], acc ++ bs n)
  | _ + 1, acc, n, [] => ([], acc ++ bs n)
  | fuel + 1, acc, n, c :: rest =>
    if c == '\\' then scanFuel fuel acc (n + 1) rest
    else if c == '<' then
      match tagAt rest with
      | some (inner, rest') =>
        let (segs, tail) := scanFuel fuel [] 0 rest'
        (⟨acc, n, inner⟩ :: segs, tail)
      | none => scanFuel fuel (acc ++ bs n ++ [c]) 0 rest
    else scanFuel fuel (acc ++ bs n ++ [c]) 0 rest

def scan (s : Str) : List Seg × Str := scanFuel (s.length + 1) [] 0 s

/-! ### `_get_ansicode` -/

def lookup (t : List (Str × Nat)) (k : Str) : Option Nat :=
  match t with
  | [] => none
  | (k', v) :: r => if k' == k then some v else lookup r k

/-- `"\033[%dm" % code` -/
def esc (n : Nat) : Str := Gen.escPre ++ natStr n ++ Gen.escPost

/-- `tmpl % args` for a template split at its `%s` -/
def interp : List Str → List Str → Str
  | p :: ps, a :: as => p ++ a ++ interp ps as
  | p :: _, [] => p
  | [], _ => []

def lowerC (c : Char) : Char := if 'A' ≤ c ∧ c ≤ 'Z' then Char.ofNat (c.toNat + 32) else c
def upperC (c : Char) : Char := if 'a' ≤ c ∧ c ≤ 'z' then Char.ofNat (c.toNat - 32) else c
def isDigitC (c : Char) : Bool := c.isDigit
/-- `s.isdigit()` (ASCII digits only – see ASSUMPTIONS) -/
def isDigits (s : Str) : Bool := !s.isEmpty && s.all isDigitC
/-- `int(s)` for a digit string -/
def digitsVal (s : Str) : Nat := s.foldl (fun a c => a * 10 + (c.toNat - '0'.toNat)) 0
def isHexC (c : Char) : Bool := isDigitC c || ('a' ≤ c && c ≤ 'f') || ('A' ≤ c && c ≤ 'F')
def hexV (c : Char) : Nat :=
  if isDigitC c then c.toNat - '0'.toNat else if 'a' ≤ c && c ≤ 'f' then c.toNat - 'a'.toNat + 10
  else c.toNat - 'A'.toNat + 10
def splitOn (sep : Char) : Str → List Str
  | [] => [[]]
  | c :: r =>
    match splitOn sep r with
    | h :: t => if c == sep then [] :: h :: t else (c :: h) :: t
    | [] => [[c]]

def byteOk (s : Str) : Bool := isDigits s && digitsVal s ≤ Gen.limit8

/-- the `fg `/`bg ` forms; `isFg` selects the table and the 38/48 selector -/
def colorForm (isFg : Bool) (color : Str) : Option Str :=
  let sel := if isFg then Gen.fgSel else Gen.bgSel
  match (if isFg then lookup Gen.fgTable (color.map lowerC) else lookup Gen.bgTable (color.map upperC)) with
  | some n => some (esc n)
  | none =>
    if byteOk color then some (interp Gen.tmpl8 [sel, color])
    else
      match color with
      | '#' :: h =>
        if h.all isHexC && (h.length == 3 || h.length == 6) then
          let h6 := if h.length == 3 then h ++ h else h
          match h6 with
          | [a, b, c, d, e, f] =>
            some (interp Gen.tmpl24 [sel, natStr (hexV a * 16 + hexV b), natStr (hexV c * 16 + hexV d),
                                     natStr (hexV e * 16 + hexV f)])
          | _ => none
        else rgbForm sel color
      | _ => rgbForm sel color
where
  rgbForm (sel color : Str) : Option Str :=
    if color.count ',' == 2 then
      let parts := splitOn ',' color
      if parts.all byteOk then some (interp Gen.tmpl24 (sel :: parts)) else none
    else none

def getAnsiCode (tag : Str) : Option Str :=
  match lookup Gen.styleTable tag with
  | some n => some (esc n)
  | none =>
  match lookup Gen.fgTable tag with
  | some n => some (esc n)
  | none =>
  match lookup Gen.bgTable tag with
  | some n => some (esc n)
  | none =>
    match tag with
    | 'f' :: 'g' :: ' ' :: color => colorForm true color
    | 'b' :: 'g' :: ' ' :: color => colorForm false color
    | _ => none

/-! ### `feed` / `done` -/

/-- parser state: `_tokens` (in order) and the parallel stacks `_tags` / `_color_tokens` merged into one
stack of pairs, top = head -/
structure P where
  tokens : List Tok := []
  stack : List (Str × Tok) := []
  deriving DecidableEq, Repr

/-- the colour tokens in force, oldest first (`self._color_tokens`) -/
def P.colorTokens (p : P) : List Tok := p.stack.reverse.map (·.2)

/-- interpretation of an (unescaped) tag; `inner` is the text between `<` and `>` -/
def feedTag (p : P) (inner : Str) : Except Err P :=
  match inner with
  | '/' :: tag =>
    match p.stack with
    | (top, _) :: below =>
      if tag.isEmpty || tag == top then
        .ok { tokens := p.tokens ++ [.closing] ++ below.reverse.map (·.2), stack := below }
      else .error .valueError
    | [] => .error .valueError
  | tag =>
    if Gen.levelTags.contains tag then
      .ok { tokens := p.tokens ++ [.level], stack := (tag, .level) :: p.stack }
    else
      match getAnsiCode tag with
      | some a => .ok { tokens := p.tokens ++ [.ansi a], stack := (tag, .ansi a) :: p.stack }
      | none => .error .valueError

/-- effect of one regex match: the literal text before it, then the odd/even backslash rule -/
def feedSeg (p : P) (s : Seg) : Except Err P :=
  if s.nb % 2 == 1 then
    .ok { p with tokens := p.tokens ++ [.text s.pre, .text (bs (s.nb / 2) ++ ('<' :: s.inner ++ ['>']))] }
  else
    feedTag { p with tokens := p.tokens ++ .text s.pre :: (if s.nb > 0 then [.text (bs (s.nb / 2))] else []) }
      s.inner

def feedSegs : P → List Seg → Except Err P
  | p, [] => .ok p
  | p, s :: r => match feedSeg p s with
    | .ok p' => feedSegs p' r
    | .error e => .error e

/-- `parser.feed(text, raw=raw)` -/
def feed (p : P) (text : Str) (raw : Bool := false) : Except Err P :=
  if raw then .ok { p with tokens := p.tokens ++ [.text text] }
  else
    let (segs, tail) := scan text
    match feedSegs p segs with
    | .ok p' => .ok { p' with tokens := p'.tokens ++ [.text tail] }
    | .error e => .error e

/-- a sequence of `feed` calls on one parser (`(text, raw)` pairs) -/
def feedMany : P → List (Str × Bool) → Except Err P
  | p, [] => .ok p
  | p, (t, raw) :: r => match feed p t raw with
    | .ok p' => feedMany p' r
    | .error e => .error e

/-- `parser.done(strict=strict)` -/
def done (p : P) (strict : Bool := true) : Except Err (List Tok) :=
  if strict && !p.stack.isEmpty then .error .valueError else .ok p.tokens

/-- `prepare_simple_message`: one feed, strict done -/
def parse (text : Str) : Except Err (List Tok) :=
  match feed {} text with
  | .ok p => done p
  | .error e => .error e

/-! ### `strip` / `colorize` / `wrap` / `ansify` -/

def strip : List Tok → Str
  | [] => []
  | .text s :: r => s ++ strip r
  | _ :: r => strip r

/-- the string value of a non-LEVEL token -/
def Tok.value : Tok → Str
  | .text s => s
  | .ansi s => s
  | .closing => Gen.closingCode
  | .level => []

/-- `AnsiParser.colorize(tokens, ansi_level)`; `none` = the level has no colour yet -/
def colorize : List Tok → Option Str → Except Err Str
  | [], _ => .ok []
  | .level :: r, lvl =>
    match lvl with
    | none => .error .valueError
    | some l => match colorize r lvl with
      | .ok o => .ok (l ++ o)
      | .error e => .error e
  | t :: r, lvl => match colorize r lvl with
    | .ok o => .ok (t.value ++ o)
    | .error e => .error e

/-- value of a token inside `wrap` (the level colour is a string there) -/
def Tok.valueL (lvl : Str) : Tok → Str
  | .level => lvl
  | t => t.value

/-- `AnsiParser.wrap(tokens, ansi_level=lvl, color_tokens=outer)` -/
def wrap (lvl : Str) (outer : List Tok) : List Tok → Str
  | [] => []
  | .closing :: r => Gen.closingCode ++ (outer.map (Tok.valueL lvl)).flatten ++ wrap lvl outer r
  | t :: r => t.valueL lvl ++ wrap lvl outer r

/-- `str.strip()` -/
def pyStrip (s : Str) : Str := ((s.dropWhile isWs).reverse.dropWhile isWs).reverse

/-- `Colorizer.ansify(text)` -/
def ansify (text : Str) : Except Err Str :=
  match feed {} (pyStrip text) with
  | .ok p => match done p false with
    | .ok toks => colorize toks none
    | .error e => .error e
  | .error e => .error e

end Markup
