import LoguruModel.Markup.Model
/-
Markup (C06) – the short specification side: the documented tag table typed in from the docstring of
`Logger.add` (independent of the generated tables), removal of SGR sequences (`unansi`, the regex
`\x1b\[[0-9;]*m` of the property), an SGR interpreter over token lists, and the enclosing-tags reading
of well-nested markup (`tree`).
-/
namespace Markup.Spec
open Py Markup

/-! ### the documented table -/

/-- colour name, abbreviation, offset from 30/40/90/100 -/
def docColors : List (Str × Str × Nat) :=
  [("black".toList, "k".toList, 0), ("red".toList, "r".toList, 1), ("green".toList, "g".toList, 2),
   ("yellow".toList, "y".toList, 3), ("blue".toList, "e".toList, 4), ("magenta".toList, "m".toList, 5),
   ("cyan".toList, "c".toList, 6), ("white".toList, "w".toList, 7)]

/-- style name, abbreviation, SGR code -/
def docStyles : List (Str × Str × Nat) :=
  [("bold".toList, "b".toList, 1), ("dim".toList, "d".toList, 2), ("normal".toList, "n".toList, 22),
   ("italic".toList, "i".toList, 3), ("underline".toList, "u".toList, 4), ("strike".toList, "s".toList, 9),
   ("reverse".toList, "v".toList, 7), ("blink".toList, "l".toList, 5), ("hide".toList, "h".toList, 8)]

def up (s : Str) : Str := s.map upperC

/-- every documented tag spelling with its SGR code: styles, colours (foreground lower case, background
upper case), light variants, long names and abbreviations -/
def docTable : List (Str × Nat) :=
  docStyles.flatMap (fun e => [(e.1, e.2.2), (e.2.1, e.2.2)]) ++
  docColors.flatMap (fun e =>
    [(e.1, 30 + e.2.2), (e.2.1, 30 + e.2.2),
     ("light-".toList ++ e.1, 90 + e.2.2), ('l' :: e.2.1, 90 + e.2.2),
     (up e.1, 40 + e.2.2), (up e.2.1, 40 + e.2.2),
     ("LIGHT-".toList ++ up e.1, 100 + e.2.2), ('L' :: up e.2.1, 100 + e.2.2)])

/-- (abbreviation, long name) pairs of the documented table -/
def abbrevPairs : List (Str × Str) :=
  docStyles.map (fun e => (e.2.1, e.1)) ++
  docColors.flatMap (fun e =>
    [(e.2.1, e.1), ('l' :: e.2.1, "light-".toList ++ e.1), (up e.2.1, up e.1),
     ('L' :: up e.2.1, "LIGHT-".toList ++ up e.1)])

/-! ### SGR sequences and their removal -/

def ESC : Char := '\x1b'

/-- `[0-9;]` -/
def isSgrBody (c : Char) : Bool := c.isDigit || c == ';'

/-- `a` has the form `ESC [ body m` with `body ∈ [0-9;]*` – what `\x1b\[[0-9;]*m` matches entirely -/
def IsSgr (a : Str) : Prop := ∃ body : Str, a = ESC :: '[' :: (body ++ ['m']) ∧ ∀ c ∈ body, isSgrBody c = true

/-- decidable version of `IsSgr` -/
def isSgrB (a : Str) : Bool :=
  match a with
  | e :: '[' :: r => e == ESC && (match r.reverse with
      | 'm' :: b => b.all isSgrBody
      | _ => false)
  | _ => false

/-- state of the removal automaton: `esc` = an ESC is pending, `body acc` = `ESC [ acc` is pending -/
inductive US where
  | normal | esc | body (acc : Str)

/-- `re.sub(r"\x1b\[[0-9;]*m", "", s)` as a one-pass automaton (structural in the text) -/
def unansiGo : US → Str → Str
  | .normal, [] => []
  | .esc, [] => [ESC]
  | .body acc, [] => ESC :: '[' :: acc
  | .normal, c :: r => if c == ESC then unansiGo .esc r else c :: unansiGo .normal r
  | .esc, c :: r =>
    if c == '[' then unansiGo (.body []) r
    else if c == ESC then ESC :: unansiGo .esc r
    else ESC :: c :: unansiGo .normal r
  | .body acc, c :: r =>
    if isSgrBody c then unansiGo (.body (acc ++ [c])) r
    else if c == 'm' then unansiGo .normal r
    else if c == ESC then ESC :: '[' :: (acc ++ unansiGo .esc r)
    else ESC :: '[' :: (acc ++ c :: unansiGo .normal r)

def unansi (s : Str) : Str := unansiGo .normal s

/-! ### SGR interpretation of a token list -/

/-- codes contributed by a colour token; `lvl` = the codes of the level colour -/
def tokCodes (lvl : List Str) : Tok → List Str
  | .ansi a => [a]
  | .level => lvl
  | _ => []

def codes (lvl : List Str) (ts : List Tok) : List Str := ts.flatMap (tokCodes lvl)

/-- SGR state after a token list: an SGR sequence appends, the CLOSING reset clears -/
def sgrState (lvl : List Str) : List Str → List Tok → List Str
  | st, [] => st
  | st, .text _ :: r => sgrState lvl st r
  | _, .closing :: r => sgrState lvl [] r
  | st, t :: r => sgrState lvl (st ++ tokCodes lvl t) r

/-- every visible character with the codes in force since the last reset -/
def sgr (lvl : List Str) : List Str → List Tok → List (Char × List Str)
  | _, [] => []
  | st, .text s :: r => s.map (fun c => (c, st)) ++ sgr lvl st r
  | _, .closing :: r => sgr lvl [] r
  | st, t :: r => sgr lvl (st ++ tokCodes lvl t) r

/-- a colour token (what the stacks hold) -/
def Tok.isColor : Tok → Bool
  | .ansi _ => true
  | .level => true
  | _ => false

end Markup.Spec
