import LoguruModel.Markup.Model
/-
Markup (C06) – handler level: `Colorizer._parse_without_formatting` (prepare_format) over the chunks
`string.Formatter().parse` yields (CPython's parser is taken as given: the harness sends its output),
`ColoredFormat.make_coloring_message`, the colour branches of `Handler.emit` followed by
`str.format_map` on the pre-colourised format, the per-level cache `_precolorized_formats` with
`update_format` / `Logger.level`.
-/
namespace Markup
open Py

/-- a replacement field as `Formatter.parse` reports it -/
structure Field where
  name : Str
  conv : Option Char
  spec : Str
  deriving DecidableEq, Repr

/-- one tuple `(literal_text, field_name, format_spec, conversion)` of `Formatter.parse` -/
structure Chunk where
  lit : Str
  field : Option Field
  deriving DecidableEq, Repr

/-- tokens of a prepared format: parser tokens of the literal text, and the re-serialised fields
(fed `raw`, so never interpreted) -/
inductive FTok where
  | tok (t : Tok)
  | fld (f : Field)
  deriving DecidableEq, Repr

/-- `if literal_text and literal_text[-1] in "{}": literal_text += literal_text[-1]` -/
def redouble (lit : Str) : Str :=
  match lit.getLast? with
  | some c => if c == '{' || c == '}' then lit ++ [c] else lit
  | none => lit

/-- `_parse_without_formatting` (top level).  Returns the tokens and `messages_color_tokens`.
Nested fields inside format specs are outside the model (the harness does not send such formats). -/
def prepareChunks : List (Str × Tok) → List Chunk → Except Err (List FTok × List (List Tok))
  | stack, [] => if stack.isEmpty then .ok ([], []) else .error .valueError
  | stack, c :: r =>
    match feed { tokens := [], stack := stack } (redouble c.lit) with
    | .error e => .error e
    | .ok p =>
      let here := p.tokens.map FTok.tok
      match prepareChunks p.stack r with
      | .error e => .error e
      | .ok (toks, msgs) =>
        match c.field with
        | none => .ok (here ++ toks, msgs)
        | some f =>
          if f.name == "message".toList then .ok (here ++ FTok.fld f :: toks, p.colorTokens :: msgs)
          else .ok (here ++ FTok.fld f :: toks, msgs)

/-- `str.format` on literal text: `{{` → `{`, `}}` → `}` -/
def unbrace : Str → Str
  | '{' :: '{' :: r => '{' :: unbrace r
  | '}' :: '}' :: r => '}' :: unbrace r
  | c :: r => c :: unbrace r
  | [] => []

/-- `str.__format__(spec)` for the subset `[[fill]align][width][.precision][s]`; anything else is
reported as unsupported (`Err.other`) and skipped by the harness -/
def strFormat (spec : Str) (s : Str) : Except Err Str :=
  if spec.isEmpty then .ok s else
  let isAlign := fun (c : Char) => c == '<' || c == '>' || c == '^'
  let (fill, align, r1) : Char × Char × Str := match spec with
    | f :: a :: r => if isAlign a then (f, a, r) else if isAlign f then (' ', f, a :: r) else (' ', '<', spec)
    | [a] => if isAlign a then (' ', a, []) else (' ', '<', spec)
    | [] => (' ', '<', [])
  let (w, r2) := spanP isDigitC r1
  if w.head? == some '0' then .error .other else
  let (prec, r3) : Option Nat × Str := match r2 with
    | '.' :: r => let (d, r') := spanP isDigitC r; if d.isEmpty then (none, '?' :: r) else (some (digitsVal d), r')
    | r => (none, r)
  if r3 != [] && r3 != ['s'] then .error .other else
  let body := match prec with | some n => s.take n | none => s
  let pad := digitsVal w - body.length
  .ok (if align == '<' then body ++ List.replicate pad fill
       else if align == '>' then List.replicate pad fill ++ body
       else List.replicate (pad / 2) fill ++ body ++ List.replicate (pad - pad / 2) fill)

def Field.isMessage (f : Field) : Bool := f.name == "message".toList

/-- what a colourising handler prints: `precolorized.format_map(record)` with
`record["message"] = ColoringMessage` whose `__format__` hands out `wrap(...)` of the coloured message,
one per `{message}` field.  `vals` = the rendered values of the other fields, in order (Python's own
`str.format` – given). -/
def renderColored (lvl : Str) (msgToks : List Tok) :
    List FTok → List (List Tok) → List Str → Except Err Str
  | [], _, _ => .ok []
  | .tok (.text s) :: r, ms, vs => (renderColored lvl msgToks r ms vs).map (unbrace s ++ ·)
  | .tok t :: r, ms, vs => (renderColored lvl msgToks r ms vs).map (t.valueL lvl ++ ·)
  | .fld f :: r, ms, vs =>
    if f.isMessage then
      if f.conv.isSome then .error .other else
      match ms with
      | ct :: ms' =>
        match strFormat f.spec (wrap lvl ct msgToks), renderColored lvl msgToks r ms' vs with
        | .ok v, .ok o => .ok (v ++ o)
        | .error e, _ => .error e
        | _, .error e => .error e
      | [] => .error .runtimeError
    else match vs with
      | v :: vs' => (renderColored lvl msgToks r ms vs').map (v ++ ·)
      | [] => .error .other

/-- what the non-colourising handler prints: `strip()`ped format, `format_map(record)` -/
def renderPlain (msg : Str) : List FTok → List Str → Except Err Str
  | [], _ => .ok []
  | .tok (.text s) :: r, vs => (renderPlain msg r vs).map (unbrace s ++ ·)
  | .tok _ :: r, vs => renderPlain msg r vs
  | .fld f :: r, vs =>
    if f.isMessage then
      if f.conv.isSome then .error .other else
      match strFormat f.spec msg, renderPlain msg r vs with
      | .ok v, .ok o => .ok (v ++ o)
      | .error e, _ => .error e
      | _, .error e => .error e
    else match vs with
      | v :: vs' => (renderPlain msg r vs').map (v ++ ·)
      | [] => .error .other

/-- both handlers on one logging call: `add()` = prepareChunks (ValueError there); the message is parsed at
the call (`feeds` = its literal pieces, and its formatted arguments fed raw) -/
def handlerPair (chunks : List Chunk) (feeds : List (Str × Bool)) (lvl : Str) (vals : List Str) :
    Except Err (Str × Str) :=
  match prepareChunks [] chunks with
  | .error e => .error e
  | .ok (ftoks, msgs) =>
    match feedMany {} feeds with
    | .error e => .error e
    | .ok p =>
      match done p with
      | .error e => .error e
      | .ok mt =>
        match renderColored lvl mt ftoks msgs vals, renderPlain (strip mt) ftoks vals with
        | .ok c, .ok p => .ok (c, p)
        | .error e, _ => .error e
        | _, .error e => .error e

/-! ### the per-level cache -/

/-- state of a core with one colourising static handler: level name → ANSI prefix
(`core.levels_ansi_codes`) and the handler's `_precolorized_formats` -/
structure Cache where
  ansi : List (Str × Str) := []
  pre : List (Str × Except Err Str) := []

def assoc {α} (k : Str) (v : α) : List (Str × α) → List (Str × α)
  | [] => [(k, v)]
  | (k', v') :: r => if k' == k then (k, v) :: r else (k', v') :: assoc k v r

def find? {α} (k : Str) : List (Str × α) → Option α
  | [] => none
  | (k', v) :: r => if k' == k then some v else find? k r

/-- `Logger.level(name, color=…)`: ansify, store, `handler.update_format(name)` -/
def levelOp (toks : List Tok) (c : Cache) (name color : Str) : Except Err Cache :=
  match ansify color with
  | .error e => .error e
  | .ok a => .ok { ansi := assoc name a c.ansi, pre := assoc name (colorize toks (some a)) c.pre }

def levelOps (toks : List Tok) : Cache → List (Str × Str) → Except Err Cache
  | c, [] => .ok c
  | c, (n, col) :: r => match levelOp toks c n col with
    | .ok c' => levelOps toks c' r
    | .error e => .error e

/-! ### level declarations at run time (new levels, with or without a colour) -/

/-- `Logger.level(name, no=…, color=…, icon=…)`; `color = none`: argument omitted -/
structure Decl where
  name : Str
  color : Option Str

/-- `core.levels` (only the colour markup matters here) and the cache of a colourising static handler -/
structure LCore where
  colors : List (Str × Str) := []
  cache : Cache := {}

/-- one declaration.  `old_color` is the level's colour, `""` for a level that does not exist yet; an omitted
colour keeps it.  `guarded = false` is the code (every handler's `update_format(name)` is called);
`guarded = true` is the shape "update only when the colour changed", kept for the refuting witness. -/
def declare (guarded : Bool) (toks : List Tok) (c : LCore) (d : Decl) : Except Err LCore :=
  let old := (find? d.name c.colors).getD []
  let color := d.color.getD old
  match ansify color with
  | .error e => .error e
  | .ok a =>
    .ok { colors := assoc d.name color c.colors,
          cache := { ansi := assoc d.name a c.cache.ansi,
                     pre := if guarded && color == old then c.cache.pre
                            else assoc d.name (colorize toks (some a)) c.cache.pre } }

def declareAll (guarded : Bool) (toks : List Tok) : LCore → List Decl → Except Err LCore
  | c, [] => .ok c
  | c, d :: r => match declare guarded toks c d with
    | .ok c' => declareAll guarded toks c' r
    | .error e => .error e

/-! ### the memoised cache of a colourising handler with a dynamic (callable) format -/

/-- `core.levels_ansi_codes` and the handler's `lru_cache` over `prepare_colored_format(format_, ansi_level)`:
the cache key is (format string, ANSI prefix of the level) – see `Markup.GenEmit.dynCacheKeys` -/
structure Dyn where
  ansi : List (Str × Str) := []
  memo : List ((Str × Str) × Except Err Str) := []

inductive DynOp where
  | recolor (name color : Str)
  | log (fmt name : Str)

def memoFind {α} (k : Str × Str) : List ((Str × Str) × α) → Option α
  | [] => none
  | (k', v) :: r => if k' == k then some v else memoFind k r

/-- one operation; a `log` returns the pre-colourised format the handler uses for this call (`prep` = the
tokens of `Colorizer.prepare_format`; eviction from the LRU cache only forgets entries and is not modelled) -/
def dynStep (prep : Str → List Tok) (d : Dyn) : DynOp → Except Err (Dyn × Option (Except Err Str))
  | .recolor n c =>
    match ansify c with
    | .ok a => .ok ({ d with ansi := assoc n a d.ansi }, none)
    | .error e => .error e
  | .log fmt n =>
    match find? n d.ansi with
    | none => .ok (d, none)
    | some a =>
      match memoFind (fmt, a) d.memo with
      | some r => .ok (d, some r)
      | none =>
        let r := colorize (prep fmt) (some a)
        .ok ({ d with memo := ((fmt, a), r) :: d.memo }, some r)

def dynRun (prep : Str → List Tok) : Dyn → List DynOp → Except Err Dyn
  | d, [] => .ok d
  | d, op :: r => match dynStep prep d op with
    | .ok (d', _) => dynRun prep d' r
    | .error e => .error e

end Markup
