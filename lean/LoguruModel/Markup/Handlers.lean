import LoguruModel.Markup.Format
/-
Markup (C06) – SEVERAL handlers on one core: the level → ANSI table `core.levels_ansi_codes` is ONE dict that
every handler holds by reference (`Logger.add` passes it, `Handler.__init__` stores it), `Handler.__init__`
pre-colours a static colourising format for every level of the table, `Logger.level` stores the new ANSI
prefix and then calls `update_format(name)` on every handler, `Handler.update_format` returns early unless the
handler is colourising with a static format.  Handlers come and go (`add` / `remove`) between level
declarations.
-/
namespace Markup
open Py

/-- a handler as far as colours go: its prepared static format (unused when the format is a callable), the two
flags, and `_precolorized_formats` -/
structure H where
  toks : List Tok
  colorize : Bool
  dynamic : Bool
  pre : List (Str × Except Err Str) := []
  /-- `none`: `self._levels_ansi_codes` IS the core's dict (what `add` sets up); `some t`: the handler holds a
  table of its own (a copy that no longer follows the core) -/
  own : Option (List (Str × Str)) := none

/-- the table a handler reads, given its core's table -/
def H.table (h : H) (coreAnsi : List (Str × Str)) : List (Str × Str) := h.own.getD coreAnsi

/-- `Handler.update_format(level_id)`; `ansi` is the table the handler reads – the core's own dict.
A missing key is `KeyError` in the code and cannot happen: `Logger.level` stores before it updates and
`__init__` iterates over the keys of the table. -/
def H.updateFormat (ansi : List (Str × Str)) (h : H) (name : Str) : H :=
  if !h.colorize || h.dynamic then h else
  match find? name ansi with
  | some a => { h with pre := assoc name (Markup.colorize h.toks (some a)) h.pre }
  | none => h

/-- the colour part of `Handler.__init__`: only a static colourising handler pre-colours, and it does so for
every level name of the table -/
def H.init (ansi : List (Str × Str)) (toks : List Tok) (c d : Bool) : H :=
  let h : H := { toks := toks, colorize := c, dynamic := d }
  if d then h else if c then (ansi.map (·.1)).foldl (fun h n => h.updateFormat ansi n) h else h

/-- the core: the ONE level table and the handlers by id -/
structure MCore where
  ansi : List (Str × Str) := []
  handlers : List (Nat × H) := []

inductive MOp where
  | add (id : Nat) (toks : List Tok) (colorize dynamic : Bool)
  | level (name color : Str)
  | remove (id : Nat)
  /-- `copy.deepcopy(logger)` / `pickle.loads(pickle.dumps(logger))`, continuing with the copy.
  `keeps` = the pickled state of core and handlers still reaches ONE table object (see
  `C06.copyKeepsSharing`, computed from the regenerated `__getstate__` shapes); otherwise every inherited handler
  is left with a table of its own -/
  | copy (keeps : Bool)

/-- one operation of the history -/
def mstep (c : MCore) : MOp → Except Err MCore
  | .add id toks cz dy => .ok { c with handlers := c.handlers ++ [(id, H.init c.ansi toks cz dy)] }
  | .level name color =>
    match ansify color with
    | .error e => .error e
    | .ok a =>
      .ok { ansi := assoc name a c.ansi,
            handlers := c.handlers.map (fun ih => (ih.1, ih.2.updateFormat (ih.2.table (assoc name a c.ansi)) name)) }
  | .remove id => .ok { c with handlers := c.handlers.filter (fun ih => ih.1 != id) }
  | .copy keeps =>
    if keeps then .ok c
    else .ok { c with handlers := c.handlers.map (fun ih => (ih.1, { ih.2 with own := some (ih.2.table c.ansi) })) }

def mrun : MCore → List MOp → Except Err MCore
  | c, [] => .ok c
  | c, op :: r => match mstep c op with
    | .ok c' => mrun c' r
    | .error e => .error e

/-- the format text (before `format_map`) a handler uses for a record of level `name`:
static + colourising → `_precolorized_formats[name]` (a missing entry is `KeyError`), dynamic + colourising →
the memoised `colorize(prepare_format(fmt), levels_ansi_codes[name])`, otherwise the stripped format -/
def H.emitFormat (ansi : List (Str × Str)) (h : H) (name : Str) : Except Err Str :=
  if !h.colorize then .ok (strip h.toks)
  else if h.dynamic then
    match find? name ansi with
    | some a => Markup.colorize h.toks (some a)
    | none => .error .keyError
  else
    match find? name h.pre with
    | some r => r
    | none => .error .keyError

/-! ### one record shared by all handlers of a call: who still prints the coloured message -/

/-- a handler during one logging call, as far as the message goes: what its own user code (filter, callable
format) does to `record["message"]` before `emit` looks at it, its prepared format, the rendered values of the
other fields (Python's own formatting: given) -/
structure EH where
  rewrite : Str → Str
  ftoks : List FTok
  msgs : List (List Tok)
  colorize : Bool
  vals : List Str

/-- `Handler.emit` on the shared record.  `mt` = tokens of `colored_message` (its `.stripped` is what `_log` stored
in the record); `perHandler = true` is the code: the comparison `colored_message.stripped != record["message"]`
is made by THIS handler after its own user code ran; `perHandler = false` is the shape "decided once per call"
(`dropped` carries that decision).  A dropped coloured message means `format_map` sees the record's plain text
under the format's colours – which is `renderColored` with the one-token message `[text msg]`. -/
def emitOne (perHandler : Bool) (lvl : Str) (mt : List Tok) (dropped : Bool) (msg : Str) (h : EH) :
    Str × Except Err Str :=
  let msg' := h.rewrite msg
  let drop := if perHandler then strip mt != msg' else dropped
  (msg', if !h.colorize then renderPlain msg' h.ftoks h.vals
         else if drop then renderColored lvl [.text msg'] h.ftoks h.msgs h.vals
         else renderColored lvl mt h.ftoks h.msgs h.vals)

/-- the handlers of one call, in order, on ONE record dict -/
def emitAll (perHandler : Bool) (lvl : Str) (mt : List Tok) (dropped : Bool) : Str → List EH → List (Except Err Str)
  | _, [] => []
  | msg, h :: r => (emitOne perHandler lvl mt dropped msg h).2 ::
      emitAll perHandler lvl mt dropped (emitOne perHandler lvl mt dropped msg h).1 r

/-- the reference: what a NON-colourising handler with the same format at the same place of the chain prints -/
def plainAll : Str → List EH → List (Except Err Str)
  | _, [] => []
  | msg, h :: r => renderPlain (h.rewrite msg) h.ftoks h.vals :: plainAll (h.rewrite msg) r

/-- `Logger._log` with `opt(colors=True)`: the record gets `colored_message.stripped`, the patchers run (`patch`),
then every handler's `emit` -/
def logColored (perHandler : Bool) (lvl : Str) (mt : List Tok) (patch : Str → Str) (hs : List EH) : List (Except Err Str) :=
  emitAll perHandler lvl mt (strip mt != patch (strip mt)) (patch (strip mt)) hs

/-- the compared pair of handlers on a call whose `record["message"]` reads `msg'` when they look at it (after the
patchers, the earlier handlers' and their own user code ran): `add()` = prepareChunks, the message parsed at the call,
the colourising handler through `emitOne` (the code's per-handler drop rule), the plain one through `renderPlain` -/
def handlerPairRewritten (chunks : List Chunk) (feeds : List (Str × Bool)) (lvl : Str) (vals : List Str) (msg' : Str) :
    Except Err (Str × Str) :=
  match prepareChunks [] chunks with
  | .error e => .error e
  | .ok (ftoks, msgs) =>
    match feedMany {} feeds with
    | .error e => .error e
    | .ok p =>
      match done p with
      | .error e => .error e
      | .ok mt =>
        let h : EH := { rewrite := fun _ => msg', ftoks := ftoks, msgs := msgs, colorize := true, vals := vals }
        match (emitOne true lvl mt false (strip mt) h).2, renderPlain msg' ftoks vals with
        | .ok c, .ok p => .ok (c, p)
        | .error e, _ => .error e
        | _, .error e => .error e

end Markup
