import LoguruModel.Markup.Spec
/-
Markup (C06) – the REFERENCE reading of markup: a recursive-descent reader of well-nested tags (with the
`</>` shorthand) that gives every visible character the SGR codes of the tags enclosing it.  It has no token
list, no tag stack and no re-emission: nesting is the recursion, "the styles in force" is an argument.
`Props/C06.lean` proves that the stack machine of `AnsiParser.feed`/`done` is equivalent to it for every text.
-/
namespace Markup.Spec
open Py Markup

/-- what the lexer hands to the grammar: literal text, an opening tag `<tag>`, a closing tag `</tag>`
(`</>` = `cls []`) -/
inductive Item where
  | lit (s : Str)
  | opn (tag : Str)
  | cls (tag : Str)
  deriving DecidableEq, Repr

/-- `is_closing = markup[1] == "/"`, `tag = markup[2:-1] if is_closing else markup[1:-1]` -/
def tagItem : Str → Item
  | '/' :: t => .cls t
  | t => .opn t

/-- the items of one regex match, escape rule applied: an odd backslash run makes the tag literal text -/
def segItems (s : Seg) : List Item :=
  if s.nb % 2 == 1 then [.lit s.pre, .lit (bs (s.nb / 2) ++ ('<' :: s.inner ++ ['>']))]
  else .lit s.pre :: ((if s.nb > 0 then [.lit (bs (s.nb / 2))] else []) ++
    [tagItem s.inner])

def itemsOf (segs : List Seg) (tail : Str) : List Item := segs.flatMap segItems ++ [.lit tail]

/-- lexing of a text: the matches of the tag regex, left to right -/
def lexItems (text : Str) : List Item := itemsOf (scan text).1 (scan text).2

/-- the SGR codes a tag stands for: the level's current codes for `<level>`/`<lvl>`, the table / colour-form
sequence otherwise; `none` = not a colour directive -/
def tagCodes (lvl : List Str) (tag : Str) : Option (List Str) :=
  if Gen.levelTags.contains tag then some lvl else (getAnsiCode tag).map (fun a => [a])

/-- how a reading can fail: `bad` = unknown tag, closing tag that does not match the innermost open tag, or a
closing tag with nothing open (`feed` raises); `unclosed` = the text ended inside a tag (strict `done` raises) -/
inductive TErr where
  | bad
  | unclosed
  deriving DecidableEq, Repr

/-- RECURSIVE DESCENT.  `descend lvl fuel st items` reads nodes while the codes `st` are in force:
text gets `st`; `<tag>` reads its children under `st ++ codes(tag)`, demands the closing tag that ended them
to be `</>` or `</tag>`, and continues under `st`; a closing tag ends the run and is handed to the caller
together with the unread rest.  (`fuel` > number of items always suffices: `tree`.) -/
def descend (lvl : List Str) : Nat → List Str → List Item →
    Except TErr (List (Char × List Str) × Option (Str × List Item))
  | 0, _, _ => .error .bad
  | _ + 1, _, [] => .ok ([], none)
  | f + 1, st, .lit s :: r =>
    match descend lvl f st r with
    | .ok (cs, k) => .ok (s.map (fun c => (c, st)) ++ cs, k)
    | .error e => .error e
  | _ + 1, _, .cls c :: r => .ok ([], some (c, r))
  | f + 1, st, .opn t :: r =>
    match tagCodes lvl t with
    | none => .error .bad
    | some cd =>
      match descend lvl f (st ++ cd) r with
      | .error e => .error e
      | .ok (_, none) => .error .unclosed
      | .ok (inner, some (c, r')) =>
        if c = [] ∨ c = t then
          match descend lvl f st r' with
          | .ok (cs, k) => .ok (inner ++ cs, k)
          | .error e => .error e
        else .error .bad

/-- every visible character of well-nested markup with the codes of its enclosing tags, outermost first -/
def treeItems (lvl : List Str) (items : List Item) : Except TErr (List (Char × List Str)) :=
  match descend lvl (items.length + 1) [] items with
  | .ok (cs, none) => .ok cs
  | .ok (_, some _) => .error .bad
  | .error e => .error e

def tree (lvl : List Str) (text : Str) : Except TErr (List (Char × List Str)) := treeItems lvl (lexItems text)

end Markup.Spec
