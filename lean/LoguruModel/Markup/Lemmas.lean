import LoguruModel.Markup.Spec
import LoguruModel.Markup.Format
/-
Markup (C06) – helper lemmas for Props/C06.lean.
-/
namespace Markup.Lemmas
open Py Markup Markup.Spec

/-! ### `unansi` -/

theorem unansi_text (t r : Str) (h : ∀ c ∈ t, c ≠ ESC) :
    unansiGo .normal (t ++ r) = t ++ unansiGo .normal r := by
  induction t with
  | nil => rfl
  | cons c t ih =>
    have hc : c ≠ ESC := h c (by simp)
    have ih' := ih (fun d hd => h d (by simp [hd]))
    simp [unansiGo, hc, ih']

theorem unansi_body (body r acc : Str) (h : ∀ c ∈ body, isSgrBody c = true) :
    unansiGo (.body acc) (body ++ 'm' :: r) = unansiGo .normal r := by
  induction body generalizing acc with
  | nil =>
    have : isSgrBody 'm' = false := by decide
    simp [unansiGo, this]
  | cons c b ih =>
    have hc : isSgrBody c = true := h c (by simp)
    simp [unansiGo, hc, ih (acc ++ [c]) (fun d hd => h d (by simp [hd]))]

theorem unansi_sgr (a r : Str) (h : IsSgr a) : unansiGo .normal (a ++ r) = unansiGo .normal r := by
  obtain ⟨body, rfl, hb⟩ := h
  have e : ESC :: '[' :: (body ++ ['m']) ++ r = ESC :: '[' :: (body ++ 'm' :: r) := by simp
  rw [e]
  simp [unansiGo, unansi_body body r [] hb]

/-- a concatenation of SGR sequences -/
def IsSgrSeq (l : Str) : Prop := ∃ cs : List Str, l = cs.flatten ∧ ∀ a ∈ cs, IsSgr a

theorem unansi_sgrSeq (l r : Str) (h : IsSgrSeq l) : unansiGo .normal (l ++ r) = unansiGo .normal r := by
  obtain ⟨cs, rfl, hc⟩ := h
  induction cs with
  | nil => rfl
  | cons a cs ih =>
    simp only [List.flatten_cons, List.append_assoc]
    rw [unansi_sgr a _ (hc a (by simp))]
    exact ih (fun b hb => hc b (by simp [hb]))

/-! ### the shape of every generated sequence -/

theorem isSgr_mk (body : Str) (h : ∀ c ∈ body, isSgrBody c = true) : IsSgr (ESC :: '[' :: (body ++ ['m'])) :=
  ⟨body, rfl, h⟩

theorem natStr_body (n : Nat) : ∀ c ∈ natStr n, isSgrBody c = true := by
  intro c hc
  have := Nat.isDigit_of_mem_toDigits (b := 10) (by decide) (by decide) hc
  simp [isSgrBody, this]

theorem digits_body (s : Str) (h : isDigits s = true) : ∀ c ∈ s, isSgrBody c = true := by
  intro c hc
  simp [isDigits, isDigitC] at h
  simp [isSgrBody, h.2 c hc]

theorem esc_isSgr (n : Nat) : IsSgr (esc n) := by
  have : esc n = ESC :: '[' :: (natStr n ++ ['m']) := by
    simp [esc, Gen.escPre, Gen.escPost, ESC]
  rw [this]
  exact isSgr_mk _ (natStr_body n)

theorem sel_body (isFg : Bool) : ∀ c ∈ (if isFg then Gen.fgSel else Gen.bgSel), isSgrBody c = true := by
  cases isFg <;> decide

theorem body_append {a b : Str} (ha : ∀ c ∈ a, isSgrBody c = true) (hb : ∀ c ∈ b, isSgrBody c = true) :
    ∀ c ∈ a ++ b, isSgrBody c = true := by
  intro c hc
  rcases List.mem_append.mp hc with h | h
  · exact ha c h
  · exact hb c h

theorem semi_body : ∀ c ∈ [';'], isSgrBody c = true := by decide
theorem semi5_body : ∀ c ∈ ";5;".toList, isSgrBody c = true := by decide
theorem semi2_body : ∀ c ∈ ";2;".toList, isSgrBody c = true := by decide

theorem tmpl8_isSgr (sel color : Str) (hs : ∀ c ∈ sel, isSgrBody c = true) (hc : ∀ c ∈ color, isSgrBody c = true) :
    IsSgr (interp Gen.tmpl8 [sel, color]) := by
  have : interp Gen.tmpl8 [sel, color] = ESC :: '[' :: ((sel ++ (";5;".toList ++ color)) ++ ['m']) := by
    simp [interp, Gen.tmpl8, ESC]
  rw [this]
  exact isSgr_mk _ (body_append hs (body_append semi5_body hc))

theorem tmpl24_isSgr (sel r g b : Str) (hs : ∀ c ∈ sel, isSgrBody c = true) (hr : ∀ c ∈ r, isSgrBody c = true)
    (hg : ∀ c ∈ g, isSgrBody c = true) (hb : ∀ c ∈ b, isSgrBody c = true) :
    IsSgr (interp Gen.tmpl24 [sel, r, g, b]) := by
  have : interp Gen.tmpl24 [sel, r, g, b] =
      ESC :: '[' :: ((sel ++ (";2;".toList ++ (r ++ ([';'] ++ (g ++ ([';'] ++ b)))))) ++ ['m']) := by
    simp [interp, Gen.tmpl24, ESC]
  rw [this]
  exact isSgr_mk _ (body_append hs (body_append semi2_body (body_append hr (body_append semi_body
    (body_append hg (body_append semi_body hb))))))

theorem byteOk_body (s : Str) (h : byteOk s = true) : ∀ c ∈ s, isSgrBody c = true := by
  simp [byteOk] at h
  exact digits_body s h.1

theorem splitOn_length (sep : Char) (s : Str) : (splitOn sep s).length = s.count sep + 1 := by
  induction s with
  | nil => simp [splitOn]
  | cons c r ih =>
    unfold splitOn
    split
    · rename_i h t heq
      rw [heq] at ih
      by_cases hc : c = sep
      · subst hc; simp at ih ⊢; omega
      · have hne : ¬ (c == sep) = true := by simpa using hc
        simp [hne] at ih ⊢
        rw [List.count_cons_of_ne hc]; omega
    · rename_i heq
      rw [heq] at ih; simp at ih

theorem rgbForm_isSgr (sel color a : Str) (hs : ∀ c ∈ sel, isSgrBody c = true)
    (h : colorForm.rgbForm sel color = some a) : IsSgr a := by
  simp only [colorForm.rgbForm] at h
  split at h
  · rename_i hcount
    split at h
    · rename_i hall
      injection h with h; subst h
      have hlen := splitOn_length ',' color
      have hc2 : color.count ',' = 2 := by simpa using hcount
      rw [hc2] at hlen
      generalize splitOn ',' color = parts at hall hlen
      match parts, hall, hlen with
      | [r, g, b], hall, _ =>
        simp at hall
        exact tmpl24_isSgr sel r g b hs (byteOk_body r hall.1) (byteOk_body g hall.2.1) (byteOk_body b hall.2.2)
    · cases h
  · cases h

theorem colorForm_isSgr (isFg : Bool) (color a : Str) (h : colorForm isFg color = some a) : IsSgr a := by
  simp only [colorForm] at h
  split at h
  · injection h with h; subst h; exact esc_isSgr _
  · split at h
    · rename_i hb
      injection h with h; subst h
      exact tmpl8_isSgr _ _ (sel_body isFg) (byteOk_body color hb)
    · split at h
      · split at h
        · split at h
          · injection h with h; subst h
            exact tmpl24_isSgr _ _ _ _ (sel_body isFg) (natStr_body _) (natStr_body _) (natStr_body _)
          · cases h
        · exact rgbForm_isSgr _ _ _ (sel_body isFg) h
      · exact rgbForm_isSgr _ _ _ (sel_body isFg) h

/-- every sequence `_get_ansicode` can return is `ESC [ [0-9;]* m` -/
theorem getAnsiCode_isSgr (tag a : Str) (h : getAnsiCode tag = some a) : IsSgr a := by
  simp only [getAnsiCode] at h
  split at h
  · injection h with h; subst h; exact esc_isSgr _
  · split at h
    · injection h with h; subst h; exact esc_isSgr _
    · split at h
      · injection h with h; subst h; exact esc_isSgr _
      · split at h
        · exact colorForm_isSgr _ _ _ h
        · exact colorForm_isSgr _ _ _ h
        · cases h

/-! ### clean token lists -/

/-- text tokens carry no ESC, ANSI tokens are SGR sequences -/
def TokClean : Tok → Prop
  | .text s => ∀ c ∈ s, c ≠ ESC
  | .ansi a => IsSgr a
  | _ => True

theorem closing_isSgr : IsSgr Gen.closingCode := ⟨['0'], by decide, by decide⟩

theorem unansi_colorize (toks : List Tok) (lvl out : Str) (hc : ∀ t ∈ toks, TokClean t) (hl : IsSgrSeq lvl)
    (h : colorize toks (some lvl) = .ok out) : unansi out = strip toks := by
  induction toks generalizing out with
  | nil => simp [colorize] at h; subst h; rfl
  | cons t r ih =>
    have hr : ∀ t ∈ r, TokClean t := fun t ht => hc t (by simp [ht])
    have ht : TokClean t := hc t (by simp)
    cases t with
    | text s =>
      simp only [colorize] at h
      split at h
      · rename_i o ho
        injection h with h; subst h
        simp only [unansi, Tok.value, strip]
        rw [unansi_text s o ht]; congr 1; exact ih o hr ho
      · cases h
    | ansi a =>
      simp only [colorize] at h
      split at h
      · rename_i o ho
        injection h with h; subst h
        simp only [unansi, Tok.value, strip]
        rw [unansi_sgr a o ht]; exact ih o hr ho
      · cases h
    | closing =>
      simp only [colorize] at h
      split at h
      · rename_i o ho
        injection h with h; subst h
        simp only [unansi, Tok.value, strip]
        rw [unansi_sgr _ o closing_isSgr]; exact ih o hr ho
      · cases h
    | level =>
      simp only [colorize] at h
      split at h
      · rename_i o ho
        injection h with h; subst h
        simp only [unansi, strip]
        rw [unansi_sgrSeq lvl o hl]; exact ih o hr ho
      · cases h

/-! ### SGR state -/

theorem sgrState_append (lvl : List Str) (st : List Str) (a b : List Tok) :
    sgrState lvl st (a ++ b) = sgrState lvl (sgrState lvl st a) b := by
  induction a generalizing st with
  | nil => rfl
  | cons t r ih => cases t <;> simp [sgrState, ih]

theorem sgrState_colors (lvl : List Str) (st : List Str) (ts : List Tok) (h : ∀ t ∈ ts, Tok.isColor t = true) :
    sgrState lvl st ts = st ++ codes lvl ts := by
  induction ts generalizing st with
  | nil => simp [sgrState, codes]
  | cons t r ih =>
    have hr : ∀ t ∈ r, Tok.isColor t = true := fun t ht => h t (by simp [ht])
    have ht := h t (by simp)
    cases t with
    | text s => simp [Tok.isColor] at ht
    | closing => simp [Tok.isColor] at ht
    | ansi a => simp [sgrState, ih _ hr, codes, tokCodes]
    | level => simp [sgrState, ih _ hr, codes, tokCodes]

/-- the invariant of `feed`: the SGR state produced by the tokens emitted so far is exactly the codes of
the tag stack (oldest first), the stack holds colour tokens only, and the tokens are clean -/
structure Inv (lvl : List Str) (p : P) : Prop where
  state : sgrState lvl [] p.tokens = codes lvl p.colorTokens
  colors : ∀ e ∈ p.stack, Tok.isColor e.2 = true

theorem colorTokens_colors (p : P) (h : ∀ e ∈ p.stack, Tok.isColor e.2 = true) :
    ∀ t ∈ p.colorTokens, Tok.isColor t = true := by
  intro t ht
  simp [P.colorTokens] at ht
  obtain ⟨a, hm⟩ := ht
  exact h _ hm

theorem inv_text (lvl : List Str) (p : P) (ts : List Tok) (hi : Inv lvl p)
    (ht : ∀ t ∈ ts, ∃ s, t = .text s) : Inv lvl { p with tokens := p.tokens ++ ts } := by
  refine ⟨?_, hi.colors⟩
  have : ∀ st, sgrState lvl st ts = st := by
    induction ts with
    | nil => intro st; rfl
    | cons t r ih =>
      intro st
      obtain ⟨s, hs⟩ := ht t (by simp)
      subst hs
      simp only [sgrState]
      exact ih (fun t h => ht t (by simp [h])) st
  simp only [sgrState_append, this]
  exact hi.state

theorem inv_feedTag (lvl : List Str) (p p' : P) (inner : Str) (hi : Inv lvl p)
    (h : feedTag p inner = .ok p') : Inv lvl p' := by
  unfold feedTag at h
  split at h
  · -- closing
    split at h
    · rename_i top tk below hst
      split at h
      · injection h with h; subst h
        have hcol : ∀ e ∈ below, Tok.isColor e.2 = true := fun e he => hi.colors e (by rw [hst]; simp [he])
        refine ⟨?_, hcol⟩
        have hc2 : ∀ t ∈ below.reverse.map (·.2), Tok.isColor t = true := by
          intro t ht
          simp at ht
          obtain ⟨a, hm⟩ := ht
          exact hcol _ hm
        simp only [P.colorTokens, sgrState_append, sgrState]
        rw [sgrState_colors lvl [] _ hc2]; simp
      · cases h
    · cases h
  · split at h
    · injection h with h; subst h
      refine ⟨?_, ?_⟩
      · simp only [P.colorTokens, sgrState_append, sgrState, List.reverse_cons, List.map_append, List.map_cons,
          List.map_nil]
        have := hi.state
        simp only [P.colorTokens] at this
        rw [this]; simp [codes]
      · intro e he
        simp at he
        rcases he with rfl | he
        · rfl
        · exact hi.colors e he
    · split at h
      · rename_i a ha
        injection h with h; subst h
        refine ⟨?_, ?_⟩
        · simp only [P.colorTokens, sgrState_append, sgrState, List.reverse_cons, List.map_append, List.map_cons,
            List.map_nil]
          have := hi.state
          simp only [P.colorTokens] at this
          rw [this]; simp [codes]
        · intro e he
          simp at he
          rcases he with rfl | he
          · rfl
          · exact hi.colors e he
      · cases h

theorem inv_feedSeg (lvl : List Str) (p p' : P) (s : Seg) (hi : Inv lvl p)
    (h : feedSeg p s = .ok p') : Inv lvl p' := by
  unfold feedSeg at h
  split at h
  · injection h with h; subst h
    exact inv_text lvl p _ hi (by intro t ht; simp at ht; rcases ht with rfl | rfl <;> exact ⟨_, rfl⟩)
  · refine inv_feedTag lvl _ p' s.inner ?_ h
    have := inv_text lvl p (.text s.pre :: (if s.nb > 0 then [.text (bs (s.nb / 2))] else [])) hi (by
      intro t ht
      simp at ht
      rcases ht with rfl | ht
      · exact ⟨_, rfl⟩
      · exact ⟨_, ht.2⟩)
    exact this

theorem inv_feedSegs (lvl : List Str) (p p' : P) (segs : List Seg) (hi : Inv lvl p)
    (h : feedSegs p segs = .ok p') : Inv lvl p' := by
  induction segs generalizing p with
  | nil => simp [feedSegs] at h; subst h; exact hi
  | cons s r ih =>
    simp only [feedSegs] at h
    split at h
    · rename_i p1 h1
      exact ih p1 (inv_feedSeg lvl p p1 s hi h1) h
    · cases h

theorem inv_feed (lvl : List Str) (p p' : P) (text : Str) (raw : Bool) (hi : Inv lvl p)
    (h : feed p text raw = .ok p') : Inv lvl p' := by
  unfold feed at h
  split at h
  · injection h with h; subst h
    exact inv_text lvl p _ hi (by intro t ht; simp at ht; exact ⟨_, ht⟩)
  · split at h
    rename_i segs tail hsc
    split at h
    · rename_i p1 h1
      injection h with h; subst h
      exact inv_text lvl p1 _ (inv_feedSegs lvl p p1 _ hi h1) (by intro t ht; simp at ht; exact ⟨_, ht⟩)
    · cases h

theorem inv_init (lvl : List Str) : Inv lvl {} := ⟨rfl, by intro e he; cases he⟩

/-! ### the scanner loses no text -/

theorem spanP_append (p : Char → Bool) (s : Str) : (spanP p s).1 ++ (spanP p s).2 = s := by
  induction s with
  | nil => rfl
  | cons c r ih =>
    unfold spanP
    split
    · simp [ih]
    · rfl

theorem tagBody_lossless (pre r2 inner r' : Str) (h : tagBody pre r2 = some (inner, r')) :
    pre ++ r2 = inner ++ '>' :: r' ∧ r'.length < r2.length := by
  unfold tagBody at h
  split at h
  · rename_i body r4 hsp
    injection h with h
    injection h with h1 h2
    subst h1; subst h2
    have e := spanP_append isTagChar r2
    rw [hsp] at e
    constructor
    · rw [← e]; simp
    · rw [← e]; simp; omega
  · cases h

theorem tagPre_lossless (slash r1 inner r' : Str) (h : tagPre slash r1 = some (inner, r')) :
    slash ++ r1 = inner ++ '>' :: r' ∧ r'.length < r1.length := by
  unfold tagPre at h
  split at h
  · split at h
    · have := tagBody_lossless _ _ _ _ h
      constructor
      · rw [← this.1]; simp
      · have := this.2; simp; omega
    · exact tagBody_lossless _ _ _ _ h
  · exact tagBody_lossless _ _ _ _ h

theorem tagAt_lossless (rest inner r' : Str) (h : tagAt rest = some (inner, r')) :
    rest = inner ++ '>' :: r' ∧ r'.length < rest.length := by
  unfold tagAt at h
  split at h
  · have := tagPre_lossless _ _ _ _ h
    constructor
    · rw [← this.1]; simp
    · have := this.2; simp; omega
  · have := tagPre_lossless _ _ _ _ h
    simpa using this

/-- the text a segment list stands for -/
def unscan (segs : List Seg) (tail : Str) : Str :=
  (segs.flatMap fun s => s.pre ++ bs s.nb ++ '<' :: s.inner ++ ['>']) ++ tail

theorem bs_succ (n : Nat) : bs (n + 1) = bs n ++ ['\\'] := by
  simp [bs, List.replicate_succ']

theorem scanFuel_lossless (fuel : Nat) (acc : Str) (n : Nat) (s : Str) (hf : s.length < fuel) :
    unscan (scanFuel fuel acc n s).1 (scanFuel fuel acc n s).2 = acc ++ bs n ++ s := by
  induction fuel generalizing acc n s with
  | zero => omega
  | succ fuel ih =>
    cases s with
    | nil => simp [scanFuel, unscan]
    | cons c rest =>
      have hr : rest.length < fuel := by simp at hf; omega
      unfold scanFuel
      split
      · rename_i hc
        have hc' : c = '\\' := by simpa using hc
        rw [ih _ _ _ hr, bs_succ, hc']; simp
      · split
        · rename_i hc
          have hc' : c = '<' := by simpa using hc
          split
          · rename_i inner rest' hta
            have hl := tagAt_lossless _ _ _ hta
            have := ih [] 0 rest' (by omega)
            simp only [unscan, List.flatMap_cons] at this ⊢
            rw [List.append_assoc, this, hc', hl.1]
            simp [bs]
          · rw [ih _ _ _ hr]; simp [bs]
        · rw [ih _ _ _ hr]; simp [bs]

/-- `finditer` cuts the text into literal pieces and tags without losing or inventing a character -/
theorem scan_lossless (s : Str) : unscan (scan s).1 (scan s).2 = s := by
  have := scanFuel_lossless (s.length + 1) [] 0 s (by omega)
  simpa [scan, bs] using this

/-! ### tokens produced from ESC-free text are clean -/

def NoEsc (s : Str) : Prop := ∀ c ∈ s, c ≠ ESC

instance (s : Str) : Decidable (NoEsc s) := by unfold NoEsc; infer_instance

structure Clean (p : P) : Prop where
  toks : ∀ t ∈ p.tokens, TokClean t
  stk : ∀ e ∈ p.stack, TokClean e.2

theorem bs_noEsc (n : Nat) : NoEsc (bs n) := by
  intro c hc
  simp [bs] at hc
  rw [hc.2]; decide

theorem noEsc_append {a b : Str} (ha : NoEsc a) (hb : NoEsc b) : NoEsc (a ++ b) := by
  intro c hc
  rcases List.mem_append.mp hc with h | h
  · exact ha c h
  · exact hb c h

theorem clean_add (p : P) (ts : List Tok) (hp : Clean p) (ht : ∀ t ∈ ts, TokClean t) :
    Clean { p with tokens := p.tokens ++ ts } := by
  refine ⟨?_, hp.stk⟩
  intro t h
  rcases List.mem_append.mp h with h | h
  · exact hp.toks t h
  · exact ht t h

theorem clean_feedTag (p p' : P) (inner : Str) (hp : Clean p) (h : feedTag p inner = .ok p') : Clean p' := by
  unfold feedTag at h
  split at h
  · split at h
    · rename_i top tk below hst
      split at h
      · injection h with h; subst h
        have hb : ∀ e ∈ below, TokClean e.2 := fun e he => hp.stk e (by rw [hst]; simp [he])
        refine ⟨?_, hb⟩
        intro t ht
        simp only [List.mem_append, List.mem_map, List.mem_reverse, List.mem_singleton] at ht
        rcases ht with (ht | ht) | ⟨e, he, rfl⟩
        · exact hp.toks t ht
        · subst ht; trivial
        · exact hb e he
      · cases h
    · cases h
  · split at h
    · injection h with h; subst h
      refine ⟨?_, ?_⟩
      · intro t ht
        simp only [List.mem_append, List.mem_singleton] at ht
        rcases ht with ht | ht
        · exact hp.toks t ht
        · subst ht; trivial
      · intro e he
        simp only [List.mem_cons] at he
        rcases he with rfl | he
        · trivial
        · exact hp.stk e he
    · split at h
      · rename_i a ha
        injection h with h; subst h
        have hs : IsSgr a := getAnsiCode_isSgr _ a ha
        refine ⟨?_, ?_⟩
        · intro t ht
          simp only [List.mem_append, List.mem_singleton] at ht
          rcases ht with ht | ht
          · exact hp.toks t ht
          · subst ht; exact hs
        · intro e he
          simp only [List.mem_cons] at he
          rcases he with rfl | he
          · exact hs
          · exact hp.stk e he
      · cases h

theorem clean_feedSeg (p p' : P) (s : Seg) (hp : Clean p) (h1 : NoEsc s.pre) (h2 : NoEsc s.inner)
    (h : feedSeg p s = .ok p') : Clean p' := by
  unfold feedSeg at h
  split at h
  · injection h with h; subst h
    refine clean_add p _ hp ?_
    intro t ht
    simp only [List.mem_cons, List.not_mem_nil, or_false] at ht
    rcases ht with rfl | rfl
    · exact h1
    · refine noEsc_append (bs_noEsc _) ?_
      intro c hc
      simp only [List.mem_cons, List.mem_append, List.not_mem_nil, or_false] at hc
      rcases hc with (rfl | hc) | rfl
      · decide
      · exact h2 c hc
      · decide
  · refine clean_feedTag _ p' s.inner ?_ h
    refine clean_add p _ hp ?_
    intro t ht
    simp only [List.mem_cons] at ht
    rcases ht with rfl | ht
    · exact h1
    · split at ht
      · simp only [List.mem_cons, List.not_mem_nil, or_false] at ht
        subst ht; exact bs_noEsc _
      · cases ht

theorem clean_feedSegs (p p' : P) (segs : List Seg) (hp : Clean p)
    (hs : ∀ s ∈ segs, NoEsc s.pre ∧ NoEsc s.inner) (h : feedSegs p segs = .ok p') : Clean p' := by
  induction segs generalizing p with
  | nil => simp [feedSegs] at h; subst h; exact hp
  | cons s r ih =>
    simp only [feedSegs] at h
    split at h
    · rename_i p1 h1
      have := hs s (by simp)
      exact ih p1 (clean_feedSeg p p1 s hp this.1 this.2 h1) (fun s' h' => hs s' (by simp [h'])) h
    · cases h

theorem scan_noEsc (s : Str) (h : NoEsc s) :
    (∀ sg ∈ (scan s).1, NoEsc sg.pre ∧ NoEsc sg.inner) ∧ NoEsc (scan s).2 := by
  have e := scan_lossless s
  constructor
  · intro sg hsg
    constructor
    · intro c hc
      apply h c
      rw [← e]
      simp only [unscan, List.mem_append, List.mem_flatMap]
      exact Or.inl ⟨sg, hsg, by simp [hc]⟩
    · intro c hc
      apply h c
      rw [← e]
      simp only [unscan, List.mem_append, List.mem_flatMap]
      exact Or.inl ⟨sg, hsg, by simp [hc]⟩
  · intro c hc
    apply h c
    rw [← e]
    simp only [unscan, List.mem_append]
    exact Or.inr hc

theorem clean_feed (p p' : P) (text : Str) (raw : Bool) (hp : Clean p) (ht : NoEsc text)
    (h : feed p text raw = .ok p') : Clean p' := by
  unfold feed at h
  split at h
  · injection h with h; subst h
    exact clean_add p _ hp (by intro t h; simp at h; subst h; exact ht)
  · have hs := scan_noEsc text ht
    split at h
    rename_i segs tail hsc
    rw [hsc] at hs
    split at h
    · rename_i p1 h1
      injection h with h; subst h
      exact clean_add p1 _ (clean_feedSegs p p1 segs hp hs.1 h1) (by intro t h; simp at h; subst h; exact hs.2)
    · cases h

theorem clean_init : Clean {} :=
  { toks := by intro t h; simp at h, stk := by intro e h; simp at h }

/-! ### handler level -/

/-- a colour token that is clean: an SGR sequence or the level marker -/
def ColClean (t : Tok) : Prop := TokClean t ∧ Tok.isColor t = true

theorem unansi_colorToks (lvl : Str) (ct : List Tok) (r : Str) (hl : IsSgrSeq lvl) (hc : ∀ t ∈ ct, ColClean t) :
    unansiGo .normal ((ct.map (Tok.valueL lvl)).flatten ++ r) = unansiGo .normal r := by
  induction ct with
  | nil => rfl
  | cons t ts ih =>
    have ht := hc t (by simp)
    have ih' := ih (fun t h => hc t (by simp [h]))
    simp only [List.map_cons, List.flatten_cons, List.append_assoc]
    cases t with
    | text s => have := ht.2; simp [Tok.isColor] at this
    | closing => have := ht.2; simp [Tok.isColor] at this
    | ansi a => simp only [Tok.valueL, Tok.value]; rw [unansi_sgr a _ ht.1]; exact ih'
    | level => simp only [Tok.valueL]; rw [unansi_sgrSeq lvl _ hl]; exact ih'

theorem unansi_wrap (lvl : Str) (ct toks : List Tok) (r : Str) (hl : IsSgrSeq lvl)
    (hc : ∀ t ∈ ct, ColClean t) (ht : ∀ t ∈ toks, TokClean t) :
    unansiGo .normal (wrap lvl ct toks ++ r) = strip toks ++ unansiGo .normal r := by
  induction toks with
  | nil => rfl
  | cons t ts ih =>
    have h1 := ht t (by simp)
    have ih' := ih (fun t h => ht t (by simp [h]))
    cases t with
    | text s =>
      simp only [wrap, Tok.valueL, Tok.value, strip, List.append_assoc]
      rw [unansi_text s _ h1, ih']
    | ansi a =>
      simp only [wrap, Tok.valueL, Tok.value, strip, List.append_assoc]
      rw [unansi_sgr a _ h1, ih']
    | level =>
      simp only [wrap, Tok.valueL, strip, List.append_assoc]
      rw [unansi_sgrSeq lvl _ hl, ih']
    | closing =>
      simp only [wrap, strip, List.append_assoc]
      rw [unansi_sgr _ _ closing_isSgr, unansi_colorToks lvl ct _ hl hc, ih']

/-- cleanliness of a prepared format -/
def FClean : FTok → Prop
  | .tok (.text s) => NoEsc (unbrace s)
  | .tok t => TokClean t
  | .fld _ => True

/-- the guard of F10: every `{message}` field has an empty format spec (a conversion makes the model
refuse the format, so it is excluded by the success hypotheses) -/
def MessagePlain (ftoks : List FTok) : Prop := ∀ f, FTok.fld f ∈ ftoks → f.isMessage = true → f.spec = []

theorem strFormat_empty (s : Str) : strFormat [] s = .ok s := by simp [strFormat]

theorem render_visible_eq (lvl : Str) (mt : List Tok) (ftoks : List FTok) (ms : List (List Tok)) (vs : List Str)
    (outC outP : Str) (hl : IsSgrSeq lvl) (hmt : ∀ t ∈ mt, TokClean t) (hf : ∀ t ∈ ftoks, FClean t)
    (hms : ∀ ct ∈ ms, ∀ t ∈ ct, ColClean t) (hvs : ∀ v ∈ vs, NoEsc v) (hg : MessagePlain ftoks)
    (hC : renderColored lvl mt ftoks ms vs = .ok outC) (hP : renderPlain (strip mt) ftoks vs = .ok outP) :
    unansi outC = outP := by
  induction ftoks generalizing ms vs outC outP with
  | nil =>
    simp [renderColored] at hC; simp [renderPlain] at hP; subst hC; subst hP; rfl
  | cons ft r ih =>
    have hr : ∀ t ∈ r, FClean t := fun t h => hf t (by simp [h])
    have hgr : MessagePlain r := fun f h => hg f (by simp [h])
    have hft := hf ft (by simp)
    cases ft with
    | tok t =>
      cases t with
      | text s =>
        simp only [renderColored, renderPlain] at hC hP
        cases hrc : renderColored lvl mt r ms vs with
        | error e => rw [hrc] at hC; cases hC
        | ok oc =>
          cases hrp : renderPlain (strip mt) r vs with
          | error e => rw [hrp] at hP; cases hP
          | ok op =>
            rw [hrc] at hC; rw [hrp] at hP
            simp [Except.map] at hC hP; subst hC; subst hP
            simp only [unansi]
            rw [unansi_text _ _ hft]; congr 1
            exact ih ms vs oc op hr hms hvs hgr hrc hrp
      | ansi a =>
        simp only [renderColored, renderPlain] at hC hP
        cases hrc : renderColored lvl mt r ms vs with
        | error e => rw [hrc] at hC; cases hC
        | ok oc =>
          rw [hrc] at hC
          simp [Except.map] at hC; subst hC
          simp only [unansi, Tok.valueL, Tok.value]
          rw [unansi_sgr a _ hft]
          exact ih ms vs oc outP hr hms hvs hgr hrc hP
      | level =>
        simp only [renderColored, renderPlain] at hC hP
        cases hrc : renderColored lvl mt r ms vs with
        | error e => rw [hrc] at hC; cases hC
        | ok oc =>
          rw [hrc] at hC
          simp [Except.map] at hC; subst hC
          simp only [unansi, Tok.valueL]
          rw [unansi_sgrSeq lvl _ hl]
          exact ih ms vs oc outP hr hms hvs hgr hrc hP
      | closing =>
        simp only [renderColored, renderPlain] at hC hP
        cases hrc : renderColored lvl mt r ms vs with
        | error e => rw [hrc] at hC; cases hC
        | ok oc =>
          rw [hrc] at hC
          simp [Except.map] at hC; subst hC
          simp only [unansi, Tok.valueL, Tok.value]
          rw [unansi_sgr _ _ closing_isSgr]
          exact ih ms vs oc outP hr hms hvs hgr hrc hP
    | fld f =>
      simp only [renderColored, renderPlain] at hC hP
      by_cases hm : f.isMessage = true
      · have hspec : f.spec = [] := hg f (by simp) hm
        simp only [hm, if_true, hspec, strFormat_empty] at hC hP
        split at hC
        · cases hC
        · rename_i hconv
          simp only [hconv] at hP
          cases ms with
          | nil => simp at hC
          | cons ct ms' =>
            simp only at hC
            cases hrc : renderColored lvl mt r ms' vs with
            | error e => rw [hrc] at hC; simp at hC
            | ok oc =>
              cases hrp : renderPlain (strip mt) r vs with
              | error e => rw [hrp] at hP; simp at hP
              | ok op =>
                rw [hrc] at hC; rw [hrp] at hP
                simp at hC hP; subst hC; subst hP
                simp only [unansi]
                rw [unansi_wrap lvl ct mt _ hl (hms ct (by simp)) hmt]; congr 1
                exact ih ms' vs oc op hr (fun c h => hms c (by simp [h])) hvs hgr hrc hrp
      · simp only [hm] at hC hP
        cases vs with
        | nil => simp at hC
        | cons v vs' =>
          simp only at hC hP
          cases hrc : renderColored lvl mt r ms vs' with
          | error e => rw [hrc] at hC; simp [Except.map] at hC
          | ok oc =>
            cases hrp : renderPlain (strip mt) r vs' with
            | error e => rw [hrp] at hP; simp [Except.map] at hP
            | ok op =>
              rw [hrc] at hC; rw [hrp] at hP
              simp [Except.map] at hC hP; subst hC; subst hP
              simp only [unansi]
              rw [unansi_text v _ (hvs v (by simp))]; congr 1
              exact ih ms vs' oc op hr hms (fun w h => hvs w (by simp [h])) hgr hrc hrp

/-! ### a prepared format is clean -/

def StackOK (stack : List (Str × Tok)) : Prop := ∀ e ∈ stack, ColClean e.2

theorem stackOK_feedTag (p p' : P) (inner : Str) (hs : StackOK p.stack) (h : feedTag p inner = .ok p') :
    StackOK p'.stack := by
  unfold feedTag at h
  split at h
  · split at h
    · rename_i top tk below hst
      split at h
      · injection h with h; subst h
        exact fun e he => hs e (by rw [hst]; simp [he])
      · cases h
    · cases h
  · split at h
    · injection h with h; subst h
      intro e he
      simp only [List.mem_cons] at he
      rcases he with rfl | he
      · exact ⟨trivial, rfl⟩
      · exact hs e he
    · split at h
      · rename_i a ha
        injection h with h; subst h
        intro e he
        simp only [List.mem_cons] at he
        rcases he with rfl | he
        · exact ⟨getAnsiCode_isSgr _ a ha, rfl⟩
        · exact hs e he
      · cases h

theorem stackOK_feedSegs (p p' : P) (segs : List Seg) (hs : StackOK p.stack) (h : feedSegs p segs = .ok p') :
    StackOK p'.stack := by
  induction segs generalizing p with
  | nil => simp [feedSegs] at h; subst h; exact hs
  | cons s r ih =>
    simp only [feedSegs] at h
    split at h
    · rename_i p1 h1
      refine ih p1 ?_ h
      unfold feedSeg at h1
      split at h1
      · injection h1 with h1; subst h1; exact hs
      · exact stackOK_feedTag _ p1 s.inner (by exact hs) h1
    · cases h

theorem stackOK_feed (p p' : P) (text : Str) (raw : Bool) (hs : StackOK p.stack) (h : feed p text raw = .ok p') :
    StackOK p'.stack := by
  unfold feed at h
  split at h
  · injection h with h; subst h; exact hs
  · split at h
    rename_i segs tail hsc
    split at h
    · rename_i p1 h1
      injection h with h; subst h
      exact stackOK_feedSegs p p1 segs hs h1
    · cases h

theorem unbrace_mem (s : Str) : ∀ c ∈ unbrace s, c ∈ s := by
  intro c
  fun_induction unbrace s with
  | case1 r ih => intro h; simp only [List.mem_cons] at h ⊢; rcases h with h | h; exact Or.inl h; exact Or.inr (Or.inr (ih h))
  | case2 r ih => intro h; simp only [List.mem_cons] at h ⊢; rcases h with h | h; exact Or.inl h; exact Or.inr (Or.inr (ih h))
  | case3 d r _ _ ih => intro h; simp only [List.mem_cons] at h ⊢; rcases h with h | h; exact Or.inl h; exact Or.inr (ih h)
  | case4 => intro h; exact h

theorem redouble_noEsc (lit : Str) (h : NoEsc lit) : NoEsc (redouble lit) := by
  unfold redouble
  split
  · rename_i c hc
    split
    · rename_i hb
      refine noEsc_append h ?_
      intro d hd
      simp only [List.mem_cons, List.not_mem_nil, or_false] at hd
      subst hd
      simp at hb
      rcases hb with rfl | rfl <;> decide
    · exact h
  · exact h

theorem prepareChunks_clean (stack : List (Str × Tok)) (chunks : List Chunk) (ftoks : List FTok)
    (msgs : List (List Tok)) (hs : StackOK stack) (hl : ∀ c ∈ chunks, NoEsc c.lit)
    (h : prepareChunks stack chunks = .ok (ftoks, msgs)) :
    (∀ t ∈ ftoks, FClean t) ∧ (∀ ct ∈ msgs, ∀ t ∈ ct, ColClean t) ∧
    (∀ f, FTok.fld f ∈ ftoks → ∃ c ∈ chunks, c.field = some f) := by
  induction chunks generalizing stack ftoks msgs with
  | nil =>
    simp only [prepareChunks] at h
    split at h
    · injection h with h; injection h with h1 h2; subst h1; subst h2
      exact ⟨by intro t h; simp at h, by intro t h; simp at h, by intro f h; simp at h⟩
    · cases h
  | cons c r ih =>
    simp only [prepareChunks] at h
    split at h
    · cases h
    · rename_i p hp
      have hlit := redouble_noEsc c.lit (hl c (by simp))
      have hcl : Clean p := clean_feed _ p _ false
        { toks := by intro t h; simp at h, stk := fun e he => (hs e he).1 } hlit hp
      have hso : StackOK p.stack := stackOK_feed _ p _ false hs hp
      have hhere : ∀ t ∈ p.tokens.map FTok.tok, FClean t := by
        intro t ht
        simp only [List.mem_map] at ht
        obtain ⟨tk, htk, rfl⟩ := ht
        have := hcl.toks tk htk
        cases tk with
        | text s => exact fun c hc => this c (unbrace_mem s c hc)
        | ansi a => exact this
        | level => trivial
        | closing => trivial
      have hct : ∀ t ∈ p.colorTokens, ColClean t := by
        intro t ht
        simp only [P.colorTokens, List.mem_map, List.mem_reverse] at ht
        obtain ⟨e, he, rfl⟩ := ht
        exact hso e he
      split at h
      · cases h
      · rename_i toks ms hrec
        obtain ⟨i1, i2, i3⟩ := ih p.stack toks ms hso (fun c h => hl c (by simp [h])) hrec
        have lift : ∀ f, FTok.fld f ∈ toks → ∃ c' ∈ c :: r, c'.field = some f := by
          intro f hf
          obtain ⟨c', hc', e⟩ := i3 f hf
          exact ⟨c', by simp [hc'], e⟩
        have nofld : ∀ f, FTok.fld f ∈ p.tokens.map FTok.tok → False := by
          intro f hf
          simp only [List.mem_map] at hf
          obtain ⟨tk, _, e⟩ := hf
          cases e
        split at h
        · injection h with h; injection h with h1 h2; subst h1; subst h2
          refine ⟨?_, i2, ?_⟩
          · intro t ht
            rcases List.mem_append.mp ht with ht | ht
            · exact hhere t ht
            · exact i1 t ht
          · intro f hf
            rcases List.mem_append.mp hf with hf | hf
            · exact (nofld f hf).elim
            · exact lift f hf
        · rename_i f hfield
          have fldcase : ∀ g, FTok.fld g ∈ p.tokens.map FTok.tok ++ FTok.fld f :: toks →
              ∃ c' ∈ c :: r, c'.field = some g := by
            intro g hg
            rcases List.mem_append.mp hg with hg | hg
            · exact (nofld g hg).elim
            · simp only [List.mem_cons] at hg
              rcases hg with hg | hg
              · injection hg with hg; subst hg
                exact ⟨c, by simp, hfield⟩
              · exact lift g hg
          have tokcase : ∀ t ∈ p.tokens.map FTok.tok ++ FTok.fld f :: toks, FClean t := by
            intro t ht
            rcases List.mem_append.mp ht with ht | ht
            · exact hhere t ht
            · simp only [List.mem_cons] at ht
              rcases ht with rfl | ht
              · trivial
              · exact i1 t ht
          split at h
          · injection h with h; injection h with h1 h2; subst h1; subst h2
            refine ⟨tokcase, ?_, fldcase⟩
            intro ct hct'
            simp only [List.mem_cons] at hct'
            rcases hct' with rfl | hct'
            · exact hct
            · exact i2 ct hct'
          · injection h with h; injection h with h1 h2; subst h1; subst h2
            exact ⟨tokcase, i2, fldcase⟩

end Markup.Lemmas
