import LoguruModel.Markup.Handlers
import LoguruModel.Markup.Lemmas
/-
Markup (C06) – invariant of a core with several handlers sharing the level table.
-/
namespace Markup.Lemmas
open Py Markup Markup.Spec

theorem find_assoc_eq {α} (k : Str) (v : α) (l : List (Str × α)) : find? k (assoc k v l) = some v := by
  induction l with
  | nil => simp [assoc, find?]
  | cons e r ih =>
    obtain ⟨k', v'⟩ := e
    simp only [assoc]
    split
    · simp [find?]
    · rename_i hne; simp [find?, hne, ih]

theorem find_assoc_ne {α} (k k2 : Str) (v : α) (l : List (Str × α)) (h : k2 ≠ k) :
    find? k2 (assoc k v l) = find? k2 l := by
  induction l with
  | nil => simp [assoc, find?]; intro e; exact (h e.symm).elim
  | cons e r ih =>
    obtain ⟨k', v'⟩ := e
    simp only [assoc]
    split
    · rename_i heq
      have : k' = k := by simpa using heq
      subst this
      have hne : ¬ (k' == k2) = true := by simpa using (fun e => h e.symm)
      simp [find?, hne]
    · by_cases hk : (k' == k2) = true
      · simp [find?, hk]
      · simp [find?, hk, ih]

theorem find_mem_keys {α} (k : Str) (v : α) (l : List (Str × α)) (h : find? k l = some v) : k ∈ l.map (·.1) := by
  induction l with
  | nil => simp [find?] at h
  | cons e r ih =>
    obtain ⟨k', v'⟩ := e
    simp only [find?] at h
    split at h
    · rename_i heq
      have : k' = k := by simpa using heq
      simp [this]
    · simp [ih h]

/-- a handler that uses `_precolorized_formats` (colourising, static format) -/
def H.isStatic (h : H) : Prop := h.colorize = true ∧ h.dynamic = false

/-- the handler's cache agrees with the table `ansi` on every level of the table -/
def HOK (ansi : List (Str × Str)) (h : H) : Prop :=
  H.isStatic h → ∀ name a, find? name ansi = some a → find? name h.pre = some (colorize h.toks (some a))

theorem updateFormat_flags (ansi : List (Str × Str)) (h : H) (n : Str) :
    (h.updateFormat ansi n).toks = h.toks ∧ (h.updateFormat ansi n).colorize = h.colorize ∧
    (h.updateFormat ansi n).dynamic = h.dynamic := by
  unfold H.updateFormat
  split
  · exact ⟨rfl, rfl, rfl⟩
  · split <;> exact ⟨rfl, rfl, rfl⟩

theorem updateFormat_own (ansi : List (Str × Str)) (h : H) (n : Str) : (h.updateFormat ansi n).own = h.own := by
  unfold H.updateFormat
  split
  · rfl
  · split <;> rfl

theorem init_own (ansi : List (Str × Str)) (toks : List Tok) (c d : Bool) : (H.init ansi toks c d).own = none := by
  have : ∀ (ns : List Str) (h : H), (ns.foldl (fun h n => h.updateFormat ansi n) h).own = h.own := by
    intro ns
    induction ns with
    | nil => intro h; rfl
    | cons n r ih => intro h; simp only [List.foldl]; rw [ih, updateFormat_own]
  unfold H.init
  simp only
  split
  · rfl
  · split
    · rw [this]
    · rfl

/-- what one `update_format(n)` does to the cache of a static colourising handler -/
theorem updateFormat_pre (ansi : List (Str × Str)) (h : H) (n : Str) (hs : H.isStatic h) (name : Str) :
    find? name (h.updateFormat ansi n).pre =
      if name = n then (match find? n ansi with
        | some a => some (colorize h.toks (some a))
        | none => find? name h.pre)
      else find? name h.pre := by
  obtain ⟨hc, hd⟩ := hs
  unfold H.updateFormat
  simp only [hc, hd, Bool.not_true, Bool.or_false, Bool.false_eq_true, if_false]
  by_cases hn : name = n
  · subst hn
    simp only [if_true]
    cases find? name ansi with
    | none => rfl
    | some a => simp [find_assoc_eq]
  · simp only [hn, if_false]
    cases find? n ansi with
    | none => rfl
    | some a => simp [find_assoc_ne _ _ _ _ hn]

/-- `__init__`'s loop: after `update_format` over the names `ns`, every level of the table that is in `ns` (or was
right before) is right -/
theorem init_loop (ansi : List (Str × Str)) (ns : List Str) (h : H) (hs : H.isStatic h) (name a : Str)
    (ha : find? name ansi = some a)
    (hin : name ∈ ns ∨ find? name h.pre = some (colorize h.toks (some a))) :
    find? name (ns.foldl (fun h n => h.updateFormat ansi n) h).pre = some (colorize h.toks (some a)) ∧
    (ns.foldl (fun h n => h.updateFormat ansi n) h).toks = h.toks := by
  induction ns generalizing h with
  | nil =>
    simp only [List.foldl]
    rcases hin with hin | hin
    · cases hin
    · exact ⟨hin, trivial⟩
  | cons n r ih =>
    simp only [List.foldl]
    obtain ⟨f1, f2, f3⟩ := updateFormat_flags ansi h n
    have hs' : H.isStatic (h.updateFormat ansi n) := ⟨by rw [f2]; exact hs.1, by rw [f3]; exact hs.2⟩
    have hpre := updateFormat_pre ansi h n hs name
    have hin' : name ∈ r ∨ find? name (h.updateFormat ansi n).pre = some (colorize (h.updateFormat ansi n).toks (some a)) := by
      by_cases hn : name = n
      · right
        rw [hpre, f1]; subst hn; simp [ha]
      · rcases hin with hin | hin
        · simp at hin
          rcases hin with hin | hin
          · exact absurd hin hn
          · exact Or.inl hin
        · right; rw [hpre, f1]; simp [hn, hin]
    have := ih (h.updateFormat ansi n) hs' hin'
    rw [f1] at this
    exact this

theorem init_ok (ansi : List (Str × Str)) (toks : List Tok) (c d : Bool) : HOK ansi (H.init ansi toks c d) := by
  intro hs name a ha
  cases d with
  | true => exact absurd hs.2 (by simp [H.init])
  | false =>
    cases c with
    | false => exact absurd hs.1 (by simp [H.init])
    | true =>
      have h0 : H.isStatic ({ toks := toks, colorize := true, dynamic := false } : H) := ⟨rfl, rfl⟩
      have := init_loop ansi (ansi.map (·.1)) { toks := toks, colorize := true, dynamic := false } h0 name a ha
        (Or.inl (find_mem_keys name a ansi ha))
      simp only [H.init, Bool.false_eq_true, if_false, if_true]
      rw [this.2]; exact this.1

theorem init_flags (ansi : List (Str × Str)) (toks : List Tok) (c d : Bool) :
    (H.init ansi toks c d).colorize = c ∧ (H.init ansi toks c d).dynamic = d := by
  unfold H.init
  simp only
  split
  · exact ⟨rfl, rfl⟩
  · split
    · have : ∀ (ns : List Str) (h : H), (ns.foldl (fun h n => h.updateFormat ansi n) h).colorize = h.colorize ∧
          (ns.foldl (fun h n => h.updateFormat ansi n) h).dynamic = h.dynamic := by
        intro ns
        induction ns with
        | nil => intro h; exact ⟨rfl, rfl⟩
        | cons n r ih =>
          intro h
          simp only [List.foldl]
          obtain ⟨_, f2, f3⟩ := updateFormat_flags ansi h n
          have := ih (h.updateFormat ansi n)
          rw [f2, f3] at this; exact this
      exact this _ _
    · exact ⟨rfl, rfl⟩

/-- `Logger.level(name, color=…)` on one handler: the cache follows the NEW table -/
theorem level_ok (ansi : List (Str × Str)) (h : H) (name a : Str) (hok : HOK ansi h) :
    HOK (assoc name a ansi) (h.updateFormat (assoc name a ansi) name) := by
  intro hs name2 a2 ha2
  obtain ⟨f1, f2, f3⟩ := updateFormat_flags (assoc name a ansi) h name
  have hs0 : H.isStatic h := ⟨by rw [← f2]; exact hs.1, by rw [← f3]; exact hs.2⟩
  rw [updateFormat_pre _ h name hs0 name2, f1]
  by_cases hn : name2 = name
  · subst hn
    rw [find_assoc_eq] at ha2
    injection ha2 with ha2; subst ha2
    simp [find_assoc_eq]
  · rw [find_assoc_ne _ _ _ _ hn] at ha2
    simp only [hn, if_false]
    exact hok hs0 name2 a2 ha2

/-- every handler of the core reads the core's own table and agrees with it -/
def CoreOK (c : MCore) : Prop := ∀ ih ∈ c.handlers, ih.2.own = none ∧ HOK c.ansi ih.2

/-- histories whose copies keep the sharing -/
def _root_.Markup.MOp.sharing : MOp → Prop
  | .copy keeps => keeps = true
  | _ => True

theorem mstep_ok (c c' : MCore) (op : MOp) (hsh : op.sharing) (hok : CoreOK c) (h : mstep c op = .ok c') : CoreOK c' := by
  cases op with
  | add id toks cz dy =>
    simp only [mstep] at h
    injection h with h; subst h
    intro ih hm
    simp at hm
    rcases hm with hm | hm
    · exact hok ih hm
    · subst hm; exact ⟨init_own c.ansi toks cz dy, init_ok c.ansi toks cz dy⟩
  | level name color =>
    simp only [mstep] at h
    split at h
    · cases h
    · rename_i a ha
      injection h with h; subst h
      intro ih hm
      simp at hm
      obtain ⟨i0, h0, hm0, rfl⟩ := hm
      obtain ⟨hown, hh⟩ := hok (i0, h0) hm0
      have htab : h0.table (assoc name a c.ansi) = assoc name a c.ansi := by
        simp only [H.table]; simp only at hown; rw [hown]; rfl
      simp only [htab]
      exact ⟨by rw [updateFormat_own]; exact hown, level_ok c.ansi h0 name a hh⟩
  | remove id =>
    simp only [mstep] at h
    injection h with h; subst h
    intro ih hm
    simp at hm
    exact hok ih hm.1
  | copy keeps =>
    have hk : keeps = true := hsh
    subst hk
    simp only [mstep, if_true] at h
    injection h with h; subst h
    exact hok

theorem mrun_ok (c c' : MCore) (ops : List MOp) (hsh : ∀ op ∈ ops, op.sharing) (hok : CoreOK c)
    (h : mrun c ops = .ok c') : CoreOK c' := by
  induction ops generalizing c with
  | nil => simp [mrun] at h; subst h; exact hok
  | cons op r ih =>
    simp only [mrun] at h
    split at h
    · rename_i c1 h1
      exact ih c1 (fun o ho => hsh o (by simp [ho])) (mstep_ok c c1 op (hsh op (by simp)) hok h1) h
    · cases h

/-! ### one record shared by the handlers of a call -/

/-- what the theorem asks of a handler: clean prepared format (as `prepareChunks` delivers it), clean field values,
user code that does not put ESC into the message, and – for a colourising handler – the F10 guard -/
structure EHOK (h : EH) : Prop where
  ftoks : ∀ t ∈ h.ftoks, FClean t
  msgs : ∀ ct ∈ h.msgs, ∀ t ∈ ct, ColClean t
  vals : ∀ v ∈ h.vals, NoEsc v
  rewrite : ∀ s, NoEsc s → NoEsc (h.rewrite s)
  plain : MessagePlain h.ftoks

theorem emitOne_visible (lvl : Str) (mt : List Tok) (d : Bool) (msg : Str) (h : EH) (outC outP : Str)
    (hl : IsSgrSeq lvl) (hmt : ∀ t ∈ mt, TokClean t) (hmsg : NoEsc msg) (hok : EHOK h) (hc : h.colorize = true)
    (hC : (emitOne true lvl mt d msg h).2 = .ok outC) (hP : renderPlain (h.rewrite msg) h.ftoks h.vals = .ok outP) :
    unansi outC = outP := by
  simp only [emitOne, hc, Bool.not_true, Bool.false_eq_true, if_false, if_true] at hC
  split at hC
  · -- the coloured message was dropped: the record's text under the format's colours
    have hcl : ∀ t ∈ [Tok.text (h.rewrite msg)], TokClean t := by
      intro t ht; simp at ht; subst ht; exact hok.rewrite msg hmsg
    have hs : strip [Tok.text (h.rewrite msg)] = h.rewrite msg := by simp [strip]
    exact render_visible_eq lvl [.text (h.rewrite msg)] h.ftoks h.msgs h.vals outC outP hl hcl hok.ftoks hok.msgs
      hok.vals hok.plain hC (by rw [hs]; exact hP)
  · rename_i hne
    have hs : strip mt = h.rewrite msg := by simpa using hne
    exact render_visible_eq lvl mt h.ftoks h.msgs h.vals outC outP hl hmt hok.ftoks hok.msgs hok.vals hok.plain hC
      (by rw [hs]; exact hP)

theorem emitAll_visible (lvl : Str) (mt : List Tok) (d : Bool) (hl : IsSgrSeq lvl) (hmt : ∀ t ∈ mt, TokClean t) :
    ∀ (hs : List EH) (msg : Str), NoEsc msg → (∀ h ∈ hs, EHOK h) →
      ∀ (i : Nat) (h : EH) (outC outP : Str), hs[i]? = some h → h.colorize = true →
        (emitAll true lvl mt d msg hs)[i]? = some (.ok outC) → (plainAll msg hs)[i]? = some (.ok outP) →
        unansi outC = outP := by
  intro hs
  induction hs with
  | nil => intro msg _ _ i h outC outP hi; simp at hi
  | cons h0 r ih =>
    intro msg hmsg hok i h outC outP hi hc hC hP
    cases i with
    | zero =>
      simp only [List.getElem?_cons_zero, Option.some.injEq] at hi
      subst hi
      simp only [emitAll, plainAll, List.getElem?_cons_zero, Option.some.injEq] at hC hP
      exact emitOne_visible lvl mt d msg h0 outC outP hl hmt hmsg (hok h0 (by simp)) hc hC hP
    | succ j =>
      simp only [List.getElem?_cons_succ] at hi
      simp only [emitAll, plainAll, List.getElem?_cons_succ] at hC hP
      have hm1 : (emitOne true lvl mt d msg h0).1 = h0.rewrite msg := rfl
      rw [hm1] at hC
      exact ih (h0.rewrite msg) ((hok h0 (by simp)).rewrite msg hmsg) (fun x hx => hok x (by simp [hx]))
        j h outC outP hi hc hC hP

end Markup.Lemmas
