import LoguruModel.Emit.Base
import LoguruModel.Generated.EmitShape
import LoguruModel.Emit.Print
/-
Emit area (C04) – model of what happens to ONE message in ONE handler and of the loops around it,
under an arbitrary fault oracle.  Mirrors, in the code's order:

  loguru/_handler.py   Handler.emit (one try/except around every stage), _protected_lock,
                       Handler.stop, Handler.complete_queue, _queued_writer
  loguru/_error_interceptor.py   ErrorInterceptor.print
  loguru/_simple_sinks.py        StreamSink.write (write, flush), AsyncSink (task + done-callback)
  loguru/_logger.py    Logger._log's handler loop, Logger.remove, Logger.complete

The error-handling *shape* (which classes an `except` covers, what is in a `finally`, which arm
continues, what is published before `stop()`) is not written here: it is read from
`Emit.Gen` (Generated/EmitShape.lean, rewritten from /repo on every run).

Sequential model: one logging thread; the enqueue worker runs when the logging thread waits for it
(`complete`, `stop`).  A lock acquisition that could never succeed is the result `Res.blocked`.
-/
namespace Emit
open Py

/-- configuration of a handler, fixed by `logger.add(...)` -/
structure Cfg where
  id : Nat
  level : Nat := 0
  catch_ : Bool := true
  enqueue : Bool := false
  kind : SinkKind := .callable
  hasFilter : Bool := false
  dynamic : Bool := false
  serialize : Bool := false
  /-- a stream sink whose object has a callable `stop` attribute (`StreamSink._stoppable`) -/
  stoppable : Bool := true
  deriving DecidableEq, Repr, Inhabited

/-- what a sink may do with the logger from inside its `write` -/
inductive InnerAct where
  /-- `logger.info(...)`: message `j` -/
  | log (j : Nat)
  /-- `logger.remove(<id of the sink's own handler>)`; `k` indexes the fault oracle of `stop` -/
  | removeSelf (k : Nat)
  /-- `logger.complete()` -/
  | completeSelf
  deriving DecidableEq, Repr

/-- what `sys.stderr` is while a report is printed -/
inductive StderrMode where
  | ok | absent | fails (e : Err)
  /-- stderr accepts the report up to chunk `c` (excluded), whose `write` raises `e`: a pipe that breaks in the
      middle of a report -/
  | failsAt (c : Chunk) (e : Err)
  deriving DecidableEq, Repr, Inhabited

/-- everything the environment (user code, runtime) decides: the fault oracle and friends.
    First argument of every field: the index of the message / operation. -/
structure Env where
  /-- level number of message `i` -/
  level : Nat → Nat
  /-- message `i` carries an exception (so that exception formatting runs) -/
  hasExc : Nat → Bool
  /-- `fault i h st = some e`: stage `st` of handler `h` raises `e` while processing message `i` -/
  fault : Nat → Nat → Stage → Option Err
  /-- answer of handler `h`'s filter for message `i` when it does not raise -/
  accept : Nat → Nat → Bool
  /-- state of `sys.stderr` when handler `h` reports about message `i` -/
  stderr : Nat → Nat → StderrMode
  /-- `str(record)` raises for message `i` -/
  strFails : Nat → Bool
  /-- `reenter i h = [a₁, a₂, …]`: the sink of `h`, while writing message `i`, first uses the logger:
      logs a message, removes its own handler, or calls `complete()` -/
  reenter : Nat → Nat → List InnerAct
  /-- an event loop is available when a coroutine sink receives message `i` -/
  loop : Nat → Bool
  /-- message `i` is logged with `opt(raw=True)`: the handler's format is not applied -/
  raw : Nat → Bool := fun _ => false

inductive QItem where
  | msg (i : Nat)                 -- a formatted message
  | bad (i : Nat) (e : Err)       -- an item whose `get()` raises `e`
  | confirm                       -- `True`
  | sentinel                      -- `None`
  deriving DecidableEq, Repr

/-- mutable state of one handler -/
structure HState where
  lockHeld : Bool := false
  marker : Bool := false          -- `_lock_acquired.acquired` of the logging thread
  stopped : Bool := false
  sink : List Nat := []           -- messages the sink has received, in order
  queue : List QItem := []
  workerAlive : Bool := false
  tasks : List Nat := []          -- scheduled, not yet awaited coroutine tasks
  sinkStopped : Bool := false
  /-- still in `core.handlers` (only the registry-level model `Emit/Nested.lean` ever clears it: a sink that
      removes its own handler; the handler-level functions ignore it) -/
  published : Bool := true
  deriving DecidableEq, Repr, Inhabited

inductive Src where
  | emit | worker | task
  deriving DecidableEq, Repr

inductive Event where
  /-- one "--- Logging error in Loguru Handler #hid ---" block on stderr -/
  | report (hid : Nat) (msg : Option Nat) (kind : Err) (placeholder : Bool) (src : Src)
  /-- an exception handed to the event loop's exception handler by a done-callback -/
  | loopError (hid : Nat) (msg : Nat) (kind : Err)
  /-- a report that stderr accepted only in part: the chunks that were written (never empty, never all four) -/
  | partialReport (hid : Nat) (msg : Option Nat) (placeholder : Bool) (chunks : List Chunk) (src : Src)
  deriving DecidableEq, Repr

inductive Res where
  | ok | raised (e : Err) | blocked
  deriving DecidableEq, Repr, Inhabited

structure Ret where
  st : HState
  ev : List Event
  res : Res
  deriving Repr

abbrev Step := HState → Ret

/-- `stage st` exists for this handler / message -/
def stageActive (env : Env) (c : Cfg) (i : Nat) : Stage → Bool
  | .filter => c.hasFilter
  | .dynFormat => c.dynamic
  | .excFormat => env.hasExc i
  | .serialize => c.serialize
  -- the `is_raw` branch of `emit` emits the message as it is: no `format_map` there (`Gen.rawSkipsFormatMap`)
  | .formatMap => !(Gen.rawSkipsFormatMap && env.raw i)
  | _ => true

def faultAt (env : Env) (c : Cfg) (i : Nat) (st : Stage) : Option Err :=
  if stageActive env c i st then env.fault i c.id st else none

/-- the write-level oracle (`Emit/Print.lean`) a stderr mode stands for -/
def oracleOf (m : StderrMode) (strFails : Bool) : Print.Oracle :=
  match m with
  | .ok => ⟨true, fun _ => none, strFails⟩
  | .absent => ⟨false, fun _ => none, strFails⟩
  | .fails e => ⟨true, fun _ => some e, strFails⟩
  | .failsAt c e => ⟨true, fun c' => if c' = c then some e else none, strFails⟩

/-- what a run of `print` shows on stderr, as events: a complete report, nothing, or a partial report -/
def eventsOf (o : Print.Out) (hid : Nat) (msg : Option Nat) (kind : Err) (src : Src) : List Event :=
  if o.chunks = Print.fullReport then [.report hid msg kind o.placeholder src]
  else if o.chunks = [] then []
  else [.partialReport hid msg o.placeholder o.chunks src]

/-- `str(record)` raises for the record `print` is given (`None` for a failing `get()`) -/
def strFailsOf (env : Env) : Option Nat → Bool
  | some m => env.strFails m
  | none => false

/-- `ErrorInterceptor.print`: the events it produces and the exception it lets escape.  The three whole-stream
    modes are spelled out; a stream that breaks in the middle of the report is the write-level program
    `Gen.printProgram` run by `Print.printP` – and `print_eq_printP` (Emit/Lemmas.lean) shows that the three
    spelled-out arms are that same program too. -/
def print (env : Env) (i hid : Nat) (msg : Option Nat) (kind : Err) (src : Src) : List Event × Option Err :=
  match env.stderr i hid with
  | .absent => if Gen.printSkipsWhenNoStderr then ([], none) else ([], some .attributeError)
  | .fails e => if Gen.printSwallows e then ([], none) else ([], some e)
  | .ok =>
    let ph := match msg with
      | some m => env.strFails m
      | none => false
    if ph && !Gen.printGuardsRecordStr then ([], some .other)
    else ([.report hid msg kind ph src], none)
  | .failsAt c e =>
    let o := Print.printP Gen.printProgram (oracleOf (.failsAt c e) (strFailsOf env msg))
    (eventsOf o hid msg kind src, o.escapes)

inductive Pre where
  | pass | skip | fail (e : Err)
  deriving DecidableEq, Repr

/-- the stages before the lock, in the order given -/
def runPre (env : Env) (c : Cfg) (i : Nat) : List Stage → Pre
  | [] => .pass
  | st :: rest =>
    match faultAt env c i st with
    | some e => .fail e
    | none =>
      if st = .filter && c.hasFilter && !env.accept i c.id then .skip
      else runPre env c i rest

/-- the sink proper (no locking): `sink.write(message)` -/
def rawWrite (env : Env) (c : Cfg) (i : Nat) (s : HState) : HState × Res :=
  match env.fault i c.id .write with
  | some e =>
    -- a coroutine sink fails while scheduling its task (closed loop …): `AsyncSink.write` lets it out
    -- unless the scheduling sits under its `except RuntimeError: return` (`Gen.asyncScheduleSwallows`)
    if c.kind = .coroutine && Gen.asyncScheduleSwallows e then (s, .ok) else (s, .raised e)
  | none =>
    match c.kind with
    | .coroutine => (if env.loop i then { s with tasks := s.tasks ++ [i] } else s, .ok)
    | .streamFlush =>
      if Gen.streamFlushAfterWrite then
        let s' := { s with sink := s.sink ++ [i] }
        match env.fault i c.id .flush with
        | some e => (s', .raised e)
        | none => (s', .ok)
      else
        match env.fault i c.id .flush with
        | some e => (s, .raised e)
        | none => ({ s with sink := s.sink ++ [i] }, .ok)
    | _ => ({ s with sink := s.sink ++ [i] }, .ok)

/-- the logging calls a sink makes to its own handler, one after the other; the first one that raises
    ends the sink's `write` -/
def runInner (inner : InnerAct → Step) : List InnerAct → Step
  | [], s => ⟨s, [], .ok⟩
  | j :: rest, s =>
    let r := inner j s
    match r.res with
    | .ok => let t := runInner inner rest r.st; ⟨t.st, r.ev ++ t.ev, t.res⟩
    | _ => r

/-- `sink.write` on the logging thread; the sink may first log to its own handler -/
def sinkWrite (env : Env) (c : Cfg) (i : Nat) (inner : InnerAct → Step) : Step := fun s =>
  let r1 := runInner inner (env.reenter i c.id) s
  match r1.res with
  | .ok => let w := rawWrite env c i r1.st; ⟨w.1, r1.ev, w.2⟩
  | _ => r1

/-- what travels through the pipe for message `i`: an item whose unpickling will fail is `bad` -/
def queuedItem (env : Env) (c : Cfg) (i : Nat) : QItem :=
  match env.fault i c.id .get with
  | some e => .bad i e
  | none => .msg i

/-- `self._queue.put(str_record)` -/
def queuePut (env : Env) (c : Cfg) (i : Nat) : Step := fun s =>
  match env.fault i c.id .put with
  | some e => ⟨s, [], .raised e⟩
  | none => ⟨{ s with queue := s.queue ++ [queuedItem env c i] }, [], .ok⟩

/-- `with self._protected_lock(): body` -/
def protectedLock (body : Step) : Step := fun s =>
  if s.marker then
    ⟨if Gen.markerCheckedBeforeSet then s else { s with marker := false }, [], .raised .runtimeError⟩
  else if s.lockHeld then
    ⟨{ s with marker := true }, [], .blocked⟩          -- would wait for a lock nobody releases
  else
    let r := body { s with marker := true, lockHeld := true }
    match r.res with
    | .blocked => r
    | .ok => ⟨{ r.st with lockHeld := false, marker := false }, r.ev, .ok⟩
    | .raised e =>
      ⟨{ r.st with lockHeld := false, marker := if Gen.markerResetInFinally then false else r.st.marker },
       r.ev, .raised e⟩

/-- the statements under the lock in `emit` -/
def lockedBody (env : Env) (c : Cfg) (i : Nat) (inner : InnerAct → Step) : Step := fun s =>
  if s.stopped then ⟨s, [], .ok⟩
  else if c.enqueue then queuePut env c i s
  else sinkWrite env c i inner s

/-- the `try` block of `Handler.emit` -/
def emitTry (env : Env) (c : Cfg) (i : Nat) (inner : InnerAct → Step) : Step := fun s =>
  if c.level > env.level i then ⟨s, [], .ok⟩
  else
    match runPre env c i Gen.preLockStages with
    | .skip => ⟨s, [], .ok⟩
    | .fail e => ⟨s, [], .raised e⟩
    | .pass => protectedLock (lockedBody env c i inner) s

/-- how a call ends when `x` is the exception (if any) that escapes it -/
def resOf : Option Err → Res
  | none => .ok
  | some e => .raised e

/-- `Handler.emit` = try block + `except <Gen.emitCaught>: if not should_catch: raise; print(record)` -/
def emitWith (env : Env) (c : Cfg) (i : Nat) (inner : InnerAct → Step) : Step := fun s =>
  let r := emitTry env c i inner s
  match r.res with
  | .raised e =>
    if Gen.emitCaught e && c.catch_ then
      let p := print env i c.id (some i) e .emit
      ⟨r.st, r.ev ++ p.1, resOf p.2⟩
    else r
  | _ => r

/-! ### enqueue worker -/

/-- `_queued_writer` run over the items currently in the pipe; returns the state when it next blocks
    in `get()` (queue empty) or when the thread has ended (`workerAlive = false`) -/
def workerRun (env : Env) (c : Cfg) : List QItem → HState → HState × List Event
  | [], s => ({ s with queue := [] }, [])
  | .sentinel :: rest, s => ({ s with queue := rest, workerAlive := false }, [])
  | .confirm :: rest, s => workerRun env c rest s
  | .bad i e :: rest, s =>
    if Gen.workerCaught e then
      let p := print env i c.id none e .worker
      match p.2, Gen.workerGetArm with
      | none, .continue_ => let r := workerRun env c rest s; (r.1, p.1 ++ r.2)
      | _, _ => ({ s with queue := rest, workerAlive := false }, p.1)
    else ({ s with queue := rest, workerAlive := false }, [])
  | .msg i :: rest, s =>
    let w := rawWrite env c i s
    match w.2 with
    | .raised e =>
      if Gen.workerCaught e then
        let p := print env i c.id (some i) e .worker
        match p.2, Gen.workerWriteArm with
        | none, .continue_ => let r := workerRun env c rest w.1; (r.1, p.1 ++ r.2)
        | _, _ => ({ w.1 with queue := rest, workerAlive := false }, p.1)
      else ({ w.1 with queue := rest, workerAlive := false }, [])
    | _ => workerRun env c rest w.1

/-- awaiting the scheduled tasks of a coroutine sink: body, then the done-callback -/
def runTasks (env : Env) (c : Cfg) : List Nat → HState → HState × List Event
  | [], s => ({ s with tasks := [] }, [])
  | i :: rest, s =>
    match env.fault i c.id .coroBody with
    | none => runTasks env c rest { s with sink := s.sink ++ [i] }
    | some e =>
      let evs : List Event :=
        if c.catch_ then
          let p := print env i c.id (some i) e .task
          match p.2 with
          | none => p.1
          | some e' => p.1 ++ [.loopError c.id i e']
        else [.loopError c.id i e]
      let r := runTasks env c rest s
      (r.1, evs ++ r.2)

/-- what `await logger.complete()` raises on account of the awaited tasks: `AsyncSink._complete_task` is
    `try: await task / except <Gen.completeTaskSwallows>: pass` – the failure of a task's body is the done-callback's
    business (`runTasks`), the awaiting caller sees it only if that `except` does not cover it -/
def tasksRes (env : Env) (c : Cfg) : List Nat → Res
  | [] => .ok
  | i :: rest =>
    match env.fault i c.id .coroBody with
    | some e => if Gen.completeTaskSwallows e then tasksRes env c rest else .raised e
    | none => tasksRes env c rest

/-- `handler.complete_queue()` then awaiting `handler.tasks_to_complete()` -/
def completeH (env : Env) (c : Cfg) : Step := fun s =>
  if c.enqueue then
    if s.workerAlive then
      let w := workerRun env c (s.queue ++ [.confirm]) s
      if w.1.workerAlive then
        let t := runTasks env c w.1.tasks w.1
        ⟨t.1, w.2 ++ t.2, tasksRes env c w.1.tasks⟩
      else ⟨w.1, w.2, .blocked⟩            -- the confirmation event is never set
    else ⟨s, [], .blocked⟩
  else
    let t := runTasks env c s.tasks s
    ⟨t.1, t.2, tasksRes env c s.tasks⟩

/-- `with self._lock: body` – no re-entrancy test: taken by a thread that already holds it, it blocks -/
def plainLock (body : Step) : Step := fun s =>
  if s.lockHeld then ⟨s, [], .blocked⟩
  else
    let r := body { s with lockHeld := true }
    match r.res with
    | .blocked => r
    | x => ⟨{ r.st with lockHeld := false }, r.ev, x⟩

/-- the lock statement of `Handler.stop()` as the code has it (`Gen.stopUsesProtectedLock`) -/
def stopLock (body : Step) : Step :=
  if Gen.stopUsesProtectedLock then protectedLock body else plainLock body

/-- the fault of `sink.stop()`: user code runs there only as the sink class's `stop` method says
    (`Gen.sinkStop`, read from `_simple_sinks.py`): a callable or coroutine sink runs none, a stream sink runs the
    stream's `stop()` if it has one, a `logging.Handler` / file sink always does (close / compression, retention) -/
def stopFault (env : Env) (c : Cfg) (k : Nat) : Option Err :=
  match Gen.sinkStop c.kind with
  | .noUserCode => none
  | .userIfCapable => if c.stoppable then env.fault k c.id .stop else none
  | .userAlways => env.fault k c.id .stop

/-- `Handler.stop()`; `k` indexes the fault oracle -/
def stopH (env : Env) (c : Cfg) (k : Nat) : Step :=
  stopLock (fun s =>
    let s1 := { s with stopped := true }
    let w := if c.enqueue && s1.workerAlive then workerRun env c (s1.queue ++ [.sentinel]) s1 else (s1, [])
    match stopFault env c k with
    | some e => ⟨w.1, w.2, .raised e⟩
    | none => ⟨{ w.1 with sinkStopped := true, tasks := [] }, w.2, .ok⟩)

/-- `tasks_to_complete()` of a non-enqueue handler: `with self._protected_lock(): return sink.tasks_to_complete()` -/
def tasksLocked : Step :=
  if Gen.tasksUseProtectedLock then protectedLock (fun s => ⟨s, [], .ok⟩) else plainLock (fun s => ⟨s, [], .ok⟩)

/-- `Handler.emit` with sinks that use the logger nested at most `n` deep (`n` is universally quantified in
    the theorems).  What such a sink does reaches its own handler as: another `emit` (a logging call), `stop()`
    (`logger.remove(own id)`), `tasks_to_complete()` (`logger.complete()`). -/
def emitD (env : Env) (c : Cfg) : Nat → Nat → Step
  | 0, i => emitWith env c i (fun _ s => ⟨s, [], .ok⟩)
  | n + 1, i => emitWith env c i (fun a =>
      match a with
      | .log j => emitD env c n j
      | .removeSelf k => stopH env c k
      | .completeSelf => tasksLocked)

/-! ### the logger: registry, `_log` loop, `remove`, `complete` -/

abbrev Reg := List (Cfg × HState)

structure LoopRet where
  reg : Reg
  ev : List Event
  res : Res

/-- `for handler in core.handlers.values(): handler.emit(...)` -/
def logLoop (env : Env) (n i : Nat) : Reg → LoopRet
  | [] => ⟨[], [], .ok⟩
  | (c, s) :: rest =>
    let r := emitD env c n i s
    match r.res with
    | .ok => let t := logLoop env n i rest; ⟨(c, r.st) :: t.reg, r.ev ++ t.ev, t.res⟩
    | x => ⟨(c, r.st) :: rest, r.ev, x⟩

def minLevelOf : Reg → Option Nat
  | [] => none
  | (c, _) :: rest =>
    match minLevelOf rest with
    | none => some c.level
    | some m => some (min c.level m)

structure World where
  reg : Reg := []
  removed : Reg := []
  minLevel : Option Nat := none      -- `none` = +inf
  deriving Repr

structure WRet where
  w : World
  ev : List Event
  res : Res

def logW (env : Env) (n i : Nat) (w : World) : WRet :=
  match w.minLevel with
  | none => ⟨w, [], .ok⟩
  | some m =>
    if env.level i < m then ⟨w, [], .ok⟩
    else
      let r := logLoop env n i w.reg
      ⟨{ w with reg := r.reg }, r.ev, r.res⟩

def completeLoop (env : Env) : Reg → LoopRet
  | [] => ⟨[], [], .ok⟩
  | (c, s) :: rest =>
    let r := completeH env c s
    match r.res with
    | .ok => let t := completeLoop env rest; ⟨(c, r.st) :: t.reg, r.ev ++ t.ev, t.res⟩
    | x => ⟨(c, r.st) :: rest, r.ev, x⟩

def completeW (env : Env) (w : World) : WRet :=
  let r := completeLoop env w.reg
  ⟨{ w with reg := r.reg }, r.ev, r.res⟩

def lookup (hid : Nat) : Reg → Option (Cfg × HState)
  | [] => none
  | (c, s) :: rest => if c.id = hid then some (c, s) else lookup hid rest

def erase (hid : Nat) : Reg → Reg
  | [] => []
  | (c, s) :: rest => if c.id = hid then erase hid rest else (c, s) :: erase hid rest

/-- `logger.remove(hid)`; `k` indexes the fault oracle for `stop` -/
def removeW (env : Env) (hid k : Nat) (w : World) : WRet :=
  match lookup hid w.reg with
  | none => ⟨w, [], .raised .valueError⟩
  | some (c, s) =>
    let rest := erase hid w.reg
    let r := stopH env c k s
    if Gen.removeUnpublishesFirst then
      ⟨{ reg := rest, minLevel := minLevelOf rest, removed := w.removed ++ [(c, r.st)] }, r.ev, r.res⟩
    else
      match r.res with
      | .ok => ⟨{ reg := rest, minLevel := minLevelOf rest, removed := w.removed ++ [(c, r.st)] }, r.ev, .ok⟩
      | x => ⟨{ w with reg := w.reg.map (fun p => if p.1.id = hid then (p.1, r.st) else p) }, r.ev, x⟩

/-- the loop of `logger.remove()` (no argument: every handler) over the ids read at its start, each iteration
    being what `remove(hid)` does; a `stop()` that raises ends the loop there (the extractor checks that the call
    to `stop()` is a plain statement of the loop body, not wrapped in a `try`) -/
def removeLoop (env : Env) (k : Nat) : List Nat → World → WRet
  | [], w => ⟨w, [], .ok⟩
  | hid :: rest, w =>
    let r := removeW env hid k w
    match r.res with
    | .ok => let t := removeLoop env k rest r.w; ⟨t.w, r.ev ++ t.ev, t.res⟩
    | _ => r

/-- `logger.remove()`: `handler_ids = list(core.handlers)`, then the loop -/
def removeAllW (env : Env) (k : Nat) (w : World) : WRet :=
  removeLoop env k (w.reg.map (fun p => p.1.id)) w

inductive Op where
  | log (i : Nat)
  | complete
  | remove (hid k : Nat)
  /-- `logger.remove()` – all handlers; `k` indexes the fault oracle of `stop` -/
  | removeAll (k : Nat)
  deriving DecidableEq, Repr

def stepW (env : Env) (n : Nat) (w : World) : Op → WRet
  | .log i => logW env n i w
  | .complete => completeW env w
  | .remove hid k => removeW env hid k w
  | .removeAll k => removeAllW env k w

/-- a whole history; the caller goes on after an exception (it caught it), and stops for good when
    blocked -/
def runW (env : Env) (n : Nat) : List Op → World → World × List Event × List Res
  | [], w => (w, [], [])
  | op :: ops, w =>
    let r := stepW env n w op
    match r.res with
    | .blocked => (r.w, r.ev, [.blocked])
    | x => let t := runW env n ops r.w; (t.1, r.ev ++ t.2.1, x :: t.2.2)

/-- `logger.add(...)`: a fresh handler -/
def freshState (c : Cfg) : HState := { workerAlive := c.enqueue }

def addW (c : Cfg) (w : World) : World :=
  { w with reg := w.reg ++ [(c, freshState c)],
           minLevel := match w.minLevel with
             | none => some c.level
             | some m => some (min m c.level) }

end Emit
