import LoguruModel.Emit.Model
import LoguruModel.Emit.Spec
/-
Emit area (C04) – helper lemmas for Props/C04.lean.
-/
namespace Emit
open Py Spec

/-- lock free and re-entrancy marker clear: the handler is usable -/
def Quiet (s : HState) : Prop := s.lockHeld = false ∧ s.marker = false

/-- what a nested call made from inside the sink must satisfy: on a state whose marker is set it
    changes nothing and does not block -/
def InnerOk (inner : InnerAct → Step) : Prop :=
  ∀ j s, s.marker = true → (inner j s).st = s ∧ (inner j s).res ≠ .blocked

theorem protectedLock_marker (body : Step) (s : HState) (h : s.marker = true) :
    protectedLock body s = ⟨s, [], .raised .runtimeError⟩ := by
  simp [protectedLock, h, Gen.markerCheckedBeforeSet]

theorem emitTry_marker (env : Env) (c : Cfg) (i : Nat) (inner : InnerAct → Step) (s : HState)
    (h : s.marker = true) :
    (emitTry env c i inner s).st = s ∧ (emitTry env c i inner s).res ≠ .blocked ∧
    (emitTry env c i inner s).ev = [] := by
  unfold emitTry
  split
  · simp
  · split <;> simp [protectedLock_marker _ _ h]

theorem emitWith_marker (env : Env) (c : Cfg) (i : Nat) (inner : InnerAct → Step) (s : HState)
    (h : s.marker = true) :
    (emitWith env c i inner s).st = s ∧ (emitWith env c i inner s).res ≠ .blocked := by
  have ht := emitTry_marker env c i inner s h
  unfold emitWith
  simp only []
  split
  · split
    · refine ⟨ht.1, ?_⟩
      unfold resOf
      split <;> simp
    · exact ⟨ht.1, ht.2.1⟩
  · exact ⟨ht.1, ht.2.1⟩

theorem emitD_marker (env : Env) (c : Cfg) (n i : Nat) (s : HState) (h : s.marker = true) :
    (emitD env c n i s).st = s ∧ (emitD env c n i s).res ≠ .blocked := by
  cases n with
  | zero => exact emitWith_marker env c i _ s h
  | succ n => exact emitWith_marker env c i _ s h

/-- what `emitD env c (n+1)` hands to `emitWith`: the three ways a sink's use of the logger reaches its own
    handler -/
def innerD (env : Env) (c : Cfg) (n : Nat) : InnerAct → Step := fun a =>
  match a with
  | .log j => emitD env c n j
  | .removeSelf k => stopH env c k
  | .completeSelf => tasksLocked

theorem emitD_succ (env : Env) (c : Cfg) (n i : Nat) :
    emitD env c (n + 1) i = emitWith env c i (innerD env c n) := rfl

theorem stopH_marker (env : Env) (c : Cfg) (k : Nat) (s : HState) (h : s.marker = true) :
    stopH env c k s = ⟨s, [], .raised .runtimeError⟩ := by
  simp [stopH, stopLock, Gen.stopUsesProtectedLock, protectedLock_marker _ s h]

theorem tasksLocked_marker (s : HState) (h : s.marker = true) :
    tasksLocked s = ⟨s, [], .raised .runtimeError⟩ := by
  simp [tasksLocked, Gen.tasksUseProtectedLock, protectedLock_marker _ s h]

theorem emitD_innerOk (env : Env) (c : Cfg) (n : Nat) : InnerOk (innerD env c n) := by
  intro a s h
  cases a with
  | log j => exact emitD_marker env c n j s h
  | removeSelf k => simp [innerD, stopH_marker env c k s h]
  | completeSelf => simp [innerD, tasksLocked_marker s h]

theorem innerOk_trivial : InnerOk (fun _ s => ⟨s, [], .ok⟩) := by
  intro j s _; simp

/-- the control part of a handler state is untouched (only sink contents, queue, tasks may differ) -/
def SameCtl (s s' : HState) : Prop :=
  s'.lockHeld = s.lockHeld ∧ s'.marker = s.marker ∧ s'.stopped = s.stopped ∧
  s'.workerAlive = s.workerAlive ∧ s'.sinkStopped = s.sinkStopped

theorem SameCtl.refl (s : HState) : SameCtl s s := ⟨rfl, rfl, rfl, rfl, rfl⟩

theorem SameCtl.trans {a b c : HState} (h1 : SameCtl a b) (h2 : SameCtl b c) : SameCtl a c := by
  obtain ⟨a1, a2, a3, a4, a5⟩ := h1
  obtain ⟨b1, b2, b3, b4, b5⟩ := h2
  exact ⟨b1.trans a1, b2.trans a2, b3.trans a3, b4.trans a4, b5.trans a5⟩

/-- as the code is: nothing raised while a coroutine sink schedules its task is swallowed -/
theorem asyncSwallows_false (e : Err) : Gen.asyncScheduleSwallows e = false := by
  cases e <;> rfl

theorem rawWrite_ctl (env : Env) (c : Cfg) (i : Nat) (s : HState) :
    SameCtl s (rawWrite env c i s).1 ∧ (rawWrite env c i s).2 ≠ .blocked ∧
    (rawWrite env c i s).1.queue = s.queue := by
  unfold rawWrite SameCtl
  split
  · simp [asyncSwallows_false]
  · split
    · split <;> simp
    · simp only [Gen.streamFlushAfterWrite, if_true]
      split <;> simp
    · simp

theorem runInner_ctl (inner : InnerAct → Step) (hin : InnerOk inner) (js : List InnerAct) (s : HState)
    (hm : s.marker = true) :
    (runInner inner js s).st = s ∧ (runInner inner js s).res ≠ .blocked := by
  induction js with
  | nil => simp [runInner]
  | cons j rest ih =>
    have hi := hin j s hm
    unfold runInner
    simp only []
    cases hres : (inner j s).res with
    | ok =>
      simp only [hi.1]
      exact ih
    | raised e => simp only [hres]; exact ⟨hi.1, by simp⟩
    | blocked => exact absurd hres hi.2

theorem sinkWrite_ctl (env : Env) (c : Cfg) (i : Nat) (inner : InnerAct → Step) (hin : InnerOk inner)
    (s : HState) (hm : s.marker = true) :
    SameCtl s (sinkWrite env c i inner s).st ∧ (sinkWrite env c i inner s).res ≠ .blocked ∧
    (sinkWrite env c i inner s).st.queue = s.queue := by
  have hi := runInner_ctl inner hin (env.reenter i c.id) s hm
  unfold sinkWrite
  simp only []
  cases hres : (runInner inner (env.reenter i c.id) s).res with
  | ok =>
    simp only [hi.1]
    have := rawWrite_ctl env c i s
    exact ⟨this.1, this.2.1, this.2.2⟩
  | raised e =>
    simp only [hi.1, hres]
    exact ⟨SameCtl.refl s, by simp, trivial⟩
  | blocked => exact absurd hres hi.2

theorem queuePut_ctl (env : Env) (c : Cfg) (i : Nat) (s : HState) :
    SameCtl s (queuePut env c i s).st ∧ (queuePut env c i s).res ≠ .blocked ∧
    (queuePut env c i s).st.sink = s.sink ∧ (queuePut env c i s).st.tasks = s.tasks := by
  unfold queuePut SameCtl
  split <;> simp

theorem lockedBody_ctl (env : Env) (c : Cfg) (i : Nat) (inner : InnerAct → Step) (hin : InnerOk inner)
    (s : HState) (hm : s.marker = true) :
    SameCtl s (lockedBody env c i inner s).st ∧ (lockedBody env c i inner s).res ≠ .blocked := by
  unfold lockedBody
  split
  · exact ⟨SameCtl.refl s, by simp⟩
  · split
    · exact ⟨(queuePut_ctl env c i s).1, (queuePut_ctl env c i s).2.1⟩
    · exact ⟨(sinkWrite_ctl env c i inner hin s hm).1, (sinkWrite_ctl env c i inner hin s hm).2.1⟩

/-- `_protected_lock` around a well-behaved body: from a quiet state to a quiet state, never blocked -/
theorem protectedLock_quiet (body : Step) (s : HState) (hq : Quiet s)
    (hb : ∀ s', s'.marker = true → SameCtl s' (body s').st ∧ (body s').res ≠ .blocked) :
    Quiet (protectedLock body s).st ∧ (protectedLock body s).res ≠ .blocked ∧
    (protectedLock body s).st.stopped = (body { s with marker := true, lockHeld := true }).st.stopped ∧
    (protectedLock body s).st.workerAlive = (body { s with marker := true, lockHeld := true }).st.workerAlive ∧
    (protectedLock body s).st.sinkStopped = (body { s with marker := true, lockHeld := true }).st.sinkStopped := by
  obtain ⟨hl, hm⟩ := hq
  have hb' := hb { s with marker := true, lockHeld := true } rfl
  unfold protectedLock
  simp only [hm, hl, Bool.false_eq_true, if_false]
  cases hres : (body { s with marker := true, lockHeld := true }).res with
  | ok => simp [Quiet]
  | raised e => simp [Quiet, Gen.markerResetInFinally]
  | blocked => exact absurd hres hb'.2

theorem runPre_eq (env : Env) (c : Cfg) (i : Nat) :
    runPre env c i Gen.preLockStages =
      match faultAt env c i .filter with
      | some e => .fail e
      | none =>
        if c.hasFilter && !env.accept i c.id then .skip
        else match firstFault env c i [.dynFormat, .excFormat, .formatMap, .serialize] with
          | some e => .fail e
          | none => .pass := by
  simp only [Gen.preLockStages, runPre, firstFault]
  cases faultAt env c i .filter <;> simp
  split
  · rfl
  · cases faultAt env c i .dynFormat <;> simp
    cases faultAt env c i .excFormat <;> simp
    cases faultAt env c i .formatMap <;> simp
    cases faultAt env c i .serialize <;> simp

/-- result of the locked section from a quiet state when the sink does not re-enter -/
def lockedExpected (env : Env) (c : Cfg) (i : Nat) (s : HState) : Ret :=
  if s.stopped then ⟨s, [], .ok⟩
  else match handOff env c i with
    | .failed e => ⟨s, [], .raised e⟩
    | .delivered => ⟨deliver env c i s, [], .ok⟩
    | .deliveredThenFailed e => ⟨deliver env c i s, [], .raised e⟩
    | .dropped => ⟨s, [], .ok⟩
    | .skipped => ⟨s, [], .ok⟩

theorem locked_eq (env : Env) (c : Cfg) (i : Nat) (inner : InnerAct → Step) (s : HState)
    (hq : Quiet s) (hre : env.reenter i c.id = []) :
    protectedLock (lockedBody env c i inner) s = lockedExpected env c i s := by
  obtain ⟨hl, hm⟩ := hq
  cases s with
  | mk lockHeld marker stopped sink queue workerAlive tasks sinkStopped =>
  simp only at hl hm
  subst hl hm
  unfold protectedLock lockedBody lockedExpected handOff sinkWrite queuePut rawWrite deliver
  simp only [hre, runInner, Gen.streamFlushAfterWrite, Gen.markerResetInFinally]
  cases stopped <;> simp
  cases c.enqueue <;> simp
  · cases env.fault i c.id .write <;> simp [asyncSwallows_false]
    cases c.kind <;> simp
    · cases env.fault i c.id .flush <;> simp
    · cases env.loop i <;> simp
  · cases env.fault i c.id .put <;> simp
theorem handled_eq (env : Env) (c : Cfg) (i : Nat) (s : HState) (ev : List Event) (e : Err) (hev : ev = []) :
    (match (⟨s, ev, .raised e⟩ : Ret).res with
      | .raised e =>
        if Gen.emitCaught e && c.catch_ then
          let p := print env i c.id (some i) e .emit
          (⟨s, ev ++ p.1, resOf p.2⟩ : Ret)
        else ⟨s, ev, .raised e⟩
      | _ => ⟨s, ev, .raised e⟩) = handle env c i s e := by
  subst hev
  unfold handle
  cases c.catch_ <;> simp [Gen.emitCaught]

theorem emitWith_characterised (env : Env) (c : Cfg) (i : Nat) (inner : InnerAct → Step) (s : HState)
    (hq : Quiet s) (hre : env.reenter i c.id = []) :
    emitWith env c i inner s = expected env c i s := by
  unfold emitWith emitTry expected outcome
  rw [runPre_eq, locked_eq env c i inner s hq hre]
  unfold lockedExpected
  by_cases hlv : c.level > env.level i
  · simp [hlv]
  · simp only [hlv, if_false]
    cases hf : faultAt env c i .filter with
    | some e => exact handled_eq env c i s [] e rfl
    | none =>
      simp only []
      by_cases hacc : (c.hasFilter && !env.accept i c.id) = true
      · simp only [hacc, if_true]
      · simp only [hacc]
        cases hff : firstFault env c i [.dynFormat, .excFormat, .formatMap, .serialize] with
        | some e => exact handled_eq env c i s [] e rfl
        | none =>
          simp only []
          cases hst : s.stopped with
          | true => simp
          | false =>
            simp only [Bool.false_eq_true, if_false]
            cases hho : handOff env c i with
            | skipped => rfl
            | dropped => rfl
            | delivered => rfl
            | failed e => exact handled_eq env c i s [] e rfl
            | deliveredThenFailed e => exact handled_eq env c i _ [] e rfl
theorem emitTry_quiet (env : Env) (c : Cfg) (i : Nat) (inner : InnerAct → Step) (hin : InnerOk inner)
    (s : HState) (hq : Quiet s) :
    Quiet (emitTry env c i inner s).st ∧ (emitTry env c i inner s).res ≠ .blocked ∧
    SameCtl s (emitTry env c i inner s).st := by
  unfold emitTry
  split
  · exact ⟨hq, by simp, SameCtl.refl s⟩
  · split
    · exact ⟨hq, by simp, SameCtl.refl s⟩
    · exact ⟨hq, by simp, SameCtl.refl s⟩
    · have hb := fun s' hm => lockedBody_ctl env c i inner hin s' hm
      have h := protectedLock_quiet (lockedBody env c i inner) s hq hb
      have h2 := (hb { s with marker := true, lockHeld := true } rfl).1
      refine ⟨h.1, h.2.1, ?_⟩
      obtain ⟨q1, q2⟩ := h.1
      obtain ⟨_, _, a3, a4, a5⟩ := h2
      exact ⟨q1.trans hq.1.symm, q2.trans hq.2.symm, h.2.2.1.trans a3, h.2.2.2.1.trans a4, h.2.2.2.2.trans a5⟩

theorem emitWith_st (env : Env) (c : Cfg) (i : Nat) (inner : InnerAct → Step) (s : HState) :
    (emitWith env c i inner s).st = (emitTry env c i inner s).st := by
  unfold emitWith
  simp only []
  split
  · split <;> rfl
  · rfl

theorem emitWith_blocked (env : Env) (c : Cfg) (i : Nat) (inner : InnerAct → Step) (s : HState) :
    (emitWith env c i inner s).res = .blocked ↔ (emitTry env c i inner s).res = .blocked := by
  unfold emitWith
  simp only []
  split
  · rename_i e he
    split
    · simp only [he]; unfold resOf; split <;> simp
    · rfl
  · rfl

theorem emitWith_quiet (env : Env) (c : Cfg) (i : Nat) (inner : InnerAct → Step) (hin : InnerOk inner)
    (s : HState) (hq : Quiet s) :
    Quiet (emitWith env c i inner s).st ∧ (emitWith env c i inner s).res ≠ .blocked ∧
    SameCtl s (emitWith env c i inner s).st := by
  have h := emitTry_quiet env c i inner hin s hq
  rw [emitWith_st]
  exact ⟨h.1, fun hb => h.2.1 ((emitWith_blocked env c i inner s).1 hb), h.2.2⟩

theorem emitD_quiet (env : Env) (c : Cfg) (n i : Nat) (s : HState) (hq : Quiet s) :
    Quiet (emitD env c n i s).st ∧ (emitD env c n i s).res ≠ .blocked ∧
    SameCtl s (emitD env c n i s).st := by
  cases n with
  | zero => exact emitWith_quiet env c i _ innerOk_trivial s hq
  | succ n => exact emitWith_quiet env c i _ (emitD_innerOk env c n) s hq

theorem emitD_characterised (env : Env) (c : Cfg) (n i : Nat) (s : HState)
    (hq : Quiet s) (hre : env.reenter i c.id = []) :
    emitD env c n i s = expected env c i s := by
  cases n with
  | zero => exact emitWith_characterised env c i _ s hq hre
  | succ n => exact emitWith_characterised env c i _ s hq hre

/-- a stream that breaks with OSError at any chunk: nothing leaves `print` -/
theorem printP_failsAt_osError (c : Chunk) (sf : Bool) :
    (Print.printP Gen.printProgram (oracleOf (.failsAt c .osError) sf)).escapes = none := by
  cases c <;> cases sf <;> decide

theorem print_tame (env : Env) (ht : StderrTame env) (i h : Nat) (m : Option Nat) (k : Err) (src : Src) :
    (print env i h m k src).2 = none := by
  unfold print
  split
  · simp [Gen.printSkipsWhenNoStderr]
  · rename_i e he
    have := ht.1 i h e he
    subst this
    simp [Gen.printSwallows]
  · simp [Gen.printGuardsRecordStr]
  · rename_i c e he
    have := ht.2 i h c e he
    subst this
    exact printP_failsAt_osError c _

theorem emitWith_catch_ok (env : Env) (c : Cfg) (i : Nat) (inner : InnerAct → Step) (s : HState)
    (hc : c.catch_ = true) (ht : StderrTame env) (hb : (emitTry env c i inner s).res ≠ .blocked) :
    (emitWith env c i inner s).res = .ok := by
  unfold emitWith
  simp only []
  split
  · simp [Gen.emitCaught, hc, print_tame env ht, resOf]
  · rename_i h
    cases hr : (emitTry env c i inner s).res with
    | ok => rfl
    | raised e => exact absurd hr (h e)
    | blocked => exact absurd hr hb

theorem emitD_catch_ok (env : Env) (c : Cfg) (n i : Nat) (s : HState)
    (hc : c.catch_ = true) (ht : StderrTame env) (hq : Quiet s) :
    (emitD env c n i s).res = .ok := by
  cases n with
  | zero =>
    exact emitWith_catch_ok env c i _ s hc ht (emitTry_quiet env c i _ innerOk_trivial s hq).2.1
  | succ n =>
    exact emitWith_catch_ok env c i _ s hc ht (emitTry_quiet env c i _ (emitD_innerOk env c n) s hq).2.1

/-- every handler of the registry is usable -/
def AllQuiet (reg : Reg) : Prop := ∀ p ∈ reg, Quiet p.2

theorem logLoop_quiet (env : Env) (n i : Nat) (reg : Reg) (hq : AllQuiet reg) :
    AllQuiet (logLoop env n i reg).reg ∧ (logLoop env n i reg).res ≠ .blocked := by
  induction reg with
  | nil => simp [logLoop, AllQuiet]
  | cons p rest ih =>
    obtain ⟨c, s⟩ := p
    have hs : Quiet s := hq (c, s) (by simp)
    have hrest : AllQuiet rest := fun p hp => hq p (by simp [hp])
    have he := emitD_quiet env c n i s hs
    have ih := ih hrest
    unfold logLoop
    simp only []
    split
    · refine ⟨?_, ih.2⟩
      intro p hp
      simp only [List.mem_cons] at hp
      rcases hp with rfl | hp
      · exact he.1
      · exact ih.1 p hp
    · rename_i x hx
      refine ⟨?_, ?_⟩
      · intro p hp
        simp only [List.mem_cons] at hp
        rcases hp with rfl | hp
        · exact he.1
        · exact hrest p hp
      · exact he.2.1

theorem logLoop_all_catch (env : Env) (n i : Nat) (reg : Reg) (hq : AllQuiet reg)
    (hc : ∀ p ∈ reg, p.1.catch_ = true) (ht : StderrTame env) :
    (logLoop env n i reg).res = .ok ∧
    (logLoop env n i reg).reg = reg.map (fun p => (p.1, (emitD env p.1 n i p.2).st)) := by
  induction reg with
  | nil => simp [logLoop]
  | cons p rest ih =>
    obtain ⟨c, s⟩ := p
    have hs : Quiet s := hq (c, s) (by simp)
    have hrest : AllQuiet rest := fun p hp => hq p (by simp [hp])
    have hok := emitD_catch_ok env c n i s (hc (c, s) (by simp)) ht hs
    have ih := ih hrest (fun p hp => hc p (by simp [hp]))
    unfold logLoop
    simp only [hok, List.map_cons]
    exact ⟨ih.1, by rw [ih.2]⟩

theorem logLoop_prefix (env : Env) (n i : Nat) (pre post : Reg) (c : Cfg) (s : HState) (x : Res)
    (hpre : ∀ p ∈ pre, (emitD env p.1 n i p.2).res = .ok)
    (hx : (emitD env c n i s).res = x) (hne : x ≠ .ok) :
    (logLoop env n i (pre ++ (c, s) :: post)).res = x ∧
    (logLoop env n i (pre ++ (c, s) :: post)).reg =
      pre.map (fun p => (p.1, (emitD env p.1 n i p.2).st)) ++ (c, (emitD env c n i s).st) :: post := by
  induction pre with
  | nil =>
    simp only [List.nil_append, List.map_nil]
    unfold logLoop
    simp only []
    split
    · rename_i h; exact absurd (hx ▸ h) hne
    · exact ⟨hx, rfl⟩
  | cons p rest ih =>
    obtain ⟨c', s'⟩ := p
    have hok := hpre (c', s') (by simp)
    have ih := ih (fun p hp => hpre p (by simp [hp]))
    simp only [List.cons_append, List.map_cons]
    unfold logLoop
    simp only [hok]
    exact ⟨ih.1, by rw [ih.2]⟩

theorem rawWrite_sink (env : Env) (c : Cfg) (i : Nat) (s : HState) :
    (rawWrite env c i s).1.sink = s.sink ++ workerWrites env c (.msg i) := by
  unfold rawWrite workerWrites
  cases hf : env.fault i c.id .write with
  | some e => simp [hf, asyncSwallows_false]
  | none =>
    cases hk : c.kind <;> simp [Gen.streamFlushAfterWrite, hf]
    · cases env.fault i c.id .flush <;> simp
    · cases env.loop i <;> simp

theorem workerRun_alive (env : Env) (c : Cfg) (ht : StderrTame env) (items : List QItem) (s : HState)
    (hs : QItem.sentinel ∉ items) (ha : s.workerAlive = true) :
    (workerRun env c items s).1.workerAlive = true ∧ (workerRun env c items s).1.queue = [] ∧
    (workerRun env c items s).1.sink = s.sink ++ items.flatMap (workerWrites env c) ∧
    (workerRun env c items s).1.lockHeld = s.lockHeld ∧ (workerRun env c items s).1.marker = s.marker ∧
    (workerRun env c items s).1.stopped = s.stopped := by
  induction items generalizing s with
  | nil => simp [workerRun, ha]
  | cons it rest ih =>
    have hrest : QItem.sentinel ∉ rest := fun h => hs (by simp [h])
    cases it with
    | sentinel => simp at hs
    | confirm =>
      simp only [workerRun, List.flatMap_cons, workerWrites, List.nil_append]
      exact ih s hrest ha
    | bad i e =>
      simp only [workerRun, Gen.workerCaught, if_true, print_tame env ht, Gen.workerGetArm,
        List.flatMap_cons, workerWrites, List.nil_append]
      exact ih s hrest ha
    | msg i =>
      have hc := rawWrite_ctl env c i s
      have hsink := rawWrite_sink env c i s
      obtain ⟨⟨c1, c2, c3, c4, _⟩, _, _⟩ := hc
      have ih' := ih (rawWrite env c i s).1 hrest (c4.trans ha)
      simp only [workerRun, List.flatMap_cons]
      split
      · simp only [Gen.workerCaught, if_true, print_tame env ht, Gen.workerWriteArm]
        rw [ih'.2.2.1, hsink, List.append_assoc]
        exact ⟨ih'.1, ih'.2.1, rfl, ih'.2.2.2.1.trans c1, ih'.2.2.2.2.1.trans c2, ih'.2.2.2.2.2.trans c3⟩
      · rw [ih'.2.2.1, hsink, List.append_assoc]
        exact ⟨ih'.1, ih'.2.1, rfl, ih'.2.2.2.1.trans c1, ih'.2.2.2.2.1.trans c2, ih'.2.2.2.2.2.trans c3⟩

theorem erase_not_mem (hid : Nat) (reg : Reg) : ∀ p ∈ erase hid reg, p.1.id ≠ hid := by
  induction reg with
  | nil => simp [erase]
  | cons q rest ih =>
    obtain ⟨c, s⟩ := q
    unfold erase
    split
    · exact ih
    · rename_i h
      intro p hp
      simp only [List.mem_cons] at hp
      rcases hp with rfl | hp
      · exact h
      · exact ih p hp

theorem erase_keeps (hid : Nat) (reg : Reg) (p : Cfg × HState) (hp : p ∈ reg) (hne : p.1.id ≠ hid) :
    p ∈ erase hid reg := by
  induction reg with
  | nil => simp at hp
  | cons q rest ih =>
    obtain ⟨c, s⟩ := q
    unfold erase
    simp only [List.mem_cons] at hp
    split
    · rename_i h
      rcases hp with rfl | hp
      · exact absurd h hne
      · exact ih hp
    · rcases hp with rfl | hp
      · simp
      · simp [ih hp]

theorem erase_sub (hid : Nat) (reg : Reg) : ∀ p ∈ erase hid reg, p ∈ reg := by
  induction reg with
  | nil => simp [erase]
  | cons q rest ih =>
    obtain ⟨c, s⟩ := q
    unfold erase
    split
    · intro p hp; simp [ih p hp]
    · intro p hp
      simp only [List.mem_cons] at hp
      rcases hp with rfl | hp
      · simp
      · simp [ih p hp]

/-- `minLevelOf` is the minimum of the levels (`none` = +inf exactly for the empty registry) -/
theorem minLevelOf_spec (reg : Reg) :
    (minLevelOf reg = none ↔ reg = []) ∧
    ∀ m, minLevelOf reg = some m → (∀ p ∈ reg, m ≤ p.1.level) ∧ ∃ p ∈ reg, p.1.level = m := by
  induction reg with
  | nil => simp [minLevelOf]
  | cons q rest ih =>
    obtain ⟨c, s⟩ := q
    unfold minLevelOf
    cases hm : minLevelOf rest with
    | none =>
      have hr : rest = [] := ih.1.1 hm
      subst hr
      simp
    | some m' =>
      have := ih.2 m' hm
      obtain ⟨hle, p, hp, hpe⟩ := this
      simp only [reduceCtorEq, Option.some.injEq]
      refine ⟨by simp, ?_⟩
      intro m hmm
      subst hmm
      refine ⟨?_, ?_⟩
      · intro q hq
        simp only [List.mem_cons] at hq
        rcases hq with rfl | hq
        · exact Nat.min_le_left _ _
        · exact Nat.le_trans (Nat.min_le_right _ _) (hle q hq)
      · by_cases h : c.level ≤ m'
        · exact ⟨(c, s), by simp, by simp [Nat.min_eq_left h]⟩
        · exact ⟨p, by simp [hp], by rw [hpe]; omega⟩

theorem protectedLock_quiet2 (body : Step) (s : HState) (hq : Quiet s)
    (hb : (body { s with marker := true, lockHeld := true }).res ≠ .blocked) :
    Quiet (protectedLock body s).st ∧ (protectedLock body s).res ≠ .blocked := by
  obtain ⟨hl, hm⟩ := hq
  unfold protectedLock
  simp only [hm, hl, Bool.false_eq_true, if_false]
  cases hres : (body { s with marker := true, lockHeld := true }).res with
  | ok => simp [Quiet]
  | raised e => simp [Quiet, Gen.markerResetInFinally]
  | blocked => exact absurd hres hb

theorem stopLock_eq (body : Step) : stopLock body = protectedLock body := by
  simp [stopLock, Gen.stopUsesProtectedLock]

theorem stopH_quiet (env : Env) (c : Cfg) (k : Nat) (s : HState) (hq : Quiet s) :
    Quiet (stopH env c k s).st ∧ (stopH env c k s).res ≠ .blocked := by
  unfold stopH
  rw [stopLock_eq]
  apply protectedLock_quiet2 _ s hq
  simp only []
  split <;> simp

/-- a registered handler is in working order: lock free, marker clear, not stopped, its worker (if
    any) alive with no sentinel pending -/
def Good (p : Cfg × HState) : Prop :=
  Quiet p.2 ∧ p.2.stopped = false ∧ (p.1.enqueue = true → p.2.workerAlive = true) ∧
  QItem.sentinel ∉ p.2.queue

def AllGood (reg : Reg) : Prop := ∀ p ∈ reg, Good p

theorem queuedItem_ne_sentinel (env : Env) (c : Cfg) (i : Nat) : queuedItem env c i ≠ .sentinel := by
  unfold queuedItem; split <;> simp

theorem lockedBody_queue (env : Env) (c : Cfg) (i : Nat) (inner : InnerAct → Step) (hin : InnerOk inner)
    (s : HState) (hm : s.marker = true) (hs : QItem.sentinel ∉ s.queue) :
    QItem.sentinel ∉ (lockedBody env c i inner s).st.queue := by
  unfold lockedBody
  split
  · exact hs
  · split
    · unfold queuePut
      split
      · exact hs
      · simp only [List.mem_append, List.mem_singleton, not_or]
        exact ⟨hs, fun h => queuedItem_ne_sentinel env c i h.symm⟩
    · rw [(sinkWrite_ctl env c i inner hin s hm).2.2]; exact hs

theorem emitWith_queue (env : Env) (c : Cfg) (i : Nat) (inner : InnerAct → Step) (hin : InnerOk inner)
    (s : HState) (hq : Quiet s) (hs : QItem.sentinel ∉ s.queue) :
    QItem.sentinel ∉ (emitWith env c i inner s).st.queue := by
  rw [emitWith_st]
  unfold emitTry
  split
  · exact hs
  · split
    · exact hs
    · exact hs
    · unfold protectedLock
      simp only [hq.1, hq.2, Bool.false_eq_true, if_false]
      have := lockedBody_queue env c i inner hin { s with marker := true, lockHeld := true } rfl hs
      split <;> simp_all

theorem emitD_good (env : Env) (c : Cfg) (n i : Nat) (s : HState) (hg : Good (c, s)) :
    Good (c, (emitD env c n i s).st) ∧ (emitD env c n i s).res ≠ .blocked := by
  obtain ⟨hq, hst, hw, hs⟩ := hg
  have h := emitD_quiet env c n i s hq
  obtain ⟨_, _, c3, c4, _⟩ := h.2.2
  refine ⟨⟨h.1, c3.trans hst, fun he => c4.trans (hw he), ?_⟩, h.2.1⟩
  cases n with
  | zero => exact emitWith_queue env c i _ innerOk_trivial s hq hs
  | succ n => exact emitWith_queue env c i _ (emitD_innerOk env c n) s hq hs

theorem logLoop_good (env : Env) (n i : Nat) (reg : Reg) (hg : AllGood reg) :
    AllGood (logLoop env n i reg).reg ∧ (logLoop env n i reg).res ≠ .blocked := by
  induction reg with
  | nil => simp [logLoop, AllGood]
  | cons p rest ih =>
    obtain ⟨c, s⟩ := p
    have hs : Good (c, s) := hg (c, s) (by simp)
    have hrest : AllGood rest := fun p hp => hg p (by simp [hp])
    have he := emitD_good env c n i s hs
    have ih := ih hrest
    unfold logLoop
    simp only []
    split
    · refine ⟨?_, ih.2⟩
      intro p hp
      simp only [List.mem_cons] at hp
      rcases hp with rfl | hp
      · exact he.1
      · exact ih.1 p hp
    · refine ⟨?_, he.2⟩
      intro p hp
      simp only [List.mem_cons] at hp
      rcases hp with rfl | hp
      · exact he.1
      · exact hrest p hp

theorem runTasks_ctl (env : Env) (c : Cfg) (ts : List Nat) (s : HState) :
    SameCtl s (runTasks env c ts s).1 ∧ (runTasks env c ts s).1.queue = s.queue := by
  induction ts generalizing s with
  | nil => simp [runTasks, SameCtl]
  | cons t rest ih =>
    unfold runTasks
    split
    · have := ih { s with sink := s.sink ++ [t] }
      exact ⟨this.1, this.2⟩
    · exact ih s

/-- `_complete_task` swallows every exception of the awaited task: awaiting never raises -/
theorem tasksRes_ok (env : Env) (c : Cfg) (ts : List Nat) : tasksRes env c ts = .ok := by
  induction ts with
  | nil => rfl
  | cons i rest ih =>
    unfold tasksRes
    split
    · simp [Gen.completeTaskSwallows, ih]
    · exact ih

theorem completeH_good (env : Env) (ht : StderrTame env) (c : Cfg) (s : HState) (hg : Good (c, s)) :
    Good (c, (completeH env c s).st) ∧ (completeH env c s).res = .ok := by
  obtain ⟨hq, hst, hw, hs⟩ := hg
  unfold completeH
  by_cases he : c.enqueue = true
  · have ha := hw he
    have hns : QItem.sentinel ∉ s.queue ++ [QItem.confirm] := by simp [hs]
    have h := workerRun_alive env c ht (s.queue ++ [.confirm]) s hns ha
    have h2 := runTasks_ctl env c (workerRun env c (s.queue ++ [.confirm]) s).1.tasks
      (workerRun env c (s.queue ++ [.confirm]) s).1
    obtain ⟨⟨c1, c2, c3, c4, _⟩, cq⟩ := h2
    rw [if_pos he, if_pos ha, if_pos h.1]
    refine ⟨⟨⟨c1.trans (h.2.2.2.1.trans hq.1), c2.trans (h.2.2.2.2.1.trans hq.2)⟩,
      c3.trans (h.2.2.2.2.2.trans hst), fun _ => c4.trans h.1, ?_⟩, tasksRes_ok env c _⟩
    show QItem.sentinel ∉ (runTasks env c _ _).1.queue
    rw [cq, h.2.1]; simp
  · rw [if_neg he]
    have h := runTasks_ctl env c s.tasks s
    obtain ⟨⟨c1, c2, c3, c4, _⟩, cq⟩ := h
    refine ⟨⟨⟨c1.trans hq.1, c2.trans hq.2⟩, c3.trans hst, fun h => absurd h he, ?_⟩, tasksRes_ok env c _⟩
    show QItem.sentinel ∉ (runTasks env c _ _).1.queue
    rw [cq]; exact hs

theorem completeLoop_good (env : Env) (ht : StderrTame env) (reg : Reg) (hg : AllGood reg) :
    AllGood (completeLoop env reg).reg ∧ (completeLoop env reg).res = .ok := by
  induction reg with
  | nil => simp [completeLoop, AllGood]
  | cons p rest ih =>
    obtain ⟨c, s⟩ := p
    have hs : Good (c, s) := hg (c, s) (by simp)
    have hrest : AllGood rest := fun p hp => hg p (by simp [hp])
    have he := completeH_good env ht c s hs
    have ih := ih hrest
    unfold completeLoop
    simp only [he.2]
    refine ⟨?_, ih.2⟩
    intro p hp
    simp only [List.mem_cons] at hp
    rcases hp with rfl | hp
    · exact he.1
    · exact ih.1 p hp

theorem lookup_mem (hid : Nat) (reg : Reg) (p : Cfg × HState) (h : lookup hid reg = some p) : p ∈ reg := by
  induction reg with
  | nil => simp [lookup] at h
  | cons q rest ih =>
    obtain ⟨c, s⟩ := q
    unfold lookup at h
    split at h
    · simp only [Option.some.injEq] at h; simp [h]
    · simp [ih h]

theorem removeW_good (env : Env) (hid k : Nat) (w : World) (hg : AllGood w.reg) :
    AllGood (removeW env hid k w).w.reg ∧ (removeW env hid k w).res ≠ .blocked := by
  simp only [removeW]
  split
  · exact ⟨hg, by simp⟩
  · rename_i c s hl
    simp only [Gen.removeUnpublishesFirst, if_true]
    have hmem := lookup_mem hid w.reg (c, s) hl
    refine ⟨fun p hp => hg p (erase_sub hid w.reg p hp), (stopH_quiet env c k s (hg (c, s) hmem).1).2⟩

theorem removeLoop_good (env : Env) (k : Nat) (ids : List Nat) (w : World) (hg : AllGood w.reg) :
    AllGood (removeLoop env k ids w).w.reg ∧ (removeLoop env k ids w).res ≠ .blocked := by
  induction ids generalizing w with
  | nil => exact ⟨hg, by simp [removeLoop]⟩
  | cons hid rest ih =>
    have h1 := removeW_good env hid k w hg
    unfold removeLoop
    simp only []
    split
    · exact ih _ h1.1
    · exact h1

theorem stepW_good (env : Env) (ht : StderrTame env) (n : Nat) (w : World) (op : Op) (hg : AllGood w.reg) :
    AllGood (stepW env n w op).w.reg ∧ (stepW env n w op).res ≠ .blocked := by
  cases op with
  | log i =>
    simp only [stepW, logW]
    split
    · exact ⟨hg, by simp⟩
    · split
      · exact ⟨hg, by simp⟩
      · exact logLoop_good env n i w.reg hg
  | complete =>
    simp only [stepW, completeW]
    have := completeLoop_good env ht w.reg hg
    exact ⟨this.1, by simp [this.2]⟩
  | remove hid k =>
    simp only [stepW, removeW]
    split
    · exact ⟨hg, by simp⟩
    · rename_i c s hl
      simp only [Gen.removeUnpublishesFirst, if_true]
      have hmem := lookup_mem hid w.reg (c, s) hl
      refine ⟨fun p hp => hg p (erase_sub hid w.reg p hp), (stopH_quiet env c k s (hg (c, s) hmem).1).2⟩
  | removeAll k => exact removeLoop_good env k _ w hg

/-- FOR EVERY HISTORY of log / complete / remove operations and every fault oracle: no operation ever
    blocks and every registered handler stays in working order -/
theorem runW_good (env : Env) (ht : StderrTame env) (n : Nat) (ops : List Op) (w : World)
    (hg : AllGood w.reg) :
    AllGood (runW env n ops w).1.reg ∧ Res.blocked ∉ (runW env n ops w).2.2 := by
  induction ops generalizing w with
  | nil => simp [runW, hg]
  | cons op ops ih =>
    have hs := stepW_good env ht n w op hg
    unfold runW
    simp only []
    split
    · rename_i hb; exact absurd hb hs.2
    · rename_i x hx
      have := ih (stepW env n w op).w hs.1
      refine ⟨this.1, ?_⟩
      simp only [List.mem_cons, not_or]
      exact ⟨fun h => hs.2 h.symm, this.2⟩

theorem addW_good (c : Cfg) (w : World) (hg : AllGood w.reg) : AllGood (addW c w).reg := by
  intro p hp
  simp only [addW, List.mem_append, List.mem_singleton] at hp
  rcases hp with hp | rfl
  · exact hg p hp
  · simp [Good, Quiet, freshState]

theorem addAll_good (cfgs : List Cfg) (w : World) (hg : AllGood w.reg) :
    AllGood (cfgs.foldl (fun w c => addW c w) w).reg := by
  induction cfgs generalizing w with
  | nil => exact hg
  | cons c rest ih => exact ih (addW c w) (addW_good c w hg)

theorem runTasks_spec (env : Env) (c : Cfg) (hok : ∀ i, env.stderr i c.id = .ok) (ts : List Nat) (s : HState) :
    (runTasks env c ts s).1.tasks = [] ∧
    (runTasks env c ts s).2 = ts.flatMap (taskEvents env c) ∧
    (runTasks env c ts s).1.sink = s.sink ++ ts.filter (fun i => (env.fault i c.id .coroBody).isNone) := by
  induction ts generalizing s with
  | nil => simp [runTasks]
  | cons t rest ih =>
    unfold runTasks
    cases hf : env.fault t c.id .coroBody with
    | none =>
      have := ih { s with sink := s.sink ++ [t] }
      simp only [List.flatMap_cons, taskEvents, hf, List.nil_append, List.filter_cons, Option.isNone_none, if_true]
      refine ⟨this.1, this.2.1, ?_⟩
      rw [this.2.2]; simp
    | some e =>
      have := ih s
      simp only [List.flatMap_cons, taskEvents, hf, List.filter_cons, Option.isNone_some]
      refine ⟨this.1, ?_, this.2.2⟩
      rw [this.2.1]
      cases c.catch_ <;> simp [print, hok, Gen.printGuardsRecordStr]
theorem logLoop_eq_specLoop (env : Env) (n i : Nat) (reg : Reg) (hq : AllQuiet reg)
    (hre : ∀ p ∈ reg, env.reenter i p.1.id = []) :
    logLoop env n i reg = specLoop env i reg := by
  induction reg with
  | nil => rfl
  | cons p rest ih =>
    obtain ⟨c, s⟩ := p
    have hs : Quiet s := hq (c, s) (by simp)
    have hc := emitD_characterised env c n i s hs (hre (c, s) (by simp))
    have ih := ih (fun p hp => hq p (by simp [hp])) (fun p hp => hre p (by simp [hp]))
    unfold logLoop specLoop
    simp only [hc, ih]
    cases (expected env c i s).res <;> rfl

theorem rawWrite_res (env : Env) (c : Cfg) (i : Nat) (s s' : HState) :
    (rawWrite env c i s).2 = (rawWrite env c i s').2 := by
  unfold rawWrite
  split
  · simp [asyncSwallows_false]
  · split
    · rfl
    · simp only [Gen.streamFlushAfterWrite, if_true]
      split <;> rfl
    · rfl

theorem workerRun_reports (env : Env) (c : Cfg) (hok : ∀ i, env.stderr i c.id = .ok)
    (items : List QItem) (s : HState) (hs : QItem.sentinel ∉ items) :
    (workerRun env c items s).2 = items.flatMap (workerReports env c) := by
  induction items generalizing s with
  | nil => simp [workerRun]
  | cons it rest ih =>
    have hrest : QItem.sentinel ∉ rest := fun h => hs (by simp [h])
    cases it with
    | sentinel => simp at hs
    | confirm => simp only [workerRun, List.flatMap_cons, workerReports, List.nil_append]; exact ih s hrest
    | bad i e =>
      simp only [workerRun, Gen.workerCaught, if_true, Gen.workerGetArm, List.flatMap_cons, workerReports,
        print, hok, Gen.printGuardsRecordStr]
      simp [ih s hrest]
    | msg i =>
      simp only [workerRun, List.flatMap_cons, workerReports]
      rw [rawWrite_res env c i default s]
      cases hw : (rawWrite env c i s).2 with
      | raised e =>
        simp only [Gen.workerCaught, if_true, Gen.workerWriteArm, print, hok, Gen.printGuardsRecordStr]
        simp [ih _ hrest]
      | ok => simp [ih _ hrest]
      | blocked => simp [ih _ hrest]
end Emit
