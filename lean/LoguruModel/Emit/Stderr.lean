import LoguruModel.Emit.Model
/-
Emit area (C04) – WHERE an error report goes when `sys.stderr` changes during the life of a handler
(`contextlib.redirect_stderr`, per-call capture, a daemon re-opening its streams).

`ErrorInterceptor.print` must consult `sys.stderr` at each report.  A handler that keeps the stream of its first
report writes later reports to a stream that is no longer stderr – and if that stream has been closed meanwhile,
the `ValueError` of the closed file escapes to the caller.  `perCall` = `Gen.printResolvesStderrPerCall`.
-/
namespace Emit.Stderr
open Py

abbrev StreamId := Nat

/-- the process's stderr history -/
structure Hist where
  /-- which stream object is `sys.stderr` at time `t` -/
  cur : Nat → StreamId
  /-- what writing to stream `x` at time `t` does (ok / nothing there / raises) -/
  cond : StreamId → Nat → StderrMode

/-- the stream a report made at time `t` is written to, for a handler whose first report was at time `first` -/
def target (perCall : Bool) (h : Hist) (first t : Nat) : StreamId :=
  if perCall then h.cur t else h.cur first

structure Out where
  stream : StreamId
  written : Bool
  escapes : Option Err
  deriving DecidableEq, Repr

/-- one report at time `t` -/
def printAt (perCall : Bool) (h : Hist) (first t : Nat) : Out :=
  let x := target perCall h first t
  match h.cond x t with
  | .ok => ⟨x, true, none⟩
  | .absent => ⟨x, false, none⟩
  | .fails e => ⟨x, false, if Gen.printSwallows e then none else some e⟩
  | .failsAt c e => ⟨x, c != .header, if Gen.printSwallows e then none else some e⟩

end Emit.Stderr
