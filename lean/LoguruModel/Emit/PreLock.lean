import LoguruModel.Emit.Nested
import LoguruModel.Emit.NestedLemmas
/-
Emit area (C04) – the logger used from a handler's FILTER (round 5).

The filter runs inside `Handler.emit`'s `try`, after the level test and BEFORE `_protected_lock`: a logging call made
there is not a re-entry – the handler's lock is free and its marker clear – but an ordinary `_log` over all handlers,
this one included.  An exception that escapes from it (a `catch=False` handler failing on the inner message) leaves
the filter, i.e. it is a failure of THIS handler's filter stage: reported or raised as its `catch` says.

`pre i h` = the messages the filter of handler `h` logs while it is asked about message `i`.  The functions below wrap
those of `Emit/Nested.lean` (`emitAt`, `loopOver`, `loopN`): with `pre = fun _ _ => []` they ARE those functions
(`loopNP_eq_loopN`), so every theorem about `loopN` speaks about this layer too.
-/
namespace Emit
open Py

/-- the logging calls made by a filter, one after the other; the first one that raises ends the filter -/
def runPreCalls (innerLog : Nat → Reg → NRet) : List Nat → Reg → NRet
  | [], reg => ⟨reg, [], .ok⟩
  | j :: rest, reg =>
    let r := innerLog j reg
    match r.res with
    | .ok => let t := runPreCalls innerLog rest r.reg; ⟨t.reg, r.ev ++ t.ev, t.res⟩
    | _ => r

/-- `Handler.emit` of the handler at position `k` whose filter first uses the logger -/
def emitAtP (env : Env) (pre : Nat → Nat → List Nat) (innerLog : Nat → Reg → NRet) (k i : Nat) (reg : Reg) : NRet :=
  match reg[k]? with
  | none => ⟨reg, [], .ok⟩
  | some (c, _) =>
    if c.level > env.level i then ⟨reg, [], .ok⟩
    else
      let p := runPreCalls innerLog (if c.hasFilter then pre i c.id else []) reg
      match p.res with
      | .ok => let r := emitAt env innerLog k i p.reg; ⟨r.reg, p.ev ++ r.ev, r.res⟩
      | .blocked => p
      | .raised e =>
        -- escapes from the filter: `except <Gen.emitCaught>: if not should_catch: raise; print(record)`
        if Gen.emitCaught e && c.catch_ then
          let q := print env i c.id (some i) e .emit
          ⟨p.reg, p.ev ++ q.1, resOf q.2⟩
        else p

def loopOverP (env : Env) (pre : Nat → Nat → List Nat) (innerLog : Nat → Reg → NRet) (i : Nat) :
    List Nat → Reg → NRet
  | [], reg => ⟨reg, [], .ok⟩
  | k :: ks, reg =>
    let r := emitAtP env pre innerLog k i reg
    match r.res with
    | .ok => let t := loopOverP env pre innerLog i ks r.reg; ⟨t.reg, r.ev ++ t.ev, t.res⟩
    | _ => r

/-- the handler loop with filters and sinks that use the logger, nested at most `n` deep -/
def loopNP (env : Env) (pre : Nat → Nat → List Nat) : Nat → Nat → Reg → NRet
  | 0, i, reg => loopOverP env pre (fun _ r => ⟨r, [], .ok⟩) i (visitFrom 0 reg) reg
  | n + 1, i, reg => loopOverP env pre (fun j r => loopNP env pre n j r) i (visitFrom 0 reg) reg

def logWNP (env : Env) (pre : Nat → Nat → List Nat) (n i : Nat) (w : World) : WRet :=
  match w.minLevel with
  | none => ⟨w, [], .ok⟩
  | some m =>
    if env.level i < m then ⟨w, [], .ok⟩
    else
      let r := loopNP env pre n i w.reg
      let live := r.reg.filter isPublished
      let gone := r.reg.filter (fun p => !isPublished p)
      ⟨{ reg := live, removed := w.removed ++ gone,
         minLevel := if gone.isEmpty then w.minLevel else minLevelOf live }, r.ev, r.res⟩

def stepWNP (env : Env) (pre : Nat → Nat → List Nat) (n : Nat) (w : World) : Op → WRet
  | .log i => logWNP env pre n i w
  | op => stepWN env n w op

/-! ### never blocked, everything restored -/

theorem runPreCalls_ok (innerLog : Nat → Reg → NRet) (hin : InnerLogOk innerLog) (js : List Nat) (reg : Reg)
    (hi : LockInv reg) :
    (runPreCalls innerLog js reg).res ≠ .blocked ∧ Frame reg (runPreCalls innerLog js reg).reg := by
  induction js generalizing reg with
  | nil => exact ⟨by simp [runPreCalls], rfl⟩
  | cons j js ih =>
    have h := hin j reg hi
    unfold runPreCalls
    simp only []
    cases hres : (innerLog j reg).res with
    | ok =>
      simp only []
      have ih := ih _ (lockInv_of_frame reg _ hi h.2)
      exact ⟨ih.1, h.2.trans ih.2⟩
    | raised e => simp only []; exact ⟨by simp [hres], h.2⟩
    | blocked => exact absurd hres h.1

theorem emitAtP_ok (env : Env) (pre : Nat → Nat → List Nat) (innerLog : Nat → Reg → NRet)
    (hin : InnerLogOk innerLog) (k i : Nat) (reg : Reg) (hi : LockInv reg) :
    (emitAtP env pre innerLog k i reg).res ≠ .blocked ∧ Frame reg (emitAtP env pre innerLog k i reg).reg := by
  unfold emitAtP
  cases hk : reg[k]? with
  | none => exact ⟨by simp, rfl⟩
  | some p =>
    obtain ⟨c, s⟩ := p
    simp only []
    split
    · exact ⟨by simp, rfl⟩
    · have hp := runPreCalls_ok innerLog hin (if c.hasFilter then pre i c.id else []) reg hi
      cases hres : (runPreCalls innerLog (if c.hasFilter then pre i c.id else []) reg).res with
      | ok =>
        simp only []
        have he := emitAt_ok env innerLog hin k i _ (lockInv_of_frame reg _ hi hp.2)
        exact ⟨he.1, hp.2.trans he.2⟩
      | blocked => exact absurd hres hp.1
      | raised e =>
        simp only []
        split
        · refine ⟨?_, hp.2⟩
          simp only []
          unfold resOf
          split <;> simp
        · exact ⟨by simp [hres], hp.2⟩

theorem loopOverP_ok (env : Env) (pre : Nat → Nat → List Nat) (innerLog : Nat → Reg → NRet)
    (hin : InnerLogOk innerLog) (i : Nat) (ks : List Nat) (reg : Reg) (hi : LockInv reg) :
    (loopOverP env pre innerLog i ks reg).res ≠ .blocked ∧ Frame reg (loopOverP env pre innerLog i ks reg).reg := by
  induction ks generalizing reg with
  | nil => exact ⟨by simp [loopOverP], rfl⟩
  | cons k ks ih =>
    have h := emitAtP_ok env pre innerLog hin k i reg hi
    unfold loopOverP
    simp only []
    cases hres : (emitAtP env pre innerLog k i reg).res with
    | ok =>
      simp only []
      have ih := ih _ (lockInv_of_frame reg _ hi h.2)
      exact ⟨ih.1, h.2.trans ih.2⟩
    | raised e => simp only []; exact ⟨by simp [hres], h.2⟩
    | blocked => exact absurd hres h.1

theorem loopNP_innerLogOk (env : Env) (pre : Nat → Nat → List Nat) (n : Nat) :
    InnerLogOk (fun j r => loopNP env pre n j r) := by
  induction n with
  | zero =>
    intro j r hi
    simp only [loopNP]
    exact loopOverP_ok env pre _ innerLogOk_trivial j _ r hi
  | succ n ih =>
    intro j r hi
    simp only [loopNP]
    exact loopOverP_ok env pre _ ih j _ r hi

/-! ### without talking filters this layer is `Emit/Nested.lean` -/

theorem emitAtP_nil (env : Env) (innerLog : Nat → Reg → NRet) (k i : Nat) (reg : Reg) :
    emitAtP env (fun _ _ => []) innerLog k i reg = emitAt env innerLog k i reg := by
  unfold emitAtP emitAt
  cases hk : reg[k]? with
  | none => rfl
  | some p =>
    obtain ⟨c, s⟩ := p
    simp only [ite_self, runPreCalls, List.nil_append]
    split
    · rfl
    · simp only [hk]
      rename_i hlv
      simp [hlv]

theorem loopOverP_nil (env : Env) (innerLog : Nat → Reg → NRet) (i : Nat) (ks : List Nat) (reg : Reg) :
    loopOverP env (fun _ _ => []) innerLog i ks reg = loopOver env innerLog i ks reg := by
  induction ks generalizing reg with
  | nil => rfl
  | cons k ks ih =>
    unfold loopOverP loopOver
    simp only [emitAtP_nil, ih]
    cases (emitAt env innerLog k i reg).res <;> rfl

theorem loopNP_eq_loopN (env : Env) (n i : Nat) (reg : Reg) :
    loopNP env (fun _ _ => []) n i reg = loopN env n i reg := by
  induction n generalizing i reg with
  | zero => simp only [loopNP, loopN, loopOverP_nil]
  | succ n ih =>
    simp only [loopNP, loopN]
    have : (fun j r => loopNP env (fun _ _ => []) n j r) = (fun j r => loopN env n j r) := by
      funext j r; exact ih j r
    rw [this, loopOverP_nil]

end Emit
