import LoguruModel.Emit.Lemmas
/-
Emit area (C04) – helper lemmas for the round-5 theorems of Props/C04.lean: `logger.remove()` of all handlers
(`removeLoop` / `removeAllW`), what `sink.stop()` can raise (`stopFault`, table `Gen.sinkStop`), and
`ErrorInterceptor.print` at the level of its `write` calls (`Emit/Print.lean`, program `Gen.printProgram`).
-/
namespace Emit
open Py Spec

/-! ### `Handler.stop()`: its result is that of `sink.stop()` -/

theorem stopH_res (env : Env) (c : Cfg) (k : Nat) (s : HState) (hq : Quiet s) :
    (stopH env c k s).res = resOf (stopFault env c k) := by
  obtain ⟨hl, hm⟩ := hq
  unfold stopH
  rw [stopLock_eq]
  unfold protectedLock
  simp only [hm, hl, Bool.false_eq_true, if_false]
  cases h : stopFault env c k <;> simp [resOf]

/-! ### `Handler.stop()` of an enqueue handler: the worker drains the queue, then ends -/

theorem workerRun_sentinel (env : Env) (c : Cfg) (ht : StderrTame env) (items : List QItem) (s : HState)
    (hs : QItem.sentinel ∉ items) (ha : s.workerAlive = true) :
    (workerRun env c (items ++ [.sentinel]) s).1.workerAlive = false ∧
    (workerRun env c (items ++ [.sentinel]) s).1.queue = [] ∧
    (workerRun env c (items ++ [.sentinel]) s).1.sink = s.sink ++ items.flatMap (workerWrites env c) ∧
    (workerRun env c (items ++ [.sentinel]) s).1.lockHeld = s.lockHeld ∧
    (workerRun env c (items ++ [.sentinel]) s).1.marker = s.marker ∧
    (workerRun env c (items ++ [.sentinel]) s).1.stopped = s.stopped := by
  induction items generalizing s with
  | nil => simp [workerRun]
  | cons it rest ih =>
    have hrest : QItem.sentinel ∉ rest := fun h => hs (by simp [h])
    cases it with
    | sentinel => simp at hs
    | confirm =>
      simp only [List.cons_append, workerRun, List.flatMap_cons, workerWrites, List.nil_append]
      exact ih s hrest ha
    | bad i e =>
      simp only [List.cons_append, workerRun, Gen.workerCaught, if_true, print_tame env ht, Gen.workerGetArm,
        List.flatMap_cons, workerWrites, List.nil_append]
      exact ih s hrest ha
    | msg i =>
      have hc := rawWrite_ctl env c i s
      have hsink := rawWrite_sink env c i s
      obtain ⟨⟨c1, c2, c3, c4, _⟩, _, _⟩ := hc
      have ih' := ih (rawWrite env c i s).1 hrest (c4.trans ha)
      simp only [List.cons_append, workerRun, List.flatMap_cons]
      split
      · simp only [Gen.workerCaught, if_true, print_tame env ht, Gen.workerWriteArm]
        rw [ih'.2.2.1, hsink, List.append_assoc]
        exact ⟨ih'.1, ih'.2.1, rfl, ih'.2.2.2.1.trans c1, ih'.2.2.2.2.1.trans c2, ih'.2.2.2.2.2.trans c3⟩
      · rw [ih'.2.2.1, hsink, List.append_assoc]
        exact ⟨ih'.1, ih'.2.1, rfl, ih'.2.2.2.1.trans c1, ih'.2.2.2.2.1.trans c2, ih'.2.2.2.2.2.trans c3⟩

/-- `stop()` of an enqueue handler in working order: everything still in the pipe is processed (the writable
    messages reach the sink in FIFO order), the worker ends at the sentinel, and only then is the sink stopped -/
theorem stopH_drains (env : Env) (ht : StderrTame env) (c : Cfg) (k : Nat) (s : HState) (hg : Good (c, s))
    (he : c.enqueue = true) :
    (stopH env c k s).st.queue = [] ∧ (stopH env c k s).st.workerAlive = false ∧
    (stopH env c k s).st.stopped = true ∧
    (stopH env c k s).st.sink = s.sink ++ s.queue.flatMap (workerWrites env c) := by
  obtain ⟨⟨hl, hm⟩, _, hw, hs⟩ := hg
  have ha : s.workerAlive = true := hw he
  have hl : s.lockHeld = false := hl
  have hm : s.marker = false := hm
  have hs : QItem.sentinel ∉ s.queue := hs
  have h := workerRun_sentinel env c ht s.queue
    { s with marker := true, lockHeld := true, stopped := true, workerAlive := true } hs rfl
  unfold stopH
  rw [stopLock_eq]
  unfold protectedLock
  simp only [hm, hl, Bool.false_eq_true, if_false, he, ha, Bool.and_self, if_true]
  cases hf : stopFault env c k <;> simp <;> exact ⟨h.2.1, h.1, h.2.2.2.2.2, h.2.2.1⟩

/-- the sinks whose `stop()` runs no user code -/
def NoUserStop (c : Cfg) : Prop :=
  c.kind = .callable ∨ c.kind = .coroutine ∨ ((c.kind = .stream ∨ c.kind = .streamFlush) ∧ c.stoppable = false)

theorem stopFault_none (env : Env) (c : Cfg) (k : Nat) (h : NoUserStop c) : stopFault env c k = none := by
  unfold stopFault
  rcases h with h | h | ⟨h | h, hs⟩ <;> simp [Gen.sinkStop, *]

/-! ### registry bookkeeping -/

def ids (reg : Reg) : List Nat := reg.map (fun p => p.1.id)

theorem erase_of_not_mem (hid : Nat) (reg : Reg) (h : hid ∉ ids reg) : erase hid reg = reg := by
  induction reg with
  | nil => rfl
  | cons p rest ih =>
    obtain ⟨c, s⟩ := p
    simp only [ids, List.map_cons, List.mem_cons, not_or] at h
    unfold erase
    rw [if_neg (fun e => h.1 e.symm)]
    rw [ih (by simpa [ids] using h.2)]

theorem erase_length_le (hid : Nat) (reg : Reg) : (erase hid reg).length ≤ reg.length := by
  induction reg with
  | nil => simp [erase]
  | cons p rest ih =>
    obtain ⟨c, s⟩ := p
    unfold erase
    split
    · simp only [List.length_cons]; omega
    · simp only [List.length_cons]; omega

theorem erase_length_lt (hid : Nat) (reg : Reg) (p : Cfg × HState) (h : lookup hid reg = some p) :
    (erase hid reg).length < reg.length := by
  induction reg with
  | nil => simp [lookup] at h
  | cons q rest ih =>
    obtain ⟨c, s⟩ := q
    unfold lookup at h
    unfold erase
    split
    · have := erase_length_le hid rest
      simp only [List.length_cons]; omega
    · rename_i hne
      rw [if_neg hne] at h
      have := ih h
      simp only [List.length_cons]; omega

/-- what `remove(hid)` leaves in the registry: always the reduced one (`Gen.removeUnpublishesFirst`) -/
theorem removeW_found (env : Env) (hid k : Nat) (w : World) (c : Cfg) (s : HState)
    (hl : lookup hid w.reg = some (c, s)) :
    removeW env hid k w =
      ⟨{ reg := erase hid w.reg, minLevel := minLevelOf (erase hid w.reg),
         removed := w.removed ++ [(c, (stopH env c k s).st)] },
       (stopH env c k s).ev, (stopH env c k s).res⟩ := by
  simp [removeW, hl, Gen.removeUnpublishesFirst]

theorem removeW_length_le (env : Env) (hid k : Nat) (w : World) :
    (removeW env hid k w).w.reg.length ≤ w.reg.length := by
  cases hl : lookup hid w.reg with
  | none => simp [removeW, hl]
  | some p =>
    obtain ⟨c, s⟩ := p
    rw [removeW_found env hid k w c s hl]
    exact erase_length_le hid w.reg

theorem removeLoop_length_le (env : Env) (k : Nat) (l : List Nat) (w : World) :
    (removeLoop env k l w).w.reg.length ≤ w.reg.length := by
  induction l generalizing w with
  | nil => simp [removeLoop]
  | cons hid rest ih =>
    have h1 := removeW_length_le env hid k w
    unfold removeLoop
    simp only []
    split
    · exact Nat.le_trans (ih _) h1
    · exact h1

theorem removeLoop_head_lt (env : Env) (k hid : Nat) (rest : List Nat) (w : World) (p : Cfg × HState)
    (hl : lookup hid w.reg = some p) :
    (removeLoop env k (hid :: rest) w).w.reg.length < w.reg.length := by
  obtain ⟨c, s⟩ := p
  have b : (removeW env hid k w).w.reg.length < w.reg.length := by
    rw [removeW_found env hid k w c s hl]
    exact erase_length_lt hid w.reg (c, s) hl
  have a := removeLoop_length_le env k rest (removeW env hid k w).w
  unfold removeLoop
  simp only []
  split
  · exact Nat.lt_of_le_of_lt a b
  · exact b

/-- PROGRESS: a `remove()` on a non-empty registry takes at least its first handler out – whether it returns
    normally or raises, whatever the fault oracle says -/
theorem removeAllW_length_lt (env : Env) (k : Nat) (w : World) (hne : w.reg ≠ []) :
    (removeAllW env k w).w.reg.length < w.reg.length := by
  unfold removeAllW
  cases hreg : w.reg with
  | nil => exact absurd hreg hne
  | cons p rest =>
    obtain ⟨c, s⟩ := p
    have hl : lookup c.id w.reg = some (c, s) := by simp [hreg, lookup]
    have := removeLoop_head_lt env k c.id (rest.map (fun p => p.1.id)) w (c, s) hl
    rw [hreg] at this
    simpa using this

theorem removeAllW_empty (env : Env) (k : Nat) (w : World) (h : w.reg = []) : (removeAllW env k w).w = w := by
  simp [removeAllW, h, removeLoop]

/-- calling `remove()` again and again (catching what it raises): after as many calls as there were handlers the
    registry is empty – for every fault oracle -/
theorem removeAll_repeated (env : Env) (ks : List Nat) (w : World) (h : w.reg.length ≤ ks.length) :
    (ks.foldl (fun w k => (removeAllW env k w).w) w).reg = [] := by
  induction ks generalizing w with
  | nil =>
    simp only [List.length_nil, Nat.le_zero] at h
    simpa using List.eq_nil_of_length_eq_zero h
  | cons k rest ih =>
    simp only [List.foldl_cons]
    apply ih
    by_cases hne : w.reg = []
    · rw [removeAllW_empty env k w hne, hne]; simp
    · have := removeAllW_length_lt env k w hne
      simp only [List.length_cons] at h
      omega

/-- the registry invariant `remove()` maintains once it has removed something: the published minimum level is the
    minimum over the registered handlers -/
theorem removeLoop_minLevel (env : Env) (k : Nat) (l : List Nat) (w : World)
    (h : w.minLevel = minLevelOf w.reg) :
    (removeLoop env k l w).w.minLevel = minLevelOf (removeLoop env k l w).w.reg := by
  induction l generalizing w with
  | nil => simpa [removeLoop] using h
  | cons hid rest ih =>
    have h1 : (removeW env hid k w).w.minLevel = minLevelOf (removeW env hid k w).w.reg := by
      cases hl : lookup hid w.reg with
      | none => simpa [removeW, hl] using h
      | some p =>
        obtain ⟨c, s⟩ := p
        rw [removeW_found env hid k w c s hl]
    unfold removeLoop
    simp only []
    split
    · exact ih _ h1
    · exact h1

/-- EXACT CHARACTERISATION of `remove()` over handlers with distinct ids: the handlers before the first one whose
    `stop()` raises are removed, that one is removed nonetheless and its error reaches the caller, the handlers
    registered after it stay registered – untouched – and the minimum level is theirs -/
theorem removeLoop_first_failure (env : Env) (k : Nat) (pre post : Reg) (c : Cfg) (s : HState) (e : Err) (w : World)
    (hreg : w.reg = pre ++ (c, s) :: post) (hnd : (ids (pre ++ (c, s) :: post)).Nodup)
    (hq : ∀ p ∈ pre ++ (c, s) :: post, Quiet p.2)
    (hpre : ∀ p ∈ pre, stopFault env p.1 k = none) (hc : stopFault env c k = some e) :
    (removeLoop env k (ids (pre ++ (c, s) :: post)) w).res = .raised e ∧
    (removeLoop env k (ids (pre ++ (c, s) :: post)) w).w.reg = post ∧
    (removeLoop env k (ids (pre ++ (c, s) :: post)) w).w.minLevel = minLevelOf post := by
  induction pre generalizing w with
  | nil =>
    simp only [List.nil_append] at hreg hnd hq ⊢
    have hl : lookup c.id w.reg = some (c, s) := by simp [hreg, lookup]
    have hnotin : c.id ∉ ids post := by
      simp only [ids, List.map_cons, List.nodup_cons] at hnd
      exact hnd.1
    have he : erase c.id w.reg = post := by
      rw [hreg]; unfold erase; simp only [if_true]; exact erase_of_not_mem c.id post hnotin
    have hw := removeW_found env c.id k w c s hl
    have hr := stopH_res env c k s (hq (c, s) (by simp))
    rw [hc] at hr
    simp only [ids, List.map_cons]
    unfold removeLoop
    simp only []
    rw [hw]
    simp [hr, resOf, he]
  | cons p0 pre' ih =>
    obtain ⟨c0, s0⟩ := p0
    simp only [List.cons_append] at hreg hnd hq ⊢
    have hl : lookup c0.id w.reg = some (c0, s0) := by simp [hreg, lookup]
    have hnd' : c0.id ∉ ids (pre' ++ (c, s) :: post) ∧ (ids (pre' ++ (c, s) :: post)).Nodup := by
      simpa [ids, List.nodup_cons] using hnd
    have he : erase c0.id w.reg = pre' ++ (c, s) :: post := by
      rw [hreg]; unfold erase; simp only [if_true]; exact erase_of_not_mem c0.id _ hnd'.1
    have hw := removeW_found env c0.id k w c0 s0 hl
    have hr := stopH_res env c0 k s0 (hq (c0, s0) (by simp))
    rw [hpre (c0, s0) (by simp)] at hr
    have step : removeLoop env k (ids ((c0, s0) :: (pre' ++ (c, s) :: post))) w =
        ⟨(removeLoop env k (ids (pre' ++ (c, s) :: post)) (removeW env c0.id k w).w).w,
         (removeW env c0.id k w).ev ++ (removeLoop env k (ids (pre' ++ (c, s) :: post)) (removeW env c0.id k w).w).ev,
         (removeLoop env k (ids (pre' ++ (c, s) :: post)) (removeW env c0.id k w).w).res⟩ := by
      have hres : (removeW env c0.id k w).res = .ok := by rw [hw]; simpa [resOf] using hr
      simp only [ids, List.map_cons]
      conv => lhs; unfold removeLoop
      simp only [hres]
    rw [step]
    simp only []
    apply ih (removeW env c0.id k w).w
    · rw [hw]; exact he
    · exact hnd'.2
    · intro p hp; exact hq p (by simp [hp])
    · intro p hp; exact hpre p (by simp [hp])

/-- … and when no `stop()` raises, `remove()` empties the registry and publishes +inf -/
theorem removeLoop_all_ok (env : Env) (k : Nat) (reg : Reg) (w : World)
    (hreg : w.reg = reg) (hnd : (ids reg).Nodup) (hq : ∀ p ∈ reg, Quiet p.2)
    (hok : ∀ p ∈ reg, stopFault env p.1 k = none) (hm : reg = [] → w.minLevel = none) :
    (removeLoop env k (ids reg) w).res = .ok ∧ (removeLoop env k (ids reg) w).w.reg = [] ∧
    (removeLoop env k (ids reg) w).w.minLevel = none := by
  induction reg generalizing w with
  | nil => simp [ids, removeLoop, hreg, hm rfl]
  | cons p0 rest ih =>
    obtain ⟨c0, s0⟩ := p0
    have hl : lookup c0.id w.reg = some (c0, s0) := by simp [hreg, lookup]
    have hnd' : c0.id ∉ ids rest ∧ (ids rest).Nodup := by simpa [ids, List.nodup_cons] using hnd
    have he : erase c0.id w.reg = rest := by
      rw [hreg]; unfold erase; simp only [if_true]; exact erase_of_not_mem c0.id _ hnd'.1
    have hw := removeW_found env c0.id k w c0 s0 hl
    have hr := stopH_res env c0 k s0 (hq (c0, s0) (by simp))
    rw [hok (c0, s0) (by simp)] at hr
    have hres : (removeW env c0.id k w).res = .ok := by rw [hw]; simpa [resOf] using hr
    have step : removeLoop env k (ids ((c0, s0) :: rest)) w =
        ⟨(removeLoop env k (ids rest) (removeW env c0.id k w).w).w,
         (removeW env c0.id k w).ev ++ (removeLoop env k (ids rest) (removeW env c0.id k w).w).ev,
         (removeLoop env k (ids rest) (removeW env c0.id k w).w).res⟩ := by
      simp only [ids, List.map_cons]
      conv => lhs; unfold removeLoop
      simp only [hres]
    rw [step]
    simp only []
    apply ih (removeW env c0.id k w).w
    · rw [hw]; exact he
    · exact hnd'.2
    · intro p hp; exact hq p (by simp [hp])
    · intro p hp; exact hok p (by simp [hp])
    · intro hr0; rw [hw]; simp only [he, hr0]; rfl

/-! ### whole histories refine the specification's histories -/

theorem stepW_eq_specStepW (env : Env) (n : Nat) (w : World) (op : Op) (hg : AllGood w.reg)
    (hre : ∀ i h, env.reenter i h = []) :
    stepW env n w op = specStepW env w op := by
  cases op with
  | log i =>
    have hq : AllQuiet w.reg := fun p hp => (hg p hp).1
    simp only [stepW, specStepW, logW, specLogW]
    rw [logLoop_eq_specLoop env n i w.reg hq (fun p _ => hre i p.1.id)]
    rfl
  | complete => rfl
  | remove hid k => rfl
  | removeAll k => rfl

theorem runW_eq_specRunW (env : Env) (ht : StderrTame env) (n : Nat) (ops : List Op) (w : World)
    (hg : AllGood w.reg) (hre : ∀ i h, env.reenter i h = []) :
    runW env n ops w = specRunW env ops w := by
  induction ops generalizing w with
  | nil => rfl
  | cons op ops ih =>
    have hs := stepW_good env ht n w op hg
    have he := stepW_eq_specStepW env n w op hg hre
    have ih' := ih (stepW env n w op).w hs.1
    unfold runW specRunW
    rw [← he]
    simp only [ih']
    cases (stepW env n w op).res <;> rfl

/-! ### `ErrorInterceptor.print`: the spelled-out arms of `print` are the write-level program -/

theorem writesOf_printProgram : Print.writesOf Gen.printProgram = Print.fullReport := rfl

theorem allGuarded_printProgram : Print.allGuarded Gen.printProgram = true := rfl

theorem printP_spec (o : Print.Oracle) (hp : o.present = true) :
    Print.printP Gen.printProgram o =
      ⟨Print.fullReport.takeWhile (fun c => (o.wr c).isNone), o.strFails,
       Print.afterExcept (Print.firstFail o Print.fullReport)⟩ := by
  unfold Print.printP
  simp only [hp, Bool.not_true, Bool.false_eq_true, if_false]
  rw [Print.runSteps_spec o _ allGuarded_printProgram, writesOf_printProgram]

theorem firstFail_some (o : Print.Oracle) (l : List Chunk) (e : Err) (h : Print.firstFail o l = some e) :
    ∃ c ∈ l, o.wr c = some e := by
  induction l with
  | nil => simp [Print.firstFail] at h
  | cons c rest ih =>
    unfold Print.firstFail at h
    cases hc : o.wr c with
    | some e' =>
      rw [hc] at h
      simp only [Option.some.injEq] at h
      exact ⟨c, by simp, by rw [hc, h]⟩
    | none =>
      rw [hc] at h
      obtain ⟨c', hm, hw⟩ := ih h
      exact ⟨c', by simp [hm], hw⟩

theorem print_eq_printP (env : Env) (i hid : Nat) (msg : Option Nat) (kind : Err) (src : Src) :
    print env i hid msg kind src =
      (eventsOf (Print.printP Gen.printProgram (oracleOf (env.stderr i hid) (strFailsOf env msg))) hid msg kind src,
       (Print.printP Gen.printProgram (oracleOf (env.stderr i hid) (strFailsOf env msg))).escapes) := by
  unfold print
  cases h : env.stderr i hid with
  | ok =>
    cases msg <;>
      simp [oracleOf, strFailsOf, Print.printP, Print.runSteps, Gen.printProgram, eventsOf, Print.fullReport,
        Print.afterExcept, Gen.printGuardsRecordStr]
  | absent =>
    simp [oracleOf, Print.printP, eventsOf, Print.fullReport, Gen.printSkipsWhenNoStderr]
  | fails e =>
    simp [oracleOf, Print.printP, Print.runSteps, Gen.printProgram, eventsOf, Print.fullReport, Print.afterExcept]
    split <;> rfl
  | failsAt c e => rfl

end Emit
