import LoguruModel.Emit.Nested
import LoguruModel.Emit.Lemmas
/-
Emit area (C04) – the state-restoration invariant for registry-level re-entrancy (`Emit/Nested.lean`).
-/
namespace Emit
open Py

/-- the control part of a registered handler: everything but sink contents, queue and tasks -/
def ctl (p : Cfg × HState) : Cfg × Bool × Bool × Bool × Bool × Bool :=
  (p.1, p.2.lockHeld, p.2.marker, p.2.stopped, p.2.workerAlive, p.2.sinkStopped)

/-- same handlers, same control parts, position by position -/
def Frame (r r' : Reg) : Prop := r'.map ctl = r.map ctl

/-- a lock is only ever held together with the re-entrancy marker (single logging thread) -/
def LockInv (r : Reg) : Prop := ∀ p ∈ r, p.2.lockHeld = true → p.2.marker = true

def InnerLogOk (innerLog : Nat → Reg → NRet) : Prop :=
  ∀ j r, LockInv r → (innerLog j r).res ≠ .blocked ∧ Frame r (innerLog j r).reg

theorem ctl_of_sameCtl (c : Cfg) (s s' : HState) (h : SameCtl s s') : ctl (c, s') = ctl (c, s) := by
  obtain ⟨a, b, d, e, f⟩ := h
  simp [ctl, a, b, d, e, f]

theorem set_self {α : Type} (l : List α) (k : Nat) (a : α) (h : l[k]? = some a) : l.set k a = l := by
  apply List.ext_getElem?
  intro j
  rw [List.getElem?_set]
  by_cases hkj : k = j
  · subst hkj
    rcases List.getElem?_eq_some_iff.1 h with ⟨hlt, hv⟩
    simp [hlt, hv]
  · simp [hkj]

theorem frame_set (r : Reg) (k : Nat) (p p' : Cfg × HState) (h : r[k]? = some p) (hc : ctl p' = ctl p) :
    Frame r (r.set k p') := by
  unfold Frame
  rw [List.map_set, hc]
  apply set_self
  rw [List.getElem?_map, h]; rfl

theorem frame_get (r r' : Reg) (k : Nat) (p : Cfg × HState) (hf : Frame r r') (h : r[k]? = some p) :
    ∃ p', r'[k]? = some p' ∧ ctl p' = ctl p := by
  have : (r'.map ctl)[k]? = some (ctl p) := by rw [hf, List.getElem?_map, h]; rfl
  rw [List.getElem?_map] at this
  rcases Option.map_eq_some_iff.1 this with ⟨p', hp', hc⟩
  exact ⟨p', hp', hc⟩

theorem Frame.trans {a b c : Reg} (h1 : Frame a b) (h2 : Frame b c) : Frame a c := by
  unfold Frame at *; rw [h2, h1]

theorem lockInv_of_frame (r r' : Reg) (hi : LockInv r) (hf : Frame r r') : LockInv r' := by
  intro p' hp' hl
  rcases List.mem_iff_getElem?.1 hp' with ⟨k, hk⟩
  have hf' : Frame r' r := hf.symm
  rcases frame_get r' r k p' hf' hk with ⟨p, hp, hc⟩
  have hm := hi p (List.mem_of_getElem? hp)
  simp only [ctl, Prod.mk.injEq] at hc
  obtain ⟨_, c1, c2, _⟩ := hc
  rw [← c2]; apply hm; rw [c1]; exact hl

/-- the handler at position `k` is busy: its sink is running (marker set) -/
def BusyAt (k : Nat) (c : Cfg) (r : Reg) : Prop := ∃ s, r[k]? = some (c, s) ∧ s.marker = true

theorem busyAt_of_frame (k : Nat) (c : Cfg) (r r' : Reg) (hb : BusyAt k c r) (hf : Frame r r') :
    BusyAt k c r' := by
  obtain ⟨s, hk, hm⟩ := hb
  rcases frame_get r r' k (c, s) hf hk with ⟨p', hp', hc⟩
  obtain ⟨c', s'⟩ := p'
  simp only [ctl, Prod.mk.injEq] at hc
  obtain ⟨hcc, _, c2, _⟩ := hc
  subst hcc
  exact ⟨s', hp', by rw [c2]; exact hm⟩

/-- what one use of the logger by the sink of a busy handler must satisfy -/
def ActOk (k : Nat) (c : Cfg) (act : InnerAct → Reg → NRet) : Prop :=
  ∀ a r, LockInv r → BusyAt k c r → (act a r).res ≠ .blocked ∧ Frame r (act a r).reg

theorem removeSelfAt_ok (env : Env) (k kk : Nat) (c : Cfg) (r : Reg) (hb : BusyAt k c r) :
    (removeSelfAt env k kk c r).res ≠ .blocked ∧ Frame r (removeSelfAt env k kk c r).reg := by
  obtain ⟨s, hk, hm⟩ := hb
  unfold removeSelfAt
  simp only [hk]
  split
  · exact ⟨by simp, rfl⟩
  · have hs := stopH_marker env c kk { s with published := false } hm
    simp only [hs]
    exact ⟨by simp, frame_set r k (c, s) _ hk (by simp [ctl])⟩

theorem completeSelfAt_ok (k : Nat) (c : Cfg) (r : Reg) (hb : BusyAt k c r) :
    (completeSelfAt k c r).res ≠ .blocked ∧ Frame r (completeSelfAt k c r).reg := by
  obtain ⟨s, hk, hm⟩ := hb
  unfold completeSelfAt
  simp only [hk, tasksLocked_marker s hm]
  exact ⟨by simp, frame_set r k (c, s) _ hk rfl⟩

theorem actAt_ok (env : Env) (innerLog : Nat → Reg → NRet) (hin : InnerLogOk innerLog) (k : Nat) (c : Cfg) :
    ActOk k c (actAt env innerLog k c) := by
  intro a r hi hb
  cases a with
  | log j => exact hin j r hi
  | removeSelf kk => exact removeSelfAt_ok env k kk c r hb
  | completeSelf => exact completeSelfAt_ok k c r hb

theorem runInnerN_ok (k : Nat) (c : Cfg) (act : InnerAct → Reg → NRet) (hin : ActOk k c act)
    (js : List InnerAct) (r : Reg) (hi : LockInv r) (hb : BusyAt k c r) :
    (runInnerN act js r).res ≠ .blocked ∧ Frame r (runInnerN act js r).reg := by
  induction js generalizing r with
  | nil => simp [runInnerN, Frame]
  | cons j rest ih =>
    have h := hin j r hi hb
    unfold runInnerN
    simp only []
    cases hres : (act j r).res with
    | ok =>
      simp only []
      have ih := ih (act j r).reg (lockInv_of_frame r _ hi h.2) (busyAt_of_frame k c r _ hb h.2)
      exact ⟨ih.1, h.2.trans ih.2⟩
    | raised e => simp only []; exact ⟨by simp [hres], h.2⟩
    | blocked => exact absurd hres h.1

theorem lockedBodyAt_ok (env : Env) (innerLog : Nat → Reg → NRet) (hin : InnerLogOk innerLog)
    (k i : Nat) (c : Cfg) (s1 : HState) (reg1 : Reg) (hk : reg1[k]? = some (c, s1)) (hm1 : s1.marker = true)
    (hi : LockInv reg1) :
    (lockedBodyAt env innerLog k i c s1 reg1).res ≠ .blocked ∧
    Frame reg1 (lockedBodyAt env innerLog k i c s1 reg1).reg := by
  unfold lockedBodyAt
  split
  · exact ⟨by simp, rfl⟩
  · split
    · refine ⟨(queuePut_ctl env c i s1).2.1, ?_⟩
      exact frame_set reg1 k (c, s1) _ hk (ctl_of_sameCtl c s1 _ (queuePut_ctl env c i s1).1)
    · have h := runInnerN_ok k c _ (actAt_ok env innerLog hin k c) (env.reenter i c.id) reg1 hi ⟨s1, hk, hm1⟩
      simp only []
      cases hres : (runInnerN (actAt env innerLog k c) (env.reenter i c.id) reg1).res with
      | ok =>
        simp only []
        rcases frame_get reg1 _ k (c, s1) h.2 hk with ⟨p', hp', hc⟩
        obtain ⟨c', s2⟩ := p'
        simp only [hp']
        have hcc : c' = c := by simp only [ctl, Prod.mk.injEq] at hc; exact hc.1
        subst hcc
        refine ⟨(rawWrite_ctl env c' i s2).2.1, h.2.trans ?_⟩
        exact frame_set _ k (c', s2) _ hp' (ctl_of_sameCtl c' s2 _ (rawWrite_ctl env c' i s2).1)
      | raised e => simp only []; exact ⟨by simp [hres], h.2⟩
      | blocked => exact absurd hres h.1

theorem frame_restore (reg breg : Reg) (k : Nat) (c : Cfg) (s s1 s3' : HState)
    (hk : reg[k]? = some (c, s)) (hf : Frame (reg.set k (c, s1)) breg)
    (hc : ctl (c, s3') = ctl (c, s)) : Frame reg (breg.set k (c, s3')) := by
  unfold Frame at *
  rw [List.map_set, hf, List.map_set, List.set_set, hc]
  apply set_self
  rw [List.getElem?_map, hk]; rfl

theorem protectedLockAt_ok (env : Env) (innerLog : Nat → Reg → NRet) (hin : InnerLogOk innerLog)
    (k i : Nat) (c : Cfg) (s : HState) (reg : Reg) (hk : reg[k]? = some (c, s)) (hi : LockInv reg) :
    (protectedLockAt env innerLog k i c s reg).res ≠ .blocked ∧
    Frame reg (protectedLockAt env innerLog k i c s reg).reg := by
  have hmem : (c, s) ∈ reg := List.mem_of_getElem? hk
  have hlt : k < reg.length := by
    rcases List.getElem?_eq_some_iff.1 hk with ⟨h, _⟩; exact h
  unfold protectedLockAt
  by_cases hm : s.marker = true
  · simp only [hm, if_true, Gen.markerCheckedBeforeSet]
    exact ⟨by simp, rfl⟩
  · have hm' : s.marker = false := by simpa using hm
    have hl : s.lockHeld = false := by
      cases h : s.lockHeld with
      | false => rfl
      | true => exact absurd (hi (c, s) hmem h) hm
    simp only [hm', hl, Bool.false_eq_true, if_false]
    have hk1 : (reg.set k (c, { s with marker := true, lockHeld := true }))[k]? =
        some (c, { s with marker := true, lockHeld := true }) := List.getElem?_set_self hlt
    have hi1 : LockInv (reg.set k (c, { s with marker := true, lockHeld := true })) := by
      intro p hp
      rcases List.mem_or_eq_of_mem_set hp with hp | rfl
      · exact hi p hp
      · intro _; rfl
    have hb := lockedBodyAt_ok env innerLog hin k i c { s with marker := true, lockHeld := true } _ hk1 rfl hi1
    rcases frame_get _ _ k _ hb.2 hk1 with ⟨p', hp', hc⟩
    obtain ⟨c', s3⟩ := p'
    simp only [ctl, Prod.mk.injEq] at hc
    obtain ⟨hcc, _, _, h3, h4, h5⟩ := hc
    subst hcc
    cases hres : (lockedBodyAt env innerLog k i c' { s with marker := true, lockHeld := true }
        (reg.set k (c', { s with marker := true, lockHeld := true }))).res with
    | blocked => exact absurd hres hb.1
    | ok =>
      simp only [hp']
      refine ⟨by simp, frame_restore reg _ k c' s _ _ hk hb.2 ?_⟩
      simp [ctl, h3, h4, h5, hl, hm']
    | raised e =>
      simp only [hp', Gen.markerResetInFinally, if_true]
      refine ⟨by simp, frame_restore reg _ k c' s _ _ hk hb.2 ?_⟩
      simp [ctl, h3, h4, h5, hl, hm']

theorem emitAt_ok (env : Env) (innerLog : Nat → Reg → NRet) (hin : InnerLogOk innerLog)
    (k i : Nat) (reg : Reg) (hi : LockInv reg) :
    (emitAt env innerLog k i reg).res ≠ .blocked ∧ Frame reg (emitAt env innerLog k i reg).reg := by
  unfold emitAt
  cases hk : reg[k]? with
  | none => exact ⟨by simp, rfl⟩
  | some p =>
    obtain ⟨c, s⟩ := p
    simp only []
    have ht : ∀ t : NRet, t.res ≠ .blocked ∧ Frame reg t.reg →
        (match t.res with
          | .raised e =>
            if Gen.emitCaught e && c.catch_ then
              (⟨t.reg, t.ev ++ (print env i c.id (some i) e .emit).1,
                resOf (print env i c.id (some i) e .emit).2⟩ : NRet)
            else t
          | _ => t).res ≠ .blocked ∧
        Frame reg (match t.res with
          | .raised e =>
            if Gen.emitCaught e && c.catch_ then
              (⟨t.reg, t.ev ++ (print env i c.id (some i) e .emit).1,
                resOf (print env i c.id (some i) e .emit).2⟩ : NRet)
            else t
          | _ => t).reg := by
      intro t h
      split
      · split
        · refine ⟨?_, h.2⟩
          simp only []
          unfold resOf
          split <;> simp
        · exact h
      · exact h
    apply ht
    split
    · exact ⟨by simp, rfl⟩
    · split
      · exact ⟨by simp, rfl⟩
      · exact ⟨by simp, rfl⟩
      · exact protectedLockAt_ok env innerLog hin k i c s reg hk hi

theorem loopOver_ok (env : Env) (innerLog : Nat → Reg → NRet) (hin : InnerLogOk innerLog)
    (i : Nat) (ks : List Nat) (reg : Reg) (hi : LockInv reg) :
    (loopOver env innerLog i ks reg).res ≠ .blocked ∧ Frame reg (loopOver env innerLog i ks reg).reg := by
  induction ks generalizing reg with
  | nil => exact ⟨by simp [loopOver], rfl⟩
  | cons k ks ih =>
    have h := emitAt_ok env innerLog hin k i reg hi
    unfold loopOver
    simp only []
    cases hres : (emitAt env innerLog k i reg).res with
    | ok =>
      simp only []
      have ih := ih _ (lockInv_of_frame reg _ hi h.2)
      exact ⟨ih.1, h.2.trans ih.2⟩
    | raised e => simp only []; exact ⟨by simp [hres], h.2⟩
    | blocked => exact absurd hres h.1

theorem innerLogOk_trivial : InnerLogOk (fun _ r => ⟨r, [], .ok⟩) := by
  intro j r _
  exact ⟨by simp, by unfold Frame; rfl⟩

theorem loopN_innerLogOk (env : Env) (n : Nat) : InnerLogOk (fun j r => loopN env n j r) := by
  induction n with
  | zero =>
    intro j r hi
    simp only [loopN]
    exact loopOver_ok env _ innerLogOk_trivial j _ r hi
  | succ n ih =>
    intro j r hi
    simp only [loopN]
    exact loopOver_ok env _ ih j _ r hi

/-- quiet registries satisfy the lock invariant, and a frame maps them to quiet registries -/
theorem lockInv_of_allQuiet (reg : Reg) (hq : AllQuiet reg) : LockInv reg := by
  intro p hp hl
  have := (hq p hp).1
  rw [this] at hl; exact absurd hl (by simp)

theorem allQuiet_of_frame (r r' : Reg) (hq : AllQuiet r) (hf : Frame r r') : AllQuiet r' := by
  intro p' hp'
  rcases List.mem_iff_getElem?.1 hp' with ⟨k, hk⟩
  rcases frame_get r' r k p' hf.symm hk with ⟨p, hp, hc⟩
  have hqp := hq p (List.mem_of_getElem? hp)
  simp only [ctl, Prod.mk.injEq] at hc
  obtain ⟨_, c1, c2, _⟩ := hc
  exact ⟨by rw [← c1]; exact hqp.1, by rw [← c2]; exact hqp.2⟩

/-! ### no sentinel ever enters a queue through logging -/

def QOk (r : Reg) : Prop := ∀ p ∈ r, QItem.sentinel ∉ p.2.queue

def InnerQOk (innerLog : Nat → Reg → NRet) : Prop := ∀ j r, LockInv r → QOk r → QOk (innerLog j r).reg

theorem qok_set (r : Reg) (k : Nat) (c : Cfg) (s' : HState) (hq : QOk r) (hs : QItem.sentinel ∉ s'.queue) :
    QOk (r.set k (c, s')) := by
  intro p hp
  rcases List.mem_or_eq_of_mem_set hp with hp | rfl
  · exact hq p hp
  · exact hs

theorem actAt_q (env : Env) (innerLog : Nat → Reg → NRet) (hin : InnerQOk innerLog) (k : Nat) (c : Cfg)
    (a : InnerAct) (r : Reg) (hi : LockInv r) (hb : BusyAt k c r) (hq : QOk r) :
    QOk (actAt env innerLog k c a r).reg := by
  obtain ⟨s, hk, hm⟩ := hb
  have hs : QItem.sentinel ∉ s.queue := hq (c, s) (List.mem_of_getElem? hk)
  cases a with
  | log j => exact hin j r hi hq
  | removeSelf kk =>
    simp only [actAt, removeSelfAt, hk]
    split
    · exact hq
    · simp only [stopH_marker env c kk { s with published := false } hm]
      exact qok_set _ _ _ _ hq hs
  | completeSelf =>
    simp only [actAt, completeSelfAt, hk, tasksLocked_marker s hm]
    exact qok_set _ _ _ _ hq hs

theorem runInnerN_q (env : Env) (innerLog : Nat → Reg → NRet) (hok : InnerLogOk innerLog)
    (hin : InnerQOk innerLog) (k : Nat) (c : Cfg) (js : List InnerAct) (r : Reg)
    (hi : LockInv r) (hb : BusyAt k c r) (hq : QOk r) :
    QOk (runInnerN (actAt env innerLog k c) js r).reg := by
  induction js generalizing r with
  | nil => exact hq
  | cons j rest ih =>
    have ha := actAt_ok env innerLog hok k c j r hi hb
    have hqa := actAt_q env innerLog hin k c j r hi hb hq
    unfold runInnerN
    simp only []
    split
    · exact ih _ (lockInv_of_frame r _ hi ha.2) (busyAt_of_frame k c r _ hb ha.2) hqa
    · exact hqa

theorem lockedBodyAt_q (env : Env) (innerLog : Nat → Reg → NRet) (hok : InnerLogOk innerLog)
    (hin : InnerQOk innerLog)
    (k i : Nat) (c : Cfg) (s1 : HState) (reg1 : Reg) (hk : reg1[k]? = some (c, s1)) (hm1 : s1.marker = true)
    (hi : LockInv reg1) (hq : QOk reg1) :
    QOk (lockedBodyAt env innerLog k i c s1 reg1).reg := by
  have hs1 : QItem.sentinel ∉ s1.queue := hq (c, s1) (List.mem_of_getElem? hk)
  unfold lockedBodyAt
  split
  · exact hq
  · split
    · apply qok_set _ _ _ _ hq
      unfold queuePut
      split
      · exact hs1
      · simp only [List.mem_append, List.mem_singleton, not_or]
        exact ⟨hs1, fun h => queuedItem_ne_sentinel env c i h.symm⟩
    · have h := runInnerN_q env innerLog hok hin k c (env.reenter i c.id) reg1 hi ⟨s1, hk, hm1⟩ hq
      simp only []
      split
      · split
        · rename_i c' s2 hk2
          apply qok_set _ _ _ _ h
          rw [(rawWrite_ctl env c i s2).2.2]
          exact h (c', s2) (List.mem_of_getElem? hk2)
        · exact h
      · exact h

theorem protectedLockAt_q (env : Env) (innerLog : Nat → Reg → NRet) (hok : InnerLogOk innerLog)
    (hin : InnerQOk innerLog)
    (k i : Nat) (c : Cfg) (s : HState) (reg : Reg) (hk : reg[k]? = some (c, s)) (hi : LockInv reg)
    (hq : QOk reg) :
    QOk (protectedLockAt env innerLog k i c s reg).reg := by
  have hs : QItem.sentinel ∉ s.queue := hq (c, s) (List.mem_of_getElem? hk)
  have hlt : k < reg.length := by
    rcases List.getElem?_eq_some_iff.1 hk with ⟨h, _⟩; exact h
  unfold protectedLockAt
  split
  · split
    · exact hq
    · exact qok_set _ _ _ _ hq hs
  · split
    · exact qok_set _ _ _ _ hq hs
    · have hk1 : (reg.set k (c, { s with marker := true, lockHeld := true }))[k]? =
          some (c, { s with marker := true, lockHeld := true }) := List.getElem?_set_self hlt
      have hi1 : LockInv (reg.set k (c, { s with marker := true, lockHeld := true })) := by
        intro p hp
        rcases List.mem_or_eq_of_mem_set hp with hp | rfl
        · exact hi p hp
        · intro _; rfl
      have hb := lockedBodyAt_q env innerLog hok hin k i c { s with marker := true, lockHeld := true }
        (reg.set k (c, { s with marker := true, lockHeld := true })) hk1 rfl hi1 (qok_set _ _ _ _ hq hs)
      simp only []
      split
      · exact hb
      · split
        · rename_i c' s3 hk3
          exact qok_set _ _ _ _ hb (hb (c', s3) (List.mem_of_getElem? hk3))
        · exact hb
      · split
        · rename_i c' s3 hk3
          exact qok_set _ _ _ _ hb (hb (c', s3) (List.mem_of_getElem? hk3))
        · exact hb

theorem emitAt_q (env : Env) (innerLog : Nat → Reg → NRet) (hok : InnerLogOk innerLog)
    (hin : InnerQOk innerLog)
    (k i : Nat) (reg : Reg) (hi : LockInv reg) (hq : QOk reg) : QOk (emitAt env innerLog k i reg).reg := by
  unfold emitAt
  cases hk : reg[k]? with
  | none => exact hq
  | some p =>
    obtain ⟨c, s⟩ := p
    simp only []
    have ht : ∀ t : NRet, QOk t.reg →
        QOk (match t.res with
          | .raised e =>
            if Gen.emitCaught e && c.catch_ then
              (⟨t.reg, t.ev ++ (print env i c.id (some i) e .emit).1,
                resOf (print env i c.id (some i) e .emit).2⟩ : NRet)
            else t
          | _ => t).reg := by
      intro t h
      split
      · split <;> exact h
      · exact h
    apply ht
    split
    · exact hq
    · split
      · exact hq
      · exact hq
      · exact protectedLockAt_q env innerLog hok hin k i c s reg hk hi hq

theorem loopOver_q (env : Env) (innerLog : Nat → Reg → NRet) (hok : InnerLogOk innerLog)
    (hin : InnerQOk innerLog)
    (i : Nat) (ks : List Nat) (reg : Reg) (hi : LockInv reg) (hq : QOk reg) :
    QOk (loopOver env innerLog i ks reg).reg := by
  induction ks generalizing reg with
  | nil => exact hq
  | cons k ks ih =>
    have h := emitAt_q env innerLog hok hin k i reg hi hq
    have hf := emitAt_ok env innerLog hok k i reg hi
    unfold loopOver
    simp only []
    split
    · exact ih _ (lockInv_of_frame reg _ hi hf.2) h
    · exact h

theorem loopN_innerQOk (env : Env) (n : Nat) : InnerQOk (fun j r => loopN env n j r) := by
  induction n with
  | zero =>
    intro j r hi hq
    simp only [loopN]
    exact loopOver_q env _ innerLogOk_trivial (fun _ _ _ h => h) j _ r hi hq
  | succ n ih =>
    intro j r hi hq
    simp only [loopN]
    exact loopOver_q env _ (loopN_innerLogOk env n) ih j _ r hi hq

/-- registry-level logging with arbitrarily nested re-entrant sinks keeps every handler in working
    order and never blocks -/
theorem loopN_good (env : Env) (n i : Nat) (reg : Reg) (hg : AllGood reg) :
    AllGood (loopN env n i reg).reg ∧ (loopN env n i reg).res ≠ .blocked := by
  have hq : AllQuiet reg := fun p hp => (hg p hp).1
  have h := loopN_innerLogOk env n i reg (lockInv_of_allQuiet reg hq)
  have hqq := loopN_innerQOk env n i reg (lockInv_of_allQuiet reg hq) (fun p hp => (hg p hp).2.2.2)
  refine ⟨?_, h.1⟩
  intro p' hp'
  rcases List.mem_iff_getElem?.1 hp' with ⟨k, hk⟩
  rcases frame_get _ reg k p' (Eq.symm h.2) hk with ⟨p, hp, hc⟩
  obtain ⟨g1, g2, g3, _⟩ := hg p (List.mem_of_getElem? hp)
  simp only [ctl, Prod.mk.injEq] at hc
  obtain ⟨c0, c1, c2, c3, c4, _⟩ := hc
  refine ⟨⟨by rw [← c1]; exact g1.1, by rw [← c2]; exact g1.2⟩, by rw [← c3]; exact g2, ?_, hqq p' hp'⟩
  intro he
  rw [← c4]; apply g3; rw [c0]; exact he

theorem stepWN_good (env : Env) (ht : Spec.StderrTame env) (n : Nat) (w : World) (op : Op)
    (hg : AllGood w.reg) :
    AllGood (stepWN env n w op).w.reg ∧ (stepWN env n w op).res ≠ .blocked := by
  cases op with
  | log i =>
    simp only [stepWN, logWN]
    split
    · exact ⟨hg, by simp⟩
    · split
      · exact ⟨hg, by simp⟩
      · have h := loopN_good env n i w.reg hg
        exact ⟨fun p hp => h.1 p (List.mem_filter.1 hp).1, h.2⟩
  | complete => exact stepW_good env ht n w .complete hg
  | remove hid k => exact stepW_good env ht n w (.remove hid k) hg
  | removeAll k => exact stepW_good env ht n w (.removeAll k) hg

/-- a logging call reaching a busy handler (marker set: we are inside its sink): the registry is not
    touched, the call is answered with RuntimeError – reported or raised as `catch` says -/
theorem emitAt_busy (env : Env) (innerLog : Nat → Reg → NRet) (k j : Nat) (reg : Reg) (c : Cfg) (s : HState)
    (hk : reg[k]? = some (c, s)) (hm : s.marker = true) (hlv : ¬ c.level > env.level j)
    (hpre : runPre env c j Gen.preLockStages = .pass) :
    (emitAt env innerLog k j reg).reg = reg ∧
    (emitAt env innerLog k j reg).ev = (Spec.handle env c j s .runtimeError).ev ∧
    (emitAt env innerLog k j reg).res = (Spec.handle env c j s .runtimeError).res := by
  unfold emitAt
  simp only [hk, hlv, if_false, hpre, protectedLockAt, hm, if_true, Gen.markerCheckedBeforeSet]
  unfold Spec.handle
  cases c.catch_ <;> simp [Gen.emitCaught]

theorem runWN_good (env : Env) (ht : Spec.StderrTame env) (n : Nat) (ops : List Op) (w : World)
    (hg : AllGood w.reg) :
    AllGood (runWN env n ops w).1.reg ∧ Res.blocked ∉ (runWN env n ops w).2.2 := by
  induction ops generalizing w with
  | nil => simp [runWN, hg]
  | cons op ops ih =>
    have hs := stepWN_good env ht n w op hg
    unfold runWN
    simp only []
    split
    · rename_i hb; exact absurd hb hs.2
    · rename_i x hx
      have := ih (stepWN env n w op).w hs.1
      refine ⟨this.1, ?_⟩
      simp only [List.mem_cons, not_or]
      exact ⟨fun h => hs.2 h.symm, this.2⟩

theorem lockedBodyAt_eq (env : Env) (innerLog : Nat → Reg → NRet) (inner : InnerAct → Step) (k i : Nat) (c : Cfg)
    (s1 : HState) (reg1 : Reg) (hk : reg1[k]? = some (c, s1)) (hre : env.reenter i c.id = []) :
    lockedBodyAt env innerLog k i c s1 reg1 =
      ⟨reg1.set k (c, (lockedBody env c i inner s1).st), (lockedBody env c i inner s1).ev,
       (lockedBody env c i inner s1).res⟩ := by
  unfold lockedBodyAt lockedBody
  split
  · simp [set_self reg1 k (c, s1) hk]
  · split
    · rfl
    · simp only [hre, runInnerN, hk, sinkWrite, runInner]

theorem protectedLockAt_eq (env : Env) (innerLog : Nat → Reg → NRet) (inner : InnerAct → Step) (k i : Nat)
    (c : Cfg) (s : HState) (reg : Reg) (hk : reg[k]? = some (c, s)) (hre : env.reenter i c.id = []) :
    protectedLockAt env innerLog k i c s reg =
      ⟨reg.set k (c, (protectedLock (lockedBody env c i inner) s).st),
       (protectedLock (lockedBody env c i inner) s).ev, (protectedLock (lockedBody env c i inner) s).res⟩ := by
  have hlt : k < reg.length := by
    rcases List.getElem?_eq_some_iff.1 hk with ⟨h, _⟩; exact h
  unfold protectedLockAt protectedLock
  split
  · simp [Gen.markerCheckedBeforeSet, set_self reg k (c, s) hk]
  · split
    · rfl
    · have hk1 : (reg.set k (c, { s with marker := true, lockHeld := true }))[k]? =
          some (c, { s with marker := true, lockHeld := true }) := List.getElem?_set_self hlt
      simp only [lockedBodyAt_eq env innerLog inner k i c _ _ hk1 hre, List.set_set]
      have hk2 : ∀ x : HState, (reg.set k (c, x))[k]? = some (c, x) := fun x => List.getElem?_set_self hlt
      cases hres : (lockedBody env c i inner { s with marker := true, lockHeld := true }).res with
      | blocked => simp [hres]
      | ok => simp [hk2]
      | raised e => simp [hk2]

theorem emitAt_eq (env : Env) (innerLog : Nat → Reg → NRet) (inner : InnerAct → Step) (k i : Nat)
    (c : Cfg) (s : HState) (reg : Reg) (hk : reg[k]? = some (c, s)) (hre : env.reenter i c.id = []) :
    emitAt env innerLog k i reg =
      ⟨reg.set k (c, (emitWith env c i inner s).st), (emitWith env c i inner s).ev,
       (emitWith env c i inner s).res⟩ := by
  have hself := set_self reg k (c, s) hk
  unfold emitAt emitWith emitTry
  simp only [hk]
  by_cases hlv : c.level > env.level i
  · simp [hlv, hself]
  · simp only [hlv, if_false]
    cases hp : runPre env c i Gen.preLockStages with
    | skip => simp [hself]
    | fail e =>
      simp only []
      split <;> simp [hself]
    | pass =>
      simp only [protectedLockAt_eq env innerLog inner k i c s reg hk hre]
      cases hres : (protectedLock (lockedBody env c i inner) s).res with
      | ok => simp [hres]
      | blocked => simp [hres]
      | raised e => simp only []; split <;> simp [hres]

/-- the `inner` that `emitD env c n` hands to `emitWith` -/
def innerOf (env : Env) (c : Cfg) : Nat → InnerAct → Step
  | 0 => fun _ s => ⟨s, [], .ok⟩
  | n + 1 => innerD env c n

theorem emitD_eq_emitWith (env : Env) (c : Cfg) (n i : Nat) (s : HState) :
    emitD env c n i s = emitWith env c i (innerOf env c n) s := by
  cases n <;> rfl

theorem loopOver_eq_logLoop (env : Env) (innerLog : Nat → Reg → NRet) (n i : Nat) (todo done : Reg)
    (hre : ∀ p ∈ todo, env.reenter i p.1.id = []) (hpub : ∀ p ∈ todo, p.2.published = true) :
    loopOver env innerLog i (visitFrom done.length todo) (done ++ todo) =
      ⟨done ++ (logLoop env n i todo).reg, (logLoop env n i todo).ev, (logLoop env n i todo).res⟩ := by
  induction todo generalizing done with
  | nil => simp [loopOver, visitFrom, logLoop]
  | cons p rest ih =>
    obtain ⟨c, s⟩ := p
    have hk : (done ++ (c, s) :: rest)[done.length]? = some (c, s) := by simp
    have he := emitAt_eq env innerLog (innerOf env c n) done.length i c s _ hk (hre (c, s) (by simp))
    have hset : ∀ x : HState, (done ++ (c, s) :: rest).set done.length (c, x) = done ++ (c, x) :: rest := by
      intro x; simp
    have hp : s.published = true := hpub (c, s) (by simp)
    unfold visitFrom loopOver logLoop
    simp only [hp, if_true, he, hset, emitD_eq_emitWith]
    cases hres : (emitWith env c i (innerOf env c n) s).res with
    | ok =>
      simp only []
      have ih := ih (done ++ [(c, (emitWith env c i (innerOf env c n) s).st)])
        (fun p hp => hre p (by simp [hp])) (fun p hp => hpub p (by simp [hp]))
      simp only [List.length_append, List.length_cons, List.length_nil, List.append_assoc,
        List.cons_append, List.nil_append] at ih
      rw [ih]
    | raised e => simp
    | blocked => simp

/-- BRIDGE between the two model layers: when no handler's sink calls the logger for message `i`, the
    registry-level loop is the handler-level loop -/
theorem loopN_eq_logLoop (env : Env) (n i : Nat) (reg : Reg)
    (hre : ∀ p ∈ reg, env.reenter i p.1.id = []) (hpub : ∀ p ∈ reg, p.2.published = true) :
    loopN env n i reg = ⟨(logLoop env n i reg).reg, (logLoop env n i reg).ev, (logLoop env n i reg).res⟩ := by
  have h := fun il => loopOver_eq_logLoop env il n i reg [] hre hpub
  simp only [List.length_nil, List.nil_append] at h
  cases n with
  | zero => simp only [loopN]; exact h _
  | succ n => simp only [loopN]; exact h _
end Emit
