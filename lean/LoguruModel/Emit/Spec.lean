import LoguruModel.Emit.Model
/-
Emit area (C04) – the short specification the property is stated against: what should happen to
message `i` in handler `c`, told stage by stage in the order the property lists them, without
locks, markers or try/except.
-/
namespace Emit.Spec
open Py Emit

inductive Outcome where
  /-- below the handler's level, rejected by its filter, or the handler was already stopped -/
  | skipped
  /-- a stage raised before anything reached the sink or the queue -/
  | failed (e : Err)
  /-- handed over: written to the sink / queued for the worker / scheduled as a task -/
  | delivered
  /-- the stream received the text, then `flush()` raised -/
  | deliveredThenFailed (e : Err)
  /-- a coroutine sink without an event loop: nothing happens (as the code is) -/
  | dropped
  deriving DecidableEq, Repr

/-- the text reached the sink (or the queue / the task list) -/
def Outcome.handedOver : Outcome → Bool
  | .delivered => true
  | .deliveredThenFailed _ => true
  | _ => false

/-- first fault among the given stages -/
def firstFault (env : Env) (c : Cfg) (i : Nat) : List Stage → Option Err
  | [] => none
  | st :: rest =>
    match faultAt env c i st with
    | some e => some e
    | none => firstFault env c i rest

def handOff (env : Env) (c : Cfg) (i : Nat) : Outcome :=
  if c.enqueue then
    match env.fault i c.id .put with
    | some e => .failed e
    | none => .delivered
  else
    match env.fault i c.id .write with
    | some e => .failed e
    | none =>
      match c.kind with
      | .coroutine => if env.loop i then .delivered else .dropped
      | .streamFlush =>
        match env.fault i c.id .flush with
        | some e => .deliveredThenFailed e
        | none => .delivered
      | _ => .delivered

def outcome (env : Env) (c : Cfg) (i : Nat) (stopped : Bool) : Outcome :=
  if c.level > env.level i then .skipped
  else
    match faultAt env c i .filter with
    | some e => .failed e
    | none =>
      if c.hasFilter && !env.accept i c.id then .skipped
      else
        match firstFault env c i [.dynFormat, .excFormat, .formatMap, .serialize] with
        | some e => .failed e
        | none => if stopped then .skipped else handOff env c i

/-- the state once the message has been handed over -/
def deliver (env : Env) (c : Cfg) (i : Nat) (s : HState) : HState :=
  if c.enqueue then
    { s with queue := s.queue ++ [queuedItem env c i] }
  else if c.kind = .coroutine then { s with tasks := s.tasks ++ [i] }
  else { s with sink := s.sink ++ [i] }

/-- what the property demands of a failure `e`: report it (catch) or hand it to the caller -/
def handle (env : Env) (c : Cfg) (i : Nat) (s : HState) (e : Err) : Ret :=
  if c.catch_ then
    ⟨s, (print env i c.id (some i) e .emit).1, resOf (print env i c.id (some i) e .emit).2⟩
  else ⟨s, [], .raised e⟩

def expected (env : Env) (c : Cfg) (i : Nat) (s : HState) : Ret :=
  match outcome env c i s.stopped with
  | .skipped => ⟨s, [], .ok⟩
  | .dropped => ⟨s, [], .ok⟩
  | .delivered => ⟨deliver env c i s, [], .ok⟩
  | .failed e => handle env c i s e
  | .deliveredThenFailed e => handle env c i (deliver env c i s) e

/-- what the worker's `sink.write` leaves in the sink for one queue item -/
def workerWrites (env : Env) (c : Cfg) : QItem → List Nat
  | .msg i => if env.fault i c.id .write = none ∧ c.kind ≠ .coroutine then [i] else []
  | _ => []

/-- what awaiting the task of message `i` must put on stderr / hand to the event loop -/
def taskEvents (env : Env) (c : Cfg) (i : Nat) : List Event :=
  match env.fault i c.id .coroBody with
  | none => []
  | some e => if c.catch_ then [.report c.id (some i) e (env.strFails i) .task] else [.loopError c.id i e]

/-- the handler loop of `_log` told with `expected` instead of `Handler.emit` -/
def specLoop (env : Env) (i : Nat) : Reg → LoopRet
  | [] => ⟨[], [], .ok⟩
  | (c, s) :: rest =>
    let r := expected env c i s
    match r.res with
    | .ok => let t := specLoop env i rest; ⟨(c, r.st) :: t.reg, r.ev ++ t.ev, t.res⟩
    | x => ⟨(c, r.st) :: rest, r.ev, x⟩

/-- a logging call told with the specification's loop -/
def specLogW (env : Env) (i : Nat) (w : World) : WRet :=
  match w.minLevel with
  | none => ⟨w, [], .ok⟩
  | some m =>
    if env.level i < m then ⟨w, [], .ok⟩
    else
      let r := specLoop env i w.reg
      ⟨{ w with reg := r.reg }, r.ev, r.res⟩

/-- one operation of a history at the level of the specification: a logging call is `specLoop` (stage-by-stage
    outcomes, no locks, no markers, no try/except); `complete` / `remove` are the worker, task and registry
    functions the theorems `worker_never_dies`, `task_exception_retrieved`, `remove_*` characterise -/
def specStepW (env : Env) (w : World) : Op → WRet
  | .log i => specLogW env i w
  | .complete => completeW env w
  | .remove hid k => removeW env hid k w
  | .removeAll k => removeAllW env k w

/-- a whole history at the level of the specification (the caller goes on after an exception) -/
def specRunW (env : Env) : List Op → World → World × List Event × List Res
  | [], w => (w, [], [])
  | op :: ops, w =>
    let r := specStepW env w op
    match r.res with
    | .blocked => (r.w, r.ev, [.blocked])
    | x => let t := specRunW env ops r.w; (t.1, r.ev ++ t.2.1, x :: t.2.2)

/-- the stderr reports the worker owes for one queue item: a failing `get` is reported without record,
    a failing `write`/`flush` with the record -/
def workerReports (env : Env) (c : Cfg) : QItem → List Event
  | .bad _ e => [.report c.id none e false .worker]
  | .msg i =>
    match (rawWrite env c i default).2 with
    | .raised e => [.report c.id (some i) e (env.strFails i) .worker]
    | _ => []
  | _ => []

/-- stderr, when it fails, fails with an error `print` swallows (DESIGN §4 C04 *Outside*) -/
def StderrTame (env : Env) : Prop :=
  (∀ i h e, env.stderr i h = .fails e → e = .osError) ∧
  (∀ i h c e, env.stderr i h = .failsAt c e → e = .osError)

end Emit.Spec
