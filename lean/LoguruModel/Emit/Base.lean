import LoguruModel.Py.Basic
/-
Emit area (C04) – vocabulary shared by the generated shape file and the hand-written model.
-/
namespace Emit

/-- the stages of handler processing the property quantifies over (properties.jsonl C04) -/
inductive Stage where
  | filter | dynFormat | excFormat | formatMap | serialize | put | write | flush | stop | coroBody | get
  deriving DecidableEq, Repr, Inhabited

/-- the sink classes of `logger.add` (`_simple_sinks.py`, `_file_sink.py`); a stream with a callable `flush` is
    a kind of its own -/
inductive SinkKind where
  | callable | stream | streamFlush | file | coroutine | standard
  deriving DecidableEq, Repr, Inhabited

/-- what an `except` arm of the enqueue worker does after reporting -/
inductive Arm where
  | continue_ | break_ | raise_
  deriving DecidableEq, Repr

/-- the four pieces of one error report `ErrorInterceptor.print` writes to `sys.stderr`, one `write` call each
    (the traceback is `traceback.print_exception(..., sys.stderr)`: its text is outside the model, its first
    `write` is what can fail) -/
inductive Chunk where
  | header | record | traceback | footer
  deriving DecidableEq, Repr, Inhabited

/-- one statement of the `try` body of `ErrorInterceptor.print`, as read from the AST -/
inductive PStep where
  /-- a `write` of that chunk to stderr -/
  | write (c : Chunk)
  /-- `record_repr = str(record)`; `guarded` = inside its own `try/except Exception` with a placeholder -/
  | render (guarded : Bool)
  deriving DecidableEq, Repr

/-- what the `stop()` method of a sink class does, as read from the AST -/
inductive StopAct where
  /-- the sink's `stop()` never runs user code (`pass`, or cancels its own tasks) -/
  | noUserCode
  /-- runs the user object's `stop()` only if it has one (`StreamSink._stoppable`) -/
  | userIfCapable
  /-- always runs user code (`logging.Handler.close`, file sink: compression / retention callables) -/
  | userAlways
  deriving DecidableEq, Repr

end Emit
