import LoguruModel.Py.Basic
/-
Emit area (C04) – vocabulary shared by the generated shape file and the hand-written model.
-/
namespace Emit

/-- the stages of handler processing the property quantifies over (properties.jsonl C04) -/
inductive Stage where
  | filter | dynFormat | excFormat | formatMap | serialize | put | write | flush | stop | coroBody | get
  deriving DecidableEq, Repr, Inhabited

/-- what an `except` arm of the enqueue worker does after reporting -/
inductive Arm where
  | continue_ | break_ | raise_
  deriving DecidableEq, Repr

end Emit
