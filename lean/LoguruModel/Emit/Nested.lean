import LoguruModel.Emit.Model
/-
Emit area (C04) – re-entrant sinks at the level of the whole registry.

`Emit/Model.lean` follows a sink that logs to *its own handler*.  In the code such a sink calls
`logger.info(...)`, i.e. `Logger._log`, which walks over ALL registered handlers: those before and
after the busy one process the inner message normally (and may themselves have re-entrant sinks),
the busy one answers `RuntimeError`.  This file models exactly that: `emitAt k` is `Handler.emit` of
the handler at position `k` of the registry, whose sink's inner calls are whole `_log` loops
(`innerLog`) over the registry as it is at that moment (handler `k` locked, marker set).
`loopN env n` nests such calls `n` deep.
-/
namespace Emit
open Py

structure NRet where
  reg : Reg
  ev : List Event
  res : Res

/-- the logging calls a sink makes, each one a whole handler loop; the first that raises ends `write` -/
def runInnerN (innerLog : Nat → Reg → NRet) : List Nat → Reg → NRet
  | [], reg => ⟨reg, [], .ok⟩
  | j :: rest, reg =>
    let r := innerLog j reg
    match r.res with
    | .ok => let t := runInnerN innerLog rest r.reg; ⟨t.reg, r.ev ++ t.ev, t.res⟩
    | _ => r

/-- the statements under the lock, handler `k` of `reg` being locked (state `s1`) -/
def lockedBodyAt (env : Env) (innerLog : Nat → Reg → NRet) (k i : Nat) (c : Cfg) (s1 : HState)
    (reg1 : Reg) : NRet :=
  if s1.stopped then ⟨reg1, [], .ok⟩
  else if c.enqueue then
    let q := queuePut env c i s1
    ⟨reg1.set k (c, q.st), q.ev, q.res⟩
  else
    let r1 := runInnerN innerLog (env.reenter i c.id) reg1
    match r1.res with
    | .ok =>
      match r1.reg[k]? with
      | some (_, s2) => let w := rawWrite env c i s2; ⟨r1.reg.set k (c, w.1), r1.ev, w.2⟩
      | none => r1
    | _ => r1

/-- `with self._protected_lock(): …` for the handler at position `k` -/
def protectedLockAt (env : Env) (innerLog : Nat → Reg → NRet) (k i : Nat) (c : Cfg) (s : HState)
    (reg : Reg) : NRet :=
  if s.marker then
    ⟨if Gen.markerCheckedBeforeSet then reg else reg.set k (c, { s with marker := false }), [],
     .raised .runtimeError⟩
  else if s.lockHeld then ⟨reg.set k (c, { s with marker := true }), [], .blocked⟩
  else
    let s1 := { s with marker := true, lockHeld := true }
    let b := lockedBodyAt env innerLog k i c s1 (reg.set k (c, s1))
    match b.res with
    | .blocked => b
    | .ok =>
      match b.reg[k]? with
      | some (_, s3) => ⟨b.reg.set k (c, { s3 with lockHeld := false, marker := false }), b.ev, .ok⟩
      | none => b
    | .raised e =>
      match b.reg[k]? with
      | some (_, s3) =>
        ⟨b.reg.set k (c, { s3 with lockHeld := false,
                                   marker := if Gen.markerResetInFinally then false else s3.marker }),
         b.ev, .raised e⟩
      | none => b

/-- `Handler.emit` of the handler at position `k` -/
def emitAt (env : Env) (innerLog : Nat → Reg → NRet) (k i : Nat) (reg : Reg) : NRet :=
  match reg[k]? with
  | none => ⟨reg, [], .ok⟩
  | some (c, s) =>
    let t : NRet :=
      if c.level > env.level i then ⟨reg, [], .ok⟩
      else
        match runPre env c i Gen.preLockStages with
        | .skip => ⟨reg, [], .ok⟩
        | .fail e => ⟨reg, [], .raised e⟩
        | .pass => protectedLockAt env innerLog k i c s reg
    match t.res with
    | .raised e =>
      if Gen.emitCaught e && c.catch_ then
        let p := print env i c.id (some i) e .emit
        ⟨t.reg, t.ev ++ p.1, resOf p.2⟩
      else t
    | _ => t

/-- `for handler in core.handlers.values(): handler.emit(...)` from position `k` on -/
def loopAt (env : Env) (innerLog : Nat → Reg → NRet) (i : Nat) : Nat → Nat → Reg → NRet
  | 0, _, reg => ⟨reg, [], .ok⟩
  | fuel + 1, k, reg =>
    let r := emitAt env innerLog k i reg
    match r.res with
    | .ok => let t := loopAt env innerLog i fuel (k + 1) r.reg; ⟨t.reg, r.ev ++ t.ev, t.res⟩
    | _ => r

/-- the handler loop with re-entrant sinks nested at most `n` deep -/
def loopN (env : Env) : Nat → Nat → Reg → NRet
  | 0, i, reg => loopAt env (fun _ r => ⟨r, [], .ok⟩) i reg.length 0 reg
  | n + 1, i, reg => loopAt env (fun j r => loopN env n j r) i reg.length 0 reg

def logWN (env : Env) (n i : Nat) (w : World) : WRet :=
  match w.minLevel with
  | none => ⟨w, [], .ok⟩
  | some m =>
    if env.level i < m then ⟨w, [], .ok⟩
    else
      let r := loopN env n i w.reg
      ⟨{ w with reg := r.reg }, r.ev, r.res⟩

def stepWN (env : Env) (n : Nat) (w : World) : Op → WRet
  | .log i => logWN env n i w
  | .complete => completeW env w
  | .remove hid k => removeW env hid k w

/-- a whole history with registry-level re-entrancy (see `runW`) -/
def runWN (env : Env) (n : Nat) : List Op → World → World × List Event × List Res
  | [], w => (w, [], [])
  | op :: ops, w =>
    let r := stepWN env n w op
    match r.res with
    | .blocked => (r.w, r.ev, [.blocked])
    | x => let t := runWN env n ops r.w; (t.1, r.ev ++ t.2.1, x :: t.2.2)

end Emit
