import LoguruModel.Emit.Model
/-
Emit area (C04) – re-entrant sinks at the level of the whole registry.

`Emit/Model.lean` follows a sink that logs to *its own handler*.  In the code such a sink calls
`logger.info(...)`, i.e. `Logger._log`, which walks over ALL registered handlers: those before and
after the busy one process the inner message normally (and may themselves have re-entrant sinks),
the busy one answers `RuntimeError`.  This file models exactly that: `emitAt k` is `Handler.emit` of
the handler at position `k` of the registry, whose sink's inner calls are whole `_log` loops
(`innerLog`) over the registry as it is at that moment (handler `k` locked, marker set).
`loopN env n` nests such calls `n` deep.
-/
namespace Emit
open Py

structure NRet where
  reg : Reg
  ev : List Event
  res : Res

/-- what a sink does with the logger, one call after the other; the first one that raises ends `write` -/
def runInnerN (act : InnerAct → Reg → NRet) : List InnerAct → Reg → NRet
  | [], reg => ⟨reg, [], .ok⟩
  | a :: rest, reg =>
    let r := act a reg
    match r.res with
    | .ok => let t := runInnerN act rest r.reg; ⟨t.reg, r.ev ++ t.ev, t.res⟩
    | _ => r

/-- `logger.remove(<own id>)` called by the sink of the handler at position `k`: ValueError if it is no longer
    published; otherwise it is unpublished FIRST (as `Logger.remove` does), then `stop()` runs – on a handler
    whose sink is running, i.e. whose marker is set -/
def removeSelfAt (env : Env) (k kk : Nat) (c : Cfg) (reg : Reg) : NRet :=
  match reg[k]? with
  | none => ⟨reg, [], .raised .valueError⟩
  | some (_, s) =>
    if !s.published then ⟨reg, [], .raised .valueError⟩
    else
      let r := stopH env c kk { s with published := false }
      ⟨reg.set k (c, r.st), r.ev, r.res⟩

/-- `logger.complete()` called by the sink of the handler at position `k`, as far as that handler is concerned:
    its `tasks_to_complete()` (the `complete_queue()` of the enqueue handlers registered before it only moves
    forward work that the next `complete()` of the caller does anyway) -/
def completeSelfAt (k : Nat) (c : Cfg) (reg : Reg) : NRet :=
  match reg[k]? with
  | none => ⟨reg, [], .ok⟩
  | some (_, s) =>
    let r := tasksLocked s
    ⟨reg.set k (c, r.st), r.ev, r.res⟩

/-- one use of the logger by the sink of the handler at position `k` -/
def actAt (env : Env) (innerLog : Nat → Reg → NRet) (k : Nat) (c : Cfg) : InnerAct → Reg → NRet
  | .log j => innerLog j
  | .removeSelf kk => removeSelfAt env k kk c
  | .completeSelf => completeSelfAt k c

/-- the statements under the lock, handler `k` of `reg` being locked (state `s1`) -/
def lockedBodyAt (env : Env) (innerLog : Nat → Reg → NRet) (k i : Nat) (c : Cfg) (s1 : HState)
    (reg1 : Reg) : NRet :=
  if s1.stopped then ⟨reg1, [], .ok⟩
  else if c.enqueue then
    let q := queuePut env c i s1
    ⟨reg1.set k (c, q.st), q.ev, q.res⟩
  else
    let r1 := runInnerN (actAt env innerLog k c) (env.reenter i c.id) reg1
    match r1.res with
    | .ok =>
      match r1.reg[k]? with
      | some (_, s2) => let w := rawWrite env c i s2; ⟨r1.reg.set k (c, w.1), r1.ev, w.2⟩
      | none => r1
    | _ => r1

/-- `with self._protected_lock(): …` for the handler at position `k` -/
def protectedLockAt (env : Env) (innerLog : Nat → Reg → NRet) (k i : Nat) (c : Cfg) (s : HState)
    (reg : Reg) : NRet :=
  if s.marker then
    ⟨if Gen.markerCheckedBeforeSet then reg else reg.set k (c, { s with marker := false }), [],
     .raised .runtimeError⟩
  else if s.lockHeld then ⟨reg.set k (c, { s with marker := true }), [], .blocked⟩
  else
    let s1 := { s with marker := true, lockHeld := true }
    let b := lockedBodyAt env innerLog k i c s1 (reg.set k (c, s1))
    match b.res with
    | .blocked => b
    | .ok =>
      match b.reg[k]? with
      | some (_, s3) => ⟨b.reg.set k (c, { s3 with lockHeld := false, marker := false }), b.ev, .ok⟩
      | none => b
    | .raised e =>
      match b.reg[k]? with
      | some (_, s3) =>
        ⟨b.reg.set k (c, { s3 with lockHeld := false,
                                   marker := if Gen.markerResetInFinally then false else s3.marker }),
         b.ev, .raised e⟩
      | none => b

/-- `Handler.emit` of the handler at position `k` -/
def emitAt (env : Env) (innerLog : Nat → Reg → NRet) (k i : Nat) (reg : Reg) : NRet :=
  match reg[k]? with
  | none => ⟨reg, [], .ok⟩
  | some (c, s) =>
    let t : NRet :=
      if c.level > env.level i then ⟨reg, [], .ok⟩
      else
        match runPre env c i Gen.preLockStages with
        | .skip => ⟨reg, [], .ok⟩
        | .fail e => ⟨reg, [], .raised e⟩
        | .pass => protectedLockAt env innerLog k i c s reg
    match t.res with
    | .raised e =>
      if Gen.emitCaught e && c.catch_ then
        let p := print env i c.id (some i) e .emit
        ⟨t.reg, t.ev ++ p.1, resOf p.2⟩
      else t
    | _ => t

/-- the positions of the handlers that are in `core.handlers` right now (from position `k` on) -/
def visitFrom (k : Nat) : Reg → List Nat
  | [] => []
  | (_, s) :: rest => if s.published then k :: visitFrom (k + 1) rest else visitFrom (k + 1) rest

/-- `for handler in core.handlers.values(): handler.emit(...)`: the dict object read at the start of the loop is
    iterated to the end, whatever is unpublished meanwhile (copy-on-write registry) -/
def loopOver (env : Env) (innerLog : Nat → Reg → NRet) (i : Nat) : List Nat → Reg → NRet
  | [], reg => ⟨reg, [], .ok⟩
  | k :: ks, reg =>
    let r := emitAt env innerLog k i reg
    match r.res with
    | .ok => let t := loopOver env innerLog i ks r.reg; ⟨t.reg, r.ev ++ t.ev, t.res⟩
    | _ => r

/-- the handler loop with sinks that use the logger nested at most `n` deep -/
def loopN (env : Env) : Nat → Nat → Reg → NRet
  | 0, i, reg => loopOver env (fun _ r => ⟨r, [], .ok⟩) i (visitFrom 0 reg) reg
  | n + 1, i, reg => loopOver env (fun j r => loopN env n j r) i (visitFrom 0 reg) reg

def isPublished (p : Cfg × HState) : Bool := p.2.published

def logWN (env : Env) (n i : Nat) (w : World) : WRet :=
  match w.minLevel with
  | none => ⟨w, [], .ok⟩
  | some m =>
    if env.level i < m then ⟨w, [], .ok⟩
    else
      let r := loopN env n i w.reg
      let live := r.reg.filter isPublished
      let gone := r.reg.filter (fun p => !isPublished p)
      ⟨{ reg := live, removed := w.removed ++ gone,
         minLevel := if gone.isEmpty then w.minLevel else minLevelOf live }, r.ev, r.res⟩

def stepWN (env : Env) (n : Nat) (w : World) : Op → WRet
  | .log i => logWN env n i w
  | .complete => completeW env w
  | .remove hid k => removeW env hid k w
  | .removeAll k => removeAllW env k w

/-- a whole history with registry-level re-entrancy (see `runW`) -/
def runWN (env : Env) (n : Nat) : List Op → World → World × List Event × List Res
  | [], w => (w, [], [])
  | op :: ops, w =>
    let r := stepWN env n w op
    match r.res with
    | .blocked => (r.w, r.ev, [.blocked])
    | x => let t := runWN env n ops r.w; (t.1, r.ev ++ t.2.1, x :: t.2.2)

end Emit
