import LoguruModel.Emit.Base
/-
Emit area (C04) – `_protected_lock` seen by SEVERAL logging threads.

`Emit/Model.lean` is sequential.  The re-entrancy guard, however, only works because the marker it tests
belongs to the calling thread: a thread that merely WAITS for the handler lock has already set "its"
marker, and must not thereby change what the thread that HOLDS the lock will read when its sink uses
the logger.  This file is the small interleaving model of exactly that: any number of threads, each
step is one of the four shared-memory actions of `_protected_lock`; `perThread` says whether the marker
is a `threading.local()` (as in the code, `Gen.markerPerThread`) or one attribute shared by all threads.
-/
namespace Emit.Threads

abbrev Tid := Nat

inductive Pc where
  | idle      -- outside `_protected_lock`
  | waiting   -- marker set, waiting for `self._lock`
  | inside    -- holds the lock: the sink is running
  | stuck     -- inside its own sink, waiting for the lock it holds itself: deadlock
  deriving DecidableEq, Repr

structure St where
  pc : Tid → Pc
  holder : Option Tid
  mark : Tid → Bool          -- the thread-local markers (used when `perThread`)
  owner : Option Tid         -- the single shared marker (used otherwise)

def init : St := { pc := fun _ => .idle, holder := none, mark := fun _ => false, owner := none }

def upd {α : Type} (f : Tid → α) (t : Tid) (a : α) : Tid → α := fun u => if u = t then a else f u

/-- `getattr(self._lock_acquired, "acquired", False)` as read by thread `t` -/
def marked (perThread : Bool) (st : St) (t : Tid) : Bool :=
  if perThread then st.mark t else st.owner == some t

def setMark (perThread : Bool) (st : St) (t : Tid) : St :=
  if perThread then { st with mark := upd st.mark t true } else { st with owner := some t }

def resetMark (perThread : Bool) (st : St) (t : Tid) : St :=
  if perThread then { st with mark := upd st.mark t false } else { st with owner := none }

inductive Act where
  | enter     -- call `_protected_lock` from outside: test the marker, set it
  | acquire   -- get the lock (enabled only when it is free)
  | reenter   -- the running sink uses the logger: nested `_protected_lock`
  | leave     -- `finally`: reset the marker, release the lock
  deriving DecidableEq, Repr

def enterS (perThread : Bool) (st : St) (t : Tid) : St :=
  if st.pc t = .idle then
    if marked perThread st t then st                       -- RuntimeError, nothing changes
    else { setMark perThread st t with pc := upd st.pc t .waiting }
  else st

def acquireS (st : St) (t : Tid) : St :=
  if st.pc t = .waiting ∧ st.holder = none then
    { st with pc := upd st.pc t .inside, holder := some t }
  else st

def reenterS (perThread : Bool) (st : St) (t : Tid) : St :=
  if st.pc t = .inside then
    if marked perThread st t then st                       -- RuntimeError "deadlock avoided"
    else { setMark perThread st t with pc := upd st.pc t .stuck }
  else st

def leaveS (perThread : Bool) (st : St) (t : Tid) : St :=
  if st.pc t = .inside then
    { resetMark perThread st t with pc := upd st.pc t .idle, holder := none }
  else st

/-- one step of thread `t`; a step that is not enabled leaves the state unchanged -/
def step (perThread : Bool) (st : St) (t : Tid) : Act → St
  | .enter => enterS perThread st t
  | .acquire => acquireS st t
  | .reenter => reenterS perThread st t
  | .leave => leaveS perThread st t

def run (perThread : Bool) : List (Tid × Act) → St → St
  | [], st => st
  | (t, a) :: rest, st => run perThread rest (step perThread st t a)

/-- whoever is past the marker test (waiting for, or holding, the lock) reads its marker as set, and
    nobody waits for a lock it holds -/
def Inv (st : St) : Prop :=
  (∀ t, (st.pc t = .waiting ∨ st.pc t = .inside) → st.mark t = true) ∧ (∀ t, st.pc t ≠ .stuck)

theorem inv_init : Inv init := by
  constructor <;> intro t <;> simp [init]

theorem inv_upd (st : St) (t : Tid) (pc' : Pc) (mark' : Tid → Bool) (holder' owner' : Option Tid)
    (h : Inv st) (hne : pc' ≠ .stuck) (hm : ∀ u, u ≠ t → mark' u = st.mark u)
    (ht : (pc' = .waiting ∨ pc' = .inside) → mark' t = true) :
    Inv { pc := upd st.pc t pc', holder := holder', mark := mark', owner := owner' } := by
  obtain ⟨h1, h2⟩ := h
  constructor
  · intro u hu
    simp only [upd] at hu ⊢
    by_cases hut : u = t
    · subst hut; simp only [if_true] at hu; exact ht hu
    · simp only [hut, if_false] at hu; rw [hm u hut]; exact h1 u hu
  · intro u
    simp only [upd]
    by_cases hut : u = t
    · simp [hut, hne]
    · simp only [hut, if_false]; exact h2 u

theorem inv_step (st : St) (t : Tid) (a : Act) (h : Inv st) : Inv (step true st t a) := by
  cases a with
  | enter =>
    show Inv (enterS true st t)
    unfold enterS
    by_cases hp : st.pc t = .idle
    · rw [if_pos hp]
      by_cases hm : marked true st t = true
      · rw [if_pos hm]; exact h
      · rw [if_neg hm]
        simp only [setMark, if_true]
        exact inv_upd st t .waiting _ _ _ h (by simp) (fun u hu => by simp [upd, hu]) (fun _ => by simp [upd])
    · rw [if_neg hp]; exact h
  | acquire =>
    show Inv (acquireS st t)
    unfold acquireS
    by_cases hp : st.pc t = .waiting ∧ st.holder = none
    · rw [if_pos hp]
      exact inv_upd st t .inside _ _ _ h (by simp) (fun _ _ => rfl) (fun _ => h.1 t (Or.inl hp.1))
    · rw [if_neg hp]; exact h
  | reenter =>
    show Inv (reenterS true st t)
    unfold reenterS
    by_cases hp : st.pc t = .inside
    · rw [if_pos hp]
      have hm : marked true st t = true := by simp [marked, h.1 t (Or.inr hp)]
      rw [if_pos hm]; exact h
    · rw [if_neg hp]; exact h
  | leave =>
    show Inv (leaveS true st t)
    unfold leaveS
    by_cases hp : st.pc t = .inside
    · rw [if_pos hp]
      simp only [resetMark, if_true]
      exact inv_upd st t .idle _ _ _ h (by simp) (fun u hu => by simp [upd, hu]) (fun hh => by simp at hh)
    · rw [if_neg hp]; exact h

theorem inv_run (sched : List (Tid × Act)) (st : St) (h : Inv st) : Inv (run true sched st) := by
  induction sched generalizing st with
  | nil => exact h
  | cons p rest ih =>
    obtain ⟨t, a⟩ := p
    exact ih _ (inv_step st t a h)

end Emit.Threads
