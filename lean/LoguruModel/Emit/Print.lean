import LoguruModel.Emit.Base
import LoguruModel.Generated.EmitShape
/-
Emit area (C04) – `ErrorInterceptor.print` at the level of its individual `write` calls.

The statements of its `try` body are not written here: `Gen.printProgram` (Generated/EmitShape.lean) is the
list read from `loguru/_error_interceptor.py` on every run – header, rendering of the record (guarded or
not), record line, traceback, footer, in the order the code has them.  This file interprets that list
under an oracle that says which `write` to `sys.stderr` fails with what (a pipe that breaks in the MIDDLE
of a report, a full disk, a terminal that went away), so that the theorems cover every failure position.
-/
namespace Emit.Print
open Py

/-- the environment of one `print` call -/
structure Oracle where
  /-- `sys.stderr` is truthy -/
  present : Bool
  /-- writing this chunk to `sys.stderr` raises -/
  wr : Chunk → Option Err
  /-- `str(record)` raises -/
  strFails : Bool

structure Out where
  /-- the chunks that reached stderr, in order -/
  chunks : List Chunk
  /-- the record line (if written) carries the "Unprintable record" placeholder -/
  placeholder : Bool
  /-- the exception that leaves `print` -/
  escapes : Option Err
  deriving DecidableEq, Repr

/-- the `try` body: statements in order, the first exception ends it -/
def runSteps (o : Oracle) : List PStep → List Chunk × Option Err
  | [] => ([], none)
  | .render g :: rest => if o.strFails && !g then ([], some .other) else runSteps o rest
  | .write c :: rest =>
    match o.wr c with
    | some e => ([], some e)
    | none => let r := runSteps o rest; (c :: r.1, r.2)

/-- what the `except <Gen.printSwallows>: pass` makes of the exception of the body -/
def afterExcept : Option Err → Option Err
  | none => none
  | some e => if Gen.printSwallows e then none else some e

/-- `ErrorInterceptor.print` with the given `try` body -/
def printP (prog : List PStep) (o : Oracle) : Out :=
  if !o.present then
    ⟨[], false, if Gen.printSkipsWhenNoStderr then none else some .attributeError⟩
  else
    let r := runSteps o prog
    ⟨r.1, o.strFails, afterExcept r.2⟩

/-- a complete report -/
def fullReport : List Chunk := [.header, .record, .traceback, .footer]

/-- the error of the first chunk of the list whose `write` fails -/
def firstFail (o : Oracle) : List Chunk → Option Err
  | [] => none
  | c :: rest =>
    match o.wr c with
    | some e => some e
    | none => firstFail o rest

/-- the writes of a program, in order -/
def writesOf : List PStep → List Chunk
  | [] => []
  | .write c :: rest => c :: writesOf rest
  | .render _ :: rest => writesOf rest

/-- every rendering of the record is guarded -/
def allGuarded : List PStep → Bool
  | [] => true
  | .write _ :: rest => allGuarded rest
  | .render g :: rest => g && allGuarded rest

/-- FOR EVERY program whose renderings are guarded and every oracle: the chunks that reach stderr are the
    longest prefix of the program's writes that stderr accepts, and what leaves the `try` body is the error of
    the first refused write (structural induction over the program) -/
theorem runSteps_spec (o : Oracle) (prog : List PStep) (hg : allGuarded prog = true) :
    runSteps o prog = ((writesOf prog).takeWhile (fun c => (o.wr c).isNone), firstFail o (writesOf prog)) := by
  induction prog with
  | nil => rfl
  | cons st rest ih =>
    cases st with
    | render g =>
      simp only [allGuarded, Bool.and_eq_true] at hg
      simp only [runSteps, hg.1, Bool.not_true, Bool.and_false, Bool.false_eq_true, if_false, writesOf]
      exact ih hg.2
    | write c =>
      simp only [allGuarded] at hg
      simp only [runSteps, writesOf, firstFail, List.takeWhile]
      cases h : o.wr c with
      | some e => simp
      | none => simp [ih hg]

end Emit.Print
