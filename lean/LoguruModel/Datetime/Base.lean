import LoguruModel.Py.Basic
import LoguruModel.Py.Calendar
/-
C11 – base types of the `_datetime.py` model, and the two helper functions the generated token
kernels call (`_format_timezone`, `_timestamp_microseconds`), transcribed by hand.
-/
namespace Datetime
open Py Py.Calendar

/-- the fields of `time.struct_time` the token lambdas read -/
structure Tm where
  tm_year : Int
  tm_mon : Int
  tm_mday : Int
  tm_hour : Int
  tm_min : Int
  tm_sec : Int
  tm_wday : Int
  tm_yday : Int
  deriving Repr, DecidableEq

/-- an aware `datetime`: its own calendar/clock fields, its UTC offset in microseconds, zone name -/
structure Dt where
  year : Int
  month : Int
  day : Int
  hour : Int
  minute : Int
  second : Int
  microsecond : Int
  offsetUs : Int
  tzname : Str
  deriving Repr, DecidableEq

/-- one alternative of the `tokens` regular expression -/
inductive Alt where
  | lit (s : Str)
  | rep (c : Char) (min : Nat) (max : Option Nat)
  deriving Repr

inductive Kernel where
  | int (f : Tm → Dt → Int)
  | str (f : Tm → Dt → Str)

/-- `dt.timetuple()` -/
def timetuple (dt : Dt) : Tm :=
  { tm_year := dt.year, tm_mon := dt.month, tm_mday := dt.day, tm_hour := dt.hour,
    tm_min := dt.minute, tm_sec := dt.second,
    tm_wday := weekdayOfDays (daysOfCivil dt.year dt.month dt.day),
    tm_yday := yday dt.year dt.month dt.day }

/-- microseconds of the local wall clock since 1970-01-01T00:00 (ignoring the offset) -/
def localMicros (dt : Dt) : Int :=
  ((daysOfCivil dt.year dt.month dt.day * 24 + dt.hour) * 60 + dt.minute) * 60000000
    + dt.second * 1000000 + dt.microsecond

/-- `_timestamp_microseconds(dt)` = `(dt - epoch) // timedelta(microseconds=1)` for an aware dt -/
def timestampMicroseconds (dt : Dt) : Int := localMicros dt - dt.offsetUs

/-- `dt.astimezone(timezone.utc)` -/
def toUtc (dt : Dt) : Dt :=
  let us := timestampMicroseconds dt
  let days := us / 86400000000
  let rem := us % 86400000000
  let (y, m, d) := civilOfDays days
  { year := y, month := m, day := d, hour := rem / 3600000000, minute := rem / 60000000 % 60,
    second := rem / 1000000 % 60, microsecond := rem % 1000000, offsetUs := 0, tzname := "UTC".toList }

/-- `"%09.06f" % s` for 0 < s < 60, given in microseconds (exact) -/
def fmtSecondsFrac (sUs : Int) : Str :=
  fmtD0 2 (sUs / 1000000) ++ ['.'] ++ fmtD0 6 (sUs % 1000000)

/-- `_format_timezone(dt, sep=sep)`, with the offset as exact integer microseconds.
The code works on `float` seconds: `offset // 60` floors *before* `abs` (as written). -/
def formatTimezone (dt : Dt) (sep : Str) : Str :=
  let offset := dt.offsetUs
  let sign := if offset ≥ 0 then ['+'] else ['-']
  let mins := (offset / 60000000).natAbs   -- abs(offset // 60)
  let h : Int := mins / 60
  let m : Int := mins % 60
  let s : Int := (offset.natAbs : Int) % 60000000          -- abs(offset) % 60, in microseconds
  let z := sign ++ fmtD0 2 h ++ sep ++ fmtD0 2 m
  if s > 0 then
    if s % 1000000 == 0 then z ++ sep ++ fmtD0 2 (s / 1000000)
    else z ++ sep ++ fmtSecondsFrac s
  else z

end Datetime
