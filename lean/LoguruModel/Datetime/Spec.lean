import LoguruModel.Datetime.Model
/-
C11 – the specification side: what each token must denote, written independently of the
generated kernels (one line per token, DESIGN §4 C11 **S**).
-/
namespace Datetime.Spec
open Py Datetime

/-- the documented (token ↦ printf conversion) list of the README/`add()` docstring -/
def docPadsS : List (String × String) := [
  ("YYYY", "%04d"), ("YY", "%02d"), ("Q", "%d"), ("MMMM", "%s"), ("MMM", "%s"), ("MM", "%02d"),
  ("M", "%d"), ("DDDD", "%03d"), ("DDD", "%d"), ("DD", "%02d"), ("D", "%d"), ("dddd", "%s"),
  ("ddd", "%s"), ("d", "%d"), ("E", "%d"), ("HH", "%02d"), ("H", "%d"), ("hh", "%02d"), ("h", "%d"),
  ("mm", "%02d"), ("m", "%d"), ("ss", "%02d"), ("s", "%d"), ("S", "%d"), ("SS", "%02d"),
  ("SSS", "%03d"), ("SSSS", "%04d"), ("SSSSS", "%05d"), ("SSSSSS", "%06d"), ("A", "%s"), ("Z", "%s"),
  ("ZZ", "%s"), ("zz", "%s"), ("X", "%d"), ("x", "%d")]

def docPads : List (Str × Str) := docPadsS.map (fun e => (e.1.toList, e.2.toList))

/-- 12-hour clock -/
def hour12 (h : Int) : Int := if h % 12 = 0 then 12 else h % 12

/-- UTC offset rendering: sign, then |offset| split into hh, mm and (only when non-zero) ss[.ffffff] -/
def tzSpec (offUs : Int) (sep : Str) : Str :=
  let a : Int := offUs.natAbs
  let h := a / 3600000000
  let m := a / 60000000 % 60
  let s := a % 60000000
  let z := (if offUs ≥ 0 then ['+'] else ['-']) ++ fmtD0 2 h ++ sep ++ fmtD0 2 m
  if s > 0 then
    if s % 1000000 == 0 then z ++ sep ++ fmtD0 2 (s / 1000000) else z ++ sep ++ fmtSecondsFrac s
  else z

/-- `pad % v` for one conversion of the token table applied to one value (`"%02d" % 7`) -/
def fmtVal (pad : Str) (v : Val) : Str :=
  match pad, v with
  | ['%', 's'], .str s => s
  | ['%', 's'], .int i => fmtD i
  | ['%', 'd'], .int i => fmtD i
  | ['%', '0', w, 'd'], .int i => fmtD0 (w.toNat - '0'.toNat) i
  | _, _ => []

/-- what ONE piece of a scanned spec must render to, independently of the two-phase implementation
(`_compile_format` first builds a `%`-format string, `_loguru_datetime_formatter` applies it later):
text between matches is copied verbatim; a token of the table renders its kernel value through its padding;
any other match is a bracket escape and loses exactly its two brackets. -/
def renderPieceStr (t : Tm) (dt : Dt) : Piece → Str
  | .text s => s
  | .tok s => match lookup s Datetime.Gen.table with
    | some (pad, k) => fmtVal pad (k.eval t dt)
    | none => (s.drop 1).dropLast

/-- the direct, piece-by-piece rendering of a format body at an instant -/
def renderBody (body : Str) (dt : Dt) : Str :=
  (scan body).flatMap (renderPieceStr (timetuple dt) dt)

/-- the body `_compile_format` works on after the suffix is cut and the empty spec replaced -/
def effectiveBody (spec : Str) : Str :=
  if (if endsWith spec Datetime.Gen.utcSuffix = true then List.take (spec.length - 4) spec else spec).isEmpty = true then Datetime.Gen.isoSpec
  else if endsWith spec Datetime.Gen.utcSuffix = true then List.take (spec.length - 4) spec else spec

instance : DecidableEq (Except Err Out) := fun a b =>
  match a, b with
  | .ok x, .ok y => if h : x = y then isTrue (by rw [h]) else isFalse (by intro e; cases e; exact h rfl)
  | .error x, .error y => if h : x = y then isTrue (by rw [h]) else isFalse (by intro e; cases e; exact h rfl)
  | .ok _, .error _ => isFalse (by intro e; cases e)
  | .error _, .ok _ => isFalse (by intro e; cases e)

/-- what the default format must print, written out: zero-padded calendar and clock fields of the instant, the
millisecond TRUNCATED, the exact split of the offset -/
def defaultSpecText (dt : Dt) : Str :=
  fmtD0 4 dt.year ++ (['-'] ++ (fmtD0 2 dt.month ++ (['-'] ++ (fmtD0 2 dt.day ++ ([' '] ++ (fmtD0 2 dt.hour ++ ([':'] ++
  (fmtD0 2 dt.minute ++ ([':'] ++ (fmtD0 2 dt.second ++ (['.'] ++ (fmtD0 3 (dt.microsecond / 1000) ++ ([' '] ++
  tzSpec dt.offsetUs [':'])))))))))))))

end Datetime.Spec
