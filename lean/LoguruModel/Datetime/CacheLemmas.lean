import LoguruModel.Datetime.Cache
import LoguruModel.Generated.DatetimeShape
/-
C11 – lemmas about the memoised two-stage formatter: the stages compose to `formatDt`; the cache invariant
"every stored formatter is the compilation of a spec with that key" is preserved by every call.
-/
namespace Datetime
open Py Datetime.Gen

/-- compiling and then applying is `formatDt` -/
theorem compile_then_run (spec : Str) (dt : Dt) :
    (compileFormat spec >>= fun f => runCompiled f dt) = formatDt spec dt := by
  unfold compileFormat formatDt
  by_cases h0 : (spec == fastPathSpec) = true
  · simp only [h0, if_true]; rfl
  · simp only [h0]
    generalize endsWith spec utcSuffix = u
    generalize (if (if u = true then List.take (spec.length - 4) spec else spec).isEmpty = true then isoSpec
      else if u = true then List.take (spec.length - 4) spec else spec) = s
    by_cases hp : s.contains '%' = true
    · simp only [hp, if_true]; rfl
    · by_cases h7 : isInfix tooManyS s = true
      · simp only [hp, h7, if_true]; rfl
      · simp only [hp, h7]; rfl

/-- the invariant of the memoiser's table -/
def CacheOk (keyOf : Str → Str) (c : Cache) : Prop :=
  ∀ e ∈ c, ∃ spec, keyOf spec = e.1 ∧ compileFormat spec = .ok e.2

theorem cacheFind_mem (key : Str) (c : Cache) (f : Compiled) (h : cacheFind key c = some f) :
    ∃ e ∈ c, e.1 = key ∧ e.2 = f := by
  induction c with
  | nil => simp [cacheFind] at h
  | cons e rest ih =>
    obtain ⟨k, g⟩ := e
    simp only [cacheFind] at h
    split at h
    · rename_i hk
      simp only [Option.some.injEq] at h
      exact ⟨(k, g), by simp, by simpa using hk, h⟩
    · obtain ⟨e, he, h1, h2⟩ := ih h
      exact ⟨e, List.mem_cons_of_mem _ he, h1, h2⟩

/-- one call: the result is `formatDt` of its own arguments and the invariant is kept -/
theorem callFormat_correct (keyOf : Str → Str) (hinj : ∀ a b, keyOf a = keyOf b → a = b)
    (policy : Str → Cache → Cache) (hpol : ∀ k c e, e ∈ policy k c → e ∈ c)
    (c : Cache) (hc : CacheOk keyOf c) (spec : Str) (dt : Dt) :
    (callFormat keyOf policy c spec dt).2 = formatDt spec dt ∧
    CacheOk keyOf (callFormat keyOf policy c spec dt).1 := by
  unfold callFormat
  split
  · rename_i f hf
    obtain ⟨e, he, h1, h2⟩ := cacheFind_mem _ _ _ hf
    obtain ⟨s, hs1, hs2⟩ := hc e he
    have : s = spec := hinj _ _ (by rw [hs1, h1])
    subst this
    constructor
    · rw [← compile_then_run, hs2, h2]; rfl
    · intro e' he'; exact hc e' (hpol _ _ _ he')
  · rename_i hnone
    cases hcomp : compileFormat spec with
    | error err =>
      simp only []
      constructor
      · rw [← compile_then_run, hcomp]; rfl
      · exact hc
    | ok f =>
      simp only []
      constructor
      · rw [← compile_then_run, hcomp]; rfl
      · intro e' he'
        have := hpol _ _ _ he'
        rcases List.mem_cons.mp this with h | h
        · subst h; exact ⟨spec, rfl, hcomp⟩
        · exact hc e' h

theorem lruPolicy_subset (maxsize : Option Nat) (k : Str) (c : Cache) : ∀ e, e ∈ lruPolicy maxsize k c → e ∈ c := by
  intro e he
  unfold lruPolicy at he
  have hsub : ∀ e, e ∈ c.filter (fun e => e.1 == k) ++ c.filter (fun e => !(e.1 == k)) → e ∈ c := by
    intro e he
    rcases List.mem_append.mp he with h | h <;> exact (List.mem_filter.mp h).1
  cases maxsize with
  | none => exact hsub e he
  | some n => exact hsub e (List.mem_of_mem_take he)

/-- the key function of the source's memoiser, as far as the regenerated shape says: the whole spec
(`Gen.cacheKeyIsWholeSpec`), otherwise nothing is known about it (modelled as the worst case, a constant key) -/
def sourceKey : Str → Str := if cacheKeyIsWholeSpec then id else fun _ => []

/-- the invariant carried through a whole history -/
theorem runHistory_correct (keyOf : Str → Str) (hinj : ∀ a b, keyOf a = keyOf b → a = b)
    (policy : Str → Cache → Cache) (hpol : ∀ k c e, e ∈ policy k c → e ∈ c)
    (calls : List (Str × Dt)) (c : Cache) (hc : CacheOk keyOf c) :
    runHistory keyOf policy c calls = calls.map (fun x => formatDt x.1 x.2) := by
  induction calls generalizing c with
  | nil => rfl
  | cons x rest ih =>
    obtain ⟨spec, dt⟩ := x
    have h := callFormat_correct keyOf hinj policy hpol c hc spec dt
    simp only [runHistory, List.map_cons]
    rw [h.1, ih _ h.2]

end Datetime
