import LoguruModel.Datetime.Model
/-
C11 – helper lemmas about the scanner (`matchToken`, `matchBracketInner`, `altLens`, `isInfix`) used by
`C11.scan_tok_shape`.
-/
namespace Datetime
open Py Datetime.Gen

theorem matchToken_some (alts : List Alt) (s : List Char) (k : Nat) (h : matchToken alts s = some k) :
    ∃ a ∈ alts, k ∈ altLens a s := by
  induction alts with
  | nil => simp [matchToken] at h
  | cons a rest ih =>
    unfold matchToken at h
    split at h
    · rename_i k' tl heq
      injection h with h; subst h
      exact ⟨a, by simp, by rw [heq]; simp⟩
    · obtain ⟨b, hb, hk⟩ := ih h
      exact ⟨b, List.mem_cons_of_mem _ hb, hk⟩

theorem matchBracketInner_some (alts : List Alt) (s : List Char) (k : Nat)
    (h : matchBracketInner alts s = some k) : (s.drop k).head? = some ']' := by
  induction alts with
  | nil => simp [matchBracketInner] at h
  | cons a rest ih =>
    unfold matchBracketInner at h
    split at h
    · rename_i k' heq
      injection h with h; subst h
      have := List.find?_some heq
      simpa using this
    · exact ih h

/-- a run of `c` at the start of `s`: every prefix of it is a replicate -/
theorem take_of_takeWhile (c : Char) (s : List Char) (k : Nat) (h : k ≤ (s.takeWhile (· == c)).length) :
    s.take k = List.replicate k c := by
  induction s generalizing k with
  | nil => simp at h; subst h; rfl
  | cons x xs ih =>
    cases k with
    | zero => rfl
    | succ n =>
      simp only [List.takeWhile_cons] at h
      split at h
      · rename_i hx
        have hx' : x = c := by simpa using hx
        subst hx'
        simp only [List.length_cons] at h
        simp [List.replicate_succ, ih n (by omega)]
      · simp at h


theorem flush_no_tok (acc : List Char) (t : Str) :
    Piece.tok t ∉ (if acc.isEmpty = true then ([] : List Piece) else [.text acc.reverse]) := by
  split <;> simp

theorem altLens_rep_take (c : Char) (mn : Nat) (mx : Option Nat) (s : List Char) (k : Nat)
    (hk : k ∈ altLens (.rep c mn mx) s) : s.take k = List.replicate k c := by
  simp only [altLens, List.mem_filter, List.mem_map, List.mem_range, decide_eq_true_eq] at hk
  obtain ⟨⟨i, hi, hki⟩, _⟩ := hk
  apply take_of_takeWhile
  cases mx <;> (simp only at hi hki; omega)

theorem isInfix_of_decomp (sub pre post : Str) : isInfix sub (pre ++ sub ++ post) = true := by
  induction pre with
  | nil =>
    simp only [List.nil_append]
    cases hsp : sub ++ post with
    | nil =>
      have : sub = [] := by
        cases sub with
        | nil => rfl
        | cons a b => simp at hsp
      subst this; simp [isInfix]
    | cons x xs =>
      simp only [isInfix, Bool.or_eq_true]
      left
      rw [← hsp, List.isPrefixOf_iff_prefix]
      exact List.prefix_append _ _
  | cons p ps ih =>
    simp only [List.cons_append, isInfix, Bool.or_eq_true]
    right
    simpa using ih

def unboundedOnlyS : Alt → Bool
  | .rep c _ none => c == 'S'
  | _ => true

end Datetime
