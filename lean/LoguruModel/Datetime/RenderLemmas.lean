import LoguruModel.Datetime.Spec
namespace Datetime
open Py Datetime.Gen Datetime.Spec

theorem percentFormat_cons (c : Char) (f : Str) (vs : List Val) (hc : c ≠ '%') :
    percentFormat (c :: f) vs = (percentFormat f vs).map (c :: ·) := by
  conv => lhs; unfold percentFormat
  split
  all_goals (first | (exfalso; simp_all; done) | skip)
  · rename_i heq _ _ _
    simp only [List.cons.injEq] at heq
    obtain ⟨rfl, rfl⟩ := heq
    cases percentFormat f _ <;> rfl

/-- literal text without `%` passes through `%`-formatting unchanged and consumes no argument -/
theorem percentFormat_text (s f : Str) (vs : List Val) (h : '%' ∉ s) :
    percentFormat (s ++ f) vs = (percentFormat f vs).map (s ++ ·) := by
  induction s with
  | nil => cases hh : percentFormat f vs <;> simp [hh, Except.map]
  | cons c cs ih =>
    have hc : c ≠ '%' := by intro e; subst e; simp at h
    have hcs : '%' ∉ cs := by intro e; exact h (List.mem_cons_of_mem _ e)
    rw [List.cons_append, percentFormat_cons _ _ _ hc, ih hcs]
    cases hh : percentFormat f vs <;> simp [Except.map]

/-- a table entry whose conversion suits the type of its kernel (`%d`/`%0Nd` need an int) -/
def padOk : Str → Kernel → Bool
  | ['%', 's'], _ => true
  | ['%', 'd'], .int _ => true
  | ['%', '0', _, 'd'], .int _ => true
  | _, _ => false

/-- one conversion of the table consumes exactly one argument and renders it through its padding -/
theorem percentFormat_conv (pad : Str) (k : Kernel) (hok : padOk pad k = true) (t : Tm) (dt : Dt)
    (f : Str) (vs : List Val) :
    percentFormat (pad ++ f) (k.eval t dt :: vs) =
      (percentFormat f vs).map (fmtVal pad (k.eval t dt) ++ ·) := by
  unfold padOk at hok
  split at hok
  · cases k <;> (simp only [List.cons_append, List.nil_append, Kernel.eval]; rw [percentFormat]
                 cases hh : percentFormat f vs <;> simp [Except.map, fmtVal, bind, Except.bind])
  · simp only [List.cons_append, List.nil_append, Kernel.eval]; rw [percentFormat]
    cases hh : percentFormat f vs <;> simp [Except.map, fmtVal, bind, Except.bind]
  · simp only [List.cons_append, List.nil_append, Kernel.eval]; rw [percentFormat]
    cases hh : percentFormat f vs <;> simp [Except.map, fmtVal, bind, Except.bind]
  · simp at hok

def entryOk (e : Str × Str × Kernel) : Bool := padOk e.2.1 e.2.2

/-- every entry of the token table regenerated from the source pairs a conversion with a kernel of a suitable type -/
theorem table_entries_ok : table.all entryOk = true := by decide

theorem lookup_mem (tok : Str) (tbl : List (Str × Str × Kernel)) (pad : Str) (k : Kernel)
    (h : lookup tok tbl = some (pad, k)) : ∃ key, (key, pad, k) ∈ tbl := by
  induction tbl with
  | nil => simp [lookup] at h
  | cons e rest ih =>
    obtain ⟨key, pad', k'⟩ := e
    simp only [lookup] at h
    split at h
    · simp only [Option.some.injEq, Prod.mk.injEq] at h
      obtain ⟨rfl, rfl⟩ := h
      exact ⟨key, by simp⟩
    · obtain ⟨key2, hk⟩ := ih h
      exact ⟨key2, List.mem_cons_of_mem _ hk⟩

theorem lookup_table_ok (tok pad : Str) (k : Kernel) (h : lookup tok table = some (pad, k)) :
    padOk pad k = true := by
  obtain ⟨key, hk⟩ := lookup_mem tok table pad k h
  have := List.all_eq_true.mp table_entries_ok _ hk
  simpa [entryOk] using this

def pieceClean : Piece → Prop
  | .text s => '%' ∉ s
  | .tok s => '%' ∉ s

theorem inner_clean (s : Str) (h : '%' ∉ s) : '%' ∉ (s.drop 1).dropLast := by
  intro hm
  exact h (List.mem_of_mem_drop (List.dropLast_subset _ hm))

/-- THE two-phase theorem: building a `%`-format string with its kernels and applying it later renders exactly the
concatenation of the pieces' own renderings, and never fails – for every list of pieces without `%`. -/
theorem build_render (ps : List Piece) (hclean : ∀ p ∈ ps, pieceClean p) (t : Tm) (dt : Dt) :
    percentFormat (build ps).1 ((build ps).2.map (·.eval t dt)) = .ok (ps.flatMap (renderPieceStr t dt)) := by
  induction ps with
  | nil => simp [build, percentFormat]
  | cons p rest ih =>
    have ihr := ih (fun q hq => hclean q (List.mem_cons_of_mem _ hq))
    have hp := hclean p (by simp)
    cases p with
    | text s =>
      simp only [build, List.flatMap_cons, renderPieceStr]
      rw [percentFormat_text _ _ _ hp, ihr]; rfl
    | tok s =>
      simp only [build, List.flatMap_cons, renderPieceStr]
      cases hl : lookup s table with
      | none =>
        simp only []
        rw [percentFormat_text _ _ _ (inner_clean s hp), ihr]; rfl
      | some e =>
        obtain ⟨pad, k⟩ := e
        simp only [List.map_cons]
        rw [percentFormat_conv pad k (lookup_table_ok s pad k hl), ihr]; rfl

theorem endsWith_append_self (b suf : Str) : endsWith (b ++ suf) suf = true := by
  unfold endsWith
  rw [List.isSuffixOf_iff_suffix]
  exact List.suffix_append b suf

theorem cut_utc_suffix (b : Str) : (b ++ utcSuffix).take ((b ++ utcSuffix).length - 4) = b := by
  have : utcSuffix.length = 4 := by decide
  simp [this]

theorem suffixed_ne_fast (b : Str) : b ++ utcSuffix ≠ fastPathSpec := by
  intro h
  have h1 := endsWith_append_self b utcSuffix
  rw [h] at h1
  revert h1; decide

theorem lookup_of_mem_nodup (tbl : List (Str × Str × Kernel)) (hnd : (tbl.map (·.1)).Nodup)
    (e : Str × Str × Kernel) (he : e ∈ tbl) : lookup e.1 tbl = some e.2 := by
  induction tbl with
  | nil => cases he
  | cons x rest ih =>
    obtain ⟨k, pad, f⟩ := x
    simp only [List.map_cons, List.nodup_cons] at hnd
    rcases List.mem_cons.mp he with h | h
    · subst h; simp [lookup]
    · have hne : ¬ (k == e.1) = true := by
        intro hk
        have hk' : k = e.1 := by simpa using hk
        exact hnd.1 (hk' ▸ List.mem_map.mpr ⟨e, h, rfl⟩)
      simp only [lookup, hne]
      exact ih hnd.2 h

end Datetime
