import LoguruModel.Datetime.Model
/-
C11 – cross-call state.  `datetime.__format__(self, fmt)` is `_compile_format(fmt)(self)`, and `_compile_format` is
memoised (`functools.lru_cache`): what one call computes survives into the next.  This file splits the model into the
two stages of the code – `compileFormat : spec ↦ compiled formatter` (what is cached) and `runCompiled` (what is applied
to the instant) – and models a history of `format` calls through a memoiser with an arbitrary key function and an
arbitrary replacement policy.  `Props/C11.lean` proves: the two stages compose to `formatDt`; with an injective key
(the source's: the whole spec, `Gen.cacheKeyIsWholeSpec`) every rendering of every history depends only on its own
spec and instant; with a non-injective key it does not (witness).
-/
namespace Datetime
open Py Datetime.Gen

/-- what `_compile_format(spec)` returns -/
inductive Compiled where
  | default                                              -- `_default_datetime_formatter`
  | builtin (utc : Bool) (spec : Str)                    -- `partial(_builtin_datetime_formatter, is_utc, spec)`
  | loguru (utc : Bool) (fmt : Str) (ks : List Kernel)   -- `partial(_loguru_datetime_formatter, is_utc, format_string, formatters)`

/-- `_compile_format(spec)` – depends on the spec alone (no instant is in scope) -/
def compileFormat (spec : Str) : Except Err Compiled :=
  if spec == fastPathSpec then .ok .default
  else
    let isUtc := endsWith spec utcSuffix
    let spec := if isUtc then spec.take (spec.length - 4) else spec
    let spec := if spec.isEmpty then isoSpec else spec
    if spec.contains '%' then .ok (.builtin isUtc spec)
    else if isInfix tooManyS spec then .error .valueError
    else
      let (fmt, ks) := build (scan spec)
      .ok (.loguru isUtc fmt ks)

/-- applying the compiled formatter to an instant -/
def runCompiled (f : Compiled) (dt : Dt) : Except Err Out :=
  match f with
  | .default => (percentFormat defaultFormatString (defaultArgs.map (·.eval (timetuple dt) dt))).map .text
  | .builtin utc spec => .ok (.strftime utc spec)
  | .loguru utc fmt ks =>
    let dt := if utc then toUtc dt else dt
    let t := timetuple dt
    (percentFormat fmt (ks.map (·.eval t dt))).map .text

/-- the memoiser's table: key ↦ compiled formatter, most recent first -/
abbrev Cache := List (Str × Compiled)

def cacheFind (key : Str) : Cache → Option Compiled
  | [] => none
  | (k, f) :: rest => if k == key then some f else cacheFind key rest

/-- one call `format(dt, spec)` through a memoiser with key function `keyOf` and replacement policy `policy`
(called with the key just used; it may reorder and drop entries – LRU, unbounded, anything).  A compilation that
raises is not stored (as `functools.lru_cache`). -/
def callFormat (keyOf : Str → Str) (policy : Str → Cache → Cache) (c : Cache) (spec : Str) (dt : Dt) :
    Cache × Except Err Out :=
  match cacheFind (keyOf spec) c with
  | some f => (policy (keyOf spec) c, runCompiled f dt)
  | none =>
    match compileFormat spec with
    | .error e => (c, .error e)
    | .ok f => (policy (keyOf spec) ((keyOf spec, f) :: c), runCompiled f dt)

/-- a history of calls on one process-wide memoiser -/
def runHistory (keyOf : Str → Str) (policy : Str → Cache → Cache) : Cache → List (Str × Dt) → List (Except Err Out)
  | _, [] => []
  | c, (spec, dt) :: rest =>
    let (c', out) := callFormat keyOf policy c spec dt
    out :: runHistory keyOf policy c' rest

/-- `functools.lru_cache(maxsize=n)`: the entry just used moves to the front, at most `n` entries are kept
(`none` = unbounded) -/
def lruPolicy (maxsize : Option Nat) (key : Str) (c : Cache) : Cache :=
  let c' := c.filter (fun e => e.1 == key) ++ c.filter (fun e => !(e.1 == key))
  match maxsize with
  | some n => c'.take n
  | none => c'

end Datetime
