import LoguruModel.Py.CalendarFacts
import LoguruModel.Datetime.Base
/-
C11 – `dt.astimezone(timezone.utc)` (the `!UTC` suffix) denotes the same instant: calendar round trip
`daysOfCivil (civilOfDays z) = z` for EVERY day number (era decomposition + the checked days of one era), then
clock arithmetic by `omega`.
-/
namespace Py.Calendar

/-- the civil date computed for day `z` is a date of day number `z` – for every `z : Int` -/
theorem civil_roundtrip (z : Int) :
    daysOfCivil (civilOfDays z).1 (civilOfDays z).2.1 (civilOfDays z).2.2 = z := by
  obtain ⟨era, doeI, hz, h0, h1, hera⟩ : ∃ era doe : Int, z + 719468 = era * 146097 + doe ∧ 0 ≤ doe ∧ doe < 146097 ∧
      era = (z + 719468) / 146097 :=
    ⟨(z + 719468) / 146097, (z + 719468) - (z + 719468) / 146097 * 146097, by omega, by omega, by omega, rfl⟩
  obtain ⟨doe, rfl⟩ : ∃ n : Nat, doeI = n := ⟨doeI.toNat, by omega⟩
  have hP := eraDayOK_all doe (by omega)
  simp only [eraDayOK, Bool.and_eq_true, decide_eq_true_eq] at hP
  obtain ⟨⟨⟨⟨⟨hy, hys⟩, hmp⟩, hst⟩, hnx⟩, hsub⟩ := hP
  generalize hyoe : yoeN doe = yoe at *
  generalize hmpe : mpN doe = mp at *
  have hyoe' : yoe = (doe - doe/1460 + doe/36524 - doe/146096)/365 := by rw [← hyoe]; rfl
  have hdoy : doyN doe = doe - (365*yoe + yoe/4 - yoe/100) := by simp [doyN, ystartN, hyoe]
  have hmp' : mp = (5 * (doe - (365*yoe + yoe/4 - yoe/100)) + 2)/153 := by rw [← hmpe, mpN, hdoy]
  simp only [ystartN, startN] at hys hst
  have e1 : (z + 719468) / 146097 = era := hera.symm
  have e2 : z + 719468 - era * 146097 = (doe : Int) := by omega
  have e3 : ((doe : Int) - (doe : Int) / 1460 + (doe : Int) / 36524 - (doe : Int) / 146096) / 365 = (yoe : Int) := by omega
  have e4 : (doe : Int) - (365 * (yoe : Int) + (yoe : Int) / 4 - (yoe : Int) / 100) = ((doe - (365*yoe + yoe/4 - yoe/100) : Nat) : Int) := by omega
  have e5 : (5 * ((doe - (365*yoe + yoe/4 - yoe/100) : Nat) : Int) + 2) / 153 = (mp : Int) := by omega
  simp only [civilOfDays, e1, e2, e3, e4, e5]
  have hcases : mp = 0 ∨ mp = 1 ∨ mp = 2 ∨ mp = 3 ∨ mp = 4 ∨ mp = 5 ∨ mp = 6 ∨ mp = 7 ∨ mp = 8 ∨ mp = 9 ∨ mp = 10 ∨ mp = 11 := by omega
  clear e1 e2 e3 e5 hmp' hdoy hmpe hyoe hyoe' hsub hera hnx
  have hq : ((yoe : Int) + era * 400) / 400 = era := by omega
  have hq2 : (yoe : Int) + era * 400 - era * 400 = (yoe : Int) := by omega
  rcases hcases with rfl | rfl | rfl | rfl | rfl | rfl | rfl | rfl | rfl | rfl | rfl | rfl
  all_goals (simp [daysOfCivil, hq, hq2])
  all_goals omega

end Py.Calendar

namespace Datetime
open Py Py.Calendar

/-- `dt.astimezone(timezone.utc)` is the SAME instant (equal epoch microseconds) at offset 0, with clock fields in
range – for every aware datetime record, whatever its offset -/
theorem toUtc_same_instant (dt : Dt) :
    timestampMicroseconds (toUtc dt) = timestampMicroseconds dt ∧ (toUtc dt).offsetUs = 0 ∧
    (0 ≤ (toUtc dt).hour ∧ (toUtc dt).hour < 24) ∧ (0 ≤ (toUtc dt).minute ∧ (toUtc dt).minute < 60) ∧
    (0 ≤ (toUtc dt).second ∧ (toUtc dt).second < 60) ∧
    (0 ≤ (toUtc dt).microsecond ∧ (toUtc dt).microsecond < 1000000) := by
  have hr := civil_roundtrip (timestampMicroseconds dt / 86400000000)
  generalize hus : timestampMicroseconds dt = us at *
  have e : toUtc dt =
      { year := (civilOfDays (us / 86400000000)).1, month := (civilOfDays (us / 86400000000)).2.1,
        day := (civilOfDays (us / 86400000000)).2.2, hour := us % 86400000000 / 3600000000,
        minute := us % 86400000000 / 60000000 % 60, second := us % 86400000000 / 1000000 % 60,
        microsecond := us % 86400000000 % 1000000, offsetUs := 0, tzname := "UTC".toList } := by
    simp only [toUtc, hus]
  rw [e]
  simp only [timestampMicroseconds, localMicros, hr]
  clear e hr hus
  have h1 : us = us / 86400000000 * 86400000000 + us % 86400000000 := by omega
  have h2 : 0 ≤ us % 86400000000 ∧ us % 86400000000 < 86400000000 := by omega
  generalize us % 86400000000 = r at *
  generalize us / 86400000000 = q at *
  subst h1
  refine ⟨?_, trivial, ?_, ?_, ?_, ?_⟩ <;> omega

/-- the month and day of the converted instant are a real calendar date (month 1..12) -/
theorem toUtc_month_range (dt : Dt) : 1 ≤ (toUtc dt).month ∧ (toUtc dt).month ≤ 12 := by
  have h := civil_month_contains (timestampMicroseconds dt / 86400000000)
  have e : (toUtc dt).month = (civilOfDays (timestampMicroseconds dt / 86400000000)).2.1 := by
    simp only [toUtc]
  rw [e]; exact ⟨h.1, h.2.1⟩

end Datetime
