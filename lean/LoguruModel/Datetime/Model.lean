import LoguruModel.Generated.Datetime
/-
C11 – model of `loguru/_datetime.py`: `_compile_format(spec)(dt)`.
The token table, the alternation order, the default-format fast path and the literals steering
`_compile_format` come from `Generated/Datetime.lean` (tie G); control flow is transcribed by hand
(tie C: `harness/c11.py`).
-/
namespace Datetime
open Py Datetime.Gen

/-- lengths an alternative can match at the start of `s`, most preferred (greedy) first -/
def altLens (a : Alt) (s : List Char) : List Nat :=
  match a with
  | .lit l => if l.isPrefixOf s then [l.length] else []
  | .rep c mn mx =>
    let run := (s.takeWhile (· == c)).length
    let hi := match mx with | some m => min m run | none => run
    ((List.range (hi + 1 - mn)).map (fun i => hi - i)).filter (fun k => decide (1 ≤ k))

/-- first branch of `pattern`: `(?:tokens)` at the start of `s` -/
def matchToken (alts : List Alt) (s : List Char) : Option Nat :=
  match alts with
  | [] => none
  | a :: rest => match altLens a s with
    | k :: _ => some k
    | [] => matchToken rest s

/-- second branch: `\[(?:tokens|!UTC|)\]`; returns the length of the interior -/
def matchBracketInner (alts : List Alt) (s : List Char) : Option Nat :=
  match alts with
  | [] => none
  | a :: rest =>
    match (altLens a s).find? (fun k => (s.drop k).head? == some ']') with
    | some k => some k
    | none => matchBracketInner rest s

def bracketAlts : List Alt := tokenAlts ++ [.lit "!UTC".toList, .lit []]

/-- the pieces `pattern.finditer(spec)` cuts the spec into -/
inductive Piece where
  | text (s : Str)        -- copied verbatim (between matches)
  | tok (s : Str)         -- `match.group(0)` of a match
  deriving Repr, DecidableEq

/-- scan with fuel = length of the input (each step consumes ≥ 1 char) -/
def scanAux : Nat → List Char → List Char → List Piece
  | 0, _, acc => if acc.isEmpty then [] else [.text acc.reverse]
  | _, [], acc => if acc.isEmpty then [] else [.text acc.reverse]
  | fuel + 1, c :: cs, acc =>
    let flush : List Piece := if acc.isEmpty then [] else [.text acc.reverse]
    match matchToken tokenAlts (c :: cs) with
    | some k =>
      flush ++ [.tok ((c :: cs).take k)] ++ scanAux fuel ((c :: cs).drop k) []
    | none =>
      if c == '[' then
        match matchBracketInner bracketAlts cs with
        | some k =>
          flush ++ [.tok ((c :: cs).take (k + 2))] ++ scanAux fuel ((c :: cs).drop (k + 2)) []
        | none => scanAux fuel cs (c :: acc)
      else scanAux fuel cs (c :: acc)

def scan (spec : Str) : List Piece := scanAux spec.length spec []

inductive Val where
  | int (v : Int)
  | str (s : Str)
  deriving Repr, DecidableEq

def Kernel.eval (k : Kernel) (t : Tm) (dt : Dt) : Val :=
  match k with
  | .int f => .int (f t dt)
  | .str f => .str (f t dt)

/-- Python's `fmt % args` for the conversions the module uses: `%s`, `%d`, `%0Nd` (N one digit) -/
def percentFormat : List Char → List Val → Except Err Str
  | [], [] => .ok []
  | [], _ :: _ => .error .typeError            -- not all arguments converted
  | '%' :: 's' :: rest, v :: vs => do
    let r ← percentFormat rest vs
    match v with
    | .str s => .ok (s ++ r)
    | .int i => .ok (fmtD i ++ r)
  | '%' :: 'd' :: rest, v :: vs => do
    let r ← percentFormat rest vs
    match v with
    | .int i => .ok (fmtD i ++ r)
    | .str _ => .error .typeError
  | '%' :: '0' :: w :: 'd' :: rest, v :: vs => do
    let r ← percentFormat rest vs
    match v with
    | .int i => .ok (fmtD0 (w.toNat - '0'.toNat) i ++ r)
    | .str _ => .error .typeError
  | '%' :: _, _ => .error .valueError           -- anything else: outside the module's usage
  | c :: rest, vs => do
    let r ← percentFormat rest vs
    .ok (c :: r)

def lookup (tok : Str) : List (Str × Str × Kernel) → Option (Str × Kernel)
  | [] => none
  | (k, spec, f) :: rest => if k == tok then some (spec, f) else lookup tok rest

/-- the loop of `_compile_format` building `format_string` and `formatters` -/
def build : List Piece → Str × List Kernel
  | [] => ([], [])
  | .text s :: rest => let (f, ks) := build rest; (s ++ f, ks)
  | .tok s :: rest =>
    let (f, ks) := build rest
    match lookup s table with
    | some (spec, k) => (spec ++ f, k :: ks)
    | none => ((s.drop 1).dropLast ++ f, ks)    -- token[1:-1]

inductive Out where
  | text (s : Str)
  | strftime (utc : Bool) (spec : Str)     -- delegated to `dt.strftime`
  deriving Repr, DecidableEq

/-- `_compile_format(spec)(dt)` -/
def formatDt (spec : Str) (dt : Dt) : Except Err Out :=
  if spec == fastPathSpec then
    (percentFormat defaultFormatString (defaultArgs.map (·.eval (timetuple dt) dt))).map .text
  else
    let isUtc := endsWith spec utcSuffix
    let spec := if isUtc then spec.take (spec.length - 4) else spec      -- spec[:-4]
    let spec := if spec.isEmpty then isoSpec else spec
    if spec.contains '%' then .ok (.strftime isUtc spec)
    else if isInfix tooManyS spec then .error .valueError
    else
      let (fmt, ks) := build (scan spec)
      let dt := if isUtc then toUtc dt else dt
      let t := timetuple dt
      (percentFormat fmt (ks.map (·.eval t dt))).map .text

end Datetime
