import LoguruModel.Dispatch.Spec
/-!
Helper lemmas of C01.  Part 1 (generic alphabet): the pruned, parent-elided, depth-sorted rule list with
first-match lookup refines "the most recent call whose dotted name is a prefix of the dotted module
name" (I2).  Part 2: bridges from the generated kernels to list predicates, and the simulation
invariant between `Core` and the history spec.
-/
set_option linter.unusedSectionVars false
set_option linter.unusedVariables false
namespace Dispatch

section Generic
variable {α : Type} [DecidableEq α]

/-- dotted form: empty or ends with the dot -/
def DF (dot : α) (x : List α) : Prop := x = [] ∨ ∃ y, x = y ++ [dot]




theorem DF_dotted (dot : α) (n : List α) : DF dot (dotted dot n) := by
  unfold dotted DF; split
  · exact Or.inl rfl
  · exact Or.inr ⟨n, rfl⟩

/-- a proper dotted prefix of a dotted list has strictly fewer dots -/
theorem depth_lt_of_proper_prefix (dot : α) {a b : List α} (ha : DF dot a) (hb : DF dot b)
    (hp : a <+: b) (hne : a ≠ b) : depth dot a < depth dot b := by
  obtain ⟨t, rfl⟩ := hp
  have ht : t ≠ [] := by intro h; subst h; simp at hne
  unfold depth
  rw [List.count_append]
  have : 0 < t.count dot := by
    rcases hb with hb | ⟨y, hy⟩
    · simp at hb; exact absurd hb.2 ht
    · -- a ++ t = y ++ [dot], t nonempty so last of t is dot
      have hl : (a ++ t).getLast? = some dot := by rw [hy]; simp
      rw [List.getLast?_append] at hl
      have hts : ∃ x, t.getLast? = some x := by
        cases t with
        | nil => exact absurd rfl ht
        | cons x xs => exact ⟨_, List.getLast?_eq_some_getLast (by simp)⟩
      obtain ⟨x, hx⟩ := hts
      rw [hx] at hl
      simp at hl
      subst hl
      have : x ∈ t := List.mem_of_getLast? hx
      exact List.count_pos_iff.mpr this
  omega

theorem eq_of_prefix_same_depth (dot : α) {a b dm : List α} (ha : DF dot a) (hb : DF dot b)
    (pa : a <+: dm) (pb : b <+: dm) (hd : depth dot a = depth dot b) : a = b := by
  rcases Nat.le_total a.length b.length with h | h
  · have hab : a <+: b := List.prefix_of_prefix_length_le pa pb h
    apply Classical.byContradiction; intro hne
    have := depth_lt_of_proper_prefix dot ha hb hab hne
    omega
  · have hba : b <+: a := List.prefix_of_prefix_length_le pb pa h
    apply Classical.byContradiction; intro hne
    have := depth_lt_of_proper_prefix dot hb ha hba (Ne.symm hne)
    omega


theorem matchesR_iff (dm : List α) (r : Rule α) : matchesR dm r = true ↔ r.1 <+: dm := by
  simp [matchesR]

theorem not_prefix_of_matchesR_false {dm : List α} {r : Rule α} (h : ¬ (matchesR dm r = true)) : ¬ r.1 <+: dm := by
  intro hp; exact h ((matchesR_iff dm r).mpr hp)




structure AInv (dot : α) (al : List (Rule α)) : Prop where
  df : ∀ r ∈ al, DF dot r.1
  sorted : al.Pairwise (fun a b => depth dot b.1 ≤ depth dot a.1)
  nodup : al.Pairwise (fun a b => a.1 ≠ b.1)

theorem best_of_find {dot : α} {al : List (Rule α)} (h : AInv dot al) {dm : List α} {r0 : Rule α}
    (hf : al.find? (matchesR dm) = some r0) :
    r0 ∈ al ∧ r0.1 <+: dm ∧ ∀ r' ∈ al, r'.1 <+: dm → depth dot r'.1 ≤ depth dot r0.1 := by
  obtain ⟨hm, as, bs, rfl, has⟩ := List.find?_eq_some_iff_append.mp hf
  refine ⟨by simp, (matchesR_iff _ _).mp hm, ?_⟩
  intro r' hr' hm'
  rcases List.mem_append.mp hr' with h1 | h1
  · exact absurd hm' (not_prefix_of_matchesR_false (by simpa using has r' h1))
  · rcases List.mem_cons.mp h1 with h2 | h2
    · subst h2; exact Nat.le_refl _
    · have hs := h.sorted
      rw [List.pairwise_append] at hs
      have := (List.pairwise_cons.mp hs.2.1).1 r' h2
      exact this

theorem lookup_eq_of_best {dot : α} {al : List (Rule α)} (h : AInv dot al) {dm : List α} {r : Rule α}
    (hr : r ∈ al) (hm : r.1 <+: dm)
    (hbest : ∀ r' ∈ al, r'.1 <+: dm → depth dot r'.1 ≤ depth dot r.1) : lookup al dm = r.2 := by
  unfold lookup
  cases hf : al.find? (matchesR dm) with
  | none =>
    exact absurd hm (not_prefix_of_matchesR_false (by simpa using List.find?_eq_none.mp hf r hr))
  | some r0 =>
    simp only
    obtain ⟨hm0, as, bs, rfl, has⟩ := List.find?_eq_some_iff_append.mp hf
    have hm0' := (matchesR_iff _ _).mp hm0
    rcases List.mem_append.mp hr with h1 | h1
    · exact absurd hm (not_prefix_of_matchesR_false (by simpa using has r h1))
    · rcases List.mem_cons.mp h1 with h2 | h2
      · rw [h2]
      · exfalso
        have hs := h.sorted
        rw [List.pairwise_append] at hs
        have h1' := (List.pairwise_cons.mp hs.2.1).1 r h2
        have h2' := hbest r0 (by simp) hm0'
        have hdf0 := h.df r0 (by simp)
        have hdfr := h.df r hr
        have heq := eq_of_prefix_same_depth dot hdf0 hdfr hm0' hm (by omega)
        have hn := h.nodup
        rw [List.pairwise_append] at hn
        exact (List.pairwise_cons.mp hn.2.1).1 r h2 heq

theorem lookup_eq_true_of_none {al : List (Rule α)} {dm : List α}
    (hn : ∀ r ∈ al, ¬ r.1 <+: dm) : lookup al dm = true := by
  unfold lookup
  cases hf : al.find? (matchesR dm) with
  | none => rfl
  | some r0 =>
    have := List.find?_some hf
    have hmem := List.mem_of_find?_eq_some hf
    exact absurd ((matchesR_iff _ _).mp this) (hn r0 hmem)

theorem comparable_of_not_prefix {d n dm : List α} (hd : d <+: dm) (hn : n <+: dm) (h : ¬ d <+: n) :
    n <+: d ∧ n ≠ d := by
  rcases Nat.le_total n.length d.length with hl | hl
  · refine ⟨List.prefix_of_prefix_length_le hn hd hl, ?_⟩
    intro e; subst e; exact h (List.prefix_refl _)
  · exact absurd (List.prefix_of_prefix_length_le hd hn hl) h


theorem isPre_false_iff {l1 l2 : List α} : l1.isPrefixOf l2 = false ↔ ¬ l1 <+: l2 := by
  constructor
  · intro h hp; rw [List.isPrefixOf_iff_prefix.mpr hp] at h; exact Bool.noConfusion h
  · intro h
    cases hx : l1.isPrefixOf l2 with
    | false => rfl
    | true => exact absurd (List.isPrefixOf_iff_prefix.mp hx) h

theorem find?_filter_of_imp {β : Type} (p q : β → Bool) : ∀ (l : List β), (∀ a ∈ l, q a = true → p a = true) →
    (l.filter p).find? q = l.find? q
  | [], _ => rfl
  | a :: l, h => by
    have ih := find?_filter_of_imp p q l (fun b hb => h b (List.mem_cons_of_mem _ hb))
    by_cases hq : q a = true
    · have hp := h a (by simp) hq
      simp [List.filter, hp, List.find?, hq]
    · have hq' : q a = false := by simpa using hq
      by_cases hp : p a = true
      · simp [List.filter, hp, List.find?, hq', ih]
      · have hp' : p a = false := by simpa using hp
        simp [List.filter, hp', List.find?, hq', ih]

theorem find?_congr' {β : Type} (p q : β → Bool) : ∀ (l : List β), (∀ a ∈ l, p a = q a) →
    l.find? p = l.find? q
  | [], _ => rfl
  | a :: l, h => by
    have ih := find?_congr' p q l (fun b hb => h b (List.mem_cons_of_mem _ hb))
    have ha := h a (by simp)
    simp [List.find?, ha, ih]

/-- the filtered list -/
def al1 (dot : α) (al : List (Rule α)) (p : List α) : List (Rule α) :=
  al.filter (fun r => !((dotted dot p).isPrefixOf r.1))

theorem mem_al1 {dot : α} {al : List (Rule α)} {p : List α} {r : Rule α} :
    r ∈ al1 dot al p ↔ r ∈ al ∧ ¬ dotted dot p <+: r.1 := by
  simp [al1, isPre_false_iff]

theorem AInv_al1 {dot : α} {al : List (Rule α)} (h : AInv dot al) (p : List α) : AInv dot (al1 dot al p) where
  df := fun r hr => h.df r (mem_al1.mp hr).1
  sorted := h.sorted.filter _
  nodup := h.nodup.filter _

theorem AInv_sort_append {dot : α} {l : List (Rule α)} (h : AInv dot l) (d : List α) (s : Bool)
    (hd : DF dot d) (hfresh : ∀ r ∈ l, r.1 ≠ d) : AInv dot ((l ++ [(d, s)]).mergeSort (leD dot)) where
  df := by
    intro r hr
    rw [List.mem_mergeSort] at hr
    rcases List.mem_append.mp hr with h1 | h1
    · exact h.df r h1
    · simp at h1; subst h1; exact hd
  sorted := by
    have := List.pairwise_mergeSort (le := leD dot)
      (by intro a b c; simp [leD]; omega) (by intro a b; simp [leD]; omega) (l ++ [(d, s)])
    exact this.imp (by intro a b; simp [leD])
  nodup := by
    have hp := List.mergeSort_perm (l ++ [(d, s)]) (leD dot)
    refine (List.Perm.pairwise_iff (R := fun (a b : Rule α) => a.1 ≠ b.1) (fun h => Ne.symm h) hp).mpr ?_
    rw [List.pairwise_append]
    refine ⟨h.nodup, by simp, ?_⟩
    intro a ha b hb; simp at hb; subst hb; exact hfresh a ha

theorem change_eq (dot : α) (al : List (Rule α)) (p : List α) (s : Bool) :
    change dot al p s =
      if (((al1 dot al p).find? (matchesR (dotted dot p))).map (·.2) != some s
          && !(decide (dotted dot p = []) && s)) then
        ((al1 dot al p) ++ [(dotted dot p, s)]).mergeSort (leD dot)
      else al1 dot al p := rfl

theorem AInv_change {dot : α} {al : List (Rule α)} (h : AInv dot al) (p : List α) (s : Bool) :
    AInv dot (change dot al p s) := by
  rw [change_eq]
  split
  · apply AInv_sort_append (AInv_al1 h p) _ _ (DF_dotted dot p)
    intro r hr e
    have := (mem_al1.mp hr).2
    rw [e] at this; exact this (List.prefix_refl _)
  · exact AInv_al1 h p

/-- filtering does not change the lookup for names the new rule does not cover -/
theorem lookup_al1_of_not_prefix {dot : α} {al : List (Rule α)} {p dm : List α}
    (hnp : ¬ dotted dot p <+: dm) : lookup (al1 dot al p) dm = lookup al dm := by
  unfold lookup al1
  rw [find?_filter_of_imp]
  intro a _ hm
  have hpa := (matchesR_iff _ _).mp hm
  have : ¬ dotted dot p <+: a.1 := fun hh => hnp (hh.trans hpa)
  simp [isPre_false_iff, this]

theorem step_lemma {dot : α} {al : List (Rule α)} (h : AInv dot al) (p : List α) (s : Bool) (dm : List α) :
    lookup (change dot al p s) dm = if dotted dot p <+: dm then s else lookup al dm := by
  have hInv' := AInv_change h p s
  have hInv1 := AInv_al1 h p
  rw [change_eq] at hInv' ⊢
  by_cases hd : dotted dot p <+: dm
  · simp only [hd, if_true]
    split
    · -- appended: the new rule is the deepest match
      rename_i hc
      rw [if_pos hc] at hInv'
      apply lookup_eq_of_best hInv' (r := (dotted dot p, s))
      · simp
      · exact hd
      · intro r' hr' hm'
        rw [List.mem_mergeSort] at hr'
        rcases List.mem_append.mp hr' with h1 | h1
        · have hnp := (mem_al1.mp h1).2
          obtain ⟨hpre, hne⟩ := comparable_of_not_prefix hd hm' hnp
          exact Nat.le_of_lt (depth_lt_of_proper_prefix dot (hInv1.df r' h1) (DF_dotted dot p) hpre hne)
        · simp at h1; subst h1; exact Nat.le_refl _
    · rename_i hc
      -- not appended
      have hagree : ∀ r ∈ al1 dot al p, matchesR dm r = matchesR (dotted dot p) r := by
        intro r hr
        have hnp := (mem_al1.mp hr).2
        by_cases hm : r.1 <+: dm
        · have := (comparable_of_not_prefix hd hm hnp).1
          rw [(matchesR_iff _ _).mpr hm, (matchesR_iff _ _).mpr this]
        · have h2 : ¬ r.1 <+: dotted dot p := fun hh => hm (hh.trans hd)
          have e1 : matchesR dm r = false := by
            cases hx : matchesR dm r with
            | false => rfl
            | true => exact absurd ((matchesR_iff _ _).mp hx) hm
          have e2 : matchesR (dotted dot p) r = false := by
            cases hx : matchesR (dotted dot p) r with
            | false => rfl
            | true => exact absurd ((matchesR_iff _ _).mp hx) h2
          rw [e1, e2]
      have hfind : (al1 dot al p).find? (matchesR dm) = (al1 dot al p).find? (matchesR (dotted dot p)) :=
        find?_congr' _ _ _ hagree
      unfold lookup
      rw [hfind]
      simp only [Bool.and_eq_true, bne_iff_ne, ne_eq, Bool.not_eq_true', not_and, Bool.not_eq_false] at hc
      cases hf : (al1 dot al p).find? (matchesR (dotted dot p)) with
      | some r0 =>
        simp only
        rw [hf] at hc
        by_cases hrs : r0.2 = s
        · exact hrs
        · have := hc (by simp [hrs])
          simp at this
          -- d = [] ⇒ al1 is empty, contradiction with r0 ∈ al1
          have hmem := List.mem_of_find?_eq_some hf
          have := (mem_al1.mp hmem).2
          rw [‹dotted dot p = [] ∧ s = true›.1] at this
          exact absurd List.nil_prefix this
      | none =>
        simp only
        rw [hf] at hc
        have := hc (by simp)
        simp at this
        exact this.2.symm
  · simp only [hd, if_false]
    rw [← lookup_al1_of_not_prefix (al := al) hd]
    split
    · rename_i hc
      rw [if_pos hc] at hInv'
      cases hf : (al1 dot al p).find? (matchesR dm) with
      | some r0 =>
        obtain ⟨hmem, hm, hbest⟩ := best_of_find hInv1 hf
        have : lookup (al1 dot al p) dm = r0.2 := by unfold lookup; rw [hf]
        rw [this]
        apply lookup_eq_of_best hInv' (r := r0)
        · rw [List.mem_mergeSort]; exact List.mem_append_left _ hmem
        · exact hm
        · intro r' hr' hm'
          rw [List.mem_mergeSort] at hr'
          rcases List.mem_append.mp hr' with h1 | h1
          · exact hbest r' h1 hm'
          · simp at h1; subst h1; exact absurd hm' hd
      | none =>
        have : lookup (al1 dot al p) dm = true := by unfold lookup; rw [hf]
        rw [this]
        apply lookup_eq_true_of_none
        intro r hr
        rw [List.mem_mergeSort] at hr
        rcases List.mem_append.mp hr with h1 | h1
        · exact not_prefix_of_matchesR_false (by simpa using List.find?_eq_none.mp hf r h1)
        · simp at h1; subst h1; exact hd
    · rfl



theorem AInv_run (dot : α) (h : List (List α × Bool)) : AInv dot (runAct dot h) := by
  induction h with
  | nil => exact ⟨by simp [runAct], by simp [runAct], by simp [runAct]⟩
  | cons c rest ih => exact AInv_change ih _ _

theorem activation_refines_spec (dot : α) (h : List (List α × Bool)) (dm : List α) :
    lookup (runAct dot h) dm = specEnabled dot h dm := by
  induction h with
  | nil => simp [runAct, specEnabled, lookup]
  | cons c rest ih =>
    simp only [runAct, specEnabled]
    rw [step_lemma (AInv_run dot rest), ih]


end Generic

open Py

/-! ### bridges from the generated kernels to list predicates -/

theorem take_length_beq {α : Type} [DecidableEq α] (p l : List α) :
    (l.take p.length == p) = p.isPrefixOf l := by
  rw [Bool.eq_iff_iff, beq_iff_eq, List.isPrefixOf_iff_prefix, List.prefix_iff_eq_take]
  exact eq_comm

theorem take_length_beq' {α : Type} [DecidableEq α] (p l : List α) :
    (p == l.take p.length) = p.isPrefixOf l := by
  rw [Bool.eq_iff_iff, beq_iff_eq, List.isPrefixOf_iff_prefix, List.prefix_iff_eq_take]

theorem take_length_bne' {α : Type} [DecidableEq α] (p l : List α) :
    (p != l.take p.length) = !(p.isPrefixOf l) := by
  simp only [bne, take_length_beq']

-- the four slice tests may be written with either orientation of `==` / `!=`
theorem actKeeps_eq (n name : Str) : Gen.actKeeps n name = !(name.isPrefixOf n) := by
  simp only [Gen.actKeeps, Int.toNat_natCast, Int.ofNat_eq_natCast, bne, take_length_beq, take_length_beq']

theorem actParent_eq (n name : Str) : Gen.actParent n name = n.isPrefixOf name := by
  simp only [Gen.actParent, Int.toNat_natCast, Int.ofNat_eq_natCast, take_length_beq, take_length_beq']

theorem actCacheHit_eq (n name : Str) : Gen.actCacheHit n name = name.isPrefixOf (n ++ ['.']) := by
  simp only [Gen.actCacheHit, Int.toNat_natCast, Int.ofNat_eq_natCast, take_length_beq, take_length_beq']
  rfl

theorem scanMatches_eq (dn rule : Str) : Gen.scanMatches dn rule = rule.isPrefixOf dn := by
  simp only [Gen.scanMatches, Int.toNat_natCast, Int.ofNat_eq_natCast, take_length_beq, take_length_beq']

theorem filterByName_eq (n p : Str) :
    Gen.filterByName n (p ++ ['.']) (Int.ofNat (p ++ ['.']).length) = (p ++ ['.']).isPrefixOf (n ++ ['.']) := by
  simp only [Gen.filterByName, Int.toNat_natCast, Int.ofNat_eq_natCast, take_length_beq, take_length_beq']
  rfl

theorem handlerPasses_eq (t no : Int) : (!(Gen.handlerRejects t no)) = decide (t ≤ no) := by
  unfold Gen.handlerRejects
  rw [← decide_not]; apply decide_eq_decide.mpr; omega

theorem changeAct_eq (al : List (Rule Char)) (p : Str) (s : Bool) :
    changeAct al (dotted '.' p) s = change '.' al p s := by
  unfold changeAct change
  have h1 : (fun r : Rule Char => Gen.actKeeps r.1 (dotted '.' p)) = (fun r => !((dotted '.' p).isPrefixOf r.1)) := by
    funext r; exact actKeeps_eq _ _
  have h2 : (fun r : Rule Char => Gen.actParent r.1 (dotted '.' p)) = matchesR (dotted '.' p) := by
    funext r; simp [actParent_eq, matchesR]
  simp only [h1, h2]

theorem scan_some_eq (c : Core) (n : Str) : scan c (some n) = lookup c.activationList (n ++ ['.']) := by
  unfold scan lookup
  have : (fun r : Rule Char => Gen.scanMatches (n ++ ['.']) r.1) = matchesR (n ++ ['.']) := by
    funext r; simp [scanMatches_eq, matchesR]
  simp only [this]
  cases List.find? (matchesR (n ++ ['.'])) c.activationList <;> rfl

/-! ### package-parent relation -/

theorem pkgParent_iff_dotted (p M : Str) : pkgParent p M = true ↔ dotted '.' p <+: M ++ ['.'] := by
  unfold pkgParent dotted
  by_cases hp : p = []
  · subst hp; simp
  · simp only [hp, if_false, beq_iff_eq, Bool.or_eq_true, List.isPrefixOf_iff_prefix, false_or]
    constructor
    · rintro (h | h)
      · subst h; exact List.prefix_refl _
      · exact h.trans (List.prefix_append _ _)
    · rintro ⟨t, ht⟩
      rcases List.eq_nil_or_concat t with rfl | ⟨t', x, rfl⟩
      · left
        simp at ht
        exact ht.symm
      · right
        rw [List.concat_eq_append, ← List.append_assoc] at ht
        have := (List.append_inj' ht (by simp)).1
        exact ⟨t', this⟩

/-- the spec reading: `p` is `M`, or `M` continues `p` with a dot, or `p` is the empty name -/
theorem pkgParent_iff (p M : Str) :
    pkgParent p M = true ↔ p = [] ∨ M = p ∨ ∃ rest, M = p ++ '.' :: rest := by
  unfold pkgParent
  simp only [beq_iff_eq, Bool.or_eq_true, List.isPrefixOf_iff_prefix, or_assoc]
  constructor
  · rintro (h | h | ⟨t, ht⟩)
    · exact Or.inl h
    · exact Or.inr (Or.inl h)
    · exact Or.inr (Or.inr ⟨t, by simp [← ht]⟩)
  · rintro (h | h | ⟨t, ht⟩)
    · exact Or.inl h
    · exact Or.inr (Or.inl h)
    · exact Or.inr (Or.inr ⟨t, by simp [ht]⟩)

/-! ### `min_level` -/

theorem minAdd_minOf (l : List Int) (t : Int) : minAdd (minOf l) t = minOf (l ++ [t]) := by
  induction l with
  | nil => simp [minOf, minAdd]
  | cons x xs ih =>
    simp only [List.cons_append, minOf]
    rw [← ih]
    cases h : minOf xs with
    | none =>
      simp only [minAdd, Gen.addMin, Int.min_def, decide_eq_true_eq]; congr 1
      repeat' split
      all_goals omega
    | some m =>
      simp only [minAdd, Gen.addMin, Int.min_def, decide_eq_true_eq]; congr 1
      repeat' split
      all_goals omega

theorem belowMin_minOf (no : Int) (l : List Int) :
    belowMin no (minOf l) = !(l.any (fun t => decide (t ≤ no))) := by
  induction l with
  | nil => simp [minOf, belowMin]
  | cons x xs ih =>
    simp only [minOf, List.any_cons]
    cases h : minOf xs with
    | none =>
      rw [h] at ih
      simp only [belowMin] at ih
      rw [Bool.not_or, ← ih]
      simp only [belowMin, Gen.belowMin, Bool.and_true]
      rw [← decide_not]; apply decide_eq_decide.mpr; omega
    | some m =>
      rw [h] at ih
      rw [Bool.not_or, ← ih]
      simp only [belowMin, Gen.belowMin, Int.min_def]
      rw [← decide_not, ← Bool.decide_and]; apply decide_eq_decide.mpr
      split <;> omega

/-! ### the simulation invariant between `Core` and the history spec (I1–I4) -/

structure Sim (c : Core) (s : SState) : Prop where
  handlers : c.handlers = s.regs
  count : c.handlersCount = s.nextId
  levels : c.levels = s.levels
  /-- (I1) -/
  minLevel : c.minLevel = minOf (c.handlers.map (·.2.threshold))
  /-- (I2) -/
  actInv : AInv '.' c.activationList
  act : ∀ M : Str, lookup c.activationList (M ++ ['.']) = enabledS s.acts (some M)
  actNone : c.activationNone = enabledS s.acts none
  /-- (I3) -/
  cache : ∀ e ∈ c.enabled, e.2 = enabledS s.acts e.1
  /-- (I4) -/
  lkName : ∀ n, c.levelsLookup.lookup (LKey.name n) = c.levels.lookup n
  lkInt : ∀ i no, c.levelsLookup.lookup (LKey.int i) = some no → 0 ≤ i ∧ no = i
  /-- (I6) every colourising handler holds a pre-colourised format for every existing level name -/
  pcInv : ∀ e ∈ c.precolorized, ∀ n, (c.levels.lookup n).isSome = true → n ∈ e.2

theorem lookup_map_name (l : List (Str × Int)) (n : Str) :
    (l.map (fun x => (LKey.name x.1, x.2))).lookup (LKey.name n) = l.lookup n := by
  induction l with
  | nil => rfl
  | cons x xs ih =>
    simp only [List.map_cons, List.lookup_cons]
    have : (LKey.name n == LKey.name x.1) = (n == x.1) := by
      rw [Bool.eq_iff_iff]; simp
    rw [this, ih, List.lookup_cons]

theorem lookup_map_int (l : List (Str × Int)) (i : Int) :
    (l.map (fun x => (LKey.name x.1, x.2))).lookup (LKey.int i) = none := by
  induction l with
  | nil => rfl
  | cons x xs ih =>
    simp only [List.map_cons, List.lookup_cons]
    have : (LKey.int i == LKey.name x.1) = false := by simp
    rw [this, ih]

theorem sim_init : Sim Core.init SState.init where
  handlers := rfl
  count := rfl
  levels := rfl
  minLevel := rfl
  actInv := ⟨by simp [Core.init], by simp [Core.init], by simp [Core.init]⟩
  act := fun M => by simp [Core.init, SState.init, lookup, enabledS]
  actNone := rfl
  cache := fun e he => by simp [Core.init] at he
  lkName := fun n => lookup_map_name _ _
  lkInt := fun i no h => by
    simp only [Core.init] at h
    rw [lookup_map_int] at h
    cases h
  pcInv := fun e he => by simp [Core.init] at he

theorem mem_of_lookup {α β : Type} [BEq α] [LawfulBEq α] {l : List (α × β)} {k : α} {v : β}
    (h : l.lookup k = some v) : (k, v) ∈ l := by
  induction l with
  | nil => simp at h
  | cons x xs ih =>
    rw [List.lookup_cons] at h
    cases hk : (k == x.1) with
    | true =>
      rw [hk] at h
      simp only [Option.some.injEq] at h
      have := eq_of_beq hk
      rcases x with ⟨a, b⟩
      simp only at this h
      subst this h
      exact List.mem_cons_self
    | false =>
      rw [hk] at h
      exact List.mem_cons_of_mem _ (ih h)

theorem filterMap_ite {α β : Type} (p : α → Bool) (f : α → β) (l : List α) :
    l.filterMap (fun a => if p a then some (f a) else none) = (l.filter p).map f := by
  induction l with
  | nil => rfl
  | cons x xs ih =>
    by_cases h : p x = true
    · simp [h, ih]
    · simp [h, ih]

/-- the level id `_log` hands to `emit` names an existing level -/
def LidOk (c : Core) (lid : Option Str) : Prop := ∀ n, lid = some n → (c.levels.lookup n).isSome = true

theorem precolorOk_true {c : Core} (hpc : ∀ e ∈ c.precolorized, ∀ n, (c.levels.lookup n).isSome = true → n ∈ e.2)
    {lid : Option Str} (hl : LidOk c lid) (id : Nat) : precolorOk c id lid = true := by
  cases lid with
  | none => rfl
  | some n =>
    unfold precolorOk
    cases hk : c.precolorized.lookup id with
    | none => rfl
    | some ks =>
      have hm := mem_of_lookup hk
      have := hpc _ hm n (hl n rfl)
      simpa using this

theorem emitAll_eq (orc : Oracle) {c : Core} {s : SState} (h : c.handlers = s.regs)
    (hpc : ∀ e ∈ c.precolorized, ∀ n, (c.levels.lookup n).isSome = true → n ∈ e.2)
    {lid : Option Str} (hl : LidOk c lid) (no : Int) (M : Option Str) :
    emitAll orc c lid no M = deliverS orc s no M := by
  unfold emitAll deliverS
  rw [h]
  rw [filterMap_ite (fun h : Nat × Handler => gate orc h.2 no M && precolorOk c h.1 lid) (fun h => h.1) s.regs]
  congr 1
  congr 1
  funext x
  simp only [gate, handlerPasses_eq, precolorOk_true hpc hl, Bool.and_true]

theorem enabledS_cons_some (p : Str) (st : Bool) (acts : List (Option Str × Bool)) (M : Str) :
    enabledS ((some p, st) :: acts) (some M) = if dotted '.' p <+: M ++ ['.'] then st else enabledS acts (some M) := by
  simp only [enabledS, relevant]
  by_cases h : pkgParent p M = true
  · simp only [h, if_true, if_pos ((pkgParent_iff_dotted p M).mp h)]
  · simp only [h, if_neg (fun hh => h ((pkgParent_iff_dotted p M).mpr hh))]
    simp

theorem resolveLevel_sim {c : Core} {s : SState} (h : Sim c s) (lv : LevelArg) :
    match resolveLevel c lv with
    | .error e => levelNoS s.levels lv = .error e
    | .ok r => levelNoS s.levels lv = .ok r.2.2 ∧ Sim r.1 s ∧ LidOk r.1 r.2.1 := by
  cases lv with
  | bad => simp [resolveLevel, levelNoS]
  | name n =>
    simp only [resolveLevel, levelNoS, getLevel]
    rw [h.lkName n, h.levels]
    cases hsl : s.levels.lookup n with
    | none => simp
    | some no =>
      refine ⟨rfl, h, ?_⟩
      intro m hm
      simp only [Option.some.injEq] at hm
      subst hm
      rw [h.levels, hsl]; rfl
  | int i =>
    simp only [resolveLevel, levelNoS]
    cases hl : c.levelsLookup.lookup (LKey.int i) with
    | some no =>
      obtain ⟨h0, rfl⟩ := h.lkInt i no hl
      simp only
      refine ⟨?_, h, fun m hm => by cases hm⟩
      rw [if_neg (by omega)]
    | none =>
      simp only [Gen.logRejectsInt, Gen.intLevelNo, decide_eq_true_eq]
      by_cases hi : i < 0
      · simp [hi]
      · simp only [hi, if_false]
        refine ⟨trivial, ?_, fun m hm => by cases hm⟩
        exact {
          handlers := h.handlers, count := h.count, levels := h.levels, minLevel := h.minLevel,
          actInv := h.actInv, act := h.act, actNone := h.actNone, cache := h.cache,
          lkName := fun n => by
            simp only [List.lookup_cons]
            have : (LKey.name n == LKey.int i) = false := by simp
            rw [this]; exact h.lkName n
          lkInt := fun j no hj => by
            simp only [List.lookup_cons] at hj
            by_cases hji : j = i
            · subst hji
              simp at hj
              omega
            · have : (LKey.int j == LKey.int i) = false := by simp [hji]
              rw [this] at hj
              exact h.lkInt j no hj
          pcInv := h.pcInv }

theorem logTail_sim (orc : Oracle) {c : Core} {s : SState} (h : Sim c s) {lid : Option Str} (hlid : LidOk c lid)
    (no : Int) (M : Option Str) (lazy : Bool) :
    (logTail orc c lid no M lazy).2 = sLogTail orc s no M lazy ∧ Sim (logTail orc c lid no M lazy).1 s := by
  unfold logTail sLogTail
  have hadm : belowMin no c.minLevel = !(admitted s no) := by
    rw [h.minLevel, belowMin_minOf, h.handlers]
    simp only [admitted, List.any_map]; rfl
  rw [hadm]
  cases hA : admitted s no with
  | false => simp [h]
  | true =>
    simp only [Bool.not_true, Bool.false_eq_true, if_false, Bool.and_true]
    cases hl : c.enabled.lookup M with
    | some st =>
      have := h.cache _ (mem_of_lookup hl)
      simp only at this
      rw [← this]
      cases st with
      | true => simp [h, emitAll_eq orc h.handlers h.pcInv hlid]
      | false => simp [h]
    | none =>
      have hscan : scan c M = enabledS s.acts M := by
        cases M with
        | none => exact h.actNone
        | some n => rw [scan_some_eq]; exact h.act n
      simp only
      rw [hscan]
      have hsim : Sim { c with enabled := (M, enabledS s.acts M) :: c.enabled } s :=
        { handlers := h.handlers, count := h.count, levels := h.levels, minLevel := h.minLevel,
          actInv := h.actInv, act := h.act, actNone := h.actNone, lkName := h.lkName, lkInt := h.lkInt,
          pcInv := h.pcInv,
          cache := fun e he => by
            rcases List.mem_cons.mp he with rfl | he
            · rfl
            · exact h.cache e he }
      cases hE : enabledS s.acts M with
      | true =>
        simp only [if_true]
        rw [hE] at hsim
        exact ⟨by rw [emitAll_eq orc (s := s) (by exact h.handlers) hsim.pcInv hlid], hsim⟩
      | false =>
        rw [hE] at hsim
        simp [hsim]

theorem log_sim (orc : Oracle) {c : Core} {s : SState} (h : Sim c s) (lv : LevelArg) (M : Option Str) (lazy : Bool) :
    (log orc c lv M lazy).2 = sLog orc s lv M lazy ∧ Sim (log orc c lv M lazy).1 s := by
  unfold log sLog
  rw [h.handlers]
  by_cases he : s.regs.isEmpty = true
  · simp [he, h]
  · simp only [he, if_false]
    have hr := resolveLevel_sim h lv
    cases hres : resolveLevel c lv with
    | error e =>
      rw [hres] at hr
      simp only at hr
      simp [hr, h]
    | ok r =>
      rw [hres] at hr
      simp only at hr
      simp only [hr.1]
      exact logTail_sim orc hr.2.1 hr.2.2 r.2.2 M lazy

theorem lookup_isSome_mem_keys {l : List (Str × Int)} {n : Str} (h : (l.lookup n).isSome = true) :
    n ∈ l.map (·.1) := by
  induction l with
  | nil => simp at h
  | cons x xs ih =>
    rw [List.lookup_cons] at h
    by_cases hx : n = x.1
    · subst hx; simp
    · have : (n == x.1) = false := by simp [hx]
      rw [this] at h
      exact List.mem_cons_of_mem _ (ih h)

/-! ### the regenerated dispatch chains of `add` denote the documented reading by kinds -/

theorem mkDictValC_eq (levels : List (Str × Int)) (v : DVal) : mkDictValC levels v = mkDictVal levels v := by
  cases v <;> rfl

theorem mkDictC_eq (levels : List (Str × Int)) : ∀ items, mkDictC levels items = mkDict levels items := by
  intro items
  induction items with
  | nil => rfl
  | cons kv rest ih =>
    rcases kv with ⟨k, v⟩
    simp only [mkDictC, mkDict, mkDictValC_eq, ih]

theorem mkFilterC_eq (levels : List (Str × Int)) (a : FilterArg) : mkFilterC levels a = mkFilter levels a := by
  cases a with
  | none => rfl
  | str s =>
    cases s with
    | nil => rfl
    | cons c cs => rfl
  | dict items =>
    show (mkDictC levels items).map Filter.byLevel = (mkDict levels items).map Filter.byLevel
    rw [mkDictC_eq]
  | callable k => rfl
  | builtinFilter => rfl
  | bad => rfl

theorem mkThresholdC_eq (levels : List (Str × Int)) (l : LevelArg) : mkThresholdC levels l = mkThreshold levels l := by
  cases l <;> rfl

theorem add_sim {c : Core} {s : SState} (h : Sim c s) (a : AddArgs) :
    (add c a).2 = (sAdd s a).2 ∧ Sim (add c a).1 (sAdd s a).1 := by
  rcases c with ⟨hs, cnt, ml, en, al, an, lv, lk, pc⟩
  rcases s with ⟨slv, nid, regs, acts⟩
  obtain ⟨h1, h2, h3, h4, h5, h6, h7, h8, h9, h10, h11⟩ := h
  simp only at h1 h2 h3 h4 h5 h6 h7 h8 h9 h10 h11
  subst h1 h2 h3
  unfold add sAdd
  simp only [mkFilterC_eq, mkThresholdC_eq]
  have hbump : Sim ⟨hs, cnt + 1, ml, en, al, an, lv, lk, pc⟩ ⟨lv, cnt + 1, hs, acts⟩ :=
    ⟨rfl, rfl, rfl, h4, h5, h6, h7, h8, h9, h10, h11⟩
  cases mkFilter lv a.filter with
  | error e => exact ⟨rfl, hbump⟩
  | ok f =>
    cases mkThreshold lv a.level with
    | error e => exact ⟨rfl, hbump⟩
    | ok t =>
      refine ⟨rfl, ?_⟩
      exact ⟨rfl, rfl, rfl, by
                simp only [List.map_append, List.map_cons, List.map_nil]
                rw [h4, minAdd_minOf], h5, h6, h7, h8, h9, h10, by
                intro e he n hn
                by_cases hc : a.colorize = true
                · simp only [hc, if_true, List.mem_cons] at he
                  rcases he with rfl | he
                  · exact lookup_isSome_mem_keys hn
                  · exact h11 e he n hn
                · simp only [hc, Bool.false_eq_true, if_false] at he
                  exact h11 e he n hn⟩

theorem remove_sim (orc : Oracle) {c : Core} {s : SState} (h : Sim c s) (id : Int) :
    (remove c id).2 = (sPrim orc s (.remove id)).2 ∧ Sim (remove c id).1 (sPrim orc s (.remove id)).1 := by
  rcases c with ⟨hs, cnt, ml, en, al, an, lv, lk, pc⟩
  rcases s with ⟨slv, nid, regs, acts⟩
  obtain ⟨h1, h2, h3, h4, h5, h6, h7, h8, h9, h10, h11⟩ := h
  simp only at h1 h2 h3 h4 h5 h6 h7 h8 h9 h10 h11
  subst h1 h2 h3
  unfold remove sPrim
  simp only
  split
  · cases hs.find? (fun h => h.1 == id.toNat) with
    | some hd => exact ⟨rfl, ⟨rfl, rfl, rfl, rfl, h5, h6, h7, h8, h9, h10, h11⟩⟩
    | none => exact ⟨rfl, ⟨rfl, rfl, rfl, h4, h5, h6, h7, h8, h9, h10, h11⟩⟩
  · exact ⟨rfl, ⟨rfl, rfl, rfl, h4, h5, h6, h7, h8, h9, h10, h11⟩⟩

theorem filter_ne_head (h : Nat × Handler) (t : List (Nat × Handler))
    (hp : (h :: t).Pairwise (fun a b => a.1 < b.1)) : (h :: t).filter (fun x => x.1 != h.1) = t := by
  have hh := (List.pairwise_cons.mp hp).1
  rw [List.filter_cons]
  simp only [bne_self_eq_false, Bool.false_eq_true, if_false]
  apply List.filter_eq_self.mpr
  intro x hx
  have := hh x hx
  simp only [bne_iff_ne, ne_eq]
  omega

/-- the pop loop of `remove()` against its one-line spec; needs distinct ids (I5) -/
theorem removeLoop_spec : ∀ (l : List (Nat × Handler)) (c : Core), c.handlers = l →
    l.Pairwise (fun a b => a.1 < b.1) → c.minLevel = minOf (l.map (·.2.threshold)) →
    removeLoop c l = ({ c with handlers := (removeAllS l).1,
                               minLevel := minOf ((removeAllS l).1.map (·.2.threshold)) }, (removeAllS l).2) := by
  intro l
  induction l with
  | nil =>
    intro c hc _ hm
    rcases c with ⟨hs, cnt, ml, en, al, an, lv, lk, pc⟩
    simp only at hc hm
    subst hc hm
    rfl
  | cons h t ih =>
    intro c hc hp hm
    have hrem : removeOne c h.1 = { c with handlers := t, minLevel := minOf (t.map (·.2.threshold)) } := by
      unfold removeOne
      simp only [hc, filter_ne_head h t hp]
    unfold removeLoop
    simp only [hrem]
    by_cases hf : h.2.stopFails = true
    · simp only [hf, if_true, removeAllS]
    · simp only [hf, Bool.false_eq_true, if_false, removeAllS]
      exact ih _ rfl (List.pairwise_cons.mp hp).2 rfl

theorem removeAll_sim (orc : Oracle) {c : Core} {s : SState} (h : Sim c s)
    (hp : s.regs.Pairwise (fun a b => a.1 < b.1)) :
    (removeAll c).2 = (sPrim orc s .removeAll).2 ∧ Sim (removeAll c).1 (sPrim orc s .removeAll).1 := by
  rcases c with ⟨hs, cnt, ml, en, al, an, lv, lk, pc⟩
  rcases s with ⟨slv, nid, regs, acts⟩
  obtain ⟨h1, h2, h3, h4, h5, h6, h7, h8, h9, h10, h11⟩ := h
  simp only at h1 h2 h3 h4 h5 h6 h7 h8 h9 h10 h11 hp
  subst h1 h2 h3
  unfold removeAll sPrim
  simp only
  rw [removeLoop_spec hs _ rfl hp h4]
  exact ⟨rfl, ⟨rfl, rfl, rfl, rfl, h5, h6, h7, h8, h9, h10, h11⟩⟩

/-- the table obtained by executing `level` abstractly does not distinguish a colour from an icon, and denotes the
create / update / read rules the spec states -/
theorem levelTable_symmetric : ∀ k ∈ [0, 1, 2, 3], ∀ c i e : Bool,
    Gen.levelTable.lookup (k, c, i, e) = Gen.levelTable.lookup (k, c || i, false, e) := by decide

theorem levelDecisionC_eq (levels : List (Str × Int)) (name : Str) (no : NoArg) (other : Bool) :
    levelDecisionC levels name no other = levelDecision levels name no other := by
  unfold levelDecisionC levelDecision
  cases hl : levels.lookup name with
  | none =>
    cases no with
    | none => cases other <;> rfl
    | bad => cases other <;> rfl
    | int i =>
      simp only [noKind]
      by_cases hi : Gen.levelRejectsNo i = true
      · cases other <;> simp [hi] <;> rfl
      · have hi' : Gen.levelRejectsNo i = false := by simpa using hi
        cases other <;> simp [hi'] <;> rfl
  | some old =>
    cases no with
    | none => cases other <;> rfl
    | bad => cases other <;> rfl
    | int i =>
      simp only [noKind]
      by_cases hi : Gen.levelRejectsNo i = true
      · cases other <;> simp [hi] <;> rfl
      · have hi' : Gen.levelRejectsNo i = false := by simpa using hi
        cases other <;> simp [hi'] <;> rfl

theorem level_sim (orc : Oracle) {c : Core} {s : SState} (h : Sim c s) (name : Str) (no : NoArg) (other : Bool) :
    (levelOp c name no other).2 = (sPrim orc s (.level name no other)).2 ∧
    Sim (levelOp c name no other).1 (sPrim orc s (.level name no other)).1 := by
  rcases c with ⟨hs, cnt, ml, en, al, an, lv, lk, pc⟩
  rcases s with ⟨slv, nid, regs, acts⟩
  obtain ⟨h1, h2, h3, h4, h5, h6, h7, h8, h9, h10, h11⟩ := h
  simp only at h1 h2 h3 h4 h5 h6 h7 h8 h9 h10 h11
  subst h1 h2 h3
  unfold levelOp sPrim
  simp only [levelDecisionC_eq]
  cases levelDecision lv name no other with
  | error e => exact ⟨rfl, ⟨rfl, rfl, rfl, h4, h5, h6, h7, h8, h9, h10, h11⟩⟩
  | ok d =>
    cases d with
    | none => exact ⟨rfl, ⟨rfl, rfl, rfl, h4, h5, h6, h7, h8, h9, h10, h11⟩⟩
    | some n =>
      refine ⟨rfl, ⟨rfl, rfl, rfl, h4, h5, h6, h7, h8, ?_, ?_, ?_⟩⟩
      rotate_left 2
      · intro e he m hm
        simp only [List.mem_map] at he
        obtain ⟨e0, he0, rfl⟩ := he
        simp only [List.lookup_cons] at hm
        by_cases hmn : m = name
        · subst hmn; exact List.mem_cons_self
        · have : (m == name) = false := by simp [hmn]
          rw [this] at hm
          exact List.mem_cons_of_mem _ (h11 e0 he0 m hm)
      · intro m
        simp only [List.lookup_cons]
        have : (LKey.name m == LKey.name name) = (m == name) := by rw [Bool.eq_iff_iff]; simp
        rw [this, h9 m]
      · intro j no hj
        simp only [List.lookup_cons] at hj
        have : (LKey.int j == LKey.name name) = false := by simp
        rw [this] at hj
        exact h10 j no hj

theorem activate_sim {c : Core} {s : SState} (h : Sim c s) (name : Option Str) (st : Bool) :
    Sim (activate c name st) { s with acts := (name, st) :: s.acts } := by
  cases name with
  | none =>
    exact { handlers := h.handlers, count := h.count, levels := h.levels, minLevel := h.minLevel,
            actInv := h.actInv,
            act := fun M => by simp only [activate, enabledS, relevant]; exact h.act M
            actNone := by simp [activate, enabledS, relevant]
            cache := fun e he => by
              simp only [activate, List.mem_map] at he
              obtain ⟨e0, he0, rfl⟩ := he
              have := h.cache e0 he0
              rcases e0 with ⟨k, v⟩
              cases k with
              | none => simp [enabledS, relevant]
              | some n => simpa [enabledS, relevant] using this
            lkName := h.lkName, lkInt := h.lkInt, pcInv := h.pcInv }
  | some p =>
    exact { handlers := h.handlers, count := h.count, levels := h.levels, minLevel := h.minLevel,
            actInv := by
              simp only [activate, changeAct_eq]
              exact AInv_change h.actInv p st
            act := fun M => by
              simp only [activate, changeAct_eq]
              rw [step_lemma h.actInv, enabledS_cons_some, h.act M]
            actNone := by simp only [activate, enabledS, relevant]; exact h.actNone
            cache := fun e he => by
              simp only [activate, List.mem_map] at he
              obtain ⟨e0, he0, rfl⟩ := he
              have := h.cache e0 he0
              rcases e0 with ⟨k, v⟩
              cases k with
              | none => simpa [enabledS, relevant] using this
              | some n =>
                simp only [actCacheHit_eq]
                simp only at this
                by_cases hp : dotted '.' p <+: n ++ ['.']
                · simp only [List.isPrefixOf_iff_prefix.mpr hp, if_true]
                  rw [enabledS_cons_some, if_pos hp]
                · have hf : (dotted '.' p).isPrefixOf (n ++ ['.']) = false := isPre_false_iff.mpr hp
                  simp only [hf, Bool.false_eq_true, if_false]
                  rw [enabledS_cons_some, if_neg hp]
                  exact this
            lkName := h.lkName, lkInt := h.lkInt, pcInv := h.pcInv }

/-! ### a log call overlapped by a complete enable/disable (`Op.logDuring`) -/

/-- the dict that receives the cache fill was fetched before the rules were read (regenerated from `_log`) -/
theorem fill_goes_into_fetched_dict : Gen.cacheFillIntoFetchedDict = true := rfl

/-- with the code's order of reads the overlapped call is: the observable of the plain call in the old state,
and the state of the completed change – the fill is lost with the unpublished dict -/
theorem logDuringG_fetched (orc : Oracle) (c : Core) (lv : LevelArg) (M : Option Str) (lazy : Bool)
    (p : Option Str) (st : Bool) :
    logDuringG true orc c lv M lazy p st =
      (activate (if c.handlers.isEmpty then c else match resolveLevel c lv with | .ok r => r.1 | .error _ => c) p st,
       (log orc c lv M lazy).2) := by
  unfold logDuringG log
  by_cases he : c.handlers.isEmpty = true
  · simp [he]
  · simp only [he, Bool.false_eq_true, if_false]
    cases hres : resolveLevel c lv with
    | error e => rfl
    | ok r =>
      simp only [logTail]
      by_cases hb : belowMin r.2.2 r.1.minLevel = true
      · simp [hb]
      · simp only [hb, Bool.false_eq_true, if_false]
        cases hl : r.1.enabled.lookup M with
        | some b => cases b <;> simp
        | none =>
          have hE : ∀ x : Core, emitAll orc (activate x p st) r.2.1 r.2.2 M = emitAll orc x r.2.1 r.2.2 M := by
            intro x; cases p <;> rfl
          simp only [if_true, hE]
          cases scan r.1 M <;> simp [emitAll, precolorOk]

theorem logDuring_sim (orc : Oracle) {c : Core} {s : SState} (h : Sim c s) (lv : LevelArg) (M : Option Str)
    (lazy early : Bool) (p : Option Str) (st : Bool) :
    (logDuring orc c lv M lazy early p st).2 = (sPrim orc s (.logDuring lv M lazy early p st)).2 ∧
    Sim (logDuring orc c lv M lazy early p st).1 (sPrim orc s (.logDuring lv M lazy early p st)).1 := by
  cases early with
  | true =>
    have ha := activate_sim h p st
    have hl := log_sim orc ha lv M lazy
    simp only [logDuring, sPrim, if_true]
    exact hl
  | false =>
    simp only [logDuring, sPrim, Bool.false_eq_true, if_false, fill_goes_into_fetched_dict, logDuringG_fetched]
    refine ⟨(log_sim orc h lv M lazy).1, ?_⟩
    apply activate_sim
    by_cases he : c.handlers.isEmpty = true
    · simp only [he, if_true]; exact h
    · simp only [he, Bool.false_eq_true, if_false]
      have hr := resolveLevel_sim h lv
      cases hres : resolveLevel c lv with
      | error e => exact h
      | ok r => rw [hres] at hr; exact hr.2.1

/-! ### ids: fresh and increasing (I5) -/

def IdInv (s : SState) : Prop := (∀ h ∈ s.regs, h.1 < s.nextId) ∧ s.regs.Pairwise (fun a b => a.1 < b.1)

theorem removeAllS_sublist : ∀ l : List (Nat × Handler), (removeAllS l).1.Sublist l := by
  intro l
  induction l with
  | nil => exact List.Sublist.refl _
  | cons h t ih =>
    unfold removeAllS
    split
    · exact List.sublist_cons_self _ _
    · exact ih.trans (List.sublist_cons_self _ _)

theorem idInv_init : IdInv SState.init := ⟨by simp [SState.init], by simp [SState.init]⟩

theorem idInv_sPrim (orc : Oracle) {s : SState} (h : IdInv s) (op : Op) : IdInv (sPrim orc s op).1 := by
  obtain ⟨h1, h2⟩ := h
  cases op with
  | add a =>
    have hb : IdInv { s with nextId := s.nextId + 1 } := ⟨fun x hx => Nat.lt_succ_of_lt (h1 x hx), h2⟩
    simp only [sPrim, sAdd]
    cases mkFilter s.levels a.filter with
    | error e => exact hb
    | ok f =>
      cases mkThreshold s.levels a.level with
      | error e => exact hb
      | ok t =>
        refine ⟨?_, ?_⟩
        · intro x hx
          simp only [List.mem_append, List.mem_singleton] at hx
          rcases hx with hx | rfl
          · exact Nat.lt_succ_of_lt (h1 x hx)
          · exact Nat.lt_succ_self _
        · simp only
          rw [List.pairwise_append]
          refine ⟨h2, by simp, ?_⟩
          intro a ha b hb
          simp only [List.mem_singleton] at hb
          subst hb
          exact h1 a ha
  | addBad => exact ⟨fun x hx => Nat.lt_succ_of_lt (h1 x hx), h2⟩
  | remove id =>
    simp only [sPrim]
    split
    · cases s.regs.find? (fun h => h.1 == id.toNat) with
      | some hd => exact ⟨fun x hx => h1 x (List.mem_filter.mp hx).1, h2.filter _⟩
      | none => exact ⟨h1, h2⟩
    · exact ⟨h1, h2⟩
  | removeAll =>
    have hsub := removeAllS_sublist s.regs
    exact ⟨fun x hx => h1 x (hsub.subset hx), h2.sublist hsub⟩
  | removeBad => exact ⟨h1, h2⟩
  | level name no other =>
    simp only [sPrim]
    cases levelDecision s.levels name no other with
    | error e => exact ⟨h1, h2⟩
    | ok d => cases d <;> exact ⟨h1, h2⟩
  | levelBad => exact ⟨h1, h2⟩
  | activate name st => exact ⟨h1, h2⟩
  | activateBad st => exact ⟨h1, h2⟩
  | configure a b d => exact ⟨h1, h2⟩
  | log lv M lazy => exact ⟨h1, h2⟩
  | logDuring lv M lazy early p st => exact ⟨h1, h2⟩

theorem idInv_batch (orc : Oracle) (ops : List Op) : ∀ {s : SState} (h : IdInv s) (acc : List Nat),
    IdInv (runBatch (sPrim orc) s ops acc).1 := by
  induction ops with
  | nil => intro s h acc; exact h
  | cons op rest ih =>
    intro s h acc
    have hp := idInv_sPrim orc h op
    unfold runBatch
    rcases hs : sPrim orc s op with ⟨s', o'⟩
    rw [hs] at hp
    cases o' with
    | err e => exact hp
    | id n => exact ih hp _
    | ok => exact ih hp _
    | ids l => exact ih hp _
    | delivered a b => exact ih hp _

theorem idInv_sStep (orc : Oracle) {s : SState} (h : IdInv s) (op : Op) : IdInv (sStep orc s op).1 := by
  cases op with
  | configure a b d => exact idInv_batch orc _ h []
  | add a => exact idInv_sPrim orc h _
  | addBad => exact idInv_sPrim orc h _
  | remove id => exact idInv_sPrim orc h _
  | removeAll => exact idInv_sPrim orc h _
  | removeBad => exact idInv_sPrim orc h _
  | level name no other => exact idInv_sPrim orc h _
  | levelBad => exact idInv_sPrim orc h _
  | activate name st => exact idInv_sPrim orc h _
  | activateBad st => exact idInv_sPrim orc h _
  | log lv M lazy => exact idInv_sPrim orc h _
  | logDuring lv M lazy early p st => exact idInv_sPrim orc h _

theorem idInv_final (orc : Oracle) (ops : List Op) : ∀ {s : SState}, IdInv s → IdInv (finalS orc s ops) := by
  induction ops with
  | nil => intro s h; exact h
  | cons op rest ih => intro s h; exact ih (idInv_sStep orc h op)

theorem prim_sim (orc : Oracle) {c : Core} {s : SState} (h : Sim c s) (hi : IdInv s) (op : Op) :
    (prim orc c op).2 = (sPrim orc s op).2 ∧ Sim (prim orc c op).1 (sPrim orc s op).1 := by
  cases op with
  | add a => exact add_sim h a
  | addBad => exact ⟨rfl, { h with count := by show c.handlersCount + 1 = s.nextId + 1; rw [h.count] }⟩
  | remove id => exact remove_sim orc h id
  | removeAll => exact removeAll_sim orc h hi.2
  | removeBad => exact ⟨rfl, h⟩
  | level name no other => exact level_sim orc h name no other
  | levelBad => exact ⟨rfl, h⟩
  | activate name st => exact ⟨rfl, activate_sim h name st⟩
  | activateBad st => exact ⟨rfl, h⟩
  | configure a b d => exact ⟨rfl, h⟩
  | log lv M lazy => exact log_sim orc h lv M lazy
  | logDuring lv M lazy early p st => exact logDuring_sim orc h lv M lazy early p st

theorem batch_sim (orc : Oracle) (ops : List Op) : ∀ {c : Core} {s : SState} (h : Sim c s) (hi : IdInv s) (acc : List Nat),
    (runBatch (prim orc) c ops acc).2 = (runBatch (sPrim orc) s ops acc).2 ∧
    Sim (runBatch (prim orc) c ops acc).1 (runBatch (sPrim orc) s ops acc).1 := by
  induction ops with
  | nil => intro c s h hi acc; exact ⟨rfl, h⟩
  | cons op rest ih =>
    intro c s h hi acc
    have hp := prim_sim orc h hi op
    have hi' := idInv_sPrim orc hi op
    unfold runBatch
    rcases hm : prim orc c op with ⟨c', o⟩
    rcases hs : sPrim orc s op with ⟨s', o'⟩
    rw [hm, hs] at hp
    rw [hs] at hi'
    simp only at hp hi'
    obtain ⟨rfl, hsim⟩ := hp
    cases o with
    | err e => exact ⟨rfl, hsim⟩
    | id n => exact ih hsim hi' _
    | ok => exact ih hsim hi' _
    | ids l => exact ih hsim hi' _
    | delivered a b => exact ih hsim hi' _

/-- the regenerated order of `configure`'s statements is the documented one -/
theorem expand_eq (h : Option (List AddArgs)) (l : List (Str × NoArg × Bool)) (a : List (Option Str × Bool)) :
    expand h l a = expandS h l a := by
  cases h <;> simp [expand, expandS, Gen.configureOrder, stageOps, List.flatMap_cons, List.append_assoc]

theorem step_sim (orc : Oracle) {c : Core} {s : SState} (h : Sim c s) (hi : IdInv s) (op : Op) :
    (step orc c op).2 = (sStep orc s op).2 ∧ Sim (step orc c op).1 (sStep orc s op).1 := by
  cases op with
  | configure a b d =>
    show (runBatch (prim orc) c (expand a b d) []).2 = (runBatch (sPrim orc) s (expandS a b d) []).2 ∧
      Sim (runBatch (prim orc) c (expand a b d) []).1 (runBatch (sPrim orc) s (expandS a b d) []).1
    rw [expand_eq]
    exact batch_sim orc _ h hi []
  | add a => exact prim_sim orc h hi _
  | addBad => exact prim_sim orc h hi _
  | remove id => exact prim_sim orc h hi _
  | removeAll => exact prim_sim orc h hi _
  | removeBad => exact prim_sim orc h hi _
  | level name no other => exact prim_sim orc h hi _
  | levelBad => exact prim_sim orc h hi _
  | activate name st => exact prim_sim orc h hi _
  | activateBad st => exact prim_sim orc h hi _
  | log lv M lazy => exact prim_sim orc h hi _
  | logDuring lv M lazy early p st => exact prim_sim orc h hi _

theorem run_sim (orc : Oracle) (ops : List Op) : ∀ {c : Core} {s : SState}, Sim c s → IdInv s →
    run orc c ops = runSpec orc s ops := by
  induction ops with
  | nil => intros; rfl
  | cons op rest ih =>
    intro c s h hi
    have hs := step_sim orc h hi op
    simp only [run, runSpec]
    rw [hs.1, ih hs.2 (idInv_sStep orc hi op)]

theorem final_sim (orc : Oracle) (ops : List Op) : ∀ {c : Core} {s : SState}, Sim c s → IdInv s →
    Sim (final orc c ops) (finalS orc s ops) := by
  induction ops with
  | nil => intro c s h _; exact h
  | cons op rest ih => intro c s h hi; exact ih (step_sim orc h hi op).2 (idInv_sStep orc hi op)

/-! ### `configure` = a prefix of its call sequence -/

/-- a plain API call (everything except `configure` itself) -/
def Op.isCall : Op → Bool
  | .configure _ _ _ => false
  | _ => true

theorem step_eq_prim (orc : Oracle) (c : Core) {op : Op} (h : op.isCall = true) : step orc c op = prim orc c op := by
  cases op <;> first | rfl | (simp [Op.isCall] at h)

theorem expandS_isCall (h : Option (List AddArgs)) (l : List (Str × NoArg × Bool)) (a : List (Option Str × Bool)) :
    ∀ op ∈ expandS h l a, op.isCall = true := by
  intro op hop
  simp only [expandS, List.mem_append, List.mem_map] at hop
  rcases hop with ((hop | ⟨x, _, rfl⟩) | ⟨x, _, rfl⟩) | hop
  · cases h with
    | none => simp at hop
    | some hs => simp at hop; subst hop; rfl
  · rfl
  · rfl
  · cases h with
    | none => simp at hop
    | some hs => simp only [List.mem_map] at hop; obtain ⟨x, _, rfl⟩ := hop; rfl

theorem runBatch_final (orc : Oracle) : ∀ (ops : List Op) (c : Core) (acc : List Nat),
    (∀ op ∈ ops, op.isCall = true) →
    ∃ k, k ≤ ops.length ∧ (runBatch (prim orc) c ops acc).1 = final orc c (ops.take k) ∧
      ((∀ e, (runBatch (prim orc) c ops acc).2 ≠ .err e) → k = ops.length) := by
  intro ops
  induction ops with
  | nil => intro c acc _; exact ⟨0, Nat.le_refl _, rfl, fun _ => rfl⟩
  | cons op rest ih =>
    intro c acc hall
    have hop : step orc c op = prim orc c op := step_eq_prim orc c (hall op List.mem_cons_self)
    have hrest : ∀ o ∈ rest, o.isCall = true := fun o ho => hall o (List.mem_cons_of_mem _ ho)
    unfold runBatch
    rcases hm : prim orc c op with ⟨c', o⟩
    have hfin : ∀ k, final orc c ((op :: rest).take (k + 1)) = final orc c' (rest.take k) := by
      intro k; simp only [List.take_succ_cons, final, hop, hm]
    cases o with
    | err e =>
      refine ⟨1, by simp, ?_, fun hne => absurd rfl (hne e)⟩
      rw [hfin 0]; rfl
    | id n =>
      obtain ⟨k, hk, h1, h2⟩ := ih c' (acc ++ [n]) hrest
      exact ⟨k + 1, by simp; omega, by rw [hfin k]; exact h1, fun hne => by simp only [List.length_cons]; rw [h2 hne]⟩
    | ok =>
      obtain ⟨k, hk, h1, h2⟩ := ih c' acc hrest
      exact ⟨k + 1, by simp; omega, by rw [hfin k]; exact h1, fun hne => by simp only [List.length_cons]; rw [h2 hne]⟩
    | ids l =>
      obtain ⟨k, hk, h1, h2⟩ := ih c' acc hrest
      exact ⟨k + 1, by simp; omega, by rw [hfin k]; exact h1, fun hne => by simp only [List.length_cons]; rw [h2 hne]⟩
    | delivered x y =>
      obtain ⟨k, hk, h1, h2⟩ := ih c' acc hrest
      exact ⟨k + 1, by simp; omega, by rw [hfin k]; exact h1, fun hne => by simp only [List.length_cons]; rw [h2 hne]⟩

/-! ### `filter_by_level`: the `rfind` loop visits the parents of the module from the closest up -/

theorem trunc_no_dot {n : Str} (h : n.contains '.' = false) : truncAtLastDot n = [] := by
  cases n with
  | nil => rfl
  | cons c cs =>
    simp only [List.contains_cons, Bool.or_eq_false_iff] at h
    simp only [truncAtLastDot, h.2, Bool.false_eq_true, if_false]

theorem trunc_dot_prefix {n : Str} (h : n.contains '.' = true) : (truncAtLastDot n ++ ['.']) <+: n := by
  induction n with
  | nil => simp at h
  | cons c cs ih =>
    by_cases hc : cs.contains '.' = true
    · simp only [truncAtLastDot, hc, if_true, List.cons_append]
      exact (List.cons_prefix_cons).mpr ⟨rfl, ih hc⟩
    · have hc' : cs.contains '.' = false := by simpa using hc
      simp only [List.contains_cons, hc', Bool.or_false, beq_iff_eq] at h
      subst h
      simp only [truncAtLastDot, hc', Bool.false_eq_true, if_false, List.nil_append]
      exact (List.cons_prefix_cons).mpr ⟨rfl, List.nil_prefix⟩

theorem trunc_length_lt' : ∀ n : Str, n = [] ∨ (truncAtLastDot n).length < n.length := by
  intro n
  induction n with
  | nil => exact Or.inl rfl
  | cons c cs ih =>
    right
    show (if cs.contains '.' then c :: truncAtLastDot cs else []).length < (c :: cs).length
    split
    · rename_i hc
      rcases ih with rfl | ih
      · simp at hc
      · simp only [List.length_cons]; omega
    · simp

theorem trunc_length_lt (c : Char) (cs : Str) : (truncAtLastDot (c :: cs)).length < (c :: cs).length := by
  rcases trunc_length_lt' (c :: cs) with h | h
  · cases h
  · exact h

theorem dot_prefix_le_trunc {k n : Str} (h : (k ++ ['.']) <+: n) : k.length ≤ (truncAtLastDot n).length := by
  induction n generalizing k with
  | nil =>
    have := List.prefix_nil.mp h
    simp at this
  | cons c cs ih =>
    cases k with
    | nil => simp
    | cons c' k' =>
      simp only [List.cons_append] at h
      obtain ⟨rfl, h'⟩ := (List.cons_prefix_cons).mp h
      have hdot : cs.contains '.' = true := by
        obtain ⟨t, rfl⟩ := h'
        simp
      simp only [truncAtLastDot, hdot, if_true, List.length_cons]
      have := ih h'
      omega

theorem pkgParent_prefix {p M : Str} (h : pkgParent p M = true) : p <+: M := by
  rcases (pkgParent_iff p M).mp h with rfl | rfl | ⟨t, rfl⟩
  · exact List.nil_prefix
  · exact List.prefix_refl _
  · exact List.prefix_append _ _

theorem pkgParent_refl (M : Str) : pkgParent M M = true := (pkgParent_iff M M).mpr (Or.inr (Or.inl rfl))

theorem pkgParent_trunc (c : Char) (cs M : Str) (h : pkgParent (c :: cs) M = true) :
    pkgParent (truncAtLastDot (c :: cs)) M = true := by
  by_cases hd : (c :: cs).contains '.' = true
  · have h1 := trunc_dot_prefix hd
    rw [pkgParent_iff_dotted] at h ⊢
    simp only [dotted, List.cons_ne_nil, if_false] at h
    unfold dotted
    split
    · exact List.nil_prefix
    · exact (h1.trans (List.prefix_append _ _)).trans h
  · have hd' : (c :: cs).contains '.' = false := by simpa using hd
    rw [trunc_no_dot hd']
    rfl

theorem levelAdmits_eq (no lv : Int) : Gen.levelAdmits no lv = decide (lv ≤ no) := by
  unfold Gen.levelAdmits
  apply decide_eq_decide.mpr; omega

theorem byLevelLoop_closest (tbl : List (Option Str × Option Int)) (no : Int) (M : Str) :
    ∀ (f : Nat) (n : Str), n.length < f → pkgParent n M = true →
      (∀ k', pkgParent k' M = true → n.length < k'.length → tbl.lookup (some k') = none) →
      (∀ k v, ClosestEntry tbl M k v → byLevelLoop tbl no f (some n) = entryDecides v no) ∧
      ((∀ k, pkgParent k M = true → tbl.lookup (some k) = none) → byLevelLoop tbl no f (some n) = true) := by
  intro f
  induction f with
  | zero => intro n hn; omega
  | succ f ih =>
    intro n hn hpar habove
    unfold byLevelLoop
    cases hl : tbl.lookup (some n) with
    | some v0 =>
      constructor
      · intro k v ⟨hk, hkp, hmax⟩
        have h1 : n.length ≤ k.length := hmax n hpar (by rw [hl]; rfl)
        have h2 : k.length ≤ n.length := by
          apply Classical.byContradiction; intro hc
          have := habove k hkp (by omega)
          rw [this] at hk; cases hk
        have hkn : k = n := by
          have p1 := pkgParent_prefix hkp
          have p2 := pkgParent_prefix hpar
          have := List.prefix_of_prefix_length_le p1 p2 h2
          exact this.eq_of_length (by omega)
        subst hkn
        rw [hl] at hk
        simp only [Option.some.injEq] at hk
        subst hk
        cases v0 with
        | none => rfl
        | some lv => simp only [entryDecides, levelAdmits_eq]
      · intro hnone
        have := hnone n hpar
        rw [this] at hl; cases hl
    | none =>
      cases n with
      | nil =>
        simp only
        refine ⟨?_, fun _ => trivial⟩
        intro k v ⟨hk, hkp, hmax⟩
        exfalso
        cases k with
        | nil => rw [hl] at hk; cases hk
        | cons a as =>
          have := habove (a :: as) hkp (by simp)
          rw [this] at hk; cases hk
      | cons c cs =>
        simp only
        apply ih
        · have := trunc_length_lt c cs; omega
        · exact pkgParent_trunc c cs M hpar
        · intro k' hk' hlen
          by_cases h1 : (c :: cs).length < k'.length
          · exact habove k' hk' h1
          · by_cases h2 : k'.length = (c :: cs).length
            · have p1 := pkgParent_prefix hk'
              have p2 := pkgParent_prefix hpar
              have := (List.prefix_of_prefix_length_le p1 p2 (by omega)).eq_of_length h2
              rw [this]; exact hl
            · exfalso
              rcases (pkgParent_iff k' M).mp hk' with rfl | rfl | ⟨t, rfl⟩
              · simp at hlen
              · have p2 := pkgParent_prefix hpar
                have := p2.length_le
                omega
              · have p2 := pkgParent_prefix hpar
                have hpre : (k' ++ ['.']) <+: (c :: cs) := by
                  apply List.prefix_of_prefix_length_le (l₃ := k' ++ '.' :: t) _ p2
                  · simp only [List.length_append, List.length_cons, List.length_nil] at h1 h2 ⊢; omega
                  · exact ⟨t, by simp⟩
                have := dot_prefix_le_trunc hpre
                omega

end Dispatch

namespace Dispatch
open Py

/-! ### the declarative reading of a registered filter (`acceptsD`) -/

theorem lookup_cons_some_ne {k k0 : Str} {v0 : Option Int} {rest : List (Option Str × Option Int)} (h : k ≠ k0) :
    List.lookup (some k) ((some k0, v0) :: rest) = List.lookup (some k) rest := by
  rw [List.lookup_cons]
  have : (some k == some k0) = false := by simp [h]
  rw [this]

theorem lookup_cons_some_self {k0 : Str} {v0 : Option Int} {rest : List (Option Str × Option Int)} :
    List.lookup (some k0) ((some k0, v0) :: rest) = some v0 := by
  rw [List.lookup_cons]; simp

theorem lookup_cons_none_key {k : Str} {v0 : Option Int} {rest : List (Option Str × Option Int)} :
    List.lookup (some k) ((none, v0) :: rest) = List.lookup (some k) rest := by
  rw [List.lookup_cons]
  have : (some k == (none : Option Str)) = false := by simp
  rw [this]

theorem closest_spec : ∀ (tbl : List (Option Str × Option Int)) (M : Str),
    (∀ k v, closest tbl M = some (k, v) → ClosestEntry tbl M k v) ∧
    (closest tbl M = none → ∀ k, pkgParent k M = true → tbl.lookup (some k) = none) := by
  intro tbl M
  induction tbl with
  | nil => exact ⟨fun k v h => by simp [closest] at h, fun _ k _ => rfl⟩
  | cons e rest ih =>
    rcases e with ⟨key, v0⟩
    cases key with
    | none =>
      simp only [closest]
      refine ⟨fun k v h => ?_, fun h k hk => ?_⟩
      · obtain ⟨h1, h2, h3⟩ := ih.1 k v h
        exact ⟨by rw [lookup_cons_none_key]; exact h1, h2, fun k' hk' hs => h3 k' hk' (by rw [lookup_cons_none_key] at hs; exact hs)⟩
      · rw [lookup_cons_none_key]; exact ih.2 h k hk
    | some k0 =>
      simp only [closest]
      by_cases hp : pkgParent k0 M = true
      · simp only [hp, if_true]
        cases hc : closest rest M with
        | none =>
          simp only
          refine ⟨fun k v h => ?_, fun h => by cases h⟩
          simp only [Option.some.injEq, Prod.mk.injEq] at h
          obtain ⟨rfl, rfl⟩ := h
          refine ⟨lookup_cons_some_self, hp, fun k' hk' hs => ?_⟩
          by_cases hk : k' = k0
          · subst hk; exact Nat.le_refl _
          · rw [lookup_cons_some_ne hk, ih.2 hc k' hk'] at hs; cases hs
        | some b =>
          rcases b with ⟨kb, vb⟩
          obtain ⟨hb1, hb2, hb3⟩ := ih.1 kb vb hc
          simp only
          by_cases hlt : k0.length < kb.length
          · simp only [hlt, if_true]
            refine ⟨fun k v h => ?_, fun h => by cases h⟩
            simp only [Option.some.injEq, Prod.mk.injEq] at h
            obtain ⟨rfl, rfl⟩ := h
            have hne : kb ≠ k0 := fun hh => by subst hh; omega
            refine ⟨by rw [lookup_cons_some_ne hne]; exact hb1, hb2, fun k' hk' hs => ?_⟩
            by_cases hk : k' = k0
            · subst hk; omega
            · rw [lookup_cons_some_ne hk] at hs; exact hb3 k' hk' hs
          · simp only [hlt, if_false]
            refine ⟨fun k v h => ?_, fun h => by cases h⟩
            simp only [Option.some.injEq, Prod.mk.injEq] at h
            obtain ⟨rfl, rfl⟩ := h
            refine ⟨lookup_cons_some_self, hp, fun k' hk' hs => ?_⟩
            by_cases hk : k' = k0
            · subst hk; exact Nat.le_refl _
            · rw [lookup_cons_some_ne hk] at hs
              have := hb3 k' hk' hs
              omega
      · simp only [hp, Bool.false_eq_true, if_false]
        refine ⟨fun k v h => ?_, fun h k hk => ?_⟩
        · obtain ⟨h1, h2, h3⟩ := ih.1 k v h
          have hne : k ≠ k0 := fun hh => by subst hh; exact hp h2
          refine ⟨by rw [lookup_cons_some_ne hne]; exact h1, h2, fun k' hk' hs => ?_⟩
          have hk : k' ≠ k0 := fun hh => by subst hh; exact hp hk'
          rw [lookup_cons_some_ne hk] at hs
          exact h3 k' hk' hs
        · have hne : k ≠ k0 := fun hh => by subst hh; exact hp hk
          rw [lookup_cons_some_ne hne]; exact ih.2 h k hk

/-- for the filters `add` registers, the code's evaluation (slice kernel; `rfind` loop with its fuel) IS the
declarative reading -/
theorem accepts_eq_acceptsD (orc : Oracle) (f : Filter) (hf : WFFilter f) (no : Int) (M : Option Str) :
    accepts orc f no M = acceptsD orc f no M := by
  cases f with
  | none => rfl
  | notNone => rfl
  | callable k => rfl
  | byName parent length =>
    obtain ⟨p, hp, rfl, rfl⟩ := hf
    cases M with
    | none => rfl
    | some n =>
      simp only [accepts, acceptsD, filterByName_eq, List.dropLast_concat]
      rw [Bool.eq_iff_iff, pkgParent_iff_dotted, List.isPrefixOf_iff_prefix]
      simp only [dotted, hp, if_false]
  | byLevel tbl =>
    cases M with
    | none =>
      simp only [accepts, acceptsD, filterByLevel, byLevelLoop]
      cases tbl.lookup none with
      | none => rfl
      | some v => cases v with
        | none => rfl
        | some lv => simp only [entryDecides, levelAdmits_eq]
    | some n =>
      have h := byLevelLoop_closest tbl no n (n.length + 1) n (Nat.lt_succ_self _) (pkgParent_refl n)
        (fun k' hk' hlen => absurd (pkgParent_prefix hk').length_le (by omega))
      have hc := closest_spec tbl n
      simp only [accepts, acceptsD, filterByLevel]
      cases hcl : closest tbl n with
      | none => simp only; exact h.2 (hc.2 hcl)
      | some b => rcases b with ⟨k, v⟩; simp only; exact h.1 k v (hc.1 k v hcl)

theorem mkFilter_wf {levels : List (Str × Int)} {a : FilterArg} {f : Filter} (h : mkFilter levels a = .ok f) :
    WFFilter f := by
  cases a with
  | none => simp only [mkFilter, Except.ok.injEq] at h; subst h; trivial
  | str s =>
    simp only [mkFilter] at h
    by_cases hs : s = []
    · simp only [hs, if_true, Except.ok.injEq] at h; subst h; trivial
    · simp only [hs, if_false, Except.ok.injEq] at h; subst h; exact ⟨s, hs, rfl, rfl⟩
  | dict items =>
    simp only [mkFilter] at h
    cases hd : mkDict levels items with
    | error e => rw [hd] at h; cases h
    | ok t => rw [hd] at h; simp only [Except.map, Except.ok.injEq] at h; subst h; trivial
  | callable k => simp only [mkFilter, Except.ok.injEq] at h; subst h; trivial
  | builtinFilter => cases h
  | bad => cases h

/-- every registered handler holds a filter of the shape `add` builds -/
def FInv (s : SState) : Prop := ∀ h ∈ s.regs, WFFilter h.2.filter

theorem fInv_init : FInv SState.init := fun h hh => by simp [SState.init] at hh

theorem fInv_sPrim (orc : Oracle) {s : SState} (h : FInv s) (op : Op) : FInv (sPrim orc s op).1 := by
  cases op with
  | add a =>
    simp only [sPrim, sAdd]
    cases hf : mkFilter s.levels a.filter with
    | error e => exact h
    | ok f =>
      cases mkThreshold s.levels a.level with
      | error e => exact h
      | ok t =>
        intro x hx
        simp only [List.mem_append, List.mem_singleton] at hx
        rcases hx with hx | rfl
        · exact h x hx
        · exact mkFilter_wf hf
  | addBad => exact h
  | remove id =>
    simp only [sPrim]
    split
    · cases s.regs.find? (fun h => h.1 == id.toNat) with
      | some hd => exact fun x hx => h x (List.mem_filter.mp hx).1
      | none => exact h
    · exact h
  | removeAll => exact fun x hx => h x ((removeAllS_sublist s.regs).subset hx)
  | removeBad => exact h
  | level name no other =>
    simp only [sPrim]
    cases levelDecision s.levels name no other with
    | error e => exact h
    | ok d => cases d <;> exact h
  | levelBad => exact h
  | activate name st => exact h
  | activateBad st => exact h
  | configure a b d => exact h
  | log lv M lazy => exact h
  | logDuring lv M lazy early p st => exact h

theorem fInv_batch (orc : Oracle) (ops : List Op) : ∀ {s : SState} (h : FInv s) (acc : List Nat),
    FInv (runBatch (sPrim orc) s ops acc).1 := by
  induction ops with
  | nil => intro s h acc; exact h
  | cons op rest ih =>
    intro s h acc
    have hp := fInv_sPrim orc h op
    unfold runBatch
    rcases hs : sPrim orc s op with ⟨s', o'⟩
    rw [hs] at hp
    cases o' with
    | err e => exact hp
    | id n => exact ih hp _
    | ok => exact ih hp _
    | ids l => exact ih hp _
    | delivered a b => exact ih hp _

theorem fInv_sStep (orc : Oracle) {s : SState} (h : FInv s) (op : Op) : FInv (sStep orc s op).1 := by
  cases op with
  | configure a b d => exact fInv_batch orc _ h []
  | add a => exact fInv_sPrim orc h _
  | addBad => exact fInv_sPrim orc h _
  | remove id => exact fInv_sPrim orc h _
  | removeAll => exact fInv_sPrim orc h _
  | removeBad => exact fInv_sPrim orc h _
  | level name no other => exact fInv_sPrim orc h _
  | levelBad => exact fInv_sPrim orc h _
  | activate name st => exact fInv_sPrim orc h _
  | activateBad st => exact fInv_sPrim orc h _
  | log lv M lazy => exact fInv_sPrim orc h _
  | logDuring lv M lazy early p st => exact fInv_sPrim orc h _

theorem fInv_final (orc : Oracle) (ops : List Op) : ∀ {s : SState}, FInv s → FInv (finalS orc s ops) := by
  induction ops with
  | nil => intro s h; exact h
  | cons op rest ih => intro s h; exact ih (fInv_sStep orc h op)

theorem deliverS_eq_deliverD (orc : Oracle) {s : SState} (h : FInv s) (no : Int) (M : Option Str) :
    deliverS orc s no M = deliverD orc s no M := by
  unfold deliverS deliverD
  congr 1
  apply List.filter_congr
  intro x hx
  rw [accepts_eq_acceptsD orc x.2.filter (h x hx)]

/-! ### level numbers are immutable -/

theorem levelDecision_keeps {levels : List (Str × Int)} {name : Str} {no : NoArg} {other : Bool} {m v : Int}
    (h : levelDecision levels name no other = .ok (some m)) (hv : levels.lookup name = some v) : m = v := by
  unfold levelDecision at h
  rw [hv] at h
  split at h
  · cases h
  · cases no <;> simp at h
    exact h.symm

theorem lv_sPrim (orc : Oracle) {s : SState} {n : Str} {v : Int} (h : s.levels.lookup n = some v) (op : Op) :
    (sPrim orc s op).1.levels.lookup n = some v := by
  cases op with
  | add a =>
    simp only [sPrim, sAdd]
    cases mkFilter s.levels a.filter with
    | error e => exact h
    | ok f => cases mkThreshold s.levels a.level <;> exact h
  | addBad => exact h
  | remove id =>
    simp only [sPrim]
    split
    · cases s.regs.find? (fun h => h.1 == id.toNat) <;> exact h
    · exact h
  | removeAll => exact h
  | removeBad => exact h
  | level name no other =>
    simp only [sPrim]
    cases hd : levelDecision s.levels name no other with
    | error e => exact h
    | ok d =>
      cases d with
      | none => exact h
      | some m =>
        simp only [List.lookup_cons]
        by_cases hn : n = name
        · subst hn
          simp only [beq_self_eq_true]
          rw [levelDecision_keeps hd h]
        · have : (n == name) = false := by simp [hn]
          rw [this]; exact h
  | levelBad => exact h
  | activate name st => exact h
  | activateBad st => exact h
  | configure a b d => exact h
  | log lv M lazy => exact h
  | logDuring lv M lazy early p st => exact h

theorem lv_batch (orc : Oracle) {n : Str} {v : Int} (ops : List Op) : ∀ {s : SState} (h : s.levels.lookup n = some v)
    (acc : List Nat), (runBatch (sPrim orc) s ops acc).1.levels.lookup n = some v := by
  induction ops with
  | nil => intro s h acc; exact h
  | cons op rest ih =>
    intro s h acc
    have hp := lv_sPrim orc h op
    unfold runBatch
    rcases hs : sPrim orc s op with ⟨s', o'⟩
    rw [hs] at hp
    cases o' with
    | err e => exact hp
    | id k => exact ih hp _
    | ok => exact ih hp _
    | ids l => exact ih hp _
    | delivered a b => exact ih hp _

theorem lv_sStep (orc : Oracle) {s : SState} {n : Str} {v : Int} (h : s.levels.lookup n = some v) (op : Op) :
    (sStep orc s op).1.levels.lookup n = some v := by
  cases op with
  | configure a b d => exact lv_batch orc _ h []
  | add a => exact lv_sPrim orc h _
  | addBad => exact lv_sPrim orc h _
  | remove id => exact lv_sPrim orc h _
  | removeAll => exact lv_sPrim orc h _
  | removeBad => exact lv_sPrim orc h _
  | level name no other => exact lv_sPrim orc h _
  | levelBad => exact lv_sPrim orc h _
  | activate name st => exact lv_sPrim orc h _
  | activateBad st => exact lv_sPrim orc h _
  | log lv M lazy => exact lv_sPrim orc h _
  | logDuring lv M lazy early p st => exact lv_sPrim orc h _

theorem lv_final (orc : Oracle) {n : Str} {v : Int} (ops : List Op) : ∀ {s : SState}, s.levels.lookup n = some v →
    (finalS orc s ops).levels.lookup n = some v := by
  induction ops with
  | nil => intro s h; exact h
  | cons op rest ih => intro s h; exact ih (lv_sStep orc h op)

theorem finalS_append (orc : Oracle) (ops ops' : List Op) : ∀ s : SState,
    finalS orc s (ops ++ ops') = finalS orc (finalS orc s ops) ops' := by
  induction ops with
  | nil => intro s; rfl
  | cons op rest ih => intro s; exact ih _

theorem final_append (orc : Oracle) (ops ops' : List Op) : ∀ c : Core,
    final orc c (ops ++ ops') = final orc (final orc c ops) ops' := by
  induction ops with
  | nil => intro c; rfl
  | cons op rest ih => intro c; exact ih _

/-- the sequential order an overlapped call is equivalent to -/
def linearized (lv : LevelArg) (M : Option Str) (lazy early : Bool) (p : Option Str) (st : Bool) : List Op :=
  if early then [.activate p st, .log lv M lazy] else [.log lv M lazy, .activate p st]

theorem finalS_linearized (orc : Oracle) (s : SState) (lv : LevelArg) (M : Option Str) (lazy early : Bool)
    (p : Option Str) (st : Bool) :
    finalS orc s [.logDuring lv M lazy early p st] = finalS orc s (linearized lv M lazy early p st) := by
  cases early <;> rfl

end Dispatch
