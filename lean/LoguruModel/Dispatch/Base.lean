import LoguruModel.Py.Basic
/-!
Types of the dispatch model (DESIGN §4 C01): arguments as the API receives them (including the
malformed ones), the constructed filter, operations and observable outputs.
-/
namespace Dispatch
open Py

/-- a level argument of `add(level=…)` / `log(level, …)` -/
inductive LevelArg where
  | name (s : Str) | int (i : Int) | bad
  deriving DecidableEq, Repr

/-- key / value of a `filter={...}` dict as passed by the user -/
inductive DKey where
  | none | str (s : Str) | bad
  deriving DecidableEq, Repr
inductive DVal where
  | false | true | name (s : Str) | int (i : Int) | bad
  deriving DecidableEq, Repr

/-- the `filter=` argument of `add` -/
inductive FilterArg where
  | none | str (s : Str) | dict (items : List (DKey × DVal)) | callable (k : Nat)
  | builtinFilter | bad
  deriving Repr

/-- the filter a handler holds after `add` (`_filters.py`); `byLevel` values: `none` = `False` -/
inductive Filter where
  | none
  | notNone
  | byName (parent : Str) (length : Int)
  | byLevel (tbl : List (Option Str × Option Int))
  | callable (k : Nat)
  deriving Repr

structure Handler where
  threshold : Int
  filter : Filter
  /-- the sink's `stop()` raises (a fault the user's sink object may inject into `remove`) -/
  stopFails : Bool := false
  deriving Repr

/-- `no=` argument of `level()` -/
inductive NoArg where
  | none | int (i : Int) | bad
  deriving DecidableEq, Repr

structure AddArgs where
  level : LevelArg
  filter : FilterArg
  /-- the sink passed to `add` has a `stop()` method that raises `OSError` -/
  stopFails : Bool := false
  /-- `colorize=True` with a string format: the handler keeps one pre-colourised format per level name -/
  colorize : Bool := false
  deriving Repr

inductive Op where
  | add (a : AddArgs)
  /-- `add` with an object that is no sink, or with an unknown keyword argument: `TypeError` before any other
  argument is looked at (the id is already taken) -/
  | addBad
  | remove (id : Int)
  | removeAll
  | removeBad
  | level (name : Str) (no : NoArg) (other : Bool)
  | levelBad
  | activate (name : Option Str) (status : Bool)
  | activateBad (status : Bool)
  | configure (handlers : Option (List AddArgs)) (levels : List (Str × NoArg × Bool))
      (activation : List (Option Str × Bool))
  | log (level : LevelArg) (module : Option Str) (lazy : Bool)
  /-- a log call OVERLAPPED by one complete `enable(name)` / `disable(name)` of another thread, run at a fixed
  point of the lock-free reader `_log`: `early = true` – before the reader looks at `core.enabled` (when it
  reads `core.min_level`); `early = false` – right after the reader has fetched the rules
  (`core.activation_list` / `core.activation_none`) on a cache miss.  When the reader never reaches that
  point (empty registry, invalid level, short-circuit, cache hit) the change runs after the call returned. -/
  | logDuring (level : LevelArg) (module : Option Str) (lazy : Bool) (early : Bool)
      (name : Option Str) (status : Bool)
  deriving Repr

inductive Out where
  | ok
  | id (n : Nat)
  | ids (l : List Nat)
  | err (e : Err)
  | delivered (to : List Nat) (lazyEvals : Nat)
  deriving DecidableEq, Repr

/-- user callables: filter number `k`, severity, module name ↦ truth value of what it returns -/
abbrev Oracle := Nat → Int → Option Str → Bool

end Dispatch
