import LoguruModel.Dispatch.Base
import LoguruModel.Dispatch.Activation
import LoguruModel.Generated.Dispatch
/-!
The dispatch state machine of `loguru/_logger.py` (class `Core`, `Logger.add/remove/level/enable/
disable/configure/_log`), `Handler.emit`'s gate and `_filters.py` – as the code IS, caches included.
Comparison / min / slice kernels come from `Generated/Dispatch.lean` (tie G).
-/
namespace Dispatch
open Py

/-- key of `core.levels_lookup`: a level name, or an int `_log` cached -/
inductive LKey where
  | name (s : Str) | int (i : Int)
  deriving DecidableEq, Repr

/-- the anchored pieces of `Core` -/
structure Core where
  handlers : List (Nat × Handler)          -- dict in insertion order
  handlersCount : Nat
  minLevel : Option Int                    -- `none` = `float("inf")`
  enabled : List (Option Str × Bool)       -- per-module cache (dict: first match wins, keys unique)
  activationList : List (Rule Char)        -- dotted names
  activationNone : Bool
  levels : List (Str × Int)                -- most recent binding first
  levelsLookup : List (LKey × Int)
  /-- `Handler._precolorized_formats` of the colourising handlers: handler id ↦ level names it knows -/
  precolorized : List (Nat × List Str) := []
  deriving Repr

def Core.init : Core :=
  { handlers := [], handlersCount := 0, minLevel := none, enabled := [], activationList := [],
    activationNone := true, levels := Gen.defaultLevels,
    levelsLookup := Gen.defaultLevels.map (fun l => (LKey.name l.1, l.2)) }

/-! ### argument validation shared by `add` (and by the spec: what a well-formed call denotes) -/

/-- `self.level(name).no` -/
def getLevel (levels : List (Str × Int)) (name : Str) : Except Err Int :=
  match levels.lookup name with
  | some no => .ok no
  | none => .error .valueError

def mkDictVal (levels : List (Str × Int)) : DVal → Except Err (Option Int)
  | .false => .ok none
  | .true => .ok (some 0)
  | .name s => (getLevel levels s).map some
  | .int i => .ok (some i)
  | .bad => .error .typeError

/-- the `isinstance(filter, dict)` branch of `add`, item by item, first error wins -/
def mkDict (levels : List (Str × Int)) : List (DKey × DVal) → Except Err (List (Option Str × Option Int))
  | [] => .ok []
  | (k, v) :: rest =>
    match (match k with | .bad => Except.error Err.typeError | .none => .ok none | .str s => .ok (some s)) with
    | .error e => .error e
    | .ok key =>
      match mkDictVal levels v with
      | .error e => .error e
      | .ok lv =>
        if (match lv with | some n => Gen.addRejectsDictLevel n | none => false) then .error .valueError
        else match mkDict levels rest with
          | .error e => .error e
          -- `level_per_module[module] = levelno_`: keys of a dict are unique
          | .ok tl => .ok ((key, lv) :: tl)

def mkFilter (levels : List (Str × Int)) : FilterArg → Except Err Filter
  | .none => .ok .none
  | .str s => if s = [] then .ok .notNone
              else .ok (.byName (s ++ ['.']) (Int.ofNat (s ++ ['.']).length))
  | .dict items => (mkDict levels items).map .byLevel
  | .callable k => .ok (.callable k)
  | .builtinFilter => .error .valueError
  | .bad => .error .typeError

def mkThreshold (levels : List (Str × Int)) (l : LevelArg) : Except Err Int :=
  match (match l with
         | .name s => getLevel levels s
         | .int i => Except.ok i
         | .bad => .error .typeError) with
  | .error e => .error e
  | .ok no => if Gen.addRejectsThreshold no then .error .valueError else .ok no

/-! ### `add`'s dispatch on the run-time class of its arguments, as the code does it: the `if/elif` chains are
REGENERATED in source order (`Gen.filterChain`, `Gen.dictValueChain`, `Gen.thresholdChain`) and interpreted here.
Python's classes overlap – `""` is a `str`, `True`/`False` are `int`s, `builtins.filter` is callable – so the
order of the tests is part of the meaning.  `mkFilter` / `mkDictVal` / `mkThreshold` above are the documented
reading by disjoint kinds (what the spec uses); `Lemmas.mkFilterC_eq` … prove the chains denote it. -/

/-- does the run-time test hold of the argument? -/
def holdsF : Gen.FTest → FilterArg → Bool
  | .isNone, .none => true
  | .eqEmptyStr, .str s => s == []
  | .isStr, .str _ => true
  | .isDict, .dict _ => true
  | .isCallable, .callable _ => true
  | .isCallable, .builtinFilter => true
  | _, _ => false

/-- `isinstance(True, int)` holds: bools are ints -/
def holdsV : Gen.VTest → DVal → Bool
  | .isFalse, .false => true
  | .isTrue, .true => true
  | .isStr, .name _ => true
  | .isInt, .int _ => true
  | .isInt, .true => true
  | .isInt, .false => true
  | _, _ => false

def actV (levels : List (Str × Int)) : Gen.VAct → DVal → Except Err (Option Int)
  | .reject, _ => .ok none
  | .const n, _ => .ok (some n)
  | .levelByName, .name s => (getLevel levels s).map some
  | .intValue, .int i => .ok (some i)
  -- `levelno_ = level_` keeps the OBJECT: `True` then compares as the int 1 (`no >= True`), while `False` is still
  -- `False` for `filter_by_level`'s identity test `level is False` (and `False < 0` does not raise)
  | .intValue, .true => .ok (some 1)
  | .intValue, .false => .ok none
  | .typeError, _ => .error .typeError
  | _, _ => .error .other

def firstAct {τ α : Type} (chain : List (τ × α)) (els : α) (holds : τ → Bool) : α :=
  match chain.find? (fun b => holds b.1) with
  | some b => b.2
  | none => els

def mkDictValC (levels : List (Str × Int)) (v : DVal) : Except Err (Option Int) :=
  actV levels (firstAct Gen.dictValueChain Gen.dictValueElse (fun t => holdsV t v)) v

/-- the dict branch with the regenerated value chain -/
def mkDictC (levels : List (Str × Int)) : List (DKey × DVal) → Except Err (List (Option Str × Option Int))
  | [] => .ok []
  | (k, v) :: rest =>
    match (match k with | .bad => Except.error Err.typeError | .none => .ok none | .str s => .ok (some s)) with
    | .error e => .error e
    | .ok key =>
      match mkDictValC levels v with
      | .error e => .error e
      | .ok lv =>
        if (match lv with | some n => Gen.addRejectsDictLevel n | none => false) then .error .valueError
        else match mkDictC levels rest with
          | .error e => .error e
          | .ok tl => .ok ((key, lv) :: tl)

def actF (levels : List (Str × Int)) : Gen.FAct → FilterArg → Except Err Filter
  | .noFilter, _ => .ok .none
  | .filterNone, _ => .ok .notNone
  | .byName, .str s => .ok (.byName (s ++ ['.']) (Int.ofNat (s ++ ['.']).length))
  | .byLevel, .dict items => (mkDictC levels items).map .byLevel
  | .callable, .callable k => .ok (.callable k)
  | .callable, .builtinFilter => .error .valueError      -- `if filter == builtins.filter: raise ValueError`
  | .typeError, _ => .error .typeError
  | _, _ => .error .other

def mkFilterC (levels : List (Str × Int)) (a : FilterArg) : Except Err Filter :=
  actF levels (firstAct Gen.filterChain Gen.filterElse (fun t => holdsF t a)) a

def holdsL : Gen.LTest → LevelArg → Bool
  | .isStr, .name _ => true
  | .isInt, .int _ => true
  | _, _ => false

def actL (levels : List (Str × Int)) : Gen.LAct → LevelArg → Except Err Int
  | .levelByName, .name s => getLevel levels s
  | .intValue, .int i => .ok i
  | .typeError, _ => .error .typeError
  | _, _ => .error .other

def mkThresholdC (levels : List (Str × Int)) (l : LevelArg) : Except Err Int :=
  match actL levels (firstAct Gen.thresholdChain Gen.thresholdElse (fun t => holdsL t l)) l with
  | .error e => .error e
  | .ok no => if Gen.addRejectsThreshold no then .error .valueError else .ok no

/-- `Logger.level`: `.ok none` = plain read, `.ok (some n)` = (re)bind `name ↦ n` -/
def levelDecision (levels : List (Str × Int)) (name : Str) (no : NoArg) (other : Bool) :
    Except Err (Option Int) :=
  if no = .none ∧ other = false then
    match levels.lookup name with
    | some _ => .ok none
    | none => .error .valueError
  else
    match levels.lookup name, no with
    | none, .none => .error .valueError
    | none, .bad => .error .typeError
    | none, .int n => if Gen.levelRejectsNo n then .error .valueError else .ok (some n)
    | some _, .int _ => .error .valueError
    | some _, .bad => .error .valueError
    | some old, .none => .ok (some old)

/-- kind of the `no=` argument as `level` sees it: 0 `None`, 1 an int ≥ 0, 2 an int < 0, 3 not an int -/
def noKind : NoArg → Nat
  | .none => 0
  | .int i => if Gen.levelRejectsNo i then 2 else 1
  | .bad => 3

/-- `Logger.level` as the code decides it: the outcome is LOOKED UP in `Gen.levelTable`, which the extractor
obtains by running the body of `level` over the finite domain (kind of `no`) × (colour given) × (icon given) ×
(level exists).  `other` = a colour or an icon is given. -/
def levelDecisionC (levels : List (Str × Int)) (name : Str) (no : NoArg) (other : Bool) : Except Err (Option Int) :=
  match Gen.levelTable.lookup (noKind no, other, false, (levels.lookup name).isSome) with
  | some .read => .ok none
  | some .create => (match no with | .int n => .ok (some n) | _ => .error .other)
  | some .update => (match levels.lookup name with | some old => .ok (some old) | none => .error .other)
  | some .typeError => .error .typeError
  | some .valueError => .error .valueError
  | none => .error .other

/-! ### filters (`_filters.py`) and `Handler.emit`'s gate -/

/-- `name[:name.rfind(".")]` when a dot exists, else `""` -/
def truncAtLastDot : Str → Str
  | [] => []
  | c :: cs => if cs.contains '.' then c :: truncAtLastDot cs else []

/-- the `while True` loop of `filter_by_level` -/
def byLevelLoop (tbl : List (Option Str × Option Int)) (no : Int) : Nat → Option Str → Bool
  | 0, _ => true
  | f + 1, name =>
    match tbl.lookup name with
    | some none => false                      -- `level is False`
    | some (some lv) => Gen.levelAdmits no lv
    | none =>
      match name with
      | none => true                          -- `not name`
      | some [] => true
      | some (c :: cs) => byLevelLoop tbl no f (some (truncAtLastDot (c :: cs)))

def filterByLevel (tbl : List (Option Str × Option Int)) (no : Int) (name : Option Str) : Bool :=
  byLevelLoop tbl no ((match name with | some n => n.length | none => 0) + 1) name

def accepts (orc : Oracle) (f : Filter) (no : Int) (M : Option Str) : Bool :=
  match f with
  | .none => true
  | .notNone => M.isSome
  | .byName parent length => (match M with | none => false | some n => Gen.filterByName n parent length)
  | .byLevel tbl => filterByLevel tbl no M
  | .callable k => orc k no M

/-- `Handler.emit` up to the point where the message is certain to be written -/
def gate (orc : Oracle) (h : Handler) (no : Int) (M : Option Str) : Bool :=
  !(Gen.handlerRejects h.threshold no) && accepts orc h.filter no M

/-! ### operations -/

def minAdd : Option Int → Int → Option Int
  | none, t => some t
  | some m, t => some (Gen.addMin m t)

/-- `min(levelnos, default=float("inf"))` -/
def minOf : List Int → Option Int
  | [] => none
  | x :: xs => match minOf xs with
    | none => some x
    | some m => some (min x m)

def add (c : Core) (a : AddArgs) : Core × Out :=
  let id := c.handlersCount
  let c := { c with handlersCount := c.handlersCount + 1 }
  match mkFilterC c.levels a.filter with
  | .error e => (c, .err e)
  | .ok f =>
    match mkThresholdC c.levels a.level with
    | .error e => (c, .err e)
    | .ok t =>
      -- `Handler.__init__`: `for level_name in self._levels_ansi_codes: self.update_format(level_name)`
      let pc := if a.colorize then (id, c.levels.map (·.1)) :: c.precolorized else c.precolorized
      ({ c with handlers := c.handlers ++ [(id, ⟨t, f, a.stopFails⟩)], minLevel := minAdd c.minLevel t,
                precolorized := pc }, .id id)

def removeOne (c : Core) (id : Nat) : Core :=
  let hs := c.handlers.filter (fun h => h.1 != id)
  -- (the removed handler's `_precolorized_formats` go away with the object; ids are never reused, so the
  -- model simply leaves the entry behind)
  { c with handlers := hs, minLevel := minOf (hs.map (·.2.threshold)) }

/-- `handler.stop()` – the only statement of the `remove` loop body that runs user code -/
def stopOut (h : Handler) : Out := if h.stopFails then .err .osError else .ok

/-- `remove(id)`: pop, recompute `min_level`, publish – and only THEN `handler.stop()`, whose exception
propagates to the caller ("This needs to be done first in case stop() raises an exception") -/
def remove (c : Core) (id : Int) : Core × Out :=
  if 0 ≤ id then
    match c.handlers.find? (fun h => h.1 == id.toNat) with
    | some h => (removeOne c id.toNat, stopOut h.2)
    | none => (c, .err .valueError)
  else (c, .err .valueError)

/-- the loop of `remove()` over the snapshot `list(self._core.handlers)`: every iteration pops one
handler, recomputes `min_level`, publishes, stops the handler; a raising `stop()` leaves the loop with
the handlers after it still registered -/
def removeLoop (c : Core) : List (Nat × Handler) → Core × Out
  | [] => (c, .ok)
  | h :: rest =>
    let c' := removeOne c h.1
    if h.2.stopFails then (c', .err .osError) else removeLoop c' rest

def removeAll (c : Core) : Core × Out := removeLoop c c.handlers

/-- NOT the code: the refuted shape "recompute `min_level` after `handler.stop()`" (once after the loop,
or after each stop) – when `stop()` raises the recomputation is skipped.  Only used by the witness
theorem `C01.late_min_level_update_refuted`. -/
def removeLate (c : Core) (id : Int) : Core × Out :=
  if 0 ≤ id then
    match c.handlers.find? (fun h => h.1 == id.toNat) with
    | some h =>
      let hs := c.handlers.filter (fun x => x.1 != id.toNat)
      if h.2.stopFails then ({ c with handlers := hs }, .err .osError)
      else ({ c with handlers := hs, minLevel := minOf (hs.map (·.2.threshold)) }, .ok)
    | none => (c, .err .valueError)
  else (c, .err .valueError)

def levelOp (c : Core) (name : Str) (no : NoArg) (other : Bool) : Core × Out :=
  match levelDecisionC c.levels name no other with
  | .error e => (c, .err e)
  | .ok none => (c, .ok)
  | .ok (some n) =>
    -- `for handler in core.handlers.values(): handler.update_format(name)` – unconditionally, and BEFORE the
    -- level is published in `levels` / `levels_lookup`
    ({ c with precolorized := c.precolorized.map (fun e => (e.1, name :: e.2)),
              levels := (name, n) :: c.levels,
              levelsLookup := (LKey.name name, n) :: c.levelsLookup }, .ok)

/-- `_change_activation` on the rule list, `name` already dotted -/
def changeAct (al : List (Rule Char)) (name : Str) (s : Bool) : List (Rule Char) :=
  let al1 := al.filter (fun r => Gen.actKeeps r.1 name)
  let parent := (al1.find? (fun r => Gen.actParent r.1 name)).map (·.2)
  if parent != some s && !(decide (name = []) && s) then (al1 ++ [(name, s)]).mergeSort (leD '.') else al1

def activate (c : Core) : Option Str → Bool → Core
  | none, s =>
    { c with enabled := c.enabled.map (fun e => if e.1 = none then (e.1, s) else e), activationNone := s }
  | some p, s =>
    let name := dotted '.' p
    { c with activationList := changeAct c.activationList name s,
             enabled := c.enabled.map (fun e => match e.1 with
               | some n => if Gen.actCacheHit n name then (e.1, s) else e
               | none => e) }

/-- level lookup of `_log`, with the int caching: (state, `level_id`, `level_no`); the id of a level
given by number is `None` -/
def resolveLevel (c : Core) : LevelArg → Except Err (Core × Option Str × Int)
  | .bad => .error .typeError
  | .name s => match c.levelsLookup.lookup (.name s) with
    | some no => .ok (c, some s, no)
    | none => .error .valueError
  | .int i => match c.levelsLookup.lookup (.int i) with
    | some no => .ok (c, none, no)
    | none => if Gen.logRejectsInt i then .error .valueError
              else .ok ({ c with levelsLookup := (LKey.int i, Gen.intLevelNo i) :: c.levelsLookup }, none, Gen.intLevelNo i)

def belowMin (no : Int) : Option Int → Bool
  | none => true
  | some m => Gen.belowMin no m

/-- the cache-miss branch of `_log` -/
def scan (c : Core) : Option Str → Bool
  | none => c.activationNone
  | some n => match c.activationList.find? (fun r => Gen.scanMatches (n ++ ['.']) r.1) with
    | some r => r.2
    | none => true

/-- `self._precolorized_formats[level_id]` inside `Handler.emit` (colourising handler, string format,
level given by name): a missing entry is a `KeyError` – the message does not reach the sink -/
def precolorOk (c : Core) (id : Nat) : Option Str → Bool
  | none => true
  | some n => match c.precolorized.lookup id with
    | none => true
    | some ks => ks.contains n

def emitAll (orc : Oracle) (c : Core) (lid : Option Str) (no : Int) (M : Option Str) : List Nat :=
  c.handlers.filterMap (fun h => if gate orc h.2 no M && precolorOk c h.1 lid then some h.1 else none)

def lazyCount (lazy : Bool) : Nat := if lazy then 1 else 0

/-- `_log` after the level has been resolved -/
def logTail (orc : Oracle) (c : Core) (lid : Option Str) (no : Int) (M : Option Str) (lazy : Bool) : Core × Out :=
  if belowMin no c.minLevel then (c, .delivered [] 0) else
  match c.enabled.lookup M with
  | some st => if st then (c, .delivered (emitAll orc c lid no M) (lazyCount lazy)) else (c, .delivered [] 0)
  | none =>
    let st := scan c M
    let c := { c with enabled := (M, st) :: c.enabled }
    if st then (c, .delivered (emitAll orc c lid no M) (lazyCount lazy)) else (c, .delivered [] 0)

def log (orc : Oracle) (c : Core) (lv : LevelArg) (M : Option Str) (lazy : Bool) : Core × Out :=
  if c.handlers.isEmpty then (c, .delivered [] 0) else
  match resolveLevel c lv with
  | .error e => (c, .err e)
  | .ok r => logTail orc r.1 r.2.1 r.2.2 M lazy

/-- `_log` overlapped, on a cache miss, by a complete `_change_activation` that runs right after the reader
fetched the rules.  The reader computed `st` from the OLD rules; the writer published a COPY of the cache dict
(copy-on-write).  `fetched = true` (the code: `enabled = core.enabled` is bound BEFORE the rules are read): the
fill `enabled[name] = st` lands in the old, unpublished dict and is lost – harmless.  `fetched = false` (the
refuted shape `core.enabled[name] = st`, i.e. the dict is re-read AFTER the rules): the status computed from the
old rules is stored in the NEW dict and stays there. -/
def logDuringG (fetched : Bool) (orc : Oracle) (c : Core) (lv : LevelArg) (M : Option Str) (lazy : Bool)
    (p : Option Str) (s : Bool) : Core × Out :=
  if c.handlers.isEmpty then (activate c p s, .delivered [] 0) else
  match resolveLevel c lv with
  | .error e => (activate c p s, .err e)
  | .ok r =>
    let c1 := r.1
    if belowMin r.2.2 c1.minLevel then (activate c1 p s, .delivered [] 0) else
    match c1.enabled.lookup M with
    | some st =>   -- cache hit: the rules are never read, the change runs after the call
      (activate c1 p s, if st then .delivered (emitAll orc c1 r.2.1 r.2.2 M) (lazyCount lazy) else .delivered [] 0)
    | none =>
      let st := scan c1 M                       -- the OLD rules
      let c2 := activate c1 p s                 -- the complete change: new rules, new cache dict
      let c3 := if fetched then c2 else { c2 with enabled := (M, st) :: c2.enabled }
      (c3, if st then .delivered (emitAll orc c3 r.2.1 r.2.2 M) (lazyCount lazy) else .delivered [] 0)

/-- the overlapped log call of `Op.logDuring`; which dict receives the fill is read from the source
(`Gen.cacheFillIntoFetchedDict`) -/
def logDuring (orc : Oracle) (c : Core) (lv : LevelArg) (M : Option Str) (lazy : Bool) (early : Bool)
    (p : Option Str) (s : Bool) : Core × Out :=
  if early then log orc (activate c p s) lv M lazy
  else logDuringG Gen.cacheFillIntoFetchedDict orc c lv M lazy p s

/-- every operation except `configure` -/
def prim (orc : Oracle) (c : Core) : Op → Core × Out
  | .add a => add c a
  | .addBad => ({ c with handlersCount := c.handlersCount + 1 }, .err .typeError)
  | .remove id => remove c id
  | .removeAll => removeAll c
  | .removeBad => (c, .err .typeError)
  | .level name no other => levelOp c name no other
  | .levelBad => (c, .err .typeError)
  | .activate name s => (activate c name s, .ok)
  | .activateBad _ => (c, .err .typeError)
  | .configure _ _ _ => (c, .err .other)
  | .log lv M lazy => log orc c lv M lazy
  | .logDuring lv M lazy early p s => logDuring orc c lv M lazy early p s

/-- what one stage of `configure` calls, in list order -/
def stageOps (handlers : Option (List AddArgs)) (levels : List (Str × NoArg × Bool))
    (activation : List (Option Str × Bool)) : Gen.CfgStage → List Op
  | .removeAll => (match handlers with | some _ => [Op.removeAll] | none => [])
  | .levels => levels.map (fun l => Op.level l.1 l.2.1 l.2.2)
  | .patcher => []          -- `core.patcher = patcher`: no dispatch state (C12)
  | .extra => []            -- `core.extra.update(extra)`: no dispatch state (C12)
  | .activation => activation.map (fun a => Op.activate a.1 a.2)
  | .adds => (match handlers with | some hs => hs.map Op.add | none => [])

/-- `configure`: its stages in the order of the SOURCE (`Gen.configureOrder`, regenerated) -/
def expand (handlers : Option (List AddArgs)) (levels : List (Str × NoArg × Bool))
    (activation : List (Option Str × Bool)) : List Op :=
  Gen.configureOrder.flatMap (stageOps handlers levels activation)

/-- run until the first exception; collect the ids `add` returned -/
def runBatch (stepf : σ → Op → σ × Out) : σ → List Op → List Nat → σ × Out
  | c, [], acc => (c, .ids acc)
  | c, op :: rest, acc =>
    match stepf c op with
    | (c', .err e) => (c', .err e)
    | (c', .id n) => runBatch stepf c' rest (acc ++ [n])
    | (c', _) => runBatch stepf c' rest acc

def step (orc : Oracle) (c : Core) : Op → Core × Out
  | .configure h l a => runBatch (prim orc) c (expand h l a) []
  | op => prim orc c op

def run (orc : Oracle) : Core → List Op → List Out
  | _, [] => []
  | c, op :: rest => let r := step orc c op; r.2 :: run orc r.1 rest

/-- NOT the code: the refuted shape "refresh the handlers' pre-colourised formats only when the colour
changed" – a level created without a colour is never announced to the handlers registered before it.
Only used by the witness theorem `C01.stale_precolorized_formats_refuted`. -/
def levelOpStale (c : Core) (name : Str) (no : NoArg) (colourChanged : Bool) : Core × Out :=
  match levelDecision c.levels name no colourChanged with
  | .error e => (c, .err e)
  | .ok none => (c, .ok)
  | .ok (some n) =>
    ({ c with precolorized := if colourChanged then c.precolorized.map (fun e => (e.1, name :: e.2)) else c.precolorized,
              levels := (name, n) :: c.levels,
              levelsLookup := (LKey.name name, n) :: c.levelsLookup }, .ok)

/-- the state after a history -/
def final (orc : Oracle) : Core → List Op → Core
  | c, [] => c
  | c, op :: rest => final orc (step orc c op).1 rest

end Dispatch
