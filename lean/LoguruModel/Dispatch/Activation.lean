/-!
Activation rules over an ARBITRARY alphabet `α` with a distinguished `dot` (DESIGN §4 C01, I2).

`change` is `Logger._change_activation` for a `str` name on the rule list only: prune the rules the
new dotted name is a prefix of, look for the first remaining rule that is a prefix of the new name
(`parent_status`), append unless redundant (or `name == "" and status`), stable sort by dot count,
deepest first.  `lookup` is the first-match scan `_log` performs on a cache miss.
Nothing here knows about characters: names that are string prefixes of one another, empty components,
leading/trailing dots are all just lists.
-/
namespace Dispatch

variable {α : Type} [DecidableEq α]

abbrev Rule (α : Type) := List α × Bool

/-- `if name != "": name += "."` -/
def dotted (dot : α) (n : List α) : List α := if n = [] then [] else n ++ [dot]
/-- `x[0].count(".")` -/
def depth (dot : α) (n : List α) : Nat := n.count dot

def matchesR (dm : List α) (r : Rule α) : Bool := r.1.isPrefixOf dm

/-- the scan of `_log`: first rule that is a prefix of the dotted module name decides; none → enabled -/
def lookup (al : List (Rule α)) (dm : List α) : Bool :=
  match al.find? (matchesR dm) with
  | some r => r.2
  | none => true

/-- `sort(key=modules_depth, reverse=True)`: stable, deepest first -/
def leD (dot : α) (a b : Rule α) : Bool := decide (depth dot b.1 ≤ depth dot a.1)

def change (dot : α) (al : List (Rule α)) (p : List α) (s : Bool) : List (Rule α) :=
  let d := dotted dot p
  let al1 := al.filter (fun r => !(d.isPrefixOf r.1))
  let parent := (al1.find? (matchesR d)).map (·.2)
  if parent != some s && !(decide (d = []) && s) then (al1 ++ [(d, s)]).mergeSort (leD dot) else al1

/-- history of `enable/disable` calls on `str` names, most recent first -/
def runAct (dot : α) : List (List α × Bool) → List (Rule α)
  | [] => []
  | c :: rest => change dot (runAct dot rest) c.1 c.2

/-- spec: the most recent call whose dotted name is a prefix of the dotted module name decides -/
def specEnabled (dot : α) : List (List α × Bool) → List α → Bool
  | [], _ => true
  | c :: rest, dm => if dotted dot c.1 <+: dm then c.2 else specEnabled dot rest dm

end Dispatch
