import LoguruModel.Dispatch.Model
/-!
The history spec `S` of C01: no caches, no rule list, no `min_level` – only the registered handlers in
registration order, the level table and the list of `enable/disable` calls, most recent first.
Argument validation (`mkFilter`, `mkThreshold`, `levelDecision`) and the meaning of a filter
(`accepts`, characterised on its own by `filter_by_name_iff_package` / `filter_by_level_closest_parent`)
are shared with the model.
-/
namespace Dispatch
open Py

structure SState where
  levels : List (Str × Int)
  nextId : Nat
  regs : List (Nat × Handler)
  acts : List (Option Str × Bool)
  deriving Repr

def SState.init : SState := { levels := Gen.defaultLevels, nextId := 0, regs := [], acts := [] }

/-- `p` names `M` or one of its parent packages; the empty name is the parent of everything -/
def pkgParent (p M : Str) : Bool := p == [] || M == p || (p ++ ['.']).isPrefixOf M

def relevant : Option Str → Option Str → Bool
  | none, none => true
  | some p, some M => pkgParent p M
  | _, _ => false

/-- status of the most recent relevant call; default enabled -/
def enabledS : List (Option Str × Bool) → Option Str → Bool
  | [], _ => true
  | c :: rest, M => if relevant c.1 M then c.2 else enabledS rest M

/-- closest-parent rule, declaratively: `k ↦ v` decides for `M` when `k` names `M` or one of its parent
packages, has an entry, and no longer such name has one -/
def ClosestEntry (tbl : List (Option Str × Option Int)) (M k : Str) (v : Option Int) : Prop :=
  tbl.lookup (some k) = some v ∧ pkgParent k M = true ∧
  ∀ k', pkgParent k' M = true → (tbl.lookup (some k')).isSome = true → k'.length ≤ k.length

/-- what a table entry decides: `False` rejects, a number is a minimum severity -/
def entryDecides (v : Option Int) (no : Int) : Bool :=
  match v with
  | none => false
  | some lv => decide (lv ≤ no)

/-! ### the meaning of a registered filter, declaratively (no slice kernel, no `rfind` loop, no fuel) -/

/-- the entry of the LONGEST key of the table that names `M` or one of its parent packages (for one key, its first
entry – a `dict` holds one) -/
def closest : List (Option Str × Option Int) → Str → Option (Str × Option Int)
  | [], _ => none
  | (some k, v) :: rest, M =>
    if pkgParent k M then
      match closest rest M with
      | some b => if k.length < b.1.length then some b else some (k, v)
      | none => some (k, v)
    else closest rest M
  | (none, _) :: rest, M => closest rest M

/-- what the property says a filter accepts: `None` – everything; `""` – every module that has a name; a name `p`
– the module `p` and the modules inside package `p`; a dict – the closest-parent rule (`False` rejects, a level is
a minimum severity, no entry accepts; a module without name consults the `None` key only); a callable – what it
returns -/
def acceptsD (orc : Oracle) (f : Filter) (no : Int) (M : Option Str) : Bool :=
  match f with
  | .none => true
  | .notNone => M.isSome
  | .byName parent _ =>
    (match M with
     | none => false
     | some n => pkgParent parent.dropLast n)
  | .byLevel tbl =>
    (match M with
     | none => (match tbl.lookup none with | some v => entryDecides v no | none => true)
     | some n => (match closest tbl n with | some b => entryDecides b.2 no | none => true))
  | .callable k => orc k no M

/-- the shape of a filter `add` registers for a well-formed `filter=` argument -/
def WFFilter : Filter → Prop
  | .byName parent length => ∃ p, p ≠ [] ∧ parent = p ++ ['.'] ∧ length = Int.ofNat (p ++ ['.']).length
  | _ => True

/-- the declarative delivery list: registered handlers, in registration order, whose threshold is at or below
the severity and whose filter – read declaratively – accepts -/
def deliverD (orc : Oracle) (s : SState) (no : Int) (M : Option Str) : List Nat :=
  (s.regs.filter (fun h => decide (h.2.threshold ≤ no) && acceptsD orc h.2.filter no M)).map (·.1)

def levelNoS (levels : List (Str × Int)) : LevelArg → Except Err Int
  | .bad => .error .typeError
  | .name s => getLevel levels s
  | .int i => if i < 0 then .error .valueError else .ok i

def admitted (s : SState) (no : Int) : Bool := s.regs.any (fun h => decide (h.2.threshold ≤ no))

def deliverS (orc : Oracle) (s : SState) (no : Int) (M : Option Str) : List Nat :=
  (s.regs.filter (fun h => decide (h.2.threshold ≤ no) && accepts orc h.2.filter no M)).map (·.1)

def sLogTail (orc : Oracle) (s : SState) (no : Int) (M : Option Str) (lazy : Bool) : Out :=
  if enabledS s.acts M && admitted s no then .delivered (deliverS orc s no M) (lazyCount lazy)
  else .delivered [] 0

def sLog (orc : Oracle) (s : SState) (lv : LevelArg) (M : Option Str) (lazy : Bool) : Out :=
  if s.regs.isEmpty then .delivered [] 0 else
  match levelNoS s.levels lv with
  | .error e => .err e
  | .ok no => sLogTail orc s no M lazy

/-- `remove()`: handlers go in registration order, up to and including the first whose `stop()` raises -/
def removeAllS : List (Nat × Handler) → List (Nat × Handler) × Out
  | [] => ([], .ok)
  | h :: rest => if h.2.stopFails then (rest, .err .osError) else removeAllS rest

def sAdd (s : SState) (a : AddArgs) : SState × Out :=
  let id := s.nextId
  let s := { s with nextId := s.nextId + 1 }
  match mkFilter s.levels a.filter with
  | .error e => (s, .err e)
  | .ok f =>
    match mkThreshold s.levels a.level with
    | .error e => (s, .err e)
    | .ok t => ({ s with regs := s.regs ++ [(id, ⟨t, f, a.stopFails⟩)] }, .id id)   -- `colorize` is irrelevant to dispatch

def sPrim (orc : Oracle) (s : SState) : Op → SState × Out
  | .add a => sAdd s a
  | .addBad => ({ s with nextId := s.nextId + 1 }, .err .typeError)      -- every call takes an id
  | .remove id =>
    -- a registered handler is unregistered whether or not its sink's stop() raises
    if 0 ≤ id then
      match s.regs.find? (fun h => h.1 == id.toNat) with
      | some h => ({ s with regs := s.regs.filter (fun h => h.1 != id.toNat) }, stopOut h.2)
      | none => (s, .err .valueError)
    else (s, .err .valueError)
  | .removeAll => ({ s with regs := (removeAllS s.regs).1 }, (removeAllS s.regs).2)
  | .removeBad => (s, .err .typeError)
  | .level name no other =>
    match levelDecision s.levels name no other with
    | .error e => (s, .err e)
    | .ok none => (s, .ok)
    | .ok (some n) => ({ s with levels := (name, n) :: s.levels }, .ok)
  | .levelBad => (s, .err .typeError)
  | .activate name st => ({ s with acts := (name, st) :: s.acts }, .ok)
  | .activateBad _ => (s, .err .typeError)
  | .configure _ _ _ => (s, .err .other)
  | .log lv M lazy => (s, sLog orc s lv M lazy)
  -- an overlapped call may legally follow either state; at the two fixed points of `Op.logDuring` it is: the
  -- NEW activation state when the change came before the reader looked at the cache, the OLD one otherwise –
  -- and every LATER call follows the new state
  | .logDuring lv M lazy early p st =>
    ({ s with acts := (p, st) :: s.acts },
     if early then sLog orc { s with acts := (p, st) :: s.acts } lv M lazy else sLog orc s lv M lazy)

/-- `configure` as documented: when handlers are given every registered handler is removed FIRST; then the levels
are declared, then the enable/disable calls are made in list order, and the handlers are added LAST (so a
handler may name a level declared by the same call); the call stops at the first error -/
def expandS (handlers : Option (List AddArgs)) (levels : List (Str × NoArg × Bool))
    (activation : List (Option Str × Bool)) : List Op :=
  (match handlers with | some _ => [Op.removeAll] | none => [])
    ++ levels.map (fun l => Op.level l.1 l.2.1 l.2.2)
    ++ activation.map (fun a => Op.activate a.1 a.2)
    ++ (match handlers with | some hs => hs.map Op.add | none => [])

def sStep (orc : Oracle) (s : SState) : Op → SState × Out
  | .configure h l a => runBatch (sPrim orc) s (expandS h l a) []
  | op => sPrim orc s op

def runSpec (orc : Oracle) : SState → List Op → List Out
  | _, [] => []
  | s, op :: rest => let r := sStep orc s op; r.2 :: runSpec orc r.1 rest

def finalS (orc : Oracle) : SState → List Op → SState
  | s, [] => s
  | s, op :: rest => finalS orc (sStep orc s op).1 rest

end Dispatch
