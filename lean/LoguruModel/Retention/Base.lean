import LoguruModel.Py.Basic
/-
What a directory entry IS for retention: the file type `os.stat` reports after following symbolic
links (`missing`: a dangling link).  The `os.path` predicates the retention filter may use are
functions of it.  Imported by the generated file, which turns the filter expression of
`_terminate_file` into `Retention.Gen.retentionFilter : Kind → Bool`.
-/
namespace Retention

inductive Kind where
  | regular | directory | fifo | socket | charDevice | blockDevice | missing
  deriving DecidableEq, Repr

/-- `os.path.isfile` -/
def Kind.isfile (k : Kind) : Bool := k == .regular
/-- `os.path.isdir` -/
def Kind.isdir (k : Kind) : Bool := k == .directory
/-- `os.path.exists` -/
def Kind.pathExists (k : Kind) : Bool := k != .missing

def Kind.all : List Kind := [.regular, .directory, .fifo, .socket, .charDevice, .blockDevice, .missing]

end Retention
