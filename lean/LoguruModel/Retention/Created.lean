import LoguruModel.Retention.Spec
/-
Retention – the names of the sink's OWN files:

* `FileSink._create_path`: `self._path.format_map({"time": FileDateFormatter()})` – every replacement
  field of the configured path replaced by the text its format renders (`FTok.fill`), literals kept
  (`{{`/`}}` already un-doubled by the parser).  `os.path.abspath` only re-spells the same file and is
  not modelled (names are taken as glob returns them, relative to the same working directory).
* the rename of a rotated file whose name did not change (`_terminate_file` → `generate_rename_path`):
  `root, ext = os.path.splitext(old_path)`, new name `Gen.renamedPath root date ext`, or
  `Gen.renamedPathN root date counter ext` while that name is taken (both GENERATED from the two
  `str.format` calls).
What a field renders to is a parameter (the `{time}` formats are C11's); the theorems ask of it only
that it is non-empty and free of `/` (and of `.` where the code splits the rendered name again).
`specDirectives` / `specLiterals` read the generated default format `Gen.defaultTimeSpec`.
-/
namespace Retention
open Py Py.Glob Retention.Spec

/-- a template element with the text its field was rendered to -/
inductive FTok where
  | lit (c : Char)
  | fill (s : Str)
  deriving DecidableEq, Repr

/-- forget the rendered text: the template -/
def FTok.erase : FTok → PTok
  | .lit c => .lit c
  | .fill _ => .field

def FTok.plain : FTok → Str
  | .lit c => [c]
  | .fill s => s

/-- `path.format_map(...)`: the created name -/
def instantiate (v : List FTok) : Str := v.flatMap FTok.plain

def isSepF : FTok → Bool
  | .lit c => c == '/'
  | .fill _ => false

def isDotF : FTok → Bool
  | .lit c => c == '.'
  | .fill _ => false

/-- a rendered field the theorems accept: non-empty, no `/` -/
def goodFill (s : Str) : Bool := !s.isEmpty && !s.any isSepC
/-- … and no `.` either (needed where the code applies `splitext` to the rendered name) -/
def goodFillD (s : Str) : Bool := !s.isEmpty && !s.any (fun c => isSepC c || isDotC c)

def fillsOk (good : Str → Bool) (v : List FTok) : Prop := ∀ s, FTok.fill s ∈ v → good s = true

/-- totalised rendering used inside proofs: a fill that is not `good` is replaced by `"0"`; equal to
`FTok.plain` on every list the theorems speak about -/
def FTok.guarded (good : Str → Bool) : FTok → Str
  | .lit c => [c]
  | .fill s => if good s then s else ['0']

/-- the name the closed file is moved to when the new file would have the same name -/
def renameTarget (old date : Str) (counter : Option Str) : Str :=
  let re := splitext old
  match counter with
  | none => Gen.renamedPath re.1 date re.2
  | some k => Gen.renamedPathN re.1 date k re.2

/-! ### strftime format of the default `{time}` -/

/-- the directive letters of a strftime format (`%%` is a literal percent sign) -/
def specDirectives : Str → List Char
  | [] => []
  | '%' :: '%' :: r => specDirectives r
  | '%' :: d :: r => d :: specDirectives r
  | _ :: r => specDirectives r

/-- the literal characters of a strftime format -/
def specLiterals : Str → List Char
  | [] => []
  | '%' :: '%' :: r => '%' :: specLiterals r
  | '%' :: _ :: r => specLiterals r
  | c :: r => c :: specLiterals r

end Retention
