import LoguruModel.Retention.Lemmas
import LoguruModel.Retention.Created
/-
Helper lemmas for the round-5 theorems of Props/C10 about the sink's own file names
(`_create_path`, `generate_rename_path`): instantiating a template commutes with the segment
operations (the generic `Compat` machinery of `Lemmas.lean`, a third instance), and a rendered
template matches itself.
-/
namespace Retention.Lemmas
open Py Py.Glob Retention Retention.Spec

section Suffixes
variable {α : Type}
theorem self_mem_suffixes (y : List α) : y ∈ suffixes y := by
  cases y <;> simp [suffixes]

theorem mem_suffixes_append (x y : List α) : y ∈ suffixes (x ++ y) := by
  induction x with
  | nil => exact self_mem_suffixes y
  | cons a x ih => simp [suffixes, ih]

theorem flatMap_singleton_map {β : Type} (f : α → β) (l : List α) : l.flatMap (fun x => [f x]) = l.map f := by
  induction l with
  | nil => rfl
  | cons a r ih => simp [List.flatMap_cons, ih]

theorem all2_map_map {β γ : Type} (f : β → γ → Bool) (g : α → β) (h : α → γ)
    (hf : ∀ a, f (g a) (h a) = true) : ∀ l : List α, all2 f (l.map g) (l.map h) = true := by
  intro l
  induction l with
  | nil => rfl
  | cons a r ih => simp [all2, hf a, ih]

/-! ### root ++ ext = path -/
theorem splitLastDotG_append (p : α → Bool) :
    ∀ (l b t : List α), splitLastDotG p l = some (b, t) → b ++ t = l := by
  intro l
  induction l with
  | nil => intro b t h; simp [splitLastDotG] at h
  | cons a r ih =>
    intro b t h
    simp only [splitLastDotG] at h
    cases hr : splitLastDotG p r with
    | some q =>
      obtain ⟨q1, q2⟩ := q
      rw [hr] at h
      simp at h
      obtain ⟨h1, h2⟩ := h
      subst h1; subst h2
      simp [ih q1 q2 hr]
    | none =>
      rw [hr] at h
      by_cases hp : p a = true
      · simp [hp] at h
        obtain ⟨h1, h2⟩ := h
        subst h1; subst h2; rfl
      · simp [hp] at h

theorem splitLastSepG_append (p : α → Bool) (l : List α) :
    (splitLastSepG p l).1 ++ (splitLastSepG p l).2 = l := by
  unfold splitLastSepG
  cases h : splitLastDotG p l with
  | none => simp
  | some q =>
    obtain ⟨b, t⟩ := q
    have := splitLastDotG_append p l b t h
    cases t with
    | nil => simpa using this
    | cons x a => simp [← this]

theorem splitextFileG_append (p : α → Bool) (f : List α) :
    (splitextFileG p f).1 ++ (splitextFileG p f).2 = f := by
  unfold splitextFileG
  cases h : splitLastDotG p f with
  | none => simp
  | some q =>
    obtain ⟨b, t⟩ := q
    have := splitLastDotG_append p f b t h
    simp only
    split <;> simp [this]

theorem splitextG_append (s d : α → Bool) (l : List α) :
    (splitextG s d l).1 ++ (splitextG s d l).2 = l := by
  unfold splitextG
  simp only [List.append_assoc, splitextFileG_append, splitLastSepG_append]
end Suffixes

/-! ### a rendered template matches itself -/

theorem sMatch_guarded (good : Str → Bool) :
    ∀ c : List FTok, sMatch (c.map FTok.erase) (c.flatMap (FTok.guarded good)) = true := by
  intro c
  induction c with
  | nil => rfl
  | cons a r ih =>
    cases a with
    | lit ch => simp [FTok.erase, FTok.guarded, sMatch, ih]
    | fill s =>
      simp only [List.map_cons, FTok.erase, List.flatMap_cons, sMatch, List.any_eq_true]
      exact ⟨_, mem_suffixes_append _ _, ih⟩

theorem guarded_compat_sep (good : Str → Bool)
    (hg : ∀ s, good s = true → s ≠ [] ∧ ∀ c ∈ s, isSepC c = false) :
    Compat isSepF isSepC (FTok.guarded good) where
  marked := by
    intro a ha
    cases a with
    | lit c => exact ⟨c, rfl, by simpa [isSepF, isSepC] using ha⟩
    | fill s => simp [isSepF] at ha
  unmarked := by
    intro a ha
    cases a with
    | lit c =>
      refine ⟨?_, by simp [FTok.guarded]⟩
      intro b hb
      simp [FTok.guarded] at hb
      subst hb
      simpa [isSepF, isSepC] using ha
    | fill s =>
      unfold FTok.guarded
      by_cases h : good s = true
      · simp only [h, if_true]
        exact ⟨(hg s h).2, (hg s h).1⟩
      · simp only [h]
        exact ⟨by intro b hb; simp at hb; subst hb; decide, by simp⟩

theorem guarded_compat_dot (good : Str → Bool)
    (hg : ∀ s, good s = true → s ≠ [] ∧ ∀ c ∈ s, isDotC c = false) :
    Compat isDotF isDotC (FTok.guarded good) where
  marked := by
    intro a ha
    cases a with
    | lit c => exact ⟨c, rfl, by simpa [isDotF, isDotC] using ha⟩
    | fill s => simp [isDotF] at ha
  unmarked := by
    intro a ha
    cases a with
    | lit c =>
      refine ⟨?_, by simp [FTok.guarded]⟩
      intro b hb
      simp [FTok.guarded] at hb
      subst hb
      simpa [isDotF, isDotC] using ha
    | fill s =>
      unfold FTok.guarded
      by_cases h : good s = true
      · simp only [h, if_true]
        exact ⟨(hg s h).2, (hg s h).1⟩
      · simp only [h]
        exact ⟨by intro b hb; simp at hb; subst hb; decide, by simp⟩

theorem erase_compat_sep : Compat isSepF isSepT (fun x => [FTok.erase x]) where
  marked := by
    intro a ha
    cases a with
    | lit c => exact ⟨.lit c, rfl, by simpa [isSepF, isSepT] using ha⟩
    | fill s => simp [isSepF] at ha
  unmarked := by
    intro a ha
    cases a with
    | lit c => exact ⟨by intro b hb; simp at hb; subst hb; simpa [FTok.erase, isSepF, isSepT] using ha, by simp⟩
    | fill s => exact ⟨by intro b hb; simp at hb; subst hb; rfl, by simp⟩

theorem erase_compat_dot : Compat isDotF isDotT (fun x => [FTok.erase x]) where
  marked := by
    intro a ha
    cases a with
    | lit c => exact ⟨.lit c, rfl, by simpa [isDotF, isDotT] using ha⟩
    | fill s => simp [isDotF] at ha
  unmarked := by
    intro a ha
    cases a with
    | lit c => exact ⟨by intro b hb; simp at hb; subst hb; simpa [FTok.erase, isDotF, isDotT] using ha, by simp⟩
    | fill s => exact ⟨by intro b hb; simp at hb; subst hb; rfl, by simp⟩

theorem goodFill_spec (s : Str) (h : goodFill s = true) : s ≠ [] ∧ ∀ c ∈ s, isSepC c = false := by
  unfold goodFill at h
  simp only [Bool.and_eq_true, Bool.not_eq_true', List.any_eq_false] at h
  refine ⟨by intro hs; subst hs; simp at h, fun c hc => by simpa using h.2 c hc⟩

theorem goodFillD_spec (s : Str) (h : goodFillD s = true) :
    s ≠ [] ∧ (∀ c ∈ s, isSepC c = false) ∧ (∀ c ∈ s, isDotC c = false) := by
  unfold goodFillD at h
  simp only [Bool.and_eq_true, Bool.not_eq_true', List.any_eq_false, Bool.or_eq_true, not_or] at h
  refine ⟨by intro hs; subst hs; simp at h, fun c hc => ?_, fun c hc => ?_⟩
  · simpa using (h.2 c hc).1
  · simpa using (h.2 c hc).2

theorem goodFillD_goodFill (s : Str) (h : goodFillD s = true) : goodFill s = true := by
  obtain ⟨h1, h2, _⟩ := goodFillD_spec s h
  unfold goodFill
  simp only [Bool.and_eq_true, Bool.not_eq_true', List.any_eq_false]
  refine ⟨by cases s <;> simp_all, fun c hc => by simpa using h2 c hc⟩

/-- on a list whose fills are all good the guarded rendering IS the rendering -/
theorem guarded_eq_plain (good : Str → Bool) (v : List FTok) (h : fillsOk good v) :
    v.flatMap (FTok.guarded good) = instantiate v := by
  unfold instantiate
  induction v with
  | nil => rfl
  | cons a r ih =>
    have ih' := ih (fun s hs => h s (by simp [hs]))
    cases a with
    | lit c => simp [FTok.guarded, FTok.plain, ih']
    | fill s => simp [FTok.guarded, FTok.plain, ih', h s (by simp)]

theorem isAbs_guarded (good : Str → Bool)
    (hg : ∀ s, good s = true → s ≠ [] ∧ ∀ c ∈ s, isSepC c = false) (w : List FTok) :
    isAbs (w.flatMap (FTok.guarded good)) = isAbsT (w.map FTok.erase) := by
  cases w with
  | nil => rfl
  | cons a r =>
    cases a with
    | lit c =>
      by_cases hc : c = '/'
      · subst hc; rfl
      · simp only [List.flatMap_cons, FTok.guarded, List.map_cons, FTok.erase, List.cons_append, List.nil_append]
        unfold isAbs isAbsT
        split
        · rename_i heq; simp at heq; exact absurd heq.1 hc
        · split
          · rename_i heq; simp at heq; exact absurd heq.1 hc
          · rfl
    | fill s =>
      have hne := (guarded_compat_sep good hg).unmarked (.fill s) rfl
      simp only [List.flatMap_cons, List.map_cons, FTok.erase]
      cases hh : FTok.guarded good (.fill s) with
      | nil => exact absurd hh hne.2
      | cons b bs =>
        have hb : isSepC b = false := hne.1 b (by simp [hh])
        have hb' : b ≠ '/' := by intro h; subst h; simp [isSepC] at hb
        unfold isAbs isAbsT
        simp only [List.cons_append]
        split
        · rename_i heq; simp at heq; exact absurd heq.1 hb'
        · rfl

/-- a rendered template (any fills that are non-empty and free of `/`) is denoted by the template -/
theorem tokensMatch_guarded (good : Str → Bool)
    (hg : ∀ s, good s = true → s ≠ [] ∧ ∀ c ∈ s, isSepC c = false) (w : List FTok) :
    tokensMatch (w.map FTok.erase) (w.flatMap (FTok.guarded good)) = true := by
  unfold tokensMatch
  rw [Bool.and_eq_true]
  refine ⟨by rw [isAbs_guarded good hg]; simp, ?_⟩
  unfold comps
  rw [compsG_flatMap (guarded_compat_sep good hg) w, ← flatMap_singleton_map FTok.erase w,
    compsG_flatMap erase_compat_sep w]
  have : (compsG isSepF w).map (fun s => s.flatMap fun x => [FTok.erase x]) =
      (compsG isSepF w).map (fun s => s.map FTok.erase) := by
    apply List.map_congr_left
    intro s _
    exact flatMap_singleton_map _ _
  rw [this]
  exact all2_map_map sMatch _ _ (fun c => sMatch_guarded good c) _

end Retention.Lemmas
