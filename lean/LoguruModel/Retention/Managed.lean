import LoguruModel.Retention.Spec
/-
C10 – the specification side, second half: the family members `glob` can see at all.

`glob` never lets a wildcard match a leading dot of a path component, so a family member with a
component starting with `.` where the template component does not start with a literal `.` is
invisible to retention (it is neither counted nor removed nor handed to a callable).  `managed` is
the family predicate with exactly that rule added – still without glob patterns, brackets or
escaping – and `selected_iff_managed` (Props) shows it is EXACTLY what the generated patterns select.
-/
namespace Retention.Spec
open Py Py.Glob Retention

/-- does the template component start with a literal dot? -/
def startsDotT : List PTok → Bool
  | .lit c :: _ => c == '.'
  | _ => false

/-- one template component against one name component under the hidden-file rule -/
def sMatchH (tc : List PTok) (nc : Str) : Bool := sMatch tc nc && (!isHidden nc || startsDotT tc)

def tokensMatchH (v : List PTok) (name : Str) : Bool :=
  (isAbsT v == isAbs name) && all2 sMatchH (compsG isSepT v) (comps name)

def managedToks (toks : List PTok) (name : Str) : Bool :=
  (variants toks).any (fun v => tokensMatchH v name)

/-- executable form (`none`: the path is not a valid template) -/
def managedB (path name : Str) : Option Bool :=
  match parseTemplate path with
  | .ok toks => some (managedToks toks name)
  | .error _ => none

/-- `name` is a family member of `path` that glob can see -/
def managed (path name : Str) : Prop :=
  ∃ toks, parseTemplate path = .ok toks ∧ managedToks toks name = true

end Retention.Spec
