import LoguruModel.Retention.Lemmas
import LoguruModel.Retention.Collect
/-
Helper lemmas for the round-5 theorems of Props/C10 about the candidate collection
(comprehension → set → policy) and about histories of retention passes.
-/
namespace Retention.Lemmas
open Py Py.Glob Retention

/-! ### the set -/

theorem mem_dedup (b : Entry) : ∀ l : List Entry, b ∈ dedup l ↔ b ∈ l := by
  intro l
  induction l with
  | nil => simp [dedup]
  | cons a r ih =>
    simp only [dedup, List.mem_cons, List.mem_filter, ih]
    by_cases h : b = a
    · simp [h]
    · simp [h]

theorem nodup_dedup : ∀ l : List Entry, (dedup l).Nodup := by
  intro l
  induction l with
  | nil => simp [dedup]
  | cons a r ih =>
    simp only [dedup, List.nodup_cons, List.mem_filter]
    refine ⟨by simp, ?_⟩
    exact List.Pairwise.filter _ ih

theorem mem_comprehension (ps : List Str) (es : List Entry) (e : Entry) :
    e ∈ comprehension ps es ↔
      (e ∈ es ∧ (∃ p ∈ ps, pathMatch p e.name = true) ∧ Gen.retentionFilter e.kind = true) := by
  unfold comprehension globOne
  simp only [List.mem_flatMap, List.mem_filter]
  constructor
  · rintro ⟨p, hp, ⟨he, hm⟩, hf⟩
    exact ⟨he, ⟨p, hp, hm⟩, hf⟩
  · rintro ⟨he, ⟨p, hp, hm⟩, hf⟩
    exact ⟨p, hp, ⟨he, hm⟩, hf⟩

theorem mem_selectLogs (ps : List Str) (es : List Entry) (e : Entry) :
    e ∈ selectLogs ps es ↔
      (e ∈ es ∧ (∃ p ∈ ps, pathMatch p e.name = true) ∧ Gen.retentionFilter e.kind = true) := by
  unfold selectLogs
  simp only [List.mem_filter, Bool.and_eq_true, List.any_eq_true]

/-- whatever the collection passes through, its members are the selected entries -/
theorem mem_collectLogs (ps : List Str) (es : List Entry) (e : Entry) :
    e ∈ collectLogs ps es ↔ e ∈ selectLogs ps es := by
  unfold collectLogs
  split
  · rw [mem_dedup, mem_comprehension, mem_selectLogs]
  · rw [mem_comprehension, mem_selectLogs]

theorem collect_perm_select_of_set (hs : Gen.collectIsSet = true) (ps : List Str) (es : List Entry)
    (hnd : es.Nodup) : (collectLogs ps es).Perm (selectLogs ps es) := by
  have h1 : (collectLogs ps es).Nodup := by
    unfold collectLogs; simp only [hs, if_true]; exact nodup_dedup _
  have h2 : (selectLogs ps es).Nodup := by
    unfold selectLogs; exact List.Pairwise.filter _ hnd
  exact (List.perm_ext_iff_of_nodup h1 h2).mpr (fun a => mem_collectLogs ps es a)

theorem nodup_map_name (l : List Entry) (hnd : l.Nodup) (hu : NamesUnique l) :
    (l.map (·.name)).Nodup := by
  induction l with
  | nil => simp
  | cons a r ih =>
    rw [List.nodup_cons] at hnd
    rw [List.map_cons, List.nodup_cons]
    refine ⟨?_, ih hnd.2 (fun x hx y hy h => hu x (by simp [hx]) y (by simp [hy]) h)⟩
    intro hmem
    obtain ⟨b, hb, hname⟩ := List.mem_map.mp hmem
    have : a = b := hu a (by simp) b (by simp [hb]) hname.symm
    exact hnd.1 (this ▸ hb)

/-! ### a sorted list is determined by its elements -/
section SortUnique
variable {α : Type} (le : α → α → Bool)

theorem isort_eq_of_perm (total : ∀ a b, le a b = true ∨ le b a = true)
    (trans : ∀ a b c, le a b = true → le b c = true → le a c = true)
    (l₁ l₂ : List α) (anti : ∀ a ∈ l₁, ∀ b ∈ l₁, le a b = true → le b a = true → a = b)
    (hp : l₁.Perm l₂) : isort le l₁ = isort le l₂ := by
  have p1 := isort_perm le l₁
  have p2 := isort_perm le l₂
  apply List.Perm.eq_of_pairwise (le := fun a b => le a b = true)
  · intro a b ha hb hab hba
    exact anti a (p1.mem_iff.mp ha) b (hp.mem_iff.mpr (p2.mem_iff.mp hb)) hab hba
  · exact isort_sorted le total trans l₁
  · exact isort_sorted le total trans l₂
  · exact p1.trans (hp.trans p2.symm)
end SortUnique

theorem mem_of_mem_retentionCount (logs : List Entry) (n : Int) :
    ∀ e ∈ retentionCount logs n, e ∈ logs := by
  intro e he
  unfold retentionCount sliceFrom at he
  have : e ∈ isort entryLe logs := by
    split at he <;> exact List.mem_of_mem_drop he
  exact (isort_perm entryLe logs).mem_iff.mp this

theorem mem_of_mem_passRemoves (ps : List Str) (pol : Policy) (now : Int) (es : List Entry) :
    ∀ e ∈ passRemoves ps pol now es, e ∈ collectLogs ps es := by
  intro e he
  unfold passRemoves at he
  cases pol with
  | count n => exact mem_of_mem_retentionCount _ _ e he
  | age s => unfold retentionAge at he; exact (List.mem_filter.mp he).1

/-! ### histories -/

/-- the entries stored under one name -/
def proj (n : Str) (l : List Entry) : List Entry := l.filter (fun e => e.name == n)

theorem proj_filter (n : Str) (q : Entry → Bool) (l : List Entry) :
    proj n (l.filter q) = (proj n l).filter q := by
  unfold proj
  rw [List.filter_filter, List.filter_filter]
  apply List.filter_congr
  intro x _
  exact Bool.and_comm _ _

/-- a pass leaves every name alone that no pattern selects -/
theorem proj_pass (ps : List Str) (pol : Policy) (now : Int) (es : List Entry) (n : Str)
    (hn : ∀ p ∈ ps, pathMatch p n = false) :
    proj n (stepEv ps pol es (.pass now)) = proj n es := by
  unfold stepEv removeAll proj
  rw [List.filter_filter]
  apply List.filter_congr
  intro x hx
  by_cases hxn : x.name = n
  · have : x ∉ passRemoves ps pol now es := by
      intro hmem
      have h1 := (mem_collectLogs ps es x).mp (mem_of_mem_passRemoves ps pol now es x hmem)
      obtain ⟨_, ⟨p, hp, hm⟩, _⟩ := (mem_selectLogs ps es x).mp h1
      rw [hxn, hn p hp] at hm
      exact Bool.noConfusion hm
    simp [hxn, this]
  · simp [hxn]

/-- what an outside event does to one name depends only on what is stored under that name -/
theorem proj_outside (ps : List Str) (pol : Policy) (ev : Ev) (hev : ev.isPass = false) (n : Str)
    (es es' : List Entry) (h : proj n es = proj n es') :
    proj n (stepEv ps pol es ev) = proj n (stepEv ps pol es' ev) := by
  cases ev with
  | pass now => simp [Ev.isPass] at hev
  | put e =>
    show proj n (e :: es.filter _) = proj n (e :: es'.filter _)
    have h1 : ∀ l : List Entry, proj n (e :: l) = (if e.name == n then [e] else []) ++ proj n l := by
      intro l; unfold proj; by_cases hh : (e.name == n) = true <;> simp [hh]
    rw [h1, h1, proj_filter, proj_filter, h]
  | del m =>
    show proj n (es.filter _) = proj n (es'.filter _)
    rw [proj_filter, proj_filter, h]

theorem proj_history (ps : List Str) (pol : Policy) (n : Str)
    (hn : ∀ p ∈ ps, pathMatch p n = false) :
    ∀ (evs : List Ev) (es es' : List Entry), proj n es = proj n es' →
      proj n (runEvs ps pol es evs) = proj n (runEvs ps pol es' (outsideOnly evs)) := by
  intro evs
  induction evs with
  | nil => intro es es' h; exact h
  | cons ev rest ih =>
    intro es es' h
    cases hp : ev.isPass with
    | true =>
      cases ev with
      | pass now =>
        have : outsideOnly (Ev.pass now :: rest) = outsideOnly rest := by
          simp [outsideOnly, Ev.isPass]
        rw [this]
        show proj n (runEvs ps pol (stepEv ps pol es (.pass now)) rest) = _
        exact ih _ _ ((proj_pass ps pol now es n hn).trans h)
      | put e => simp [Ev.isPass] at hp
      | del m => simp [Ev.isPass] at hp
    | false =>
      have : outsideOnly (ev :: rest) = ev :: outsideOnly rest := by
        simp [outsideOnly, hp]
      rw [this]
      show proj n (runEvs ps pol (stepEv ps pol es ev) rest) =
        proj n (runEvs ps pol (stepEv ps pol es' ev) (outsideOnly rest))
      exact ih _ _ (proj_outside ps pol ev hp n es es' h)

/-- removing selected entries and selecting again = selecting and dropping them -/
theorem selectLogs_removeAll (ps : List Str) (del es : List Entry) :
    selectLogs ps (removeAll del es) = (selectLogs ps es).filter (fun e => !(del.contains e)) := by
  unfold selectLogs removeAll
  rw [List.filter_filter, List.filter_filter]
  apply List.filter_congr
  intro x _
  exact Bool.and_comm _ _

theorem nodup_removeAll (del es : List Entry) (h : es.Nodup) : (removeAll del es).Nodup :=
  List.Pairwise.filter _ h

theorem mem_take_iff_not_mem_drop {α : Type} (l : List α) (hnd : l.Nodup) (N : Nat) (e : α) :
    e ∈ l.take N ↔ (e ∈ l ∧ e ∉ l.drop N) := by
  have hsplit := List.take_append_drop N l
  have hnd' : (l.take N ++ l.drop N).Nodup := by rw [hsplit]; exact hnd
  rw [List.nodup_append] at hnd'
  constructor
  · intro h
    exact ⟨List.mem_of_mem_take h, fun hd => hnd'.2.2 e h e hd rfl⟩
  · rintro ⟨h1, h2⟩
    rw [← hsplit, List.mem_append] at h1
    exact h1.resolve_right h2

/-! ### the directory keeps one entry per name -/

def NamesNodup (l : List Entry) : Prop := (l.map (·.name)).Nodup

theorem namesNodup_filter (q : Entry → Bool) (l : List Entry) (h : NamesNodup l) : NamesNodup (l.filter q) :=
  List.Pairwise.sublist ((List.filter_sublist (p := q) (l := l)).map _) h

theorem nodup_of_namesNodup : ∀ l : List Entry, NamesNodup l → l.Nodup := by
  intro l
  induction l with
  | nil => intro _; simp
  | cons a r ih =>
    intro h
    unfold NamesNodup at h
    rw [List.map_cons, List.nodup_cons] at h
    rw [List.nodup_cons]
    exact ⟨fun ha => h.1 (List.mem_map.mpr ⟨a, ha, rfl⟩), ih h.2⟩

theorem namesUnique_of_namesNodup : ∀ l : List Entry, NamesNodup l → NamesUnique l := by
  intro l
  induction l with
  | nil => intro _ a ha; simp at ha
  | cons x r ih =>
    intro h a ha b hb hab
    unfold NamesNodup at h
    rw [List.map_cons, List.nodup_cons] at h
    rw [List.mem_cons] at ha hb
    rcases ha with ha | ha <;> rcases hb with hb | hb
    · rw [ha, hb]
    · subst ha; exact absurd (List.mem_map.mpr ⟨b, hb, hab.symm⟩) h.1
    · subst hb; exact absurd (List.mem_map.mpr ⟨a, ha, hab⟩) h.1
    · exact ih h.2 a ha b hb hab

theorem namesNodup_step (ps : List Str) (pol : Policy) (es : List Entry) (ev : Ev) (h : NamesNodup es) :
    NamesNodup (stepEv ps pol es ev) := by
  cases ev with
  | put e =>
    show NamesNodup (e :: es.filter _)
    unfold NamesNodup
    rw [List.map_cons, List.nodup_cons]
    refine ⟨?_, namesNodup_filter _ es h⟩
    intro hmem
    obtain ⟨b, hb, hname⟩ := List.mem_map.mp hmem
    have := (List.mem_filter.mp hb).2
    simp [hname] at this
  | del n => exact namesNodup_filter _ es h
  | pass now => exact namesNodup_filter _ es h

theorem namesNodup_run (ps : List Str) (pol : Policy) :
    ∀ (evs : List Ev) (es : List Entry), NamesNodup es → NamesNodup (runEvs ps pol es evs) := by
  intro evs
  induction evs with
  | nil => intro es h; exact h
  | cons ev rest ih => intro es h; exact ih _ (namesNodup_step ps pol es ev h)

end Retention.Lemmas
