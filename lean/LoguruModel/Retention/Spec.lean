import LoguruModel.Retention.Model
/-
C10 – the specification side (DESIGN §4 C10 **S**), written without glob patterns, brackets,
escaping or fnmatch: the *family* of a configured path, on parsed template tokens.

`family path name`: `name` denotes (component by component, empty components ignored) the
configured file name, each replacement field standing for any text inside one component, with
optionally `.` + anything inserted before the extension of the file name and/or appended after it.
The extension is the one of the TEMPLATE (fields are opaque, they contain no dot for this purpose).
-/
namespace Retention.Spec
open Py Py.Glob Retention

def isSepT : PTok → Bool
  | .lit c => c == '/'
  | .field => false

def isDotT : PTok → Bool
  | .lit c => c == '.'
  | .field => false

def isAbsT : List PTok → Bool
  | .lit '/' :: _ => true
  | _ => false

/-- one component of the template against one component of the name: literals match themselves,
a field matches any text -/
def sMatch : List PTok → Str → Bool
  | [], n => n.isEmpty
  | .lit c :: ts, n =>
    match n with
    | [] => false
    | d :: n' => d == c && sMatch ts n'
  | .field :: ts, n => (suffixes n).any (fun m => sMatch ts m)

/-- `.` + anything -/
def dotAny : List PTok := [.lit '.', .field]

/-- the template itself and its three decorated forms -/
def variants (toks : List PTok) : List (List PTok) :=
  let re := splitextG isSepT isDotT toks
  if re.2.isEmpty then [toks, toks ++ dotAny]
  else [toks, toks ++ dotAny, re.1 ++ dotAny ++ re.2, re.1 ++ dotAny ++ re.2 ++ dotAny]

def tokensMatch (v : List PTok) (name : Str) : Bool :=
  (isAbsT v == isAbs name) && all2 sMatch (compsG isSepT v) (comps name)

def familyToks (toks : List PTok) (name : Str) : Bool :=
  (variants toks).any (fun v => tokensMatch v name)

/-- executable family predicate (`none`: the path is not a valid template, `add()` raises) -/
def familyB (path name : Str) : Option Bool :=
  match parseTemplate path with
  | .ok toks => some (familyToks toks name)
  | .error _ => none

def family (path name : Str) : Prop :=
  ∃ toks, parseTemplate path = .ok toks ∧ familyToks toks name = true

end Retention.Spec
