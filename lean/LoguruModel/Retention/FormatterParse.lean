import LoguruModel.Py.Basic
/-
A minimal transcription of CPython's `_string.formatter_parser` (Objects/stringlib/
unicode_format.h: `MarkupIterator_next` + `parse_field`), which is what `string.Formatter().parse`
iterates.  Only what `FileSink._make_glob_patterns` looks at is kept: the literal characters and,
for each replacement field, the fact that there is one (`name is not None`).  Every malformed
template is a `ValueError`.  Validated against the real function by a correspondence stream of C10.
(The Format area, C05, owns a full parser; this one is deliberately local to Retention.)
-/
namespace Retention
open Py

/-- a parsed template element: a literal character or a replacement field -/
inductive PTok where
  | lit (c : Char)
  | field
  deriving DecidableEq, Repr

/-- scanner state -/
inductive PState where
  | text            -- literal text
  | name            -- inside `{…`, reading the field name
  | brack           -- inside `[…` of a field name
  | conv            -- just after `!`
  | conv2           -- after the conversion character
  | spec (depth : Nat)  -- inside the format spec; depth = open braces - 1
  deriving DecidableEq, Repr

def parseGo : PState → Str → Except Err (List PTok)
  | .text, [] => .ok []
  | .text, '{' :: '{' :: r => (parseGo .text r).map (PTok.lit '{' :: ·)
  | .text, '}' :: '}' :: r => (parseGo .text r).map (PTok.lit '}' :: ·)
  | .text, '{' :: [] => .error .valueError          -- Single '{' encountered
  | .text, '}' :: _ => .error .valueError           -- Single '}' encountered
  | .text, '{' :: r => parseGo .name r
  | .text, c :: r => (parseGo .text r).map (PTok.lit c :: ·)
  | .name, [] => .error .valueError                 -- expected '}' before end of string
  | .name, c :: r =>
    if c = '{' then .error .valueError              -- unexpected '{' in field name
    else if c = '[' then parseGo .brack r
    else if c = '}' then (parseGo .text r).map (PTok.field :: ·)
    else if c = ':' then parseGo (.spec 0) r
    else if c = '!' then parseGo .conv r
    else parseGo .name r
  | .brack, [] => .error .valueError
  | .brack, c :: r => if c = ']' then parseGo .name r else parseGo .brack r
  | .conv, [] => .error .valueError                 -- end of string while looking for conversion
  | .conv, _ :: r => parseGo .conv2 r
  | .conv2, [] => .error .valueError                -- unmatched '{' in format spec
  | .conv2, c :: r =>
    if c = '}' then (parseGo .text r).map (PTok.field :: ·)
    else if c = ':' then parseGo (.spec 0) r
    else .error .valueError                         -- expected ':' after conversion specifier
  | .spec _, [] => .error .valueError               -- unmatched '{' in format spec
  | .spec d, c :: r =>
    if c = '{' then parseGo (.spec (d + 1)) r
    else if c = '}' then
      match d with
      | 0 => (parseGo .text r).map (PTok.field :: ·)
      | d' + 1 => parseGo (.spec d') r
    else parseGo (.spec d) r

/-- `string.Formatter().parse(path)` flattened to characters and fields -/
def parseTemplate (path : Str) : Except Err (List PTok) := parseGo .text path

end Retention
