import LoguruModel.Retention.Model
/-
Retention – the candidate collection of `FileSink._terminate_file` AS THE CODE WRITES IT, and a sink's
retention passes over a HISTORY of the log directory.

    logs = {file for pattern in self._glob_patterns for file in glob.glob(pattern) if os.path.isfile(file)}
    self._retention_function(list(logs))

* `globOne`        = `glob.glob(pattern)` on a directory population (directory order);
* `comprehension`  = the two nested `for`s with the generated filter – one occurrence per (pattern, file);
* `collectLogs`    = … passed through a set iff the source does so (`Gen.collectIsSet`); Python's set
                     iteration order is unspecified – the model takes first-occurrence order and
                     `count_independent_of_collection_order` (Props) shows the choice cannot matter;
* `handedNames`    = the strings the policy receives: `Gen.handedName matched resolved` per candidate
                     (`resolve` = `os.path.realpath`, a parameter);
* `passRemoves`    = one retention pass on the current directory; `stepEv` / `runEvs` = the directory
                     under a history of outside events (`put` a file / change its type or mtime,
                     `del`) and passes of the sink.  The sink carries no state from one pass to the
                     next (its patterns and policy are written once, at construction – pinned by the
                     extractor), so a pass is a function of the directory at that moment.
`Model.selectLogs` (a filter of the population) stays the reference; `collect_perm_select` ties the two.
-/
namespace Retention
open Py Py.Glob

/-- `glob.glob(pattern)`: the entries of the population the pattern selects -/
def globOne (p : Str) (entries : List Entry) : List Entry :=
  entries.filter (fun e => pathMatch p e.name)

/-- `file for pattern in patterns for file in glob.glob(pattern) if <filter>(file)` -/
def comprehension (patterns : List Str) (entries : List Entry) : List Entry :=
  patterns.flatMap (fun p => (globOne p entries).filter (fun e => Gen.retentionFilter e.kind))

/-- a set built by inserting the elements in order, listed in first-occurrence order -/
def dedup : List Entry → List Entry
  | [] => []
  | a :: r => a :: (dedup r).filter (fun b => !(b == a))

/-- the candidates handed to the policy -/
def collectLogs (patterns : List Str) (entries : List Entry) : List Entry :=
  if Gen.collectIsSet then dedup (comprehension patterns entries) else comprehension patterns entries

/-- the strings handed to the policy (`resolve` = `os.path.realpath`) -/
def handedNames (resolve : Str → Str) (patterns : List Str) (entries : List Entry) : List Str :=
  (collectLogs patterns entries).map (fun e => Gen.handedName e.name (resolve e.name))

/-- what one retention pass removes from the directory `entries` at clock value `now` -/
def passRemoves (patterns : List Str) (pol : Policy) (now : Int) (entries : List Entry) : List Entry :=
  match pol with
  | .count n => retentionCount (collectLogs patterns entries) n
  | .age s => retentionAge (collectLogs patterns entries) now s

/-- `os.remove` of every entry of `del` -/
def removeAll (del : List Entry) (entries : List Entry) : List Entry :=
  entries.filter (fun e => !(del.contains e))

/-- what can happen to the log directory -/
inductive Ev where
  | put (e : Entry)      -- a file (or anything else) appears under a name, or the entry of that name changes
  | del (name : Str)     -- somebody else removes a name
  | pass (now : Int)     -- the sink runs retention (a rotation, or stop without rotation)
  deriving DecidableEq, Repr

def Ev.isPass : Ev → Bool
  | .pass _ => true
  | _ => false

def stepEv (patterns : List Str) (pol : Policy) (entries : List Entry) : Ev → List Entry
  | .put e => e :: entries.filter (fun x => !(x.name == e.name))
  | .del n => entries.filter (fun x => !(x.name == n))
  | .pass now => removeAll (passRemoves patterns pol now entries) entries

def runEvs (patterns : List Str) (pol : Policy) (entries : List Entry) (evs : List Ev) : List Entry :=
  evs.foldl (stepEv patterns pol) entries

/-- the same history without the sink's passes: what the directory would be had retention never run -/
def outsideOnly (evs : List Ev) : List Ev := evs.filter (fun e => !e.isPass)

/-- every name occurs once -/
def NamesUnique (l : List Entry) : Prop := ∀ a ∈ l, ∀ b ∈ l, a.name = b.name → a = b

/-! ### the shape `key = cached mtime` (a modification time remembered from an earlier pass) -/

/-- `retention_count` with a sort key that prefers a remembered modification time -/
def retentionCountCached (cache : Str → Option Int) (logs : List Entry) (number : Int) : List Entry :=
  let stale (e : Entry) : Entry := { e with mtime := (cache e.name).getD e.mtime }
  let le (a b : Entry) : Bool := entryLe (stale a) (stale b)
  sliceFrom (isort le logs) (Gen.countSliceStart number)

end Retention
