import LoguruModel.Retention.Spec
/-
Helper lemmas for Props/C10 (core Lean only).
Part 1: the generic segment operations commute with a character-wise rendering `flatMap h`
        whenever `h` maps separators/dots to themselves and everything else to non-empty text free
        of them (`Compat`).
Part 2: `fnmatch.translate` on escaped text and on rendered templates.
Part 3: sorting facts.
-/
namespace Retention.Lemmas
open Py Py.Glob Retention Retention.Spec

/-! ## Part 1 – generic commutation -/
section Generic
variable {α β : Type}

/-- `h` respects the predicate pair (pa, pb): marked elements render to one marked element,
unmarked ones to non-empty unmarked text -/
structure Compat (pa : α → Bool) (pb : β → Bool) (h : α → List β) : Prop where
  marked : ∀ a, pa a = true → ∃ b, h a = [b] ∧ pb b = true
  unmarked : ∀ a, pa a = false → (∀ b ∈ h a, pb b = false) ∧ h a ≠ []

theorem Compat.ne_nil {pa : α → Bool} {pb : β → Bool} {h : α → List β} (c : Compat pa pb h) (a : α) :
    h a ≠ [] := by
  cases hp : pa a with
  | true => obtain ⟨b, hb, _⟩ := c.marked a hp; simp [hb]
  | false => exact (c.unmarked a hp).2

theorem flatMap_isEmpty {pa : α → Bool} {pb : β → Bool} {h : α → List β} (c : Compat pa pb h)
    (l : List α) : (l.flatMap h).isEmpty = l.isEmpty := by
  cases l with
  | nil => rfl
  | cons a r =>
    have := c.ne_nil a
    cases hh : h a with
    | nil => exact absurd hh this
    | cons b bs => simp [hh]

theorem splitLastG_unmarked_prefix (pb : β → Bool) (x y : List β) (hx : ∀ b ∈ x, pb b = false) :
    splitLastDotG pb (x ++ y) = (splitLastDotG pb y).map (fun p => (x ++ p.1, p.2)) := by
  induction x with
  | nil =>
    show splitLastDotG pb y = _
    cases splitLastDotG pb y <;> rfl
  | cons b x ih =>
    have hb : pb b = false := hx b (by simp)
    have ih' := ih (fun b' hb' => hx b' (by simp [hb']))
    simp only [List.cons_append, splitLastDotG, ih']
    cases splitLastDotG pb y <;> simp [hb]

theorem splitLastG_flatMap {pa : α → Bool} {pb : β → Bool} {h : α → List β} (c : Compat pa pb h)
    (l : List α) :
    splitLastDotG pb (l.flatMap h) =
      (splitLastDotG pa l).map (fun p => (p.1.flatMap h, p.2.flatMap h)) := by
  induction l with
  | nil => rfl
  | cons a r ih =>
    cases hp : pa a with
    | true =>
      obtain ⟨b, hb, hpb⟩ := c.marked a hp
      simp only [List.flatMap_cons, hb, List.singleton_append, splitLastDotG, ih]
      cases splitLastDotG pa r <;> simp [hp, hpb, hb]
    | false =>
      obtain ⟨hall, _⟩ := c.unmarked a hp
      simp only [List.flatMap_cons, splitLastDotG]
      rw [splitLastG_unmarked_prefix pb _ _ hall, ih]
      cases splitLastDotG pa r <;> simp [hp]

theorem splitLastG_head (p : α → Bool) :
    ∀ (l : List α) (b t : List α), splitLastDotG p l = some (b, t) → ∃ x a, t = x :: a ∧ p x = true := by
  intro l
  induction l with
  | nil => intro b t h; simp [splitLastDotG] at h
  | cons a r ih =>
    intro b t h
    simp only [splitLastDotG] at h
    cases hr : splitLastDotG p r with
    | some q =>
      rw [hr] at h
      simp at h
      obtain ⟨_, h2⟩ := h
      obtain ⟨q1, q2⟩ := q
      exact ih q1 q2 hr |>.imp (fun x => Exists.imp (fun a' hh => by simpa [← h2] using hh))
    | none =>
      rw [hr] at h
      by_cases hp : p a = true
      · simp [hp] at h
        exact ⟨a, r, h.2.symm, hp⟩
      · simp [hp] at h

theorem any_not_flatMap {pa : α → Bool} {pb : β → Bool} {h : α → List β} (c : Compat pa pb h)
    (l : List α) : (l.flatMap h).any (fun b => !pb b) = l.any (fun a => !pa a) := by
  induction l with
  | nil => rfl
  | cons a r ih =>
    simp only [List.flatMap_cons, List.any_append, List.any_cons, ih]
    congr 1
    cases hp : pa a with
    | true => obtain ⟨b, hb, hpb⟩ := c.marked a hp; simp [hb, hpb]
    | false =>
      obtain ⟨hall, hne⟩ := c.unmarked a hp
      cases hh : h a with
      | nil => exact absurd hh hne
      | cons b bs => simp [hall b (by simp [hh])]

theorem splitextFileG_flatMap {pa : α → Bool} {pb : β → Bool} {h : α → List β} (c : Compat pa pb h)
    (f : List α) :
    splitextFileG pb (f.flatMap h) =
      ((splitextFileG pa f).1.flatMap h, (splitextFileG pa f).2.flatMap h) := by
  unfold splitextFileG
  rw [splitLastG_flatMap c]
  cases splitLastDotG pa f with
  | none => simp
  | some p => simp only [Option.map_some, any_not_flatMap c]; split <;> simp

theorem splitLastSepG_flatMap {pa : α → Bool} {pb : β → Bool} {h : α → List β} (c : Compat pa pb h)
    (l : List α) :
    splitLastSepG pb (l.flatMap h) =
      ((splitLastSepG pa l).1.flatMap h, (splitLastSepG pa l).2.flatMap h) := by
  unfold splitLastSepG
  rw [splitLastG_flatMap c]
  cases hs : splitLastDotG pa l with
  | none => simp
  | some p =>
    obtain ⟨b, t⟩ := p
    obtain ⟨x, a, ht, hx⟩ := splitLastG_head pa l b t hs
    obtain ⟨x', hx', _⟩ := c.marked x hx
    subst ht
    simp [hx']

theorem splitextG_flatMap {sa da : α → Bool} {sb db : β → Bool} {h : α → List β}
    (cs : Compat sa sb h) (cd : Compat da db h) (l : List α) :
    splitextG sb db (l.flatMap h) =
      ((splitextG sa da l).1.flatMap h, (splitextG sa da l).2.flatMap h) := by
  unfold splitextG
  simp only [splitLastSepG_flatMap cs, splitextFileG_flatMap cd, List.flatMap_append]

theorem splitG_unmarked_prefix (pb : β → Bool) (x y : List β) (hx : ∀ b ∈ x, pb b = false) :
    splitG pb (x ++ y) = (x ++ (splitG pb y).1, (splitG pb y).2) := by
  induction x with
  | nil => simp
  | cons b x ih =>
    have hb : pb b = false := hx b (by simp)
    simp [splitG, ih (fun b' hb' => hx b' (by simp [hb'])), hb]

theorem splitG_flatMap {pa : α → Bool} {pb : β → Bool} {h : α → List β} (c : Compat pa pb h)
    (l : List α) :
    splitG pb (l.flatMap h) =
      ((splitG pa l).1.flatMap h, (splitG pa l).2.map (fun s => s.flatMap h)) := by
  induction l with
  | nil => rfl
  | cons a r ih =>
    cases hp : pa a with
    | true =>
      obtain ⟨b, hb, hpb⟩ := c.marked a hp
      simp [List.flatMap_cons, hb, splitG, ih, hp, hpb]
    | false =>
      obtain ⟨hall, _⟩ := c.unmarked a hp
      simp only [List.flatMap_cons]
      rw [splitG_unmarked_prefix pb _ _ hall, ih]
      simp [splitG, hp]

theorem compsG_flatMap {pa : α → Bool} {pb : β → Bool} {h : α → List β} (c : Compat pa pb h)
    (l : List α) : compsG pb (l.flatMap h) = (compsG pa l).map (fun s => s.flatMap h) := by
  unfold compsG
  simp only [splitG_flatMap c]
  show List.filter _ (List.map (fun s => s.flatMap h) ((splitG pa l).1 :: (splitG pa l).2)) = _
  rw [List.filter_map]
  congr 1
  apply List.filter_congr
  intro s _
  simp [Function.comp, flatMap_isEmpty c]

end Generic

/-! ## Part 2 – translate / wild on escaped and rendered text -/

/-- what one escaped character translates to -/
def single (c : Char) : Tok := if isMagic c then .cls false [(c, c)] else .lit c

def tokOf : PTok → Tok
  | .lit c => single c
  | .field => .star

theorem tr_escChar (c : Char) (rest : Str) : tr 0 (escChar c ++ rest) = single c :: tr 0 rest := by
  unfold escChar single
  by_cases h1 : c = '*'
  · subst h1; simp [isMagic, tr, findClose, untilClose]; decide
  by_cases h2 : c = '?'
  · subst h2; simp [isMagic, tr, findClose, untilClose]; decide
  by_cases h3 : c = '['
  · subst h3; simp [isMagic, tr, findClose, untilClose]; decide
  simp [isMagic, tr, h1, h2, h3]

theorem translate_escape_append (s rest : Str) :
    translate (escape s ++ rest) = s.map single ++ translate rest := by
  unfold translate escape
  induction s with
  | nil => rfl
  | cons c s ih => simp only [List.flatMap_cons, List.append_assoc, tr_escChar, ih, List.map_cons, List.cons_append]

theorem translate_render_append (toks : List PTok) (rest : Str) :
    translate (render toks ++ rest) = toks.map tokOf ++ translate rest := by
  unfold translate render
  induction toks with
  | nil => rfl
  | cons t ts ih =>
    cases t with
    | lit c => simp only [List.flatMap_cons, renderTok, List.append_assoc, tr_escChar, ih, List.map_cons, tokOf, List.cons_append]
    | field =>
      simp only [List.flatMap_cons, renderTok, List.append_assoc, List.map_cons, tokOf, List.cons_append]
      rw [← ih]
      simp [Gen.fieldGlob, tr]

theorem translate_render (toks : List PTok) : translate (render toks) = toks.map tokOf := by
  have := translate_render_append toks []
  simpa [translate, tr] using this

theorem single_matches (c d : Char) : (single c).matchesChar d = (d == c) := by
  unfold single
  split
  · simp only [Tok.matchesChar, List.any_cons, List.any_nil, Bool.or_false]
    by_cases h : d = c
    · subst h; simp
    · have : ¬ (c ≤ d ∧ d ≤ c) := fun ⟨a, b⟩ => h (Char.le_antisymm b a)
      have h1 : (decide (c ≤ d) && decide (d ≤ c)) = false := by
        simpa using this
      simp [h1, h]
  · simp [Tok.matchesChar]

theorem single_ne_star (c : Char) : single c ≠ .star := by
  unfold single; split <;> simp

theorem wild_cons_nonstar (t : Tok) (ts : List Tok) (n : Str) (h : t ≠ .star) :
    wild (t :: ts) n = match n with
      | [] => false
      | c :: n' => t.matchesChar c && wild ts n' := by
  cases t <;> first | exact absurd rfl h | (cases n <;> simp [wild])

/-- fnmatch of a rendered template component IS the specification's component match -/
theorem wild_tokOf (toks : List PTok) : ∀ n : Str, wild (toks.map tokOf) n = sMatch toks n := by
  induction toks with
  | nil => intro n; simp [wild, sMatch]
  | cons t ts ih =>
    intro n
    cases t with
    | field => simp [tokOf, wild, sMatch, ih]
    | lit c =>
      simp only [List.map_cons, tokOf]
      rw [wild_cons_nonstar _ _ _ (single_ne_star c)]
      cases n with
      | nil => simp [sMatch]
      | cons d n' => simp [sMatch, single_matches, ih]

theorem fnmatch_render (toks : List PTok) (n : Str) : fnmatch (render toks) n = sMatch toks n := by
  unfold fnmatch
  rw [translate_render, wild_tokOf]

theorem wild_single_prefix (s : Str) (ts : List Tok) :
    ∀ n : Str, wild (s.map single ++ ts) n = true ↔ ∃ m, n = s ++ m ∧ wild ts m = true := by
  induction s with
  | nil => intro n; simp
  | cons c s ih =>
    intro n
    simp only [List.map_cons, List.cons_append]
    rw [wild_cons_nonstar _ _ _ (single_ne_star c)]
    cases n with
    | nil => simp
    | cons d n' =>
      simp only [single_matches, Bool.and_eq_true, beq_iff_eq, ih]
      constructor
      · rintro ⟨rfl, m, rfl, hm⟩; exact ⟨m, rfl, hm⟩
      · rintro ⟨m, hm, hw⟩
        simp only [List.cons.injEq] at hm
        exact ⟨hm.1, m, hm.2, hw⟩

/-! compatibility of the renderings with separators and dots -/
theorem escChar_compat_sep : Compat isSepC isSepC escChar where
  marked a h := by
    have : a = '/' := by simpa [isSepC] using h
    subst this; exact ⟨'/', by decide, by decide⟩
  unmarked a h := by
    have hne : a ≠ '/' := by simpa [isSepC] using h
    unfold escChar
    split
    · rename_i hm
      refine ⟨?_, by simp⟩
      intro b hb
      simp only [List.mem_cons, List.mem_nil_iff, or_false] at hb
      rcases hb with rfl | rfl | rfl
      · decide
      · simpa [isSepC] using hne
      · decide
    · exact ⟨by intro b hb; simp at hb; subst hb; simpa [isSepC] using hne, by simp⟩

theorem escChar_compat_dot : Compat isDotC isDotC escChar where
  marked a h := by
    have : a = '.' := by simpa [isDotC] using h
    subst this; exact ⟨'.', by decide, by decide⟩
  unmarked a h := by
    have hne : a ≠ '.' := by simpa [isDotC] using h
    unfold escChar
    split
    · refine ⟨?_, by simp⟩
      intro b hb
      simp only [List.mem_cons, List.mem_nil_iff, or_false] at hb
      rcases hb with rfl | rfl | rfl
      · decide
      · simpa [isDotC] using hne
      · decide
    · exact ⟨by intro b hb; simp at hb; subst hb; simpa [isDotC] using hne, by simp⟩

theorem renderTok_compat_sep : Compat isSepT isSepC renderTok where
  marked a h := by
    cases a with
    | field => simp [isSepT] at h
    | lit c => exact escChar_compat_sep.marked c (by simpa [isSepT, isSepC] using h)
  unmarked a h := by
    cases a with
    | field => exact ⟨by intro b hb; simp [renderTok, Gen.fieldGlob] at hb; subst hb; decide, by simp [renderTok, Gen.fieldGlob]⟩
    | lit c => exact escChar_compat_sep.unmarked c (by simpa [isSepT, isSepC] using h)

theorem renderTok_compat_dot : Compat isDotT isDotC renderTok where
  marked a h := by
    cases a with
    | field => simp [isDotT] at h
    | lit c => exact escChar_compat_dot.marked c (by simpa [isDotT, isDotC] using h)
  unmarked a h := by
    cases a with
    | field => exact ⟨by intro b hb; simp [renderTok, Gen.fieldGlob] at hb; subst hb; decide, by simp [renderTok, Gen.fieldGlob]⟩
    | lit c => exact escChar_compat_dot.unmarked c (by simpa [isDotT, isDotC] using h)

theorem isAbs_render (toks : List PTok) : isAbs (render toks) = isAbsT toks := by
  cases toks with
  | nil => rfl
  | cons t ts =>
    cases t with
    | field => simp [render, renderTok, Gen.fieldGlob, isAbs, isAbsT]
    | lit c =>
      by_cases h : c = '/'
      · subst h; simp [render, renderTok, escChar, isMagic, isAbs, isAbsT]
      · have : isAbsT (PTok.lit c :: ts) = false := by
          unfold isAbsT; split
          · rename_i heq; simp at heq; exact absurd heq.1 h
          · rfl
        rw [this]
        simp only [render, List.flatMap_cons, renderTok, escChar]
        split
        · simp [isAbs]
        · simp [isAbs]
          split
          · rename_i heq; simp at heq; exact absurd heq.1 h
          · rfl

theorem all2_mono {α β : Type} (f g : α → β → Bool) (hfg : ∀ a b, f a b = true → g a b = true) :
    ∀ (l : List α) (m : List β), all2 f l m = true → all2 g l m = true := by
  intro l
  induction l with
  | nil => intro m; cases m <;> simp [all2]
  | cons a l ih =>
    intro m
    cases m with
    | nil => simp [all2]
    | cons b m =>
      simp only [all2, Bool.and_eq_true]
      exact fun ⟨h1, h2⟩ => ⟨hfg a b h1, ih m h2⟩

theorem all2_map_left {α β γ : Type} (f : β → γ → Bool) (g : α → β) :
    ∀ (l : List α) (m : List γ), all2 f (l.map g) m = all2 (fun a c => f (g a) c) l m := by
  intro l
  induction l with
  | nil => intro m; cases m <;> simp [all2]
  | cons a l ih => intro m; cases m <;> simp [all2, ih]

/-! ## Part 3 – order facts -/
theorem strLe_refl : ∀ a : Str, strLe a a = true := by
  intro a; induction a with
  | nil => rfl
  | cons c a ih => simp [strLe, ih]

theorem strLe_total : ∀ a b : Str, strLe a b = true ∨ strLe b a = true := by
  intro a
  induction a with
  | nil => intro b; simp [strLe]
  | cons c a ih =>
    intro b
    cases b with
    | nil => simp [strLe]
    | cons d b =>
      simp only [strLe, Bool.or_eq_true, decide_eq_true_eq, Bool.and_eq_true, beq_iff_eq]
      by_cases h1 : c < d
      · exact Or.inl (Or.inl h1)
      by_cases h2 : d < c
      · exact Or.inr (Or.inl h2)
      have : c = d := Char.le_antisymm (Char.not_lt.mp h2) (Char.not_lt.mp h1)
      subst this
      rcases ih b with h | h
      · exact Or.inl (Or.inr ⟨rfl, h⟩)
      · exact Or.inr (Or.inr ⟨rfl, h⟩)

theorem strLe_trans : ∀ a b c : Str, strLe a b = true → strLe b c = true → strLe a c = true := by
  intro a
  induction a with
  | nil => intro b c _ _; simp [strLe]
  | cons x a ih =>
    intro b c
    cases b with
    | nil => simp [strLe]
    | cons y b =>
      cases c with
      | nil => simp [strLe]
      | cons z c =>
        simp only [strLe, Bool.or_eq_true, decide_eq_true_eq, Bool.and_eq_true, beq_iff_eq]
        rintro (h1 | ⟨rfl, h1⟩) (h2 | ⟨rfl, h2⟩)
        · exact Or.inl (Char.lt_trans h1 h2)
        · exact Or.inl h1
        · exact Or.inl h2
        · exact Or.inr ⟨rfl, ih b c h1 h2⟩

theorem strLe_antisymm : ∀ a b : Str, strLe a b = true → strLe b a = true → a = b := by
  intro a
  induction a with
  | nil => intro b; cases b <;> simp [strLe]
  | cons x a ih =>
    intro b
    cases b with
    | nil => simp [strLe]
    | cons y b =>
      simp only [strLe, Bool.or_eq_true, decide_eq_true_eq, Bool.and_eq_true, beq_iff_eq]
      rintro (h1 | ⟨rfl, h1⟩) (h2 | ⟨h2e, h2⟩)
      · exact absurd h2 (Char.lt_asymm h1)
      · subst h2e; exact absurd h1 (Char.lt_irrefl _)
      · exact absurd h2 (Char.lt_irrefl _)
      · rw [ih b h1 h2]

theorem keyLe_total (a b : Int × Str) : keyLe a b = true ∨ keyLe b a = true := by
  unfold keyLe
  simp only [Bool.or_eq_true, decide_eq_true_eq, Bool.and_eq_true, beq_iff_eq]
  rcases Int.lt_trichotomy a.1 b.1 with h | h | h
  · exact Or.inl (Or.inl h)
  · rcases strLe_total a.2 b.2 with h' | h'
    · exact Or.inl (Or.inr ⟨h, h'⟩)
    · exact Or.inr (Or.inr ⟨h.symm, h'⟩)
  · exact Or.inr (Or.inl h)

theorem keyLe_trans (a b c : Int × Str) : keyLe a b = true → keyLe b c = true → keyLe a c = true := by
  unfold keyLe
  simp only [Bool.or_eq_true, decide_eq_true_eq, Bool.and_eq_true, beq_iff_eq]
  rintro (h1 | ⟨h1e, h1⟩) (h2 | ⟨h2e, h2⟩)
  · exact Or.inl (by omega)
  · exact Or.inl (by omega)
  · exact Or.inl (by omega)
  · exact Or.inr ⟨by omega, strLe_trans _ _ _ h1 h2⟩

section Sorting
variable {α : Type} (le : α → α → Bool)

theorem insertBy_perm (a : α) : ∀ l : List α, (insertBy le a l).Perm (a :: l) := by
  intro l
  induction l with
  | nil => exact List.Perm.refl _
  | cons b r ih =>
    simp only [insertBy]
    split
    · exact List.Perm.refl _
    · exact (List.Perm.cons b ih).trans (List.Perm.swap a b r)

theorem isort_perm : ∀ l : List α, (isort le l).Perm l := by
  intro l
  induction l with
  | nil => exact List.Perm.refl _
  | cons a r ih => exact (insertBy_perm le a _).trans (List.Perm.cons a ih)

theorem insertBy_sorted (total : ∀ a b, le a b = true ∨ le b a = true)
    (trans : ∀ a b c, le a b = true → le b c = true → le a c = true) (a : α) :
    ∀ l : List α, l.Pairwise (fun x y => le x y = true) →
      (insertBy le a l).Pairwise (fun x y => le x y = true) := by
  intro l
  induction l with
  | nil => intro _; simp [insertBy]
  | cons b r ih =>
    intro hp
    rw [List.pairwise_cons] at hp
    simp only [insertBy]
    split
    · rename_i hab
      rw [List.pairwise_cons]
      refine ⟨?_, List.pairwise_cons.mpr hp⟩
      intro x hx
      rcases List.mem_cons.mp hx with rfl | hx
      · exact hab
      · exact trans _ _ _ hab (hp.1 x hx)
    · rename_i hab
      have hba : le b a = true := by
        rcases total a b with h | h
        · exact absurd h hab
        · exact h
      rw [List.pairwise_cons]
      refine ⟨?_, ih hp.2⟩
      intro x hx
      have := (insertBy_perm le a r).mem_iff.mp hx
      rcases List.mem_cons.mp this with rfl | hx
      · exact hba
      · exact hp.1 x hx

theorem isort_sorted (total : ∀ a b, le a b = true ∨ le b a = true)
    (trans : ∀ a b c, le a b = true → le b c = true → le a c = true) :
    ∀ l : List α, (isort le l).Pairwise (fun x y => le x y = true) := by
  intro l
  induction l with
  | nil => simp [isort]
  | cons a r ih => exact insertBy_sorted le total trans a _ ih

end Sorting

end Retention.Lemmas
