import LoguruModel.Py.Glob
import LoguruModel.Retention.FormatterParse
import LoguruModel.Generated.Retention
/-
Retention – model of what `FileSink` does for retention, as the code IS:

* `makeGlobPatterns`  = `FileSink._make_glob_patterns` (parse, escape literals, `*` per field,
  `splitext` of the ESCAPED text, then the generated list constructions);
* `selectLogs`        = the set comprehension of `_terminate_file` (glob over the patterns, `isfile`);
* `retentionCount`    = `Retention.retention_count` (sort by the generated key, generated slice);
* `retentionAge`      = `Retention.retention_age` (generated comparison);
* `terminate`         = the order of effects in `_terminate_file`.
Modification times are exact integers (the code compares floats: outside).
-/
namespace Retention
open Py Py.Glob

/-- what a parsed template element contributes to the glob pattern -/
def renderTok : PTok → Str
  | .lit c => escChar c
  | .field => Gen.fieldGlob

def render (ts : List PTok) : Str := ts.flatMap renderTok

/-- `FileSink._make_glob_patterns(path)` -/
def makeGlobPatterns (path : Str) : Except Err (List Str) :=
  match parseTemplate path with
  | .error e => .error e
  | .ok toks =>
    let escaped := render toks
    let re := splitext escaped
    if re.2.isEmpty then .ok (Gen.patternsNoExt escaped) else .ok (Gen.patternsExt escaped re.1 re.2)

/-- a directory entry as retention sees it: its path as glob returns it, its file type (links followed),
`os.stat().st_mtime` -/
structure Entry where
  name : Str
  kind : Kind
  mtime : Int
  deriving DecidableEq, Repr

/-- is the entry a regular file (possibly through symbolic links)? -/
def Entry.isFile (e : Entry) : Bool := e.kind == .regular

/-- `{file for pattern in patterns for file in glob.glob(pattern) if os.path.isfile(file)}` over a
population with pairwise distinct names -/
def selectLogs (patterns : List Str) (entries : List Entry) : List Entry :=
  entries.filter (fun e => patterns.any (fun p => pathMatch p e.name) && Gen.retentionFilter e.kind)

/-- `str <= str` of Python: lexicographic by code point -/
def strLe : Str → Str → Bool
  | [], _ => true
  | _ :: _, [] => false
  | a :: as, b :: bs => decide (a < b) || (a == b && strLe as bs)

/-- `tuple <= tuple` for (int, str) -/
def keyLe (a b : Int × Str) : Bool := decide (a.1 < b.1) || (a.1 == b.1 && strLe a.2 b.2)

def entryKey (e : Entry) : Int × Str := Gen.keyLog e.mtime e.name
def entryLe (a b : Entry) : Bool := keyLe (entryKey a) (entryKey b)

section Sorting
variable {α : Type}
def insertBy (le : α → α → Bool) (a : α) : List α → List α
  | [] => [a]
  | b :: r => if le a b then a :: b :: r else b :: insertBy le a r

/-- `sorted` (stable insertion sort; any stable sort yields the same list) -/
def isort (le : α → α → Bool) : List α → List α
  | [] => []
  | a :: r => insertBy le a (isort le r)

/-- Python `xs[n:]` for an `int` n -/
def sliceFrom (xs : List α) (n : Int) : List α :=
  if 0 ≤ n then xs.drop n.toNat else xs.drop (xs.length - (-n).toNat)
end Sorting

/-- files `retention_count(logs, number)` removes, in order -/
def retentionCount (logs : List Entry) (number : Int) : List Entry :=
  sliceFrom (isort entryLe logs) (Gen.countSliceStart number)

/-- files `retention_age(logs, seconds)` removes at time `t` -/
def retentionAge (logs : List Entry) (t seconds : Int) : List Entry :=
  logs.filter (fun l => Gen.ageDeletes l.mtime t seconds)

inductive Policy where
  | count (n : Int)
  | age (seconds : Int)
  deriving Repr

/-- one retention pass: which entries are removed -/
def retentionPass (patterns : List Str) (pol : Policy) (now : Int) (entries : List Entry) : List Entry :=
  match pol with
  | .count n => retentionCount (selectLogs patterns entries) n
  | .age s => retentionAge (selectLogs patterns entries) now s

/-- configured sink: what `add(path, retention=…)` leads to on termination -/
def retentionOf (path : Str) (pol : Policy) (now : Int) (entries : List Entry) : Except Err (List Entry) :=
  match makeGlobPatterns path with
  | .error e => .error e
  | .ok ps => .ok (retentionPass ps pol now entries)

/-! ### order of effects in `_terminate_file` -/
inductive Act where
  | close | rename | compress | retention | create
  deriving DecidableEq, Repr

structure TermCfg where
  fileOpen : Bool
  hasRotation : Bool
  hasRetention : Bool
  hasCompression : Bool
  samePath : Bool      -- the new path equals the old one (no `{time}` in the name)
  deriving Repr

/-- `_terminate_file(is_rotating=…)`: the statements in source order; the guard is the generated
one, and the relative position of the retention block and of the file creation is the generated
statement order -/
def terminate (c : TermCfg) (isRotating : Bool) : List Act :=
  (if c.fileOpen then [.close] else []) ++
  (if isRotating && c.samePath && c.fileOpen then [.rename] else []) ++
  (let guarded : List Act :=
     if Gen.retentionGuard isRotating (!c.hasRotation) then
       (if c.hasCompression && c.fileOpen then [.compress] else []) ++
       (if c.hasRetention then [.retention] else [])
     else []
   let create : List Act := if isRotating then [.create] else []
   if Gen.guardIndex < Gen.createIndex then guarded ++ create else create ++ guarded)

end Retention
