import LoguruModel.Generated.Retention
/-
`_string_parsers.parse_duration` for the retention argument – C10's own, self-contained model
(the Rotation area has an equivalent one; this copy lets C10 stand when only rotation code is
rewritten).  The regular expression `(?:([e\+\-\.\d]+)\s*([a-z]+)[\s\,]*)` is transcribed as a
hand-written scanner (its text is pinned by the extractor, which fails closed when it changes); the
unit table is the GENERATED one (`Retention.Gen.durationUnits`, spellings expanded, multipliers in
microseconds).  Numbers are exact decimals – `float` rounding is outside the model.  Character
classes: `\d` = 0-9, `\s`/`strip()` = ASCII white space + U+0085, U+00A0; `re.I` = ASCII folding.
-/
namespace Retention.Dur
open Py

def isSpace (c : Char) : Bool :=
  c == ' ' || c == '\t' || c == '\n' || c == '\r' || c == '\x0b' || c == '\x0c' ||
  c == '\x1c' || c == '\x1d' || c == '\x1e' || c == '\x1f' || c == '\u0085' || c == '\u00a0'

def isDigit (c : Char) : Bool := '0' ≤ c && c ≤ '9'
def isAlpha (c : Char) : Bool := ('a' ≤ c && c ≤ 'z') || ('A' ≤ c && c ≤ 'Z')
def lowerC (c : Char) : Char := if 'A' ≤ c && c ≤ 'Z' then Char.ofNat (c.toNat + 32) else c
def lower (s : Str) : Str := s.map lowerC
def isNumCh (c : Char) : Bool := c == 'e' || c == 'E' || c == '+' || c == '-' || c == '.' || isDigit c

/-- `str.strip()` -/
def strip (s : Str) : Str := ((s.dropWhile isSpace).reverse.dropWhile isSpace).reverse

def digitsVal (ds : Str) : Nat := ds.foldl (fun a c => a * 10 + (c.toNat - '0'.toNat)) 0

/-- an exact rational `num / den`, `den > 0` -/
structure Q where
  num : Int
  den : Nat
  deriving Repr, DecidableEq

def Q.add (a b : Q) : Q := ⟨a.num * b.den + b.num * a.den, a.den * b.den⟩

/-- round half to even, as `timedelta(seconds=float)` rounds to microseconds -/
def Q.roundHalfEven (q : Q) : Int :=
  let d : Int := q.den
  let fl := q.num / d
  let r2 := 2 * (q.num % d)
  if r2 < d then fl else if r2 > d then fl + 1 else (if fl % 2 == 0 then fl else fl + 1)

/-- an exact decimal `m · 10^e` -/
structure Dec where
  m : Int
  e : Int
  deriving Repr, DecidableEq

def splitSign (s : Str) : Bool × Str :=
  match s with
  | '+' :: r => (false, r)
  | '-' :: r => (true, r)
  | _ => (false, s)

/-- `float(s)` for a string over `[e+-.0-9]`: the syntax Python accepts, valued exactly -/
def parseFloat (s : Str) : Option Dec :=
  let (neg, s1) := splitSign s
  let ip := s1.takeWhile isDigit
  let s2 := s1.dropWhile isDigit
  let (fp, s3) := match s2 with
    | '.' :: r => (r.takeWhile isDigit, r.dropWhile isDigit)
    | _ => ([], s2)
  if ip.isEmpty && fp.isEmpty then none else
  let mant : Int := digitsVal (ip ++ fp)
  let mant := if neg then -mant else mant
  let e0 : Int := -(fp.length : Int)
  match s3 with
  | [] => some ⟨mant, e0⟩
  | c :: r =>
    if c == 'e' || c == 'E' then
      let (eneg, r1) := splitSign r
      let ed := r1.takeWhile isDigit
      if ed.isEmpty || !(r1.dropWhile isDigit).isEmpty then none
      else
        let ev : Int := digitsVal ed
        some ⟨mant, e0 + (if eneg then -ev else ev)⟩
    else none

/-- `d · k` as an exact fraction -/
def Dec.scale (d : Dec) (k : Int) : Q :=
  if d.e ≥ 0 then ⟨d.m * 10 ^ d.e.toNat * k, 1⟩ else ⟨d.m * k, 10 ^ (-d.e).toNat⟩

def dropSeps (s : Str) : Str := s.dropWhile (fun c => isSpace c || c == ',')

/-- does `(?:(N+)\s*(L+)[\s,]*)+` match the whole of `s`?  (backtracking over both greedy runs) -/
def fullItems : Nat → Str → Bool
  | 0, _ => false
  | f + 1, s =>
    let maxN := (s.takeWhile isNumCh).length
    (List.range maxN).any fun k0 =>
      let r := (s.drop (maxN - k0)).dropWhile isSpace
      let maxL := (r.takeWhile isAlpha).length
      (List.range maxL).any fun j0 =>
        let r2 := dropSeps (r.drop (maxL - j0))
        r2.isEmpty || fullItems f r2

/-- one item at the head of `s` as `re` finds it first: longest number run that leaves a letter -/
def firstItem (s : Str) : Option (Str × Str × Str) :=
  let maxN := (s.takeWhile isNumCh).length
  (List.range maxN).findSome? fun k0 =>
    let k := maxN - k0
    let r := (s.drop k).dropWhile isSpace
    let unit := r.takeWhile isAlpha
    if unit.isEmpty then none else some (s.take k, unit, dropSeps (r.dropWhile isAlpha))

/-- `re.findall(reg, duration)` -/
def findItems : Nat → Str → List (Str × Str)
  | 0, _ => []
  | _, [] => []
  | f + 1, c :: cs =>
    match firstItem (c :: cs) with
    | some (v, u, rest) => (v, u) :: (if rest.length < (c :: cs).length then findItems f rest else [])
    | none => findItems f cs

def unitOf (u : Str) : List (List Str × Int) → Option Int
  | [] => none
  | (names, v) :: r => if names.contains (lower u) then some v else unitOf u r

/-- the largest magnitude a `timedelta` holds (999999999 days), in microseconds -/
def maxTimedeltaUs : Int := 86399999999999999999

/-- the sum `seconds += value * unit` over the found items, exact, in microseconds -/
def sumItems : List (Str × Str) → Q → Except Err Q
  | [], acc => .ok acc
  | (v, u) :: rest, acc =>
    match parseFloat v with
    | none => .error .valueError                    -- "Invalid float value while parsing duration"
    | some d =>
      match unitOf u Gen.durationUnits with
      | none => .error .valueError                  -- "Invalid unit value while parsing duration"
      | some us => sumItems rest (acc.add (d.scale us))

/-- `parse_duration`: `None`, an error, or the interval in microseconds (exact sum, then rounded
half-even to a microsecond like `timedelta(seconds=…)`; OverflowError beyond timedelta's range) -/
def parseDuration (s0 : Str) : Except Err (Option Int) :=
  let s := strip s0
  if !fullItems (s.length + 1) s then .ok none else
  match sumItems (findItems (s.length + 1) s) ⟨0, 1⟩ with
  | .error e => .error e
  | .ok total =>
    let us := total.roundHalfEven
    if us > maxTimedeltaUs || us < -maxTimedeltaUs - 86400000000 then .error .other else .ok (some us)

end Retention.Dur
