import LoguruModel.Retention.Model
import LoguruModel.Retention.Duration
/-
`FileSink._make_retention_function` – what the `retention=` argument of `add()` denotes.
Durations are exact integers of MICROSECONDS (a `timedelta` holds exactly that); the string branch
goes through C10's own model of `parse_duration` (`Retention.Dur.parseDuration`, every
documented spelling: several units, fractional values, `ms`/`us`), the keyword expressions
`number=…` and `seconds=…` are the GENERATED kernels.  Clock values and modification times of an
age policy built here are microseconds as well.
-/
namespace Retention
open Py

/-- the `retention` argument -/
inductive RetArg where
  | none
  | str (s : Str)
  | int (n : Int)
  | timedelta (us : Int)
  | callable
  | other                     -- any other object
  deriving Repr

/-- the configured policy -/
inductive Configured where
  | noRetention
  | policy (p : Policy)       -- `.age` in microseconds
  | callable
  deriving Repr

/-- `_make_retention_function(retention)` -/
def makeRetention : RetArg → Except Err Configured
  | .none => .ok .noRetention
  | .str s =>
    match Dur.parseDuration s with
    | .error e => .error e
    | .ok Option.none => .error .valueError          -- "Cannot parse retention from: …"
    | .ok (some us) => .ok (.policy (.age (Gen.ageSecondsUs us)))   -- the recursive call on the timedelta
  | .int n => .ok (.policy (.count (Gen.countNumber n)))
  | .timedelta us => .ok (.policy (.age (Gen.ageSecondsUs us)))
  | .callable => .ok .callable
  | .other => .error .typeError

/-- a whole retention pass of a sink configured with `retention=arg` (times in microseconds) -/
def retentionConfigured (path : Str) (arg : RetArg) (nowUs : Int) (entries : List Entry) :
    Except Err (List Entry) :=
  match makeRetention arg with
  | .error e => .error e
  | .ok (.policy p) => retentionOf path p nowUs entries
  | .ok _ => .ok []

/-- the shape `seconds=int(retention.total_seconds())` – kept to state what it would lose -/
def truncSecondsUs (us : Int) : Int := Int.tdiv us 1000000 * 1000000

end Retention
