import LoguruModel.Retention.OwnLemmas
/-
Where the LAST DOT of a rendered file name comes from: a literal `.` of the template, or the inside of
the text a field was rendered to.  Used by `renamed_path_in_family` (Props/C10) to drop the hypothesis
that fields render without dots.
-/
namespace Retention.Lemmas
open Py Py.Glob Retention Retention.Spec

section Generic
variable {α : Type}

theorem splitLastDotG_app (p : α → Bool) (x y : List α) :
    splitLastDotG p (x ++ y) =
      match splitLastDotG p y with
      | some q => some (x ++ q.1, q.2)
      | none => (splitLastDotG p x).map (fun q => (q.1, q.2 ++ y)) := by
  induction x with
  | nil =>
    simp only [List.nil_append, splitLastDotG, Option.map_none]
    cases splitLastDotG p y <;> rfl
  | cons a x ih =>
    simp only [List.cons_append, splitLastDotG, ih]
    cases hy : splitLastDotG p y with
    | some q => simp
    | none =>
      simp only
      cases hx : splitLastDotG p x with
      | some q => simp
      | none =>
        simp only [Option.map_none]
        by_cases hp : p a = true <;> simp [hp]

/-- nothing after the split point is marked, except the split element itself -/
theorem splitLastDotG_tail_unmarked (p : α → Bool) :
    ∀ (l b : List α) (x : α) (a : List α), splitLastDotG p l = some (b, x :: a) → ∀ y ∈ a, p y = false := by
  intro l
  induction l with
  | nil => intro b x a h; simp [splitLastDotG] at h
  | cons c r ih =>
    intro b x a h
    simp only [splitLastDotG] at h
    cases hr : splitLastDotG p r with
    | some q =>
      obtain ⟨q1, q2⟩ := q
      rw [hr] at h
      simp at h
      exact ih q1 x a (by rw [hr, h.2])
    | none =>
      rw [hr] at h
      by_cases hp : p c = true
      · simp [hp] at h
        obtain ⟨_, h2, h3⟩ := h
        subst h3
        -- no element of r is marked, since splitting r found nothing
        have hnone : ∀ (l : List α), splitLastDotG p l = none → ∀ y ∈ l, p y = false := by
          intro l
          induction l with
          | nil => intro _ y hy; simp at hy
          | cons d l ihl =>
            intro hl y hy
            simp only [splitLastDotG] at hl
            cases hl' : splitLastDotG p l with
            | some q => rw [hl'] at hl; simp at hl
            | none =>
              rw [hl'] at hl
              by_cases hd : p d = true
              · simp [hd] at hl
              · rcases List.mem_cons.mp hy with rfl | hy'
                · simpa using hd
                · exact ihl hl' y hy'
        exact hnone r hr
      · simp [hp] at h

theorem splitLastDotG_none_iff (p : α → Bool) (l : List α) :
    splitLastDotG p l = none ↔ ∀ y ∈ l, p y = false := by
  induction l with
  | nil => simp [splitLastDotG]
  | cons d l ih =>
    simp only [splitLastDotG]
    cases hl : splitLastDotG p l with
    | some q =>
      simp only [reduceCtorEq, false_iff]
      intro hall
      have := ih.mpr (fun y hy => hall y (by simp [hy]))
      rw [hl] at this
      cases this
    | none =>
      have hl' := ih.mp hl
      by_cases hd : p d = true
      · simp [hd]
      · simp [hd]
        exact hl'
end Generic

/-- the last dot of a rendered component is a literal dot of the template or lies inside a rendered field -/
theorem lastdot_decompose :
    ∀ (vf : List FTok) (b t : Str), splitLastDotG isDotC (instantiate vf) = some (b, t) →
      (∃ pre post, vf = pre ++ [FTok.lit '.'] ++ post ∧ b = instantiate pre ∧ t = '.' :: instantiate post) ∨
      (∃ pre s1 s2 post, vf = pre ++ [FTok.fill (s1 ++ '.' :: s2)] ++ post ∧ b = instantiate pre ++ s1 ∧
        t = '.' :: (s2 ++ instantiate post)) := by
  intro vf
  induction vf with
  | nil => intro b t h; simp [instantiate, splitLastDotG] at h
  | cons tok rest ih =>
    intro b t h
    have hinst : instantiate (tok :: rest) = tok.plain ++ instantiate rest := by simp [instantiate]
    rw [hinst, splitLastDotG_app] at h
    cases hr : splitLastDotG isDotC (instantiate rest) with
    | some q =>
      obtain ⟨q1, q2⟩ := q
      rw [hr] at h
      simp only [Option.some.injEq, Prod.mk.injEq] at h
      obtain ⟨hb, ht⟩ := h
      rcases ih q1 q2 hr with ⟨pre, post, hv, hb', ht'⟩ | ⟨pre, s1, s2, post, hv, hb', ht'⟩
      · left
        refine ⟨tok :: pre, post, by simp [hv], ?_, by rw [← ht, ht']⟩
        rw [← hb, hb']; simp [instantiate]
      · right
        refine ⟨tok :: pre, s1, s2, post, by simp [hv], ?_, by rw [← ht, ht']⟩
        rw [← hb, hb']; simp [instantiate]
    | none =>
      rw [hr] at h
      simp only at h
      cases htok : splitLastDotG isDotC tok.plain with
      | none => rw [htok] at h; simp at h
      | some q =>
        obtain ⟨q1, q2⟩ := q
        rw [htok] at h
        simp only [Option.map_some, Option.some.injEq, Prod.mk.injEq] at h
        obtain ⟨hb, ht⟩ := h
        obtain ⟨x, a, hq2, hx⟩ := splitLastG_head isDotC tok.plain q1 q2 htok
        have hx' : x = '.' := by simpa [isDotC] using hx
        subst hx'
        have happ := splitLastDotG_append isDotC tok.plain q1 q2 htok
        cases tok with
        | lit c =>
          left
          simp only [FTok.plain] at happ htok
          -- [c] = q1 ++ '.' :: a  forces q1 = [], a = [], c = '.'
          rw [hq2] at happ
          have hq1 : q1 = [] := by
            cases q1 with
            | nil => rfl
            | cons z zs => simp at happ
          subst hq1
          simp at happ
          obtain ⟨hc, ha⟩ := happ
          subst hc; subst ha
          refine ⟨[], rest, by simp, by rw [← hb]; simp [instantiate], ?_⟩
          rw [← ht, hq2]; simp
        | fill s =>
          right
          simp only [FTok.plain] at happ
          rw [hq2] at happ
          refine ⟨[], q1, a, rest, by simp [happ], by rw [← hb]; simp [instantiate], ?_⟩
          rw [← ht, hq2]; simp

/-- a non-dot character of a rendering comes from a token that is not a literal dot -/
theorem any_nondot_instantiate (pre : List FTok) (h : (instantiate pre).any (fun c => !isDotC c) = true) :
    (pre.map FTok.erase).any (fun a => !isDotT a) = true := by
  induction pre with
  | nil => simp [instantiate] at h
  | cons tok r ih =>
    cases tok with
    | fill s => simp [FTok.erase, isDotT]
    | lit c =>
      simp only [instantiate, List.flatMap_cons, FTok.plain, List.singleton_append, List.any_cons, Bool.or_eq_true] at h
      simp only [List.map_cons, FTok.erase, List.any_cons, Bool.or_eq_true]
      rcases h with h | h
      · left; simpa [isDotT, isDotC] using h
      · right; exact ih (by simpa [instantiate] using h)

/-- a rendering without dots has no literal-dot token -/
theorem no_dot_tokens_of_instantiate (post : List FTok) (h : ∀ c ∈ instantiate post, isDotC c = false) :
    ∀ x ∈ post.map FTok.erase, isDotT x = false := by
  intro x hx
  obtain ⟨tok, htok, rfl⟩ := List.mem_map.mp hx
  cases tok with
  | fill s => rfl
  | lit c =>
    have : c ∈ instantiate post := by
      unfold instantiate
      exact List.mem_flatMap.mpr ⟨.lit c, htok, by simp [FTok.plain]⟩
    simpa [FTok.erase, isDotT, isDotC] using h c this

/-- a rendering whose template is one of the variants is a family member -/
theorem family_of_rendering (toks : List PTok) (w : List FTok) (hw : fillsOk goodFill w)
    (hmem : w.map FTok.erase ∈ variants toks) : familyToks toks (instantiate w) = true := by
  unfold familyToks
  rw [List.any_eq_true]
  refine ⟨w.map FTok.erase, hmem, ?_⟩
  rw [← guarded_eq_plain goodFill w hw]
  exact tokensMatch_guarded goodFill goodFill_spec w

theorem instantiate_append (a b : List FTok) : instantiate (a ++ b) = instantiate a ++ instantiate b := by
  simp [instantiate]

theorem fillsOk_append {good : Str → Bool} (a b : List FTok) :
    fillsOk good (a ++ b) ↔ (fillsOk good a ∧ fillsOk good b) := by
  unfold fillsOk
  constructor
  · intro h; exact ⟨fun s hs => h s (by simp [hs]), fun s hs => h s (by simp [hs])⟩
  · rintro ⟨h1, h2⟩ s hs
    rcases List.mem_append.mp hs with hs | hs
    · exact h1 s hs
    · exact h2 s hs

/-- the directory part and the file part of a rendered path are the renderings of the two parts of the template -/
theorem splitLastSep_instantiate (v : List FTok) (hv : fillsOk goodFill v) :
    splitLastSepG isSepC (instantiate v) =
      (instantiate (splitLastSepG isSepF v).1, instantiate (splitLastSepG isSepF v).2) ∧
    splitLastSepG isSepT (v.map FTok.erase) =
      ((splitLastSepG isSepF v).1.map FTok.erase, (splitLastSepG isSepF v).2.map FTok.erase) := by
  have happ := splitLastSepG_append isSepF v
  have hv' : fillsOk goodFill ((splitLastSepG isSepF v).1 ++ (splitLastSepG isSepF v).2) := by rw [happ]; exact hv
  rw [fillsOk_append] at hv'
  constructor
  · have h := splitLastSepG_flatMap (guarded_compat_sep goodFill goodFill_spec) v
    rw [guarded_eq_plain goodFill v hv, guarded_eq_plain goodFill _ hv'.1, guarded_eq_plain goodFill _ hv'.2] at h
    exact h
  · have h := splitLastSepG_flatMap erase_compat_sep v
    simp only [flatMap_singleton_map] at h
    exact h

/-- **Core of the rename theorem**, on templates: for every rendering `v` (fields: any non-empty text without `/`)
and every inserted text, `root ++ "." ++ ins ++ ext` with `(root, ext) = splitext (rendered name)` is a
member of the family of the template – whether the extension's dot is a literal of the template or lies
inside a rendered field -/
theorem renamed_core (v : List FTok) (hv : fillsOk goodFill v) (ins : Str) (hins : goodFill ins = true) :
    familyToks (v.map FTok.erase)
      ((splitext (instantiate v)).1 ++ '.' :: ins ++ (splitext (instantiate v)).2) = true := by
  obtain ⟨hS, hT⟩ := splitLastSep_instantiate v hv
  have happ := splitLastSepG_append isSepF v
  generalize hsp : splitLastSepG isSepF v = sp at hS hT happ
  obtain ⟨vd, vf⟩ := sp
  simp only at hS hT happ
  have hvdf : fillsOk goodFill (vd ++ vf) := by rw [happ]; exact hv
  have hvd := ((fillsOk_append vd vf).mp hvdf).1
  have hvf := ((fillsOk_append vd vf).mp hvdf).2
  -- the "no extension" outcome: the whole name, then `.ins`
  have noext : (splitext (instantiate v)).2 = [] →
      (splitext (instantiate v)).1 = instantiate v →
      familyToks (v.map FTok.erase)
        ((splitext (instantiate v)).1 ++ '.' :: ins ++ (splitext (instantiate v)).2) = true := by
    intro h2 h1
    rw [h1, h2, List.append_nil]
    have : instantiate v ++ '.' :: ins = instantiate (v ++ [FTok.lit '.', FTok.fill ins]) := by
      simp [instantiate, FTok.plain]
    rw [this]
    apply family_of_rendering
    · rw [fillsOk_append]
      refine ⟨hv, ?_⟩
      intro s hs
      simp at hs
      rw [hs]; exact hins
    · simp only [variants, List.map_append, List.map_cons, List.map_nil, FTok.erase]
      split <;> simp [dotAny]
  have hsx : splitext (instantiate v) =
      (instantiate vd ++ (splitextFileG isDotC (instantiate vf)).1, (splitextFileG isDotC (instantiate vf)).2) := by
    unfold splitext splitextG
    rw [hS]
  unfold splitextFileG at hsx
  cases hL : splitLastDotG isDotC (instantiate vf) with
  | none =>
    rw [hL] at hsx
    simp only at hsx
    apply noext
    · rw [hsx]
    · rw [hsx, ← instantiate_append, happ]
  | some q =>
    obtain ⟨b, t⟩ := q
    rw [hL] at hsx
    simp only at hsx
    by_cases hcond : b.any (fun a => !isDotC a) = true
    · rw [if_pos hcond] at hsx
      rcases lastdot_decompose vf b t hL with ⟨pre, post, hvf', hb, ht⟩ | ⟨pre, s1, s2, post, hvf', hb, ht⟩
      · -- the dot is a literal of the template: the same split on the template
        have hpost_nodot : ∀ c ∈ instantiate post, isDotC c = false :=
          splitLastDotG_tail_unmarked isDotC (instantiate vf) b '.' (instantiate post) (by rw [hL, ht])
        have hTpost : splitLastDotG isDotT (post.map FTok.erase) = none :=
          (splitLastDotG_none_iff isDotT _).mpr (no_dot_tokens_of_instantiate post hpost_nodot)
        have hTf : splitLastDotG isDotT (vf.map FTok.erase) =
            some (pre.map FTok.erase, PTok.lit '.' :: post.map FTok.erase) := by
          rw [hvf']
          simp only [List.map_append, List.map_cons, List.map_nil, FTok.erase, List.append_assoc]
          rw [splitLastDotG_app, splitLastDotG_app, hTpost]
          simp [splitLastDotG, isDotT]
        have hTcond : (pre.map FTok.erase).any (fun a => !isDotT a) = true :=
          any_nondot_instantiate pre (by rw [← hb]; exact hcond)
        have hTsx : splitextG isSepT isDotT (v.map FTok.erase) =
            (vd.map FTok.erase ++ pre.map FTok.erase, PTok.lit '.' :: post.map FTok.erase) := by
          unfold splitextG
          rw [hT]
          simp only
          unfold splitextFileG
          rw [hTf]
          simp [hTcond]
        let w : List FTok := vd ++ pre ++ [FTok.lit '.', FTok.fill ins] ++ (FTok.lit '.' :: post)
        have hname : (splitext (instantiate v)).1 ++ '.' :: ins ++ (splitext (instantiate v)).2 = instantiate w := by
          rw [hsx]
          simp [w, instantiate, FTok.plain, hb, ht]
        rw [hname]
        apply family_of_rendering
        · have hpp : fillsOk goodFill (pre ++ [FTok.lit '.'] ++ post) := by rw [← hvf']; exact hvf
          rw [fillsOk_append, fillsOk_append] at hpp
          intro s hs
          simp only [w, List.mem_append, List.mem_cons, List.mem_nil_iff, or_false] at hs
          rcases hs with ((hs | hs) | hs) | hs
          · exact hvd s hs
          · exact hpp.1.1 s hs
          · rcases hs with hs | hs
            · cases hs
            · cases hs; exact hins
          · rcases hs with hs | hs
            · cases hs
            · exact hpp.2 s hs
        · simp only [variants, hTsx]
          simp [w, dotAny, FTok.erase]
      · -- the dot lies inside a rendered field: the field absorbs the insertion
        let w : List FTok := vd ++ pre ++ [FTok.fill (s1 ++ '.' :: ins ++ '.' :: s2)] ++ post
        have hname : (splitext (instantiate v)).1 ++ '.' :: ins ++ (splitext (instantiate v)).2 = instantiate w := by
          rw [hsx]
          simp [w, instantiate, FTok.plain, hb, ht]
        rw [hname]
        have hpp : fillsOk goodFill (pre ++ [FTok.fill (s1 ++ '.' :: s2)] ++ post) := by rw [← hvf']; exact hvf
        rw [fillsOk_append, fillsOk_append] at hpp
        have hs12 := goodFill_spec _ (hpp.1.2 (s1 ++ '.' :: s2) (by simp))
        have hi := goodFill_spec ins hins
        apply family_of_rendering
        · intro s hs
          simp only [w, List.mem_append, List.mem_cons, List.mem_nil_iff, or_false] at hs
          rcases hs with ((hs | hs) | hs) | hs
          · exact hvd s hs
          · exact hpp.1.1 s hs
          · cases hs
            unfold goodFill
            simp only [Bool.and_eq_true, Bool.not_eq_true', List.any_eq_false]
            refine ⟨by simp, ?_⟩
            intro c hc
            simp only [List.mem_append, List.mem_cons] at hc
            have hsep : isSepC c = false := by
              rcases hc with (hc | hc | hc) | hc | hc
              · exact hs12.2 c (by simp [hc])
              · subst hc; decide
              · exact hi.2 c hc
              · subst hc; decide
              · exact hs12.2 c (by simp [hc])
            simpa using hsep
          · exact hpp.2 s hs
        · have : w.map FTok.erase = v.map FTok.erase := by
            rw [← happ, hvf']
            simp [w, FTok.erase]
          rw [this]
          simp only [variants]
          split <;> simp
    · rw [if_neg hcond] at hsx
      apply noext
      · rw [hsx]
      · rw [hsx, ← instantiate_append, happ]

end Retention.Lemmas
