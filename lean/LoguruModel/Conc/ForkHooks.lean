/-
C15 – the at-fork hooks of `_locks_machinery.py` against concurrent `add()`: the hooks ITERATE the weak sets
`handler_locks` / `queue_locks` (`for lock in handler_locks: lock.acquire()` … `lock.release()`), and a set that
grows while it is being iterated makes the hook fail with `RuntimeError: Set changed size during iteration`
(ignored by the interpreter: the remaining locks are then neither acquired nor – in `release_locks` – released:
defect F25, seeds C15-b and C15-f).

Why the sets cannot change: every registration of a handler/queue lock happens inside `Handler.__init__`, which
`add()` runs while it holds the logger lock (`lockedConstruct`, read from the AST of `Logger.add`), and the hooks
hold the logger lock during BOTH iterations: `acquire_locks` takes the logger locks FIRST (`loggerFirst`) and
`release_locks` releases them LAST (`loggerLast`) – both read from the AST of `_locks_machinery.py`.  The model
below takes the three facts as parameters; `Props/C15.lean` instantiates them with the generated values.

State: the logger lock, the size of the iterated set (locks are only ever added here; the removal of a dead
lock from a WeakSet is deferred by the set's iteration guard and never raises), one program counter per thread.
An iteration is `iterBegin` (remember the size) … `iterEnd` (the size must still be the same).
-/
namespace ForkHooks

abbrev Tid := Nat

inductive Lab where
  | startFork | startAdd
  | acq | rel                 -- the logger lock
  | iterBegin | iterEnd       -- one pass of a hook over the handler/queue lock sets
  | fork                      -- the fork point (between `before` and `after_in_parent`/`after_in_child`)
  | register                  -- `create_handler_lock()` / `create_queue_lock()` inside `Handler.__init__`
  deriving DecidableEq, Repr

inductive Pc where
  | idle
  -- acquire_locks(): f0 start; f1 before the pass (logger lock first) / after it (logger lock last);
  -- fA n pass in progress over a set that had n elements; f2 everything acquired
  | f0 | f1 | fA (n : Nat) | f2
  -- release_locks(): f3 fork point passed; fR n pass in progress; f4 pass done / logger lock released first
  | f3 | fR (n : Nat) | f4
  -- add(): a0 start; a1 holds the logger lock; a2 lock registered; a3 registered early, now holds the logger lock
  | a0 | a1 | a2 | a3
  deriving DecidableEq, Repr

structure St where
  lock : Option Tid := none
  nlocks : Nat := 0
  pc : Tid → Pc := fun _ => .idle
  /-- ghost: some hook saw the set change under its feet (RuntimeError inside an at-fork hook) -/
  iterErr : Bool := false
  /-- ghost: number of completed forks -/
  forks : Nat := 0

def upd (f : Nat → Pc) (k : Nat) (v : Pc) : Nat → Pc := fun u => if u = k then v else f u

@[simp] theorem upd_same (f : Nat → Pc) (k : Nat) (v : Pc) : upd f k v k = v := by simp [upd]
@[simp] theorem upd_other (f : Nat → Pc) (k : Nat) (v : Pc) (u : Nat) (h : u ≠ k) : upd f k v u = f u := by
  simp [upd, h]

def setPc (s : St) (t : Tid) (p : Pc) : St := { s with pc := upd s.pc t p }

/-- the hooks.  `loggerFirst`: acquire_locks takes the logger locks before it iterates the other sets;
`loggerLast`: release_locks releases them after it has iterated the other sets. -/
def stepF (loggerFirst loggerLast : Bool) (s : St) (t : Tid) (lab : Lab) : Option St :=
  match s.pc t, lab with
  | .idle, .startFork => some (setPc s t .f0)
  -- ---------------------------------------------------------------- acquire_locks()
  | .f0, .acq =>
      if loggerFirst then (if s.lock = none then some { setPc s t .f1 with lock := some t } else none) else none
  | .f0, .iterBegin => if loggerFirst then none else some (setPc s t (.fA s.nlocks))
  | .f1, .iterBegin => if loggerFirst then some (setPc s t (.fA s.nlocks)) else none
  | .fA n, .iterEnd =>
      some { setPc s t (if loggerFirst then .f2 else .f1) with iterErr := s.iterErr || !(decide (n = s.nlocks)) }
  | .f1, .acq =>      -- only when the logger lock comes last
      if loggerFirst then none else (if s.lock = none then some { setPc s t .f2 with lock := some t } else none)
  | .f2, .fork => some { setPc s t .f3 with forks := s.forks + 1 }
  -- ---------------------------------------------------------------- release_locks()
  | .f3, .iterBegin => if loggerLast then some (setPc s t (.fR s.nlocks)) else none
  | .f3, .rel => if loggerLast then none else some { setPc s t .f4 with lock := none }
  | .f4, .iterBegin => if loggerLast then none else some (setPc s t (.fR s.nlocks))
  | .fR n, .iterEnd =>
      some { setPc s t (if loggerLast then .f4 else .idle) with iterErr := s.iterErr || !(decide (n = s.nlocks)) }
  | .f4, .rel => if loggerLast then some { setPc s t .idle with lock := none } else none
  | _, _ => none

/-- add().  `lockedConstruct`: the Handler (which registers its locks) is built while holding the logger lock. -/
def stepA (lockedConstruct : Bool) (s : St) (t : Tid) (lab : Lab) : Option St :=
  match s.pc t, lab with
  | .idle, .startAdd => some (setPc s t .a0)
  | .a0, .acq =>
      if lockedConstruct then (if s.lock = none then some { setPc s t .a1 with lock := some t } else none) else none
  | .a0, .register => if lockedConstruct then none else some { setPc s t .a2 with nlocks := s.nlocks + 1 }
  | .a1, .register => some { setPc s t .a2 with nlocks := s.nlocks + 1 }
  | .a2, .acq =>
      if lockedConstruct then none else (if s.lock = none then some { setPc s t .a3 with lock := some t } else none)
  | .a2, .rel => if lockedConstruct then some { setPc s t .idle with lock := none } else none
  | .a3, .rel => some { setPc s t .idle with lock := none }
  | _, _ => none

def step (loggerFirst loggerLast lockedConstruct : Bool) (s : St) (t : Tid) (lab : Lab) : Option St :=
  match stepF loggerFirst loggerLast s t lab with
  | some s' => some s'
  | none => stepA lockedConstruct s t lab

def run (lf ll lc : Bool) (s : St) : List (Tid × Lab) → St
  | [] => s
  | (t, lab) :: rest =>
    match step lf ll lc s t lab with
    | some s' => run lf ll lc s' rest
    | none => run lf ll lc s rest

/-- program counters at which the thread holds the logger lock, for the shape (true, true, true) -/
def holds : Pc → Bool
  | .f1 | .fA _ | .f2 | .f3 | .fR _ | .f4 | .a1 | .a2 => true
  | _ => false

/-- the invariant of the shape of the code: lock owner ↔ program counter; a pass in progress remembers the
current size of the set; nothing has gone wrong -/
structure Inv (s : St) : Prop where
  l1 : ∀ t, holds (s.pc t) = true → s.lock = some t
  l2 : ∀ t, s.lock = some t → holds (s.pc t) = true
  sz : ∀ t n, (s.pc t = .fA n ∨ s.pc t = .fR n) → n = s.nlocks
  na : ∀ t, s.pc t ≠ .a3
  ok : s.iterErr = false

theorem inv_init : Inv ({} : St) := by
  constructor <;> simp [holds]

/-- one step seen from the invariant: `t` moves to `p'`; the lock changes hands only to/from `t`; the set grows
only while `t` holds the lock -/
theorem inv_of {s s' : St} {t : Tid} {p' : Pc} (h : Inv s) (hpc : s'.pc = upd s.pc t p')
    (hl1 : holds p' = true → s'.lock = some t) (hl2 : s'.lock = some t → holds p' = true)
    (hlo : ∀ u, u ≠ t → (s'.lock = some u ↔ s.lock = some u))
    (hsz : ∀ n, (p' = .fA n ∨ p' = .fR n) → n = s'.nlocks)
    (hn : s'.nlocks = s.nlocks ∨ (∀ u, u ≠ t → holds (s.pc u) = false))
    (hna : p' ≠ .a3) (hok : s'.iterErr = false) : Inv s' := by
  obtain ⟨l1, l2, sz, na, ok⟩ := h
  refine ⟨?_, ?_, ?_, ?_, hok⟩
  · intro u hu; rw [hpc] at hu
    by_cases e : u = t
    · subst e; simp at hu; exact hl1 hu
    · simp [e] at hu; exact (hlo u e).mpr (l1 u hu)
  · intro u hu; rw [hpc]
    by_cases e : u = t
    · subst e; simp; exact hl2 hu
    · simp [e]; exact l2 u ((hlo u e).mp hu)
  · intro u n hu; rw [hpc] at hu
    by_cases e : u = t
    · subst e; simp at hu; exact hsz n hu
    · simp [e] at hu
      have := sz u n hu
      rcases hn with hn | hn
      · rw [hn]; exact this
      · exfalso
        have hf := hn u e
        rcases hu with hu | hu <;> rw [hu] at hf <;> simp [holds] at hf
  · intro u hu; rw [hpc] at hu
    by_cases e : u = t
    · subst e; simp at hu; exact hna hu
    · simp [e] at hu; exact na u hu

theorem inv_facts {s : St} (h : Inv s) (t : Tid) :
    (holds (s.pc t) = true → ∀ u, u ≠ t → holds (s.pc u) = false) ∧
    (s.lock = none → holds (s.pc t) = false) := by
  refine ⟨?_, ?_⟩
  · intro ht u e
    cases hu : holds (s.pc u)
    · rfl
    · have a := h.l1 u hu; have b := h.l1 t ht; rw [a] at b; exact absurd (Option.some.inj b) e
  · intro hf; cases ht : holds (s.pc t)
    · rfl
    · have := h.l1 t ht; rw [hf] at this; cases this

theorem inv_stepF {s s' : St} {t : Tid} {lab : Lab} (h : Inv s) (hs : stepF true true s t lab = some s') :
    Inv s' := by
  obtain ⟨others, free⟩ := inv_facts h t
  have own : holds (s.pc t) = true → s.lock = some t := h.l1 t
  have notown : holds (s.pc t) = false → ¬ s.lock = some t := fun hf hl => by
    have := h.l2 t hl; rw [hf] at this; cases this
  have szt := h.sz t
  have ok := h.ok
  unfold stepF at hs
  split at hs <;> (try (simp only [reduceCtorEq] at hs; done)) <;> (repeat' split at hs) <;>
    (try (simp only [reduceCtorEq] at hs; done)) <;>
    (simp only [Option.some.injEq] at hs; subst hs) <;>
    (first
      | (exfalso; simp at *; done)
      | (refine inv_of h rfl ?_ ?_ ?_ ?_ ?_ ?_ ?_ <;> simp_all [holds, setPc] <;>
          (try (intro u hu e; exact hu e.symm))))

theorem inv_stepA {s s' : St} {t : Tid} {lab : Lab} (h : Inv s) (hs : stepA true s t lab = some s') :
    Inv s' := by
  obtain ⟨others, free⟩ := inv_facts h t
  have own : holds (s.pc t) = true → s.lock = some t := h.l1 t
  have notown : holds (s.pc t) = false → ¬ s.lock = some t := fun hf hl => by
    have := h.l2 t hl; rw [hf] at this; cases this
  have nat := h.na t
  have ok := h.ok
  unfold stepA at hs
  split at hs <;> (try (simp only [reduceCtorEq] at hs; done)) <;> (repeat' split at hs) <;>
    (try (simp only [reduceCtorEq] at hs; done)) <;>
    (simp only [Option.some.injEq] at hs; subst hs) <;>
    (first
      | (exfalso; simp at *; done)
      | (refine inv_of h rfl ?_ ?_ ?_ ?_ ?_ ?_ ?_ <;> simp_all [holds, setPc] <;>
          (try (intro u hu e; exact hu e.symm))))

theorem inv_step {s s' : St} {t : Tid} {lab : Lab} (h : Inv s) (hs : step true true true s t lab = some s') :
    Inv s' := by
  unfold step at hs
  split at hs
  · rename_i x hx; simp only [Option.some.injEq] at hs; subst hs; exact inv_stepF h hx
  · exact inv_stepA h hs

theorem inv_run_from (s : St) (h : Inv s) (sched : List (Tid × Lab)) : Inv (run true true true s sched) := by
  induction sched generalizing s with
  | nil => exact h
  | cons x xs ih =>
    obtain ⟨t, lab⟩ := x
    simp only [run]
    cases hs : step true true true s t lab with
    | some s' => exact ih s' (inv_step h hs)
    | none => exact ih s h

theorem inv_run (sched : List (Tid × Lab)) : Inv (run true true true {} sched) :=
  inv_run_from {} inv_init sched

end ForkHooks
