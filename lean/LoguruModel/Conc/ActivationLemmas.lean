import LoguruModel.Conc.Activation
/-
C02 – invariant of the activation publication protocol for the order of the code
(`activation_list` published before `enabled`).
-/
namespace Activation

def holdsLock : Pc → Bool
  | .c1 | .c2 _ | .c3 _ | .c4 => true
  | _ => false

/-- facts attached to a program counter -/
def pcInv (s : St) (t : Tid) : Pc → Prop
  | .c2 d => (s.dicts d).birth = s.act + 1 ∧ d < s.nextDict ∧ d ∉ s.published ∧
             (∀ v, (s.dicts d).entry = some v → v = s.act + 1)
  | .c3 d => (s.dicts d).birth = s.act ∧ d < s.nextDict ∧ d ∉ s.published ∧
             (∀ v, (s.dicts d).entry = some v → s.act ≤ v)
  | .c4 => (s.dicts s.en).birth = s.act
  | .l1 d => d ∈ s.published
  | .l2 d => d ∈ s.published ∧ (s.dicts d).birth ≤ s.act ∧ s.startRet t ≤ (s.dicts d).birth
  | .l3 d v => d ∈ s.published ∧ (s.dicts d).birth ≤ v ∧ s.startRet t ≤ v
  | .l4 v => s.startRet t ≤ v
  | _ => True

structure Inv (s : St) : Prop where
  k1 : ∀ t, holdsLock (s.pc t) = true → s.lock = some t
  k2 : ∀ t, s.lock = some t → holdsLock (s.pc t) = true
  j1 : ∀ d v, (s.dicts d).entry = some v → (s.dicts d).birth ≤ v
  j2 : (s.dicts s.en).birth ≤ s.act
  j3 : s.returned ≤ (s.dicts s.en).birth
  j5 : s.en ∈ s.published ∧ ∀ d ∈ s.published, d < s.nextDict
  j6 : ∀ t, s.startRet t ≤ s.returned
  j7 : ∀ r v, (r, v) ∈ s.results → r ≤ v
  pcs : ∀ t, pcInv s t (s.pc t)

theorem inv_init : Inv ({} : St) := by
  constructor <;> simp [holdsLock, pcInv]

macro "act_arms" hs:ident : tactic => `(tactic| (
  unfold step at $hs:ident
  split at $hs:ident <;> (try (simp only [reduceCtorEq] at $hs:ident; done)) <;>
    (repeat' split at $hs:ident) <;> (try (simp only [reduceCtorEq] at $hs:ident; done)) <;>
    (simp only [Option.some.injEq] at $hs:ident; subst $hs:ident; (try subst_vars))))

macro "act_simp" : tactic => `(tactic|
  simp_all [setPc, upd, holdsLock, pcInv])

theorem step_k1 {s s' : St} {t : Tid} {lab : Lab} (h : Inv s) (hs : step true s t lab = some s') :
    ∀ u, holdsLock (s'.pc u) = true → s'.lock = some u := by
  have k1 := h.k1; have k2 := h.k2
  have k1t := k1 t; have k2t := k2 t
  act_arms hs <;> (intro u hu; have := k1 u; by_cases e : u = t <;> act_simp)

theorem step_k2 {s s' : St} {t : Tid} {lab : Lab} (h : Inv s) (hs : step true s t lab = some s') :
    ∀ u, s'.lock = some u → holdsLock (s'.pc u) = true := by
  have k1 := h.k1; have k2 := h.k2
  have k1t := k1 t; have k2t := k2 t
  act_arms hs <;> (intro u hu; have := k2 u; by_cases e : u = t <;> act_simp)

macro "g_simp" : tactic => `(tactic|
  simp_all [setPc, upd, pcInv])

theorem step_j1 {s s' : St} {t : Tid} {lab : Lab} (h : Inv s) (hs : step true s t lab = some s') :
    ∀ d v, (s'.dicts d).entry = some v → (s'.dicts d).birth ≤ v := by
  have j1 := h.j1; have pt := h.pcs t
  act_arms hs <;> (simp only [pcInv, *] at pt; intro d v hv; have := j1 d v; have := j1 s.en; g_simp <;> (try grind) <;>
     (try (split at hv <;> simp_all [Option.map_eq_some_iff] <;> omega)))

theorem step_j2 {s s' : St} {t : Tid} {lab : Lab} (h : Inv s) (hs : step true s t lab = some s') :
    (s'.dicts s'.en).birth ≤ s'.act := by
  have j2 := h.j2; have pt := h.pcs t; have j5 := h.j5
  act_arms hs <;> (simp only [pcInv, *] at pt; g_simp <;> (try omega) <;> (try grind))

theorem step_j3 {s s' : St} {t : Tid} {lab : Lab} (h : Inv s) (hs : step true s t lab = some s') :
    s'.returned ≤ (s'.dicts s'.en).birth := by
  have j3 := h.j3; have j2 := h.j2; have pt := h.pcs t; have j5 := h.j5
  act_arms hs <;> (simp only [pcInv, *] at pt; g_simp <;> (try omega) <;> (try grind))

theorem step_j5 {s s' : St} {t : Tid} {lab : Lab} (h : Inv s) (hs : step true s t lab = some s') :
    s'.en ∈ s'.published ∧ ∀ d ∈ s'.published, d < s'.nextDict := by
  have j5 := h.j5; have pt := h.pcs t
  act_arms hs <;> (simp only [pcInv, *] at pt; g_simp <;> (try omega) <;> (try grind))

theorem step_j6 {s s' : St} {t : Tid} {lab : Lab} (h : Inv s) (hs : step true s t lab = some s') :
    ∀ u, s'.startRet u ≤ s'.returned := by
  have j6 := h.j6; have j3 := h.j3; have j2 := h.j2; have pt := h.pcs t
  act_arms hs <;>
    (simp only [pcInv, *] at pt; intro u; have := j6 u; g_simp <;> (try split) <;> (try omega) <;> (try grind))

theorem step_j7 {s s' : St} {t : Tid} {lab : Lab} (h : Inv s) (hs : step true s t lab = some s') :
    ∀ r v, (r, v) ∈ s'.results → r ≤ v := by
  have j7 := h.j7; have pt := h.pcs t
  act_arms hs <;>
    (simp only [pcInv, *] at pt; intro r v hr; have := j7 r v; g_simp <;> (try omega) <;> (try grind))

theorem step_pcs_self {s s' : St} {t : Tid} {lab : Lab} (h : Inv s) (hs : step true s t lab = some s') :
    pcInv s' t (s'.pc t) := by
  obtain ⟨_, _, j1, j2, j3, j5, j6, j7, pcs⟩ := h
  have pt := pcs t
  have j1e := j1 s.en
  have j6t := j6 t
  act_arms hs <;> (simp only [pcInv, *] at pt; g_simp <;> (try omega) <;> (try grind))

theorem step_pc_other {s s' : St} {t : Tid} {lab : Lab} (hs : step true s t lab = some s') :
    ∀ u, u ≠ t → s'.pc u = s.pc u := by
  intro u e
  act_arms hs <;> simp [setPc, upd, e]

theorem step_startRet_other {s s' : St} {t : Tid} {lab : Lab} (hs : step true s t lab = some s') :
    ∀ u, u ≠ t → s'.startRet u = s.startRet u := by
  intro u e
  act_arms hs <;> simp [setPc, upd, e]

theorem other_c2 {s s' : St} {t : Tid} {lab : Lab} (h : Inv s) (hs : step true s t lab = some s')
    (u : Tid) (e : u ≠ t) (d : Nat) (hq : s.pc u = .c2 d) : pcInv s' u (.c2 d) := by
  obtain ⟨k1, k2, j1, j2, j3, j5, j6, j7, pcs⟩ := h
  have pu := pcs u
  have pt := pcs t
  have sr := step_startRet_other hs u e
  have lku := k1 u
  have lkt := k1 t
  rw [hq] at pu lku
  simp only [pcInv] at pu ⊢
  act_arms hs <;>
    (simp only [pcInv, *] at pt
     simp_all [setPc, upd, holdsLock]
     all_goals (try omega)
     all_goals (try grind))

theorem other_c3 {s s' : St} {t : Tid} {lab : Lab} (h : Inv s) (hs : step true s t lab = some s')
    (u : Tid) (e : u ≠ t) (d : Nat) (hq : s.pc u = .c3 d) : pcInv s' u (.c3 d) := by
  obtain ⟨k1, k2, j1, j2, j3, j5, j6, j7, pcs⟩ := h
  have pu := pcs u
  have pt := pcs t
  have sr := step_startRet_other hs u e
  have lku := k1 u
  have lkt := k1 t
  rw [hq] at pu lku
  simp only [pcInv] at pu ⊢
  act_arms hs <;>
    (simp only [pcInv, *] at pt
     simp_all [setPc, upd, holdsLock]
     all_goals (try omega)
     all_goals (try grind))

theorem other_c4 {s s' : St} {t : Tid} {lab : Lab} (h : Inv s) (hs : step true s t lab = some s')
    (u : Tid) (e : u ≠ t)  (hq : s.pc u = .c4) : pcInv s' u (.c4) := by
  obtain ⟨k1, k2, j1, j2, j3, j5, j6, j7, pcs⟩ := h
  have pu := pcs u
  have pt := pcs t
  have sr := step_startRet_other hs u e
  have lku := k1 u
  have lkt := k1 t
  rw [hq] at pu lku
  simp only [pcInv] at pu ⊢
  act_arms hs <;>
    (simp only [pcInv, *] at pt
     simp_all [setPc, upd, holdsLock]
     all_goals (try omega)
     all_goals (try grind))

theorem other_l1 {s s' : St} {t : Tid} {lab : Lab} (h : Inv s) (hs : step true s t lab = some s')
    (u : Tid) (e : u ≠ t) (d : Nat) (hq : s.pc u = .l1 d) : pcInv s' u (.l1 d) := by
  obtain ⟨k1, k2, j1, j2, j3, j5, j6, j7, pcs⟩ := h
  have pu := pcs u
  have pt := pcs t
  have sr := step_startRet_other hs u e
  have lku := k1 u
  have lkt := k1 t
  rw [hq] at pu lku
  simp only [pcInv] at pu ⊢
  act_arms hs <;>
    (simp only [pcInv, *] at pt
     simp_all [setPc, upd, holdsLock]
     all_goals (try omega)
     all_goals (try grind))

theorem other_l2 {s s' : St} {t : Tid} {lab : Lab} (h : Inv s) (hs : step true s t lab = some s')
    (u : Tid) (e : u ≠ t) (d : Nat) (hq : s.pc u = .l2 d) : pcInv s' u (.l2 d) := by
  obtain ⟨k1, k2, j1, j2, j3, j5, j6, j7, pcs⟩ := h
  have pu := pcs u
  have pt := pcs t
  have sr := step_startRet_other hs u e
  have lku := k1 u
  have lkt := k1 t
  rw [hq] at pu lku
  simp only [pcInv] at pu ⊢
  act_arms hs <;>
    (simp only [pcInv, *] at pt
     simp_all [setPc, upd, holdsLock]
     all_goals (try omega)
     all_goals (try grind))

theorem other_l3 {s s' : St} {t : Tid} {lab : Lab} (h : Inv s) (hs : step true s t lab = some s')
    (u : Tid) (e : u ≠ t) (d v : Nat) (hq : s.pc u = .l3 d v) : pcInv s' u (.l3 d v) := by
  obtain ⟨k1, k2, j1, j2, j3, j5, j6, j7, pcs⟩ := h
  have pu := pcs u
  have pt := pcs t
  have sr := step_startRet_other hs u e
  have lku := k1 u
  have lkt := k1 t
  rw [hq] at pu lku
  simp only [pcInv] at pu ⊢
  act_arms hs <;>
    (simp only [pcInv, *] at pt
     simp_all [setPc, upd, holdsLock]
     all_goals (try omega)
     all_goals (try grind))

theorem other_l4 {s s' : St} {t : Tid} {lab : Lab} (h : Inv s) (hs : step true s t lab = some s')
    (u : Tid) (e : u ≠ t) (v : Nat) (hq : s.pc u = .l4 v) : pcInv s' u (.l4 v) := by
  obtain ⟨k1, k2, j1, j2, j3, j5, j6, j7, pcs⟩ := h
  have pu := pcs u
  have pt := pcs t
  have sr := step_startRet_other hs u e
  have lku := k1 u
  have lkt := k1 t
  rw [hq] at pu lku
  simp only [pcInv] at pu ⊢
  act_arms hs <;>
    (simp only [pcInv, *] at pt
     simp_all [setPc, upd, holdsLock]
     all_goals (try omega)
     all_goals (try grind))

/-- the other threads' facts are stable under a step of `t` -/
theorem step_pcs_other {s s' : St} {t : Tid} {lab : Lab} (h : Inv s) (hs : step true s t lab = some s')
    (u : Tid) (e : u ≠ t) : pcInv s' u (s.pc u) := by
  cases hq : s.pc u with
  | c2 d => exact other_c2 h hs u e d hq
  | c3 d => exact other_c3 h hs u e d hq
  | c4 => exact other_c4 h hs u e hq
  | l1 d => exact other_l1 h hs u e d hq
  | l2 d => exact other_l2 h hs u e d hq
  | l3 d v => exact other_l3 h hs u e d v hq
  | l4 v => exact other_l4 h hs u e v hq
  | _ => simp [pcInv]

theorem inv_step {s s' : St} {t : Tid} {lab : Lab} (h : Inv s) (hs : step true s t lab = some s') : Inv s' := by
  refine ⟨step_k1 h hs, step_k2 h hs, step_j1 h hs, step_j2 h hs, step_j3 h hs, step_j5 h hs, step_j6 h hs,
    step_j7 h hs, ?_⟩
  intro u
  by_cases e : u = t
  · subst e; exact step_pcs_self h hs
  · rw [step_pc_other hs u e]; exact step_pcs_other h hs u e

theorem inv_run (sched : List (Tid × Lab)) : Inv (run true {} sched) := by
  suffices h : ∀ s, Inv s → Inv (run true s sched) from h {} inv_init
  induction sched with
  | nil => intro s h; exact h
  | cons x xs ih =>
    intro s h
    obtain ⟨t, lab⟩ := x
    simp only [run]
    cases hs : step true s t lab with
    | some s' => exact ih s' (inv_step h hs)
    | none => exact ih s h

end Activation
