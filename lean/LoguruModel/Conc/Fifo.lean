import LoguruModel.Conc.Data
/-
C02 – per-thread FIFO and at-most-once delivery, as an invariant over the ghost `sink` / `started` histories.
-/
namespace Conc

/-- message of the logging call a thread is in -/
def logMsg : Pc → Option Nat
  | .l0 m | .l1 m | .lL m _ _ | .e1 m _ _ _ | .e2 m _ _ _ _ | .e3 m _ _ _ | .e4 m _ _ _ => some m
  | _ => none

/-- handlers the current logging call has already written to -/
def written : Pc → List Hid
  | .lL _ _ wr | .e1 _ _ _ wr | .e2 _ _ _ wr _ => wr
  | .e3 _ h _ wr | .e4 _ h _ wr => h :: wr
  | _ => []

/-- what thread `t` has written to the sink of handler `h`, newest first -/
def seqOf (s : St) (t : Tid) (h : Hid) : List Nat := ((s.sink h).filter (fun e => e.1 == t)).map (·.2)

structure FifoInv (s : St) : Prop where
  hd : ∀ t m, logMsg (s.pc t) = some m → ∃ rest, s.started t = m :: rest
  o1 : ∀ t h m, logMsg (s.pc t) = some m → h ∈ written (s.pc t) →
        ∃ L', seqOf s t h = m :: L' ∧ L'.Sublist (s.started t).tail
  o2 : ∀ t h m, logMsg (s.pc t) = some m → h ∉ written (s.pc t) → (seqOf s t h).Sublist (s.started t).tail
  o3 : ∀ t h, logMsg (s.pc t) = none → (seqOf s t h).Sublist (s.started t)

theorem fifoInv_init : FifoInv ({} : St) := by
  constructor <;> simp [logMsg, written, seqOf]

/-- steps that change neither the sinks nor the `started` histories nor what the moving thread's pc says
about its logging call -/
theorem fifo_move {s s' : St} {t : Tid} {p' : Pc} (h : FifoInv s)
    (hpc : s'.pc = upd s.pc t p') (hsink : s'.sink = s.sink) (hst : s'.started = s.started)
    (hm : logMsg p' = logMsg (s.pc t)) (hw : written p' = written (s.pc t)) : FifoInv s' := by
  have hseq : ∀ u k, seqOf s' u k = seqOf s u k := by intro u k; simp [seqOf, hsink]
  constructor
  · intro u m hu; rw [hst]; rw [hpc] at hu
    by_cases e : u = t
    · subst e; simp at hu; exact h.hd u m (hm ▸ hu)
    · simp [e] at hu; exact h.hd u m hu
  · intro u k m hu hk; rw [hseq, hst]; rw [hpc] at hu hk
    by_cases e : u = t
    · subst e; simp at hu hk; exact h.o1 u k m (hm ▸ hu) (hw ▸ hk)
    · simp [e] at hu hk; exact h.o1 u k m hu hk
  · intro u k m hu hk; rw [hseq, hst]; rw [hpc] at hu hk
    by_cases e : u = t
    · subst e; simp at hu hk; exact h.o2 u k m (hm ▸ hu) (hw ▸ hk)
    · simp [e] at hu hk; exact h.o2 u k m hu hk
  · intro u k hu; rw [hseq, hst]; rw [hpc] at hu
    by_cases e : u = t
    · subst e; simp at hu; exact h.o3 u k (hm ▸ hu)
    · simp [e] at hu; exact h.o3 u k hu

/-- a logging call begins -/
theorem fifo_start {s s' : St} {t : Tid} {m : Nat} (h : FifoInv s) (hidle : logMsg (s.pc t) = none)
    (hpc : s'.pc = upd s.pc t (.l0 m)) (hsink : s'.sink = s.sink)
    (hst : s'.started = upd s.started t (m :: s.started t)) : FifoInv s' := by
  have hseq : ∀ u k, seqOf s' u k = seqOf s u k := by intro u k; simp [seqOf, hsink]
  constructor
  · intro u m' hu; rw [hst]; rw [hpc] at hu
    by_cases e : u = t
    · subst e; simp [logMsg] at hu; subst hu; exact ⟨s.started u, by simp⟩
    · simp [e] at hu ⊢; exact h.hd u m' hu
  · intro u k m' hu hk; rw [hseq, hst]; rw [hpc] at hu hk
    by_cases e : u = t
    · subst e; simp [written] at hk
    · simp [e] at hu hk ⊢; exact h.o1 u k m' hu hk
  · intro u k m' hu hk; rw [hseq, hst]; rw [hpc] at hu hk
    by_cases e : u = t
    · subst e; simp; exact h.o3 u k hidle
    · simp [e] at hu hk ⊢; exact h.o2 u k m' hu hk
  · intro u k hu; rw [hseq, hst]; rw [hpc] at hu
    by_cases e : u = t
    · subst e; simp [logMsg] at hu
    · simp [e] at hu ⊢; exact h.o3 u k hu

/-- a logging call returns -/
theorem fifo_return {s s' : St} {t : Tid} {m : Nat} (h : FifoInv s) (hin : logMsg (s.pc t) = some m)
    (hpc : s'.pc = upd s.pc t .idle) (hsink : s'.sink = s.sink) (hst : s'.started = s.started) : FifoInv s' := by
  have hseq : ∀ u k, seqOf s' u k = seqOf s u k := by intro u k; simp [seqOf, hsink]
  obtain ⟨rest, hrest⟩ := h.hd t m hin
  constructor
  · intro u m' hu; rw [hst]; rw [hpc] at hu
    by_cases e : u = t
    · subst e; simp [logMsg] at hu
    · simp [e] at hu; exact h.hd u m' hu
  · intro u k m' hu hk; rw [hseq, hst]; rw [hpc] at hu hk
    by_cases e : u = t
    · subst e; simp [logMsg] at hu
    · simp [e] at hu hk; exact h.o1 u k m' hu hk
  · intro u k m' hu hk; rw [hseq, hst]; rw [hpc] at hu hk
    by_cases e : u = t
    · subst e; simp [logMsg] at hu
    · simp [e] at hu hk; exact h.o2 u k m' hu hk
  · intro u k hu; rw [hseq, hst]; rw [hpc] at hu
    by_cases e : u = t
    · subst e
      by_cases hk : k ∈ written (s.pc u)
      · obtain ⟨L', hL, hsub⟩ := h.o1 u k m hin hk
        rw [hL, hrest]; rw [hrest] at hsub; simpa using hsub
      · have := h.o2 u k m hin hk
        rw [hrest] at this ⊢; simp at this; exact List.Sublist.cons _ this
    · simp [e] at hu; exact h.o3 u k hu

/-- a write begins: `(t, m)` is pushed on the sink of `x`, which the current call had not written yet -/
theorem fifo_write {s s' : St} {t : Tid} {m : Nat} {x : Hid} {p' : Pc} (h : FifoInv s)
    (hin : logMsg (s.pc t) = some m) (hnew : x ∉ written (s.pc t))
    (hpc : s'.pc = upd s.pc t p') (hsink : s'.sink = upd s.sink x ((t, m) :: s.sink x))
    (hst : s'.started = s.started) (hm : logMsg p' = some m) (hw : written p' = x :: written (s.pc t)) :
    FifoInv s' := by
  have hseq : ∀ u k, (u ≠ t ∨ k ≠ x) → seqOf s' u k = seqOf s u k := by
    intro u k hne
    simp only [seqOf, hsink, upd]
    split
    · rename_i hk; subst hk
      rcases hne with hu | hk
      · have : (t == u) = false := by simp; exact fun e => hu e.symm
        simp [List.filter_cons, this]
      · exact absurd rfl hk
    · rfl
  have hseqx : seqOf s' t x = m :: seqOf s t x := by simp [seqOf, hsink]
  constructor
  · intro u m' hu; rw [hst]; rw [hpc] at hu
    by_cases e : u = t
    · subst e; simp [hm] at hu; subst hu; exact h.hd u m hin
    · simp [e] at hu; exact h.hd u m' hu
  · intro u k m' hu hk; rw [hst]; rw [hpc] at hu hk
    by_cases e : u = t
    · subst e
      simp [hm] at hu; subst hu
      simp [hw] at hk
      rcases hk with hk | hk
      · subst hk; exact ⟨seqOf s u k, hseqx, h.o2 u k m hin hnew⟩
      · have kx : k ≠ x := fun e => hnew (e ▸ hk)
        rw [hseq u k (Or.inr kx)]; exact h.o1 u k m hin hk
    · simp [e] at hu hk; rw [hseq u k (Or.inl e)]; exact h.o1 u k m' hu hk
  · intro u k m' hu hk; rw [hst]; rw [hpc] at hu hk
    by_cases e : u = t
    · subst e
      simp [hm] at hu; subst hu
      simp [hw] at hk
      rw [hseq u k (Or.inr hk.1)]; exact h.o2 u k m hin hk.2
    · simp [e] at hu hk; rw [hseq u k (Or.inl e)]; exact h.o2 u k m' hu hk
  · intro u k hu; rw [hst]; rw [hpc] at hu
    by_cases e : u = t
    · subst e; simp [hm] at hu
    · simp [e] at hu; rw [hseq u k (Or.inl e)]; exact h.o3 u k hu

macro "ff_close" : tactic => `(tactic| first
  | rfl
  | assumption
  | (simp only [*]; rfl)
  | (simp [*, logMsg, written]; done)
  | (simp_all [logMsg, written, setPc, upd]; done))

theorem fifoInv_step {s s' : St} {t : Tid} {lab : Lab} (hd : DataInv s) (h : FifoInv s)
    (hs : step s t lab = some s') : FifoInv s' := by
  have pt := hd.pcs t
  unfold step at hs
  split at hs <;> (try (simp only [reduceCtorEq] at hs; done)) <;> (repeat' split at hs) <;>
    (try (simp only [reduceCtorEq] at hs; done)) <;>
    (simp only [Option.some.injEq] at hs; subst hs; (try subst_vars)
     first
     | (refine fifo_move h rfl rfl rfl ?_ ?_ <;> ff_close)
     | (refine fifo_start h ?_ rfl rfl rfl <;> ff_close)
     | (refine fifo_return (m := (logMsg (s.pc t)).getD 0) h ?_ rfl rfl rfl <;> ff_close)
     | (refine fifo_write h ?_ ?_ rfl rfl rfl ?_ ?_
        · simp only [*]; rfl
        · simp only [pcInv, *] at pt; simp_all [written]
        · rfl
        · simp [*, written]))

theorem fifoInv_run (sched : List (Tid × Lab)) : FifoInv (run {} sched) := by
  suffices h : ∀ s, LockInv s → DataInv s → FifoInv s → FifoInv (run s sched) from
    h {} lockInv_init dataInv_init fifoInv_init
  induction sched with
  | nil => intro s _ _ c; exact c
  | cons x xs ih =>
    intro s a b c
    obtain ⟨t, lab⟩ := x
    simp only [run]
    cases hs : step s t lab with
    | some s' => exact ih s' (lockInv_step a hs) (dataInv_step a b hs) (fifoInv_step b c hs)
    | none => exact ih s a b c

end Conc
