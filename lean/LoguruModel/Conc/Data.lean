import LoguruModel.Conc.Lemmas
/-
C02 – Part 2: data invariants (ids, registry, stop protocol), given the lock discipline of Part 1.
-/
namespace Conc

/-- facts attached to a program counter -/
def pcInv (s : St) : Pc → Prop
  | .a2 n | .a3 n => n = s.count
  | .a4 n | .a5 n | .a6 n => n ∈ s.allocated ∧ n ∉ s.pub
  | .a7 n ids => n ∈ s.allocated ∧ n ∉ s.pub ∧ ids = s.reg
  | .rL todo => (∀ k ∈ todo, k ∈ s.reg) ∧ todo.Nodup
  | .rC h todo snap => snap = s.reg ∧ h ∈ s.reg ∧ h ∉ todo ∧ (∀ k ∈ todo, k ∈ s.reg) ∧ todo.Nodup
  | .rP h todo | .s1 h todo =>
      h ∉ s.reg ∧ h ∈ s.pub ∧ (s.hs h).stopped = false ∧ (s.hs h).stops = 0 ∧
      (∀ k ∈ todo, k ∈ s.reg) ∧ todo.Nodup
  | .s2 h todo =>
      h ∉ s.reg ∧ h ∈ s.pub ∧ (s.hs h).stopped = true ∧ (s.hs h).stops = 0 ∧
      (∀ k ∈ todo, k ∈ s.reg) ∧ todo.Nodup
  | .s3 h todo =>
      h ∉ s.reg ∧ h ∈ s.pub ∧ (s.hs h).stopped = true ∧ (s.hs h).stops = 1 ∧
      (∀ k ∈ todo, k ∈ s.reg) ∧ todo.Nodup
  | .lL _ todo wr => (wr ++ todo).Nodup ∧ (∀ k ∈ todo, k ∈ s.pub)
  | .e1 _ h todo wr | .e4 _ h todo wr => (h :: (wr ++ todo)).Nodup ∧ h ∈ s.pub ∧ (∀ k ∈ todo, k ∈ s.pub)
  | .e2 _ h todo wr b =>
      (h :: (wr ++ todo)).Nodup ∧ h ∈ s.pub ∧ (∀ k ∈ todo, k ∈ s.pub) ∧ b = (s.hs h).stopped
  | .e3 _ h todo wr =>
      (h :: (wr ++ todo)).Nodup ∧ h ∈ s.pub ∧ (∀ k ∈ todo, k ∈ s.pub) ∧ (s.hs h).stopped = false
  | _ => True

/-- the id a thread has allocated but not yet published -/
def pendingId : Pc → Option Hid
  | .a4 n | .a5 n | .a6 n | .a7 n _ => some n
  | _ => none

structure DataInv (s : St) : Prop where
  g1 : s.allocated.Nodup
  g2 : ∀ a ∈ s.allocated, a < s.count
  g3 : ∀ h ∈ s.pub, h ∈ s.allocated
  g4 : ∀ h ∈ s.reg, h ∈ s.pub
  g5 : s.reg.Nodup
  g6 : ∀ h, h ∉ s.pub → (s.hs h).stopped = false ∧ (s.hs h).stops = 0
  g7 : ∀ h ∈ s.reg, (s.hs h).stopped = false ∧ (s.hs h).stops = 0
  g8 : ∀ h, (s.hs h).stops ≤ 1 ∧ ((s.hs h).stops = 1 → (s.hs h).stopped = true)
  g9 : ∀ h ∈ s.stopDone, h ∉ s.reg ∧ h ∈ s.pub ∧ (s.hs h).stopped = true ∧ (s.hs h).stops = 1
  g10 : ∀ t u n, t ≠ u → pendingId (s.pc t) = some n → pendingId (s.pc u) = some n → False
  pcs : ∀ t, pcInv s (s.pc t)

theorem dataInv_init : DataInv ({} : St) := by
  constructor <;> simp [pcInv, pendingId]

/-- `pcInv` only reads count, allocated, pub, reg and the stopped/stops fields of handlers -/
theorem pcInv_congr {s s' : St} (q : Pc) (h1 : s'.count = s.count) (h2 : s'.allocated = s.allocated)
    (h3 : s'.pub = s.pub) (h4 : s'.reg = s.reg)
    (h5 : ∀ k, (s'.hs k).stopped = (s.hs k).stopped ∧ (s'.hs k).stops = (s.hs k).stops) :
    pcInv s' q ↔ pcInv s q := by
  cases q <;> simp [pcInv, h1, h2, h3, h4, h5]

end Conc
