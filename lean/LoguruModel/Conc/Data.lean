import LoguruModel.Conc.Lemmas
/-
C02 – Part 2: data invariants (ids, registry, stop protocol), given the lock discipline of Part 1.
-/
namespace Conc

/-- facts attached to a program counter -/
def pcInv (s : St) : Pc → Prop
  | .a2 n | .a3 n => n = s.count
  | .a4 n | .a5 n | .a6 n => n ∈ s.allocated ∧ n ∉ s.pub
  | .a7 n ids => n ∈ s.allocated ∧ n ∉ s.pub ∧ ids = s.reg
  | .rL todo => (∀ k ∈ todo, k ∈ s.reg) ∧ todo.Nodup
  | .rC h todo snap => snap = s.reg ∧ h ∈ s.reg ∧ h ∉ todo ∧ (∀ k ∈ todo, k ∈ s.reg) ∧ todo.Nodup
  | .rP h todo | .s1 h todo =>
      h ∉ s.reg ∧ h ∈ s.pub ∧ (s.hs h).stopped = false ∧ (s.hs h).stops = 0 ∧
      (∀ k ∈ todo, k ∈ s.reg) ∧ todo.Nodup
  | .s2 h todo =>
      h ∉ s.reg ∧ h ∈ s.pub ∧ (s.hs h).stopped = true ∧ (s.hs h).stops = 0 ∧
      (∀ k ∈ todo, k ∈ s.reg) ∧ todo.Nodup
  | .s3 h todo =>
      h ∉ s.reg ∧ h ∈ s.pub ∧ (s.hs h).stopped = true ∧ (s.hs h).stops = 1 ∧
      (∀ k ∈ todo, k ∈ s.reg) ∧ todo.Nodup
  | .lL _ todo wr => (wr ++ todo).Nodup ∧ (∀ k ∈ todo, k ∈ s.pub)
  | .e1 _ h todo wr | .e4 _ h todo wr => (h :: (wr ++ todo)).Nodup ∧ h ∈ s.pub ∧ (∀ k ∈ todo, k ∈ s.pub)
  | .e2 _ h todo wr b =>
      (h :: (wr ++ todo)).Nodup ∧ h ∈ s.pub ∧ (∀ k ∈ todo, k ∈ s.pub) ∧ b = (s.hs h).stopped
  | .e3 _ h todo wr =>
      (h :: (wr ++ todo)).Nodup ∧ h ∈ s.pub ∧ (∀ k ∈ todo, k ∈ s.pub) ∧ (s.hs h).stopped = false
  | .k1 todo got => (∀ h ∈ todo, h ∈ s.pub) ∧ (∀ h ∈ s.pub, h ∈ todo ∨ h ∈ got) ∧ (∀ h ∈ got, h ∈ s.pub) ∧
      todo.Nodup ∧ (∀ h ∈ todo, h ∉ got)
  | .k2 got => (∀ h ∈ s.pub, h ∈ got) ∧ (∀ h ∈ got, h ∈ s.pub)
  | .k3 got => ∀ h ∈ got, h ∈ s.pub
  | .cL todo => (∀ k ∈ todo, k ∈ s.reg) ∧ (∀ k ∈ todo, k ∈ s.pub)
  | .cH h todo => h ∈ s.reg ∧ h ∈ s.pub ∧ (∀ k ∈ todo, k ∈ s.reg) ∧ (∀ k ∈ todo, k ∈ s.pub)
  | _ => True

/-- the id a thread has allocated but not yet published -/
def pendingId : Pc → Option Hid
  | .a4 n | .a5 n | .a6 n | .a7 n _ => some n
  | _ => none

structure DataInv (s : St) : Prop where
  g1 : s.allocated.Nodup
  g2 : ∀ a ∈ s.allocated, a < s.count
  g3 : ∀ h ∈ s.pub, h ∈ s.allocated
  g4 : ∀ h ∈ s.reg, h ∈ s.pub
  g5 : s.reg.Nodup
  g6 : ∀ h, h ∉ s.pub → (s.hs h).stopped = false ∧ (s.hs h).stops = 0
  g7 : ∀ h ∈ s.reg, (s.hs h).stopped = false ∧ (s.hs h).stops = 0
  g8 : ∀ h, (s.hs h).stops ≤ 1 ∧ ((s.hs h).stops = 1 → (s.hs h).stopped = true)
  g9 : ∀ h ∈ s.stopDone, h ∉ s.reg ∧ h ∈ s.pub ∧ (s.hs h).stopped = true ∧ (s.hs h).stops = 1
  g10 : ∀ t u n, t ≠ u → pendingId (s.pc t) = some n → pendingId (s.pc u) = some n → False
  g11 : ∀ h, h ∉ s.pub → (s.hs h).lock = none
  pubnd : s.pub.Nodup
  pcs : ∀ t, pcInv s (s.pc t)

theorem dataInv_init : DataInv ({} : St) := by
  constructor <;> simp [pcInv, pendingId]

/-- `pcInv` only reads count, allocated, pub, reg and the stopped/stops fields of handlers -/
theorem pcInv_congr {s s' : St} (q : Pc) (h1 : s'.count = s.count) (h2 : s'.allocated = s.allocated)
    (h3 : s'.pub = s.pub) (h4 : s'.reg = s.reg)
    (h5 : ∀ k, (s'.hs k).stopped = (s.hs k).stopped ∧ (s'.hs k).stops = (s.hs k).stops) :
    pcInv s' q ↔ pcInv s q := by
  cases q <;> simp [pcInv, h1, h2, h3, h4, h5]

/-- a step that changes no data read by the invariant: only `t`'s pc (and possibly locks, sink) -/
theorem dataInv_of_move {s s' : St} {t : Tid} {p' : Pc} (h : DataInv s)
    (hpc : s'.pc = upd s.pc t p') (h1 : s'.count = s.count) (h2 : s'.allocated = s.allocated)
    (h3 : s'.pub = s.pub) (h4 : s'.reg = s.reg) (h6 : s'.stopDone = s.stopDone)
    (h5 : ∀ k, (s'.hs k).stopped = (s.hs k).stopped ∧ (s'.hs k).stops = (s.hs k).stops)
    (hlk : ∀ k, (s'.hs k).lock = (s.hs k).lock ∨ k ∈ s.pub)
    (hnew : pcInv s p') (hp : pendingId p' = none ∨ pendingId p' = pendingId (s.pc t)) : DataInv s' := by
  have stp : ∀ k, (s'.hs k).stopped = (s.hs k).stopped := fun k => (h5 k).1
  have sts : ∀ k, (s'.hs k).stops = (s.hs k).stops := fun k => (h5 k).2
  refine ⟨?_, ?_, ?_, ?_, ?_, ?_, ?_, ?_, ?_, ?_, ?_, ?_, ?_⟩
  · rw [h2]; exact h.g1
  · rw [h2, h1]; exact h.g2
  · rw [h3, h2]; exact h.g3
  · rw [h4, h3]; exact h.g4
  · rw [h4]; exact h.g5
  · intro k hk; rw [h3] at hk; rw [stp, sts]; exact h.g6 k hk
  · intro k hk; rw [h4] at hk; rw [stp, sts]; exact h.g7 k hk
  · intro k; rw [stp, sts]; exact h.g8 k
  · intro k hk; rw [h6] at hk; rw [h4, h3, stp, sts]; exact h.g9 k hk
  · intro a b n hab ha hb
    rw [hpc] at ha hb
    by_cases ea : a = t
    · subst ea
      have eb : b ≠ a := fun e => hab e.symm
      simp [eb] at ha hb
      rcases hp with hp | hp
      · rw [hp] at ha; cases ha
      · rw [hp] at ha; exact h.g10 a b n hab ha hb
    · by_cases eb : b = t
      · subst eb
        simp [ea] at ha hb
        rcases hp with hp | hp
        · rw [hp] at hb; cases hb
        · rw [hp] at hb; exact h.g10 a b n hab ha hb
      · simp [ea, eb] at ha hb; exact h.g10 a b n hab ha hb
  · intro k hk; rw [h3] at hk
    rcases hlk k with e | e
    · rw [e]; exact h.g11 k hk
    · exact absurd e hk
  · rw [h3]; exact h.pubnd
  · intro u
    rw [hpc]
    by_cases e : u = t
    · subst e; simp; exact (pcInv_congr p' h1 h2 h3 h4 h5).mpr hnew
    · simp [e]; exact (pcInv_congr _ h1 h2 h3 h4 h5).mpr (h.pcs u)

theorem pend_alloc {s : St} {p : Pc} {n : Hid} (h : pcInv s p) (hp : pendingId p = some n) :
    n ∈ s.allocated ∧ n ∉ s.pub := by
  cases p <;> simp [pendingId] at hp <;> subst hp <;> simp [pcInv] at h <;> simp [h]

/-- two different threads cannot both be in core-holding program counters -/
theorem core_excl {s : St} (hl : LockInv s) {t u : Tid} (ht : holdsCore (s.pc t) = true)
    (hu : holdsCore (s.pc u) = true) : u = t := by
  have a := hl.c1 t ht; have b := hl.c1 u hu
  rw [a] at b; exact (Option.some.inj b).symm

theorem h_excl {s : St} (hl : LockInv s) {t u : Tid} {x : Hid} (ht : x ∈ heldH (s.pc t))
    (hu : x ∈ heldH (s.pc u)) : u = t := by
  have a := hl.h1 t x ht; have b := hl.h1 u x hu
  rw [a] at b; exact (Option.some.inj b).symm

/-- (a) `count += 1` in add() -/
theorem dataInv_wCount {s s' : St} {t : Tid} {n : Hid} (hl : LockInv s) (h : DataInv s)
    (hold : s.pc t = .a3 n) (hpc : s'.pc = upd s.pc t (.a4 n)) (h1 : s'.count = s.count + 1)
    (h2 : s'.allocated = n :: s.allocated) (h3 : s'.pub = s.pub) (h4 : s'.reg = s.reg)
    (h6 : s'.stopDone = s.stopDone) (h5 : s'.hs = s.hs) : DataInv s' := by
  have hn : n = s.count := by have := h.pcs t; rw [hold] at this; simpa [pcInv] using this
  have fresh : n ∉ s.allocated := fun hm => by have := h.g2 n hm; rw [hn] at this; exact Nat.lt_irrefl _ this
  have tcore : holdsCore (s.pc t) = true := by rw [hold]; rfl
  refine ⟨?_, ?_, ?_, ?_, ?_, ?_, ?_, ?_, ?_, ?_, ?_, ?_, ?_⟩
  · rw [h2]; exact List.nodup_cons.mpr ⟨fresh, h.g1⟩
  · intro a ha; rw [h2] at ha; rw [h1]
    rcases List.mem_cons.mp ha with e | e
    · rw [e, hn]; exact Nat.lt_succ_self _
    · exact Nat.lt_succ_of_lt (h.g2 a e)
  · intro k hk; rw [h3] at hk; rw [h2]; exact List.mem_cons_of_mem _ (h.g3 k hk)
  · rw [h4, h3]; exact h.g4
  · rw [h4]; exact h.g5
  · intro k hk; rw [h3] at hk; rw [h5]; exact h.g6 k hk
  · intro k hk; rw [h4] at hk; rw [h5]; exact h.g7 k hk
  · intro k; rw [h5]; exact h.g8 k
  · intro k hk; rw [h6] at hk; rw [h4, h3, h5]; exact h.g9 k hk
  · intro a b m hab ha hb
    rw [hpc] at ha hb
    by_cases ea : a = t
    · subst ea
      have eb : b ≠ a := fun e => hab e.symm
      simp [eb, pendingId] at ha hb
      subst ha
      exact fresh (pend_alloc (h.pcs b) hb).1
    · by_cases eb : b = t
      · subst eb
        simp [ea, pendingId] at ha hb
        subst hb
        exact fresh (pend_alloc (h.pcs a) ha).1
      · simp [ea, eb] at ha hb; exact h.g10 a b m hab ha hb
  · intro k hk; rw [h3] at hk; rw [h5]; exact h.g11 k hk
  · rw [h3]; exact h.pubnd
  · intro u
    rw [hpc]
    by_cases e : u = t
    · subst e; simp [pcInv, h2, h3]; exact fun hm => fresh (h.g3 n hm)
    · simp [e]
      have hu := h.pcs u
      have nc : holdsCore (s.pc u) = false := by
        cases hc : holdsCore (s.pc u)
        · rfl
        · exact absurd (core_excl hl tcore hc) e
      cases hq : s.pc u <;> rw [hq] at hu nc <;> simp [pcInv, holdsCore, h1, h2, h3, h4, h5] at hu nc ⊢ <;>
        (try exact hu) <;> (try (simp [hu]; done))

theorem not_holdsCore_of_ne {s : St} (hl : LockInv s) {t u : Tid} (ht : holdsCore (s.pc t) = true)
    (e : u ≠ t) : holdsCore (s.pc u) = false := by
  cases hc : holdsCore (s.pc u)
  · rfl
  · exact absurd (core_excl hl ht hc) e

/-- (b) add() publishes the extended registry -/
theorem dataInv_addPublish {s s' : St} {t : Tid} {n : Hid} {ids : List Hid} (hl : LockInv s) (h : DataInv s)
    (hold : s.pc t = .a7 n ids) (hpc : s'.pc = upd s.pc t (.a8 n)) (h1 : s'.count = s.count)
    (h2 : s'.allocated = s.allocated) (h3 : s'.pub = n :: s.pub) (h4 : s'.reg = ids ++ [n])
    (h6 : s'.stopDone = s.stopDone) (h5 : s'.hs = s.hs) : DataInv s' := by
  have ht := h.pcs t
  rw [hold] at ht
  simp only [pcInv] at ht
  obtain ⟨nal, npub, hids⟩ := ht
  subst hids
  have nreg : n ∉ s.reg := fun hm => npub (h.g4 n hm)
  have tcore : holdsCore (s.pc t) = true := by rw [hold]; rfl
  refine ⟨?_, ?_, ?_, ?_, ?_, ?_, ?_, ?_, ?_, ?_, ?_, ?_, ?_⟩
  · rw [h2]; exact h.g1
  · rw [h2, h1]; exact h.g2
  · intro k hk; rw [h3] at hk; rw [h2]
    rcases List.mem_cons.mp hk with e | e
    · rw [e]; exact nal
    · exact h.g3 k e
  · intro k hk; rw [h4] at hk; rw [h3]
    rcases List.mem_append.mp hk with e | e
    · exact List.mem_cons_of_mem _ (h.g4 k e)
    · simp at e; rw [e]; exact List.mem_cons_self
  · rw [h4]; exact List.nodup_append.mpr ⟨h.g5, by simp, by
      intro a ha b hb; simp at hb; subst hb; exact fun e => nreg (e ▸ ha)⟩
  · intro k hk; rw [h3] at hk; rw [h5]
    exact h.g6 k (fun hm => hk (List.mem_cons_of_mem _ hm))
  · intro k hk; rw [h4] at hk; rw [h5]
    rcases List.mem_append.mp hk with e | e
    · exact h.g7 k e
    · simp at e; rw [e]; exact h.g6 n npub
  · intro k; rw [h5]; exact h.g8 k
  · intro k hk; rw [h6] at hk; rw [h4, h3, h5]
    obtain ⟨a, b, c, d⟩ := h.g9 k hk
    refine ⟨?_, List.mem_cons_of_mem _ b, c, d⟩
    intro hm
    rcases List.mem_append.mp hm with e | e
    · exact a e
    · simp at e; exact npub (e ▸ b)
  · intro a b m hab ha hb
    rw [hpc] at ha hb
    by_cases ea : a = t
    · subst ea; simp [pendingId] at ha
    · by_cases eb : b = t
      · subst eb; simp [pendingId] at hb
      · simp [ea, eb] at ha hb; exact h.g10 a b m hab ha hb
  · intro k hk; rw [h3] at hk; rw [h5]
    exact h.g11 k (fun hm => hk (List.mem_cons_of_mem _ hm))
  · rw [h3]; exact List.nodup_cons.mpr ⟨npub, h.pubnd⟩
  · intro u
    rw [hpc]
    by_cases e : u = t
    · subst e; simp [pcInv]
    · simp [e]
      have hu := h.pcs u
      have nc := not_holdsCore_of_ne hl tcore e
      have g10 := h.g10 u t
      cases hq : s.pc u <;> rw [hq] at hu nc g10 <;>
        simp [pcInv, holdsCore, pendingId, hold, h1, h2, h3, h4, h5] at hu nc g10 ⊢ <;>
        (try exact hu) <;> (try (simp [hu]; done)) <;> grind

/-- (c) remove() publishes the reduced registry -/
theorem dataInv_removePublish {s s' : St} {t : Tid} {x : Hid} {todo snap : List Hid}
    (hl : LockInv s) (h : DataInv s)
    (hold : s.pc t = .rC x todo snap) (hpc : s'.pc = upd s.pc t (.rP x todo)) (h1 : s'.count = s.count)
    (h2 : s'.allocated = s.allocated) (h3 : s'.pub = s.pub) (h4 : s'.reg = snap.erase x)
    (h6 : s'.stopDone = s.stopDone) (h5 : s'.hs = s.hs) : DataInv s' := by
  have ht := h.pcs t
  rw [hold] at ht
  simp only [pcInv] at ht
  obtain ⟨hsnap, xreg, xtodo, tsub, tnd⟩ := ht
  subst hsnap
  have tcore : holdsCore (s.pc t) = true := by rw [hold]; rfl
  have sub : ∀ k, k ∈ s.reg.erase x → k ∈ s.reg := fun k hk => List.mem_of_mem_erase hk
  have xout : x ∉ s.reg.erase x := fun hm => by
    have := (List.Nodup.mem_erase_iff h.g5).mp hm; exact this.1 rfl
  refine ⟨?_, ?_, ?_, ?_, ?_, ?_, ?_, ?_, ?_, ?_, ?_, ?_, ?_⟩
  · rw [h2]; exact h.g1
  · rw [h2, h1]; exact h.g2
  · rw [h3, h2]; exact h.g3
  · intro k hk; rw [h4] at hk; rw [h3]; exact h.g4 k (sub k hk)
  · rw [h4]; exact h.g5.erase x
  · intro k hk; rw [h3] at hk; rw [h5]; exact h.g6 k hk
  · intro k hk; rw [h4] at hk; rw [h5]; exact h.g7 k (sub k hk)
  · intro k; rw [h5]; exact h.g8 k
  · intro k hk; rw [h6] at hk; rw [h4, h3, h5]
    obtain ⟨a, b, c, d⟩ := h.g9 k hk
    exact ⟨fun hm => a (sub k hm), b, c, d⟩
  · intro a b m hab ha hb
    rw [hpc] at ha hb
    by_cases ea : a = t
    · subst ea; simp [pendingId] at ha
    · by_cases eb : b = t
      · subst eb; simp [pendingId] at hb
      · simp [ea, eb] at ha hb; exact h.g10 a b m hab ha hb
  · intro k hk; rw [h3] at hk; rw [h5]; exact h.g11 k hk
  · rw [h3]; exact h.pubnd
  · intro u
    rw [hpc]
    by_cases e : u = t
    · subst e
      simp only [upd_same, pcInv, h4, h3, h5]
      refine ⟨xout, h.g4 x xreg, (h.g7 x xreg).1, (h.g7 x xreg).2, ?_, tnd⟩
      intro k hk
      exact (List.Nodup.mem_erase_iff h.g5).mpr ⟨fun e => xtodo (e ▸ hk), tsub k hk⟩
    · simp [e]
      have hu := h.pcs u
      have nc := not_holdsCore_of_ne hl tcore e
      cases hq : s.pc u <;> rw [hq] at hu nc <;>
        simp [pcInv, holdsCore, h1, h2, h3, h4, h5] at hu nc ⊢ <;>
        (try exact hu) <;> (try (simp [hu]; done)) <;> grind

/-- frame for steps that change `stopped`/`stops` of ONE handler `x` under the core lock and `x`'s lock -/
theorem pcInv_other_handler {s s' : St} {x : Hid} (q : Pc) (h1 : s'.count = s.count)
    (h2 : s'.allocated = s.allocated) (h3 : s'.pub = s.pub) (h4 : s'.reg = s.reg)
    (h5 : ∀ k, k ≠ x → s'.hs k = s.hs k) (nc : holdsCore q = false) (nh : x ∉ heldH q)
    (hq : pcInv s q) : pcInv s' q := by
  cases q <;> simp [pcInv, holdsCore, heldH, h1, h2, h3, h4] at hq nc nh ⊢ <;>
    (try exact hq) <;> (try (rw [h5 _ nh]; exact hq)) <;> (try (rw [h5 _ (Ne.symm nh)]; exact hq))

/-- (d)(e) `_stopped = True` and `sink.stop()` in Handler.stop, and (f) its return -/
theorem dataInv_stopStep {s s' : St} {t : Tid} {x : Hid} {p' : Pc}
    (hl : LockInv s) (h : DataInv s) (tcore : holdsCore (s.pc t) = true) (th : x ∈ heldH (s.pc t))
    (hpc : s'.pc = upd s.pc t p') (h1 : s'.count = s.count)
    (h2 : s'.allocated = s.allocated) (h3 : s'.pub = s.pub) (h4 : s'.reg = s.reg)
    (h5 : ∀ k, k ≠ x → s'.hs k = s.hs k)
    (xreg : x ∉ s.reg) (xpub : x ∈ s.pub)
    (hx8 : (s'.hs x).stops ≤ 1 ∧ ((s'.hs x).stops = 1 → (s'.hs x).stopped = true))
    (hdone : ∀ k ∈ s'.stopDone, k ∈ s.stopDone ∨
      (k = x ∧ (s'.hs x).stopped = true ∧ (s'.hs x).stops = 1))
    (hx9 : x ∈ s.stopDone → (s'.hs x).stopped = true ∧ (s'.hs x).stops = 1)
    (hnew : pcInv s' p') (hp : pendingId p' = none) : DataInv s' := by
  refine ⟨?_, ?_, ?_, ?_, ?_, ?_, ?_, ?_, ?_, ?_, ?_, ?_, ?_⟩
  · rw [h2]; exact h.g1
  · rw [h2, h1]; exact h.g2
  · rw [h3, h2]; exact h.g3
  · rw [h4, h3]; exact h.g4
  · rw [h4]; exact h.g5
  · intro k hk; rw [h3] at hk
    have : k ≠ x := fun e => hk (e ▸ xpub)
    rw [h5 k this]; exact h.g6 k hk
  · intro k hk; rw [h4] at hk
    have : k ≠ x := fun e => xreg (e ▸ hk)
    rw [h5 k this]; exact h.g7 k hk
  · intro k
    by_cases e : k = x
    · subst e; exact hx8
    · rw [h5 k e]; exact h.g8 k
  · intro k hk; rw [h4, h3]
    rcases hdone k hk with old | ⟨e, a, b⟩
    · by_cases e : k = x
      · subst e; exact ⟨xreg, xpub, (hx9 old).1, (hx9 old).2⟩
      · rw [h5 k e]; exact h.g9 k old
    · subst e; exact ⟨xreg, xpub, a, b⟩
  · intro a b m hab ha hb
    rw [hpc] at ha hb
    by_cases ea : a = t
    · subst ea; simp [hp] at ha
    · by_cases eb : b = t
      · subst eb; simp [hp] at hb
      · simp [ea, eb] at ha hb; exact h.g10 a b m hab ha hb
  · intro k hk; rw [h3] at hk
    have : k ≠ x := fun e => hk (e ▸ xpub)
    rw [h5 k this]; exact h.g11 k hk
  · rw [h3]; exact h.pubnd
  · intro u
    rw [hpc]
    by_cases e : u = t
    · subst e; simpa using hnew
    · simp [e]
      have nc := not_holdsCore_of_ne hl tcore e
      have nh : x ∉ heldH (s.pc u) := fun hu => e (h_excl hl th hu)
      exact pcInv_other_handler _ h1 h2 h3 h4 h5 nc nh (h.pcs u)

macro "dt_close" h:ident t:ident : tactic => `(tactic| first
  | rfl
  | assumption
  | exact Or.inl rfl
  | (apply Or.inr; simp only [*]; rfl)
  | (intro k; first | exact ⟨rfl, rfl⟩ | (simp only [upd]; split <;> simp_all; done))
  | (intro k hk; simp [upd, hk]; done)
  | (intro k; exact Or.inl rfl)
  | (intro k; have ht := ($h).pcs $t; simp only [upd]; split <;> simp_all [pcInv]; done)
  | (have ht := ($h).pcs $t; have g4 := ($h).g4; have g5 := ($h).g5; have g7 := ($h).g7
     have g9 := ($h).g9; have g8 := ($h).g8
     simp_all [pcInv, holdsCore, heldH, upd, pendingId, setPc]; done)
  | (have ht := ($h).pcs $t; have g4 := ($h).g4; have g5 := ($h).g5; have g7 := ($h).g7
     have g9 := ($h).g9; have g8 := ($h).g8
     simp_all [pcInv, holdsCore, heldH, upd, pendingId, setPc]; grind)
  | (have ht := ($h).pcs $t
     simp_all [pcInv, List.all_eq_true, setPc]; grind))

theorem dataInv_step {s s' : St} {t : Tid} {lab : Lab} (hl : LockInv s) (h : DataInv s)
    (hs : step s t lab = some s') : DataInv s' := by
  unfold step at hs
  split at hs <;> (try (simp only [reduceCtorEq] at hs; done)) <;> (repeat' split at hs) <;>
    (try (simp only [reduceCtorEq] at hs; done)) <;>
    (simp only [Option.some.injEq] at hs; subst hs; (try subst_vars)
     first
     | (refine dataInv_wCount hl h (by assumption) rfl rfl rfl rfl rfl rfl rfl; done)
     | (refine dataInv_addPublish hl h (by assumption) rfl rfl rfl rfl rfl rfl rfl; done)
     | (refine dataInv_removePublish hl h (by assumption) rfl rfl rfl rfl rfl rfl rfl; done)
     | (refine dataInv_of_move h rfl rfl rfl rfl rfl rfl ?_ ?_ ?_ ?_ <;> dt_close h t)
     | (refine dataInv_stopStep (x := (heldH (s.pc t)).headD 0) hl h ?_ ?_ rfl rfl rfl rfl rfl
          ?_ ?_ ?_ ?_ ?_ ?_ ?_ ?_ <;> dt_close h t))

end Conc
