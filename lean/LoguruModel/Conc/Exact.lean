import LoguruModel.Conc.Data
/-
C02 – "a message is delivered exactly once to every handler that was registered before the logging call began and
not removed until after it returned": the AT-LEAST-once half, as an invariant over the ghost bookkeeping of the
current logging call of each thread (`pubAtStart`, `snap`, `skipped`, `gone`).

(x1) the registry snapshot a call iterates is partitioned into: written, skipped (threshold / filter – the model's
     free choice), found stopped, still to visit;
(x2) a handler found stopped stays stopped;
(x3) a handler that had been published when the call began and is STILL registered is in the snapshot (a handler
     leaves the registry for ever: identifiers are not reused);
(x4) what had been published when the call began is still published.
-/
namespace Conc

def inLog : Pc → Bool
  | .l0 _ | .l1 _ | .lL _ _ _ | .e1 _ _ _ _ | .e2 _ _ _ _ _ | .e3 _ _ _ _ | .e4 _ _ _ _ => true
  | _ => false

def hasSnap : Pc → Bool
  | .lL _ _ _ | .e1 _ _ _ _ | .e2 _ _ _ _ _ | .e3 _ _ _ _ | .e4 _ _ _ _ => true
  | _ => false

/-- handlers of the snapshot the call has not finished with (the one being visited included) -/
def pend : Pc → List Hid
  | .lL _ todo _ => todo
  | .e1 _ h todo _ | .e2 _ h todo _ _ | .e3 _ h todo _ | .e4 _ h todo _ => h :: todo
  | _ => []

/-- handlers the call has written to and released -/
def wrOf : Pc → List Hid
  | .lL _ _ wr | .e1 _ _ _ wr | .e2 _ _ _ wr _ | .e3 _ _ _ wr | .e4 _ _ _ wr => wr
  | _ => []

structure ExactInv (s : St) : Prop where
  x1 : ∀ t, hasSnap (s.pc t) = true →
        ∀ k, k ∈ s.snap t ↔ (k ∈ wrOf (s.pc t) ∨ k ∈ s.skipped t ∨ k ∈ s.gone t ∨ k ∈ pend (s.pc t))
  x2 : ∀ t, hasSnap (s.pc t) = true → ∀ k ∈ s.gone t, (s.hs k).stopped = true
  x3 : ∀ t, hasSnap (s.pc t) = true → ∀ k ∈ s.pubAtStart t, k ∈ s.reg → k ∈ s.snap t
  x4 : ∀ t, inLog (s.pc t) = true → ∀ k ∈ s.pubAtStart t, k ∈ s.pub

theorem exactInv_init : ExactInv ({} : St) := by
  constructor <;> simp [hasSnap, inLog]

theorem hasSnap_inLog {p : Pc} (h : hasSnap p = true) : inLog p = true := by
  cases p <;> simp [hasSnap, inLog] at h ⊢

/-- every step that leaves the bookkeeping of the current calls alone: the moving thread either leaves the
logging call / is outside one, or stays inside with the same partition of the snapshot -/
theorem exact_move {s s' : St} {t : Tid} {p' : Pc} (h : ExactInv s)
    (hpc : s'.pc = upd s.pc t p')
    (g1 : s'.snap = s.snap) (g2 : s'.skipped = s.skipped) (g3 : s'.gone = s.gone) (g4 : s'.pubAtStart = s.pubAtStart)
    (hst : ∀ k, (s.hs k).stopped = true → (s'.hs k).stopped = true)
    (hpub : ∀ k ∈ s.pub, k ∈ s'.pub)
    (hreg : ∀ k, k ∈ s'.reg → k ∈ s.reg ∨ k ∉ s.pub)
    (hlog : (inLog p' = false ∧ hasSnap p' = false) ∨
      (inLog p' = inLog (s.pc t) ∧ hasSnap p' = hasSnap (s.pc t) ∧
        ∀ k, (k ∈ wrOf p' ∨ k ∈ pend p') ↔ (k ∈ wrOf (s.pc t) ∨ k ∈ pend (s.pc t)))) : ExactInv s' := by
  obtain ⟨x1, x2, x3, x4⟩ := h
  have snapT : ∀ u, hasSnap (s'.pc u) = true → hasSnap (s.pc u) = true := by
    intro u hu; rw [hpc] at hu
    by_cases e : u = t
    · subst e; simp at hu
      rcases hlog with ⟨_, b⟩ | ⟨_, b, _⟩
      · rw [b] at hu; cases hu
      · rw [← b]; exact hu
    · simpa [e] using hu
  have logT : ∀ u, inLog (s'.pc u) = true → inLog (s.pc u) = true := by
    intro u hu; rw [hpc] at hu
    by_cases e : u = t
    · subst e; simp at hu
      rcases hlog with ⟨a, _⟩ | ⟨a, _, _⟩
      · rw [a] at hu; cases hu
      · rw [← a]; exact hu
    · simpa [e] using hu
  refine ⟨?_, ?_, ?_, ?_⟩
  · intro u hu k
    have old := x1 u (snapT u hu) k
    rw [g1, g2, g3]
    rw [hpc] at hu ⊢
    by_cases e : u = t
    · subst e
      simp at hu ⊢
      rcases hlog with ⟨_, b⟩ | ⟨_, _, c⟩
      · rw [b] at hu; cases hu
      · have c' := c k
        constructor
        · intro hk; rcases old.mp hk with a | a | a | a
          · exact (c'.mpr (Or.inl a)).elim Or.inl (fun z => Or.inr (Or.inr (Or.inr z)))
          · exact Or.inr (Or.inl a)
          · exact Or.inr (Or.inr (Or.inl a))
          · exact (c'.mpr (Or.inr a)).elim Or.inl (fun z => Or.inr (Or.inr (Or.inr z)))
        · intro hk; apply old.mpr; rcases hk with a | a | a | a
          · exact (c'.mp (Or.inl a)).elim Or.inl (fun z => Or.inr (Or.inr (Or.inr z)))
          · exact Or.inr (Or.inl a)
          · exact Or.inr (Or.inr (Or.inl a))
          · exact (c'.mp (Or.inr a)).elim Or.inl (fun z => Or.inr (Or.inr (Or.inr z)))
    · simp [e] at hu ⊢; exact old
  · intro u hu k hk; rw [g3] at hk; exact hst k (x2 u (snapT u hu) k hk)
  · intro u hu k hk hr; rw [g4] at hk; rw [g1]
    have hs := snapT u hu
    rcases hreg k hr with a | a
    · exact x3 u hs k hk a
    · exact absurd (x4 u (hasSnap_inLog hs) k hk) a
  · intro u hu k hk; rw [g4] at hk; exact hpub k (x4 u (logT u hu) k hk)

/-- a logging call begins: it remembers what is published -/
theorem exact_start {s s' : St} {t : Tid} {m : Nat} (h : ExactInv s)
    (hpc : s'.pc = upd s.pc t (.l0 m))
    (g1 : s'.snap = s.snap) (g2 : s'.skipped = s.skipped) (g3 : s'.gone = s.gone)
    (g4 : s'.pubAtStart = upd s.pubAtStart t s.pub)
    (hhs : s'.hs = s.hs) (hpub : s'.pub = s.pub) (hreg : s'.reg = s.reg) : ExactInv s' := by
  obtain ⟨x1, x2, x3, x4⟩ := h
  refine ⟨?_, ?_, ?_, ?_⟩
  · intro u hu k; rw [hpc] at hu ⊢; rw [g1, g2, g3]
    by_cases e : u = t
    · subst e; simp [hasSnap] at hu
    · simp [e] at hu ⊢; exact x1 u hu k
  · intro u hu k hk; rw [hpc] at hu; rw [g3] at hk; rw [hhs]
    by_cases e : u = t
    · subst e; simp [hasSnap] at hu
    · simp [e] at hu; exact x2 u hu k hk
  · intro u hu k hk hr; rw [hpc] at hu; rw [g4] at hk; rw [hreg] at hr; rw [g1]
    by_cases e : u = t
    · subst e; simp [hasSnap] at hu
    · simp [e, upd] at hu hk; exact x3 u hu k hk hr
  · intro u hu k hk; rw [hpc] at hu; rw [g4] at hk; rw [hpub]
    by_cases e : u = t
    · subst e; simpa using hk
    · simp [e, upd] at hu hk; exact x4 u hu k hk

/-- the call reads the registry it will iterate -/
theorem exact_snapshot {s s' : St} {t : Tid} {m : Nat} (h : ExactInv s) (hl : inLog (s.pc t) = true)
    (hpc : s'.pc = upd s.pc t (.lL m s.reg []))
    (g1 : s'.snap = upd s.snap t s.reg) (g2 : s'.skipped = upd s.skipped t []) (g3 : s'.gone = upd s.gone t [])
    (g4 : s'.pubAtStart = s.pubAtStart)
    (hhs : s'.hs = s.hs) (hpub : s'.pub = s.pub) (hreg : s'.reg = s.reg) : ExactInv s' := by
  obtain ⟨x1, x2, x3, x4⟩ := h
  refine ⟨?_, ?_, ?_, ?_⟩
  · intro u hu k; rw [hpc] at hu ⊢; rw [g1, g2, g3]
    by_cases e : u = t
    · subst e; simp [wrOf, pend, upd]
    · simp [e, upd] at hu ⊢; exact x1 u hu k
  · intro u hu k hk; rw [hpc] at hu; rw [g3] at hk; rw [hhs]
    by_cases e : u = t
    · subst e; simp [upd] at hk
    · simp [e, upd] at hu hk; exact x2 u hu k hk
  · intro u hu k hk hr; rw [hpc] at hu; rw [g4] at hk; rw [hreg] at hr; rw [g1]
    by_cases e : u = t
    · subst e; simpa [upd] using hr
    · simp [e, upd] at hu ⊢; exact x3 u hu k hk hr
  · intro u hu k hk; rw [hpc] at hu; rw [g4] at hk; rw [hpub]
    by_cases e : u = t
    · subst e; exact x4 u hl k hk
    · simp [e] at hu; exact x4 u hu k hk

/-- the handler at the head of the list is settled WITHOUT a write: skipped (`toGone = false`) or found
stopped (`toGone = true`) -/
theorem exact_settle {s s' : St} {t : Tid} {x : Hid} {p' : Pc} {toGone : Bool} (h : ExactInv s)
    (hs : hasSnap (s.pc t) = true)
    (hpc : s'.pc = upd s.pc t p') (hp1 : hasSnap p' = true) (hp2 : inLog p' = true)
    (hw : wrOf p' = wrOf (s.pc t)) (hpe : pend (s.pc t) = x :: pend p')
    (g1 : s'.snap = s.snap)
    (g2 : s'.skipped = if toGone then s.skipped else upd s.skipped t (x :: s.skipped t))
    (g3 : s'.gone = if toGone then upd s.gone t (x :: s.gone t) else s.gone)
    (g4 : s'.pubAtStart = s.pubAtStart)
    (hst : ∀ k, (s'.hs k).stopped = (s.hs k).stopped) (hx : toGone = true → (s.hs x).stopped = true)
    (hpub : s'.pub = s.pub) (hreg : s'.reg = s.reg) : ExactInv s' := by
  obtain ⟨x1, x2, x3, x4⟩ := h
  refine ⟨?_, ?_, ?_, ?_⟩
  · intro u hu k; rw [hpc] at hu ⊢; rw [g1, g2, g3]
    by_cases e : u = t
    · subst e
      have old := x1 u hs k
      rw [hpe] at old
      simp only [upd_same, hw]
      cases toGone <;> simp [upd] <;> rw [old] <;> simp <;> grind
    · simp [e] at hu ⊢
      have old := x1 u hu k
      cases toGone <;> simp [upd, e] <;> exact old
  · intro u hu k hk; rw [hpc] at hu; rw [g3] at hk; rw [hst]
    by_cases e : u = t
    · subst e
      cases toGone
      · simp at hk; exact x2 u hs k hk
      · simp [upd] at hk
        rcases hk with hk | hk
        · rw [hk]; exact hx rfl
        · exact x2 u hs k hk
    · simp [e] at hu
      cases toGone <;> simp [upd, e] at hk <;> exact x2 u hu k hk
  · intro u hu k hk hr; rw [hpc] at hu; rw [g4] at hk; rw [hreg] at hr; rw [g1]
    by_cases e : u = t
    · subst e; exact x3 u hs k hk hr
    · simp [e] at hu; exact x3 u hu k hk hr
  · intro u hu k hk; rw [hpc] at hu; rw [g4] at hk; rw [hpub]
    by_cases e : u = t
    · subst e; exact x4 u (hasSnap_inLog hs) k hk
    · simp [e] at hu; exact x4 u hu k hk

macro "xx_close" hd:ident t:ident : tactic => `(tactic| first
  | rfl
  | assumption
  | (simp only [*]; rfl)
  | (simp [*, inLog, hasSnap, wrOf, pend]; done)
  | (intro k hk; simp [upd]; split <;> simp_all; done)
  | (intro k; simp only [upd]; split <;> simp_all; done)
  | (have pt := ($hd).pcs $t; have g4 := ($hd).g4
     simp_all [pcInv, inLog, hasSnap, wrOf, pend, setPc, upd]; done)
  | (have pt := ($hd).pcs $t; have g4 := ($hd).g4
     simp_all [pcInv, inLog, hasSnap, wrOf, pend, setPc, upd]; grind)
  | (have pt := ($hd).pcs $t; have g4 := ($hd).g4; have g5 := ($hd).g5
     simp only [pcInv, *] at pt
     intro k hk
     have := List.mem_of_mem_erase hk
     simp_all; done))

theorem exactInv_step {s s' : St} {t : Tid} {lab : Lab} (hd : DataInv s) (h : ExactInv s)
    (hs : step s t lab = some s') : ExactInv s' := by
  unfold step at hs
  split at hs <;> (try (simp only [reduceCtorEq] at hs; done)) <;> (repeat' split at hs) <;>
    (try (simp only [reduceCtorEq] at hs; done)) <;>
    (simp only [Option.some.injEq] at hs; subst hs; (try subst_vars)
     first
     | (refine exact_move h rfl rfl rfl rfl rfl ?_ ?_ ?_ ?_ <;> xx_close hd t)
     | (refine exact_start h rfl rfl rfl rfl rfl rfl rfl rfl; done)
     | (refine exact_snapshot h ?_ rfl rfl rfl rfl rfl rfl rfl rfl <;> xx_close hd t)
     | (refine exact_settle (toGone := false) h ?_ rfl ?_ ?_ ?_ ?_ rfl rfl rfl rfl ?_ ?_ rfl rfl <;> xx_close hd t)
     | (refine exact_settle (toGone := true) h ?_ rfl ?_ ?_ ?_ ?_ rfl rfl rfl rfl ?_ ?_ rfl rfl <;> xx_close hd t))

theorem exactInv_run (sched : List (Tid × Lab)) : ExactInv (run {} sched) := by
  suffices h : ∀ s, LockInv s → DataInv s → ExactInv s → ExactInv (run s sched) from
    h {} lockInv_init dataInv_init exactInv_init
  induction sched with
  | nil => intro s _ _ c; exact c
  | cons x xs ih =>
    intro s a b c
    obtain ⟨t, lab⟩ := x
    simp only [run]
    cases hs : step s t lab with
    | some s' => exact ih s' (lockInv_step a hs) (dataInv_step a b hs) (exactInv_step b c hs)
    | none => exact ih s a b c

end Conc
