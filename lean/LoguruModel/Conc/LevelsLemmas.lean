import LoguruModel.Conc.Levels
/-
C02 – invariant of the level-table protocol for the repaired order (`lookupFirst = false`: handlers are updated
before the level is published) with `add()` building the handler under the core lock (`lockedConstruct = true`).
-/
namespace Levels

def holdsLock : Pc → Bool
  | .n1 | .n2 | .n3 | .n4 _ | .n5 | .a1 | .a2 _ | .a3 | .r1 _ | .r2 => true
  | _ => false

/-- facts attached to a program counter -/
def pcInv (s : St) : Pc → Prop
  | .n4 todo => ∀ h ∈ s.reg, h ∉ todo → s.ansi ≤ s.known h
  | .a2 h => s.ansi ≤ s.known h
  | .b1 _ => False
  | .n3 => False
  | .l1 l => l < s.lookup
  | .l2 l todo => ∀ h ∈ todo, l < s.known h
  | _ => True

structure Inv (s : St) : Prop where
  k1 : ∀ t, holdsLock (s.pc t) = true → s.lock = some t
  la : s.lookup ≤ s.ansi
  ka : ∀ h, s.known h ≤ s.ansi
  rk : ∀ h ∈ s.reg, s.lookup ≤ s.known h
  ne : s.err = false
  pcs : ∀ t, pcInv s (s.pc t)

theorem inv_init : Inv ({} : St) := by
  constructor <;> simp [holdsLock, pcInv]

macro "lv_arms" hs:ident : tactic => `(tactic| (
  unfold step at $hs:ident
  split at $hs:ident <;> (try (simp only [reduceCtorEq] at $hs:ident; done)) <;>
    (repeat' split at $hs:ident) <;> (try (simp only [reduceCtorEq, Bool.false_eq_true] at $hs:ident; done)) <;>
    (simp only [Option.some.injEq] at $hs:ident; subst $hs:ident; (try subst_vars))))

macro "lv_simp" : tactic => `(tactic|
  simp_all [setPc, upd, holdsLock, pcInv])

theorem step_k1 {s s' : St} {t : Tid} {lab : Lab} (h : Inv s) (hs : step false true s t lab = some s') :
    ∀ u, holdsLock (s'.pc u) = true → s'.lock = some u := by
  have k1 := h.k1
  have k1t := k1 t
  lv_arms hs <;> (intro u hu; have := k1 u; by_cases e : u = t <;> lv_simp)

theorem step_la {s s' : St} {t : Tid} {lab : Lab} (h : Inv s) (hs : step false true s t lab = some s') :
    s'.lookup ≤ s'.ansi := by
  have la := h.la
  lv_arms hs <;> (simp [setPc] <;> omega)

theorem step_ka {s s' : St} {t : Tid} {lab : Lab} (h : Inv s) (hs : step false true s t lab = some s') :
    ∀ x, s'.known x ≤ s'.ansi := by
  have ka := h.ka
  lv_arms hs <;> (intro x; have := ka x; simp [setPc, upd] <;> (try split) <;> omega)

/-- `known` never decreases -/
theorem step_mono {s s' : St} {t : Tid} {lab : Lab} (h : Inv s) (hs : step false true s t lab = some s') :
    ∀ x, s.known x ≤ s'.known x := by
  have ka := h.ka
  lv_arms hs <;> (intro x; have := ka x; simp [setPc, upd] <;> (try split) <;> omega)

theorem step_lookup_mono {s s' : St} {t : Tid} {lab : Lab} (h : Inv s) (hs : step false true s t lab = some s') :
    s.lookup ≤ s'.lookup := by
  have la := h.la
  lv_arms hs <;> (simp [setPc] <;> omega)

theorem step_rk {s s' : St} {t : Tid} {lab : Lab} (h : Inv s) (hs : step false true s t lab = some s') :
    ∀ x ∈ s'.reg, s'.lookup ≤ s'.known x := by
  have rk := h.rk; have la := h.la; have pt := h.pcs t
  lv_arms hs <;> ((try simp only [pcInv, *] at pt) <;> (intro x hx; have := rk x; lv_simp <;> (try omega) <;> (try grind)))

theorem step_ne {s s' : St} {t : Tid} {lab : Lab} (h : Inv s) (hs : step false true s t lab = some s') :
    s'.err = false := by
  have ne := h.ne; have pt := h.pcs t
  lv_arms hs <;> ((try simp only [pcInv, *] at pt) <;> lv_simp)

theorem step_pcs_self {s s' : St} {t : Tid} {lab : Lab} (h : Inv s) (hs : step false true s t lab = some s') :
    pcInv s' (s'.pc t) := by
  have rk := h.rk; have la := h.la; have pt := h.pcs t
  lv_arms hs <;> ((try simp only [pcInv, *] at pt) <;> (lv_simp <;> (try omega) <;> (try grind)))

theorem step_pc_other {s s' : St} {t : Tid} {lab : Lab} (hs : step false true s t lab = some s') :
    ∀ u, u ≠ t → s'.pc u = s.pc u := by
  intro u e
  lv_arms hs <;> simp [setPc, upd, e]

/-- a step of `t` that changes `reg` or `ansi`, or lowers nothing: while another thread `u` holds the lock, `t`
can only start operations, wait, or run the lock-free logging path -/
theorem other_frame {s s' : St} {t : Tid} {lab : Lab} (h : Inv s) (hs : step false true s t lab = some s')
    (u : Tid) (e : u ≠ t) (hu : holdsLock (s.pc u) = true) :
    s'.reg = s.reg ∧ s'.ansi = s.ansi ∧ s'.known = s.known := by
  have lku := h.k1 u hu
  have lkt := h.k1 t
  lv_arms hs <;> (simp_all [setPc, holdsLock] <;> (try omega))

theorem step_pcs_other {s s' : St} {t : Tid} {lab : Lab} (h : Inv s) (hs : step false true s t lab = some s')
    (u : Tid) (e : u ≠ t) : pcInv s' (s.pc u) := by
  have pu := h.pcs u
  have mono := step_mono h hs
  have lm := step_lookup_mono h hs
  cases hq : s.pc u with
  | n4 todo =>
    obtain ⟨e1, e2, e3⟩ := other_frame h hs u e (by simp [hq, holdsLock])
    simp only [hq, pcInv] at pu ⊢
    rw [e1, e2, e3]; exact pu
  | a2 x =>
    obtain ⟨e1, e2, e3⟩ := other_frame h hs u e (by simp [hq, holdsLock])
    simp only [hq, pcInv] at pu ⊢
    rw [e2, e3]; exact pu
  | b1 x => simp [hq, pcInv] at pu
  | n3 => simp [hq, pcInv] at pu
  | l1 l => simp only [hq, pcInv] at pu ⊢; omega
  | l2 l todo =>
    simp only [hq, pcInv] at pu ⊢
    intro x hx; have := pu x hx; have := mono x; omega
  | _ => simp [pcInv]

theorem inv_step {s s' : St} {t : Tid} {lab : Lab} (h : Inv s) (hs : step false true s t lab = some s') : Inv s' := by
  refine ⟨step_k1 h hs, step_la h hs, step_ka h hs, step_rk h hs, step_ne h hs, ?_⟩
  intro u
  by_cases e : u = t
  · subst e; exact step_pcs_self h hs
  · rw [step_pc_other hs u e]; exact step_pcs_other h hs u e

theorem inv_run_from (s : St) (h : Inv s) (sched : List (Tid × Lab)) : Inv (run false true s sched) := by
  induction sched generalizing s with
  | nil => exact h
  | cons x xs ih =>
    obtain ⟨t, lab⟩ := x
    simp only [run]
    cases hs : step false true s t lab with
    | some s' => exact ih s' (inv_step h hs)
    | none => exact ih s h

theorem inv_run (sched : List (Tid × Lab)) : Inv (run false true {} sched) := inv_run_from {} inv_init sched

end Levels
