import LoguruModel.Conc.Model
/-
C02 – liveness of the interleaving system: every operation is a FINITE program.

`mu` maps a program counter to (phase, remaining): the phase drops when the operation reads the registry
snapshot that fixes the length of its loop (the registry may still grow while the thread waits for the core lock,
so no bound exists before that read), `remaining` counts the transitions left once the loop length is known.
Every transition a thread takes in the middle of an operation strictly decreases `mu` in the lexicographic order
(`step_decreases`), transitions of other threads do not touch it (`step_frame`); the order is well-founded, so in
any infinite execution in which a mid-operation thread is always eventually given another (enabled) transition –
the FAIRNESS hypothesis, which includes that the locks it waits for are eventually granted to it – the thread
reaches `idle`: its call returns (`fair_thread_completes`).
-/
namespace Conc

def mu : Pc → Nat × Nat
  | .idle => (0, 0)
  | .a0 => (1, 10) | .a1 => (1, 9) | .a2 _ => (1, 8) | .a3 _ => (1, 7) | .a4 _ => (1, 6) | .a5 _ => (1, 5)
  | .a6 _ => (1, 4) | .a7 _ _ => (1, 3) | .a8 _ => (1, 2)
  | .k0 => (2, 0)
  | .k1 todo got => (1, 2 * todo.length + got.length + 3)
  | .k2 got => (1, got.length + 2)
  | .k3 got => (1, got.length + 1)
  | .o0 => (1, 4) | .o1 => (1, 3) | .o2 => (1, 2)
  | .c0 => (2, 1) | .c1 => (2, 0)
  | .cL todo => (1, 2 * todo.length + 1)
  | .cH _ todo => (1, 2 * todo.length + 2)
  | .r0 _ => (2, 2) | .r1 _ => (2, 1)
  | .rErr => (1, 2)
  | .rL todo => (1, 6 * todo.length + 1)
  | .rC _ todo _ => (1, 6 * todo.length + 6)
  | .rP _ todo => (1, 6 * todo.length + 5)
  | .s1 _ todo => (1, 6 * todo.length + 4)
  | .s2 _ todo => (1, 6 * todo.length + 3)
  | .s3 _ todo => (1, 6 * todo.length + 2)
  | .l0 _ => (2, 2) | .l1 _ => (2, 1)
  | .lL _ todo _ => (1, 6 * todo.length + 1)
  | .e1 _ _ todo _ => (1, 6 * todo.length + 6)
  | .e2 _ _ todo _ _ => (1, 6 * todo.length + 5)
  | .e3 _ _ todo _ => (1, 6 * todo.length + 4)
  | .e4 _ _ todo _ => (1, 6 * todo.length + 3)

/-- lexicographic order on (phase, remaining) -/
def lexLt (a b : Nat × Nat) : Prop := a.1 < b.1 ∨ (a.1 = b.1 ∧ a.2 < b.2)

theorem lexLt_wf : WellFounded lexLt := by
  have h : WellFounded (Prod.Lex (fun a b : Nat => a < b) (fun a b : Nat => a < b)) :=
    (Prod.lex Nat.lt_wfRel Nat.lt_wfRel).wf
  refine Subrelation.wf ?_ h
  intro a b hab
  exact Prod.lex_def.mpr hab

theorem erase_length_lt {k : Hid} {got : List Hid} (h : k ∈ got) : (got.erase k).length < got.length := by
  rw [List.length_erase_of_mem h]
  have := List.length_pos_of_mem h
  omega

/-- transitions of other threads leave a thread's program counter alone -/
theorem step_frame {s s' : St} {u v : Tid} {lab : Lab} (hs : step s u lab = some s') (hv : v ≠ u) :
    s'.pc v = s.pc v := by
  unfold step at hs
  split at hs <;> (try (simp only [reduceCtorEq] at hs; done)) <;> (repeat' split at hs) <;>
    (try (simp only [reduceCtorEq] at hs; done)) <;>
    (simp only [Option.some.injEq] at hs; subst hs; simp [setPc, upd, hv])

/-- every transition of a thread that is in the middle of an operation brings it strictly closer to the return -/
theorem step_decreases {s s' : St} {t : Tid} {lab : Lab} (hs : step s t lab = some s') (hmid : s.pc t ≠ .idle) :
    lexLt (mu (s'.pc t)) (mu (s.pc t)) := by
  unfold step at hs
  split at hs <;> (try (simp only [reduceCtorEq] at hs; done)) <;> (repeat' split at hs) <;>
    (try (simp only [reduceCtorEq] at hs; done)) <;>
    (simp only [Option.some.injEq] at hs; subst hs) <;>
    (rename_i hp) <;>
    (first
      | (exfalso; simp_all; done)
      | (simp only [setPc, upd_same]; simp [*, mu, lexLt]; done)
      | (simp only [setPc, upd_same]; simp [*, mu, lexLt]; omega)
      | (have := erase_length_lt (by assumption); simp only [setPc, upd_same]; simp [*, mu, lexLt]; omega)
      | (subst_vars; simp only [setPc, upd_same]; simp [*, mu, lexLt]; omega))

/-- an infinite execution: state `i+1` is obtained from state `i` by the enabled transition `τ i` -/
structure Exec where
  σ : Nat → St
  τ : Nat → Tid × Lab
  ok : ∀ i, step (σ i) (τ i).1 (τ i).2 = some (σ (i + 1))

theorem Exec.unchanged (e : Exec) (t : Tid) (i : Nat) :
    ∀ n, (∀ l, i ≤ l → l < i + n → (e.τ l).1 ≠ t) → (e.σ (i + n)).pc t = (e.σ i).pc t := by
  intro n
  induction n with
  | zero => intro _; rfl
  | succ n ih =>
    intro h
    have h1 := ih (fun l a b => h l a (by omega))
    have h2 := step_frame (e.ok (i + n)) (v := t) (fun eq => h (i + n) (by omega) (by omega) eq.symm)
    rw [← h1, ← h2]; rfl

theorem Exec.first_step (e : Exec) (t : Tid) :
    ∀ d i, (e.τ (i + d)).1 = t → ∃ k, i ≤ k ∧ (e.τ k).1 = t ∧ ∀ l, i ≤ l → l < k → (e.τ l).1 ≠ t := by
  intro d
  induction d with
  | zero => intro i h; exact ⟨i, Nat.le_refl i, h, fun l a b => absurd a (by omega)⟩
  | succ d ih =>
    intro i h
    by_cases h0 : (e.τ i).1 = t
    · exact ⟨i, Nat.le_refl i, h0, fun l a b => absurd a (by omega)⟩
    · obtain ⟨k, hk, hkt, hmin⟩ := ih (i + 1) (by rw [show i + 1 + d = i + (d + 1) by omega]; exact h)
      refine ⟨k, by omega, hkt, ?_⟩
      intro l a b
      by_cases hl : l = i
      · subst hl; exact h0
      · exact hmin l (by omega) b

/-- LIVENESS UNDER FAIRNESS: in an infinite execution in which thread `t`, whenever it is in the middle of an
operation, is eventually given another transition (fair scheduler; the lock it waits for is eventually
granted), every operation of `t` – log, add, remove, remove-all, complete, level/enable/disable, fork –
RETURNS: from every point of the execution a state is reached in which `t` is idle. -/
theorem fair_thread_completes (e : Exec) (t : Tid)
    (fair : ∀ i, (e.σ i).pc t ≠ .idle → ∃ j, i ≤ j ∧ (e.τ j).1 = t) :
    ∀ i, ∃ j, i ≤ j ∧ (e.σ j).pc t = .idle := by
  intro i
  generalize hm : mu ((e.σ i).pc t) = m
  induction m using lexLt_wf.induction generalizing i with
  | _ m ih =>
    by_cases hidle : (e.σ i).pc t = .idle
    · exact ⟨i, Nat.le_refl i, hidle⟩
    · obtain ⟨j, hij, hj⟩ := fair i hidle
      obtain ⟨k, hik, hkt, hmin⟩ := e.first_step t (j - i) i (by rw [show i + (j - i) = j by omega]; exact hj)
      have hsame : (e.σ k).pc t = (e.σ i).pc t := by
        have := e.unchanged t i (k - i) (fun l a b => hmin l a (by omega))
        rwa [show i + (k - i) = k by omega] at this
      have hstep := e.ok k
      rw [hkt] at hstep
      have hdec := step_decreases hstep (by rw [hsame]; exact hidle)
      rw [hsame, hm] at hdec
      obtain ⟨j', hj', hidle'⟩ := ih _ hdec (k + 1) rfl
      exact ⟨j', by omega, hidle'⟩

/-! non-vacuity: an infinite fair execution exists – thread 0 calling `level()` for ever -/

def demoLab (i : Nat) : Lab :=
  if i % 3 = 0 then .start .other else if i % 3 = 1 then .acqCore else .relCore

def demoσ : Nat → St
  | 0 => {}
  | i + 1 => (step (demoσ i) 0 (demoLab i)).getD (demoσ i)

theorem demo_inv (i : Nat) :
    (i % 3 = 0 → (demoσ i).pc 0 = .idle ∧ (demoσ i).coreLock = none) ∧
    (i % 3 = 1 → (demoσ i).pc 0 = .o0 ∧ (demoσ i).coreLock = none) ∧
    (i % 3 = 2 → (demoσ i).pc 0 = .o1 ∧ (demoσ i).coreLock = some 0) := by
  induction i with
  | zero => simp [demoσ]
  | succ i ih =>
    obtain ⟨h0, h1, h2⟩ := ih
    have hc : i % 3 = 0 ∨ i % 3 = 1 ∨ i % 3 = 2 := by omega
    rcases hc with hc | hc | hc
    · obtain ⟨a, b⟩ := h0 hc
      have e : (i + 1) % 3 = 1 := by omega
      simp [demoσ, demoLab, hc, step, a, b, e, setPc]
    · obtain ⟨a, b⟩ := h1 hc
      have e : (i + 1) % 3 = 2 := by omega
      simp [demoσ, demoLab, hc, step, a, b, e, setPc]
    · obtain ⟨a, b⟩ := h2 hc
      have e : (i + 1) % 3 = 0 := by omega
      simp [demoσ, demoLab, hc, step, a, b, e, setPc]

def demoExec : Exec where
  σ := demoσ
  τ := fun i => (0, demoLab i)
  ok := by
    intro i
    obtain ⟨h0, h1, h2⟩ := demo_inv i
    have hc : i % 3 = 0 ∨ i % 3 = 1 ∨ i % 3 = 2 := by omega
    rcases hc with hc | hc | hc
    · obtain ⟨a, b⟩ := h0 hc; simp [demoσ, demoLab, hc, step, a, b]
    · obtain ⟨a, b⟩ := h1 hc; simp [demoσ, demoLab, hc, step, a, b]
    · obtain ⟨a, b⟩ := h2 hc; simp [demoσ, demoLab, hc, step, a, b]

theorem demo_fair : ∀ i, (demoExec.σ i).pc 0 ≠ .idle → ∃ j, i ≤ j ∧ (demoExec.τ j).1 = 0 :=
  fun i _ => ⟨i, Nat.le_refl i, rfl⟩

end Conc
