import LoguruModel.Conc.Model
/-
C02 – the inductive invariants of the interleaving system and their preservation by every step.
Part 1: lock discipline (who holds which lock is determined by the program counters).
-/
namespace Conc

def holdsCore : Pc → Bool
  | .a1 | .a2 _ | .a3 _ | .a4 _ | .a6 _ | .a7 _ _ | .a8 _ => true
  | .r1 _ | .rErr | .rL _ | .rC _ _ _ | .rP _ _ | .s1 _ _ | .s2 _ _ | .s3 _ _ | .o1 | .o2 => true
  | .k1 _ _ | .k2 _ | .k3 _ => true
  | .c1 | .cL _ | .cH _ _ => true
  | _ => false

/-- the handler locks a program counter holds (a forking thread holds several) -/
def heldH : Pc → List Hid
  | .s1 h _ | .s2 h _ | .s3 h _ => [h]
  | .e1 _ h _ _ | .e2 _ h _ _ _ | .e3 _ h _ _ | .e4 _ h _ _ => [h]
  | .k1 _ got | .k2 got | .k3 got => got
  | .cH h _ => [h]
  | _ => []

structure LockInv (s : St) : Prop where
  c1 : ∀ t, holdsCore (s.pc t) = true → s.coreLock = some t
  c2 : ∀ t, s.coreLock = some t → holdsCore (s.pc t) = true
  h1 : ∀ t h, h ∈ heldH (s.pc t) → (s.hs h).lock = some t
  h2 : ∀ t h, (s.hs h).lock = some t → h ∈ heldH (s.pc t)
  nd : ∀ t, (heldH (s.pc t)).Nodup

theorem lockInv_init : LockInv ({} : St) := by
  constructor <;> simp [holdsCore, heldH]

/-- frame for the three core-lock clauses when handler locks are untouched -/
theorem lock_frameH {s s' : St} {t : Tid} {p' : Pc} (h : LockInv s)
    (hpc : s'.pc = upd s.pc t p') (hhl : ∀ k, (s'.hs k).lock = (s.hs k).lock)
    (hh : heldH p' = heldH (s.pc t)) :
    (∀ u k, k ∈ heldH (s'.pc u) → (s'.hs k).lock = some u) ∧
    (∀ u k, (s'.hs k).lock = some u → k ∈ heldH (s'.pc u)) ∧
    (∀ u, (heldH (s'.pc u)).Nodup) := by
  refine ⟨?_, ?_, ?_⟩
  · intro u k hu; rw [hpc] at hu; rw [hhl]
    by_cases e : u = t
    · subst e; simp at hu; exact h.h1 u k (hh ▸ hu)
    · simp [e] at hu; exact h.h1 u k hu
  · intro u k hu; rw [hhl] at hu; rw [hpc]
    by_cases e : u = t
    · subst e; simp; rw [hh]; exact h.h2 u k hu
    · simp [e]; exact h.h2 u k hu
  · intro u; rw [hpc]
    by_cases e : u = t
    · subst e; simp; rw [hh]; exact h.nd u
    · simp [e]; exact h.nd u

/-- a step that moves only `t`'s pc between two pcs with the same holdings and leaves locks alone -/
theorem lock_move {s s' : St} {t : Tid} {p' : Pc} (h : LockInv s)
    (hpc : s'.pc = upd s.pc t p') (hcl : s'.coreLock = s.coreLock)
    (hhl : ∀ k, (s'.hs k).lock = (s.hs k).lock)
    (hc : holdsCore p' = holdsCore (s.pc t)) (hh : heldH p' = heldH (s.pc t)) : LockInv s' := by
  obtain ⟨a, b, c⟩ := lock_frameH h hpc hhl hh
  refine ⟨?_, ?_, a, b, c⟩
  · intro u hu; rw [hpc] at hu; rw [hcl]
    by_cases e : u = t
    · subst e; simp at hu; exact h.c1 u (hc ▸ hu)
    · simp [e] at hu; exact h.c1 u hu
  · intro u hu; rw [hcl] at hu; rw [hpc]
    by_cases e : u = t
    · subst e; simp; rw [hc]; exact h.c2 u hu
    · simp [e]; exact h.c2 u hu

theorem lock_acqCore {s s' : St} {t : Tid} {p' : Pc} (h : LockInv s)
    (hpc : s'.pc = upd s.pc t p') (hfree : s.coreLock = none) (hcl : s'.coreLock = some t)
    (hhl : ∀ k, (s'.hs k).lock = (s.hs k).lock)
    (hc : holdsCore p' = true) (hh : heldH p' = heldH (s.pc t)) : LockInv s' := by
  obtain ⟨a, b, c⟩ := lock_frameH h hpc hhl hh
  refine ⟨?_, ?_, a, b, c⟩
  · intro u hu; rw [hpc] at hu; rw [hcl]
    by_cases e : u = t
    · rw [e]
    · simp [e] at hu; have := h.c1 u hu; rw [hfree] at this; cases this
  · intro u hu; rw [hcl] at hu; rw [hpc]
    have : u = t := (Option.some.inj hu).symm
    subst this; simpa using hc

theorem lock_relCore {s s' : St} {t : Tid} {p' : Pc} (h : LockInv s)
    (hpc : s'.pc = upd s.pc t p') (hold : holdsCore (s.pc t) = true) (hcl : s'.coreLock = none)
    (hhl : ∀ k, (s'.hs k).lock = (s.hs k).lock)
    (hc : holdsCore p' = false) (hh : heldH p' = heldH (s.pc t)) : LockInv s' := by
  have own := h.c1 t hold
  obtain ⟨a, b, c⟩ := lock_frameH h hpc hhl hh
  refine ⟨?_, ?_, a, b, c⟩
  · intro u hu; rw [hpc] at hu
    by_cases e : u = t
    · subst e; simp [hc] at hu
    · simp [e] at hu; have := h.c1 u hu; rw [own] at this; exact absurd (Option.some.inj this).symm e
  · intro u hu; rw [hcl] at hu; cases hu

/-- frame for the two core-lock clauses when the core lock is untouched -/
theorem lock_frameC {s s' : St} {t : Tid} {p' : Pc} (h : LockInv s)
    (hpc : s'.pc = upd s.pc t p') (hcl : s'.coreLock = s.coreLock)
    (hc : holdsCore p' = holdsCore (s.pc t)) :
    (∀ u, holdsCore (s'.pc u) = true → s'.coreLock = some u) ∧
    (∀ u, s'.coreLock = some u → holdsCore (s'.pc u) = true) := by
  refine ⟨?_, ?_⟩
  · intro u hu; rw [hpc] at hu; rw [hcl]
    by_cases e : u = t
    · subst e; simp at hu; exact h.c1 u (hc ▸ hu)
    · simp [e] at hu; exact h.c1 u hu
  · intro u hu; rw [hcl] at hu; rw [hpc]
    by_cases e : u = t
    · subst e; simp; rw [hc]; exact h.c2 u hu
    · simp [e]; exact h.c2 u hu

theorem lock_acqH {s s' : St} {t : Tid} {p' : Pc} {x : Hid} (h : LockInv s)
    (hpc : s'.pc = upd s.pc t p') (hcl : s'.coreLock = s.coreLock)
    (hhs : s'.hs = upd s.hs x { s.hs x with lock := some t })
    (hfree : (s.hs x).lock = none)
    (hc : holdsCore p' = holdsCore (s.pc t)) (hh : heldH p' = x :: heldH (s.pc t)) : LockInv s' := by
  have hx : (s'.hs x).lock = some t := by rw [hhs]; simp
  have hhl : ∀ k, k ≠ x → (s'.hs k).lock = (s.hs k).lock := by intro k hk; rw [hhs]; simp [hk]
  obtain ⟨a, b⟩ := lock_frameC h hpc hcl hc
  have xnew : x ∉ heldH (s.pc t) := fun hm => by
    have := h.h1 t x hm; rw [hfree] at this; cases this
  refine ⟨a, b, ?_, ?_, ?_⟩
  · intro u k hu; rw [hpc] at hu
    by_cases e : u = t
    · subst e; simp [hh] at hu
      rcases hu with hu | hu
      · subst hu; exact hx
      · have old := h.h1 u k hu
        have : k ≠ x := fun ek => xnew (ek ▸ hu)
        rw [hhl k this]; exact old
    · simp [e] at hu
      have old := h.h1 u k hu
      by_cases ek : k = x
      · subst ek; rw [hfree] at old; cases old
      · rw [hhl k ek]; exact old
  · intro u k hu; rw [hpc]
    by_cases ek : k = x
    · subst ek; rw [hx] at hu; have : u = t := (Option.some.inj hu).symm; subst this; simp [hh]
    · rw [hhl k ek] at hu
      have old := h.h2 u k hu
      by_cases e : u = t
      · subst e; simp [hh]; exact Or.inr old
      · simp [e]; exact old
  · intro u; rw [hpc]
    by_cases e : u = t
    · subst e; simp [hh]; exact ⟨xnew, h.nd u⟩
    · simp [e]; exact h.nd u

theorem lock_relH {s s' : St} {t : Tid} {p' : Pc} {x : Hid} (h : LockInv s)
    (hpc : s'.pc = upd s.pc t p') (hcl : s'.coreLock = s.coreLock)
    (hhs : s'.hs = upd s.hs x { s.hs x with lock := none })
    (hold : x ∈ heldH (s.pc t))
    (hc : holdsCore p' = holdsCore (s.pc t)) (hh : heldH p' = (heldH (s.pc t)).erase x) : LockInv s' := by
  have hx : (s'.hs x).lock = none := by rw [hhs]; simp
  have hhl : ∀ k, k ≠ x → (s'.hs k).lock = (s.hs k).lock := by intro k hk; rw [hhs]; simp [hk]
  have own := h.h1 t x hold
  have ndt := h.nd t
  obtain ⟨a, b⟩ := lock_frameC h hpc hcl hc
  refine ⟨a, b, ?_, ?_, ?_⟩
  · intro u k hu; rw [hpc] at hu
    by_cases e : u = t
    · subst e; simp [hh] at hu
      have hk := (List.Nodup.mem_erase_iff ndt).mp hu
      rw [hhl k hk.1]; exact h.h1 u k hk.2
    · simp [e] at hu
      have old := h.h1 u k hu
      by_cases ek : k = x
      · subst ek; rw [own] at old; exact absurd (Option.some.inj old).symm e
      · rw [hhl k ek]; exact old
  · intro u k hu; rw [hpc]
    by_cases ek : k = x
    · subst ek; rw [hx] at hu; cases hu
    · rw [hhl k ek] at hu
      have old := h.h2 u k hu
      by_cases e : u = t
      · subst e; simp [hh]; exact (List.Nodup.mem_erase_iff ndt).mpr ⟨ek, old⟩
      · simp [e]; exact old
  · intro u; rw [hpc]
    by_cases e : u = t
    · subst e; simp [hh]; exact ndt.erase x
    · simp [e]; exact h.nd u

/-- closes the side conditions of the lemmas above on a concrete arm of `step` -/
macro "lk_close" : tactic => `(tactic| first
  | rfl
  | assumption
  | (simp only [*]; rfl)
  | (intro k; first | rfl | (simp only [upd]; split <;> simp_all; done))
  | (intro k hk; simp [setPc, upd, hk]; done)
  | (intro k hk; simp [*, heldH] at hk; simp [setPc, upd, hk]; done)
  | (simp [*, holdsCore, heldH, setPc, upd]; done)
  | (simp_all [holdsCore, heldH, setPc, upd]; done))

theorem lockInv_step {s s' : St} {t : Tid} {lab : Lab} (h : LockInv s) (hs : step s t lab = some s') :
    LockInv s' := by
  unfold step at hs
  split at hs <;> (try (simp only [reduceCtorEq] at hs; done)) <;> (repeat' split at hs) <;>
    (try (simp only [reduceCtorEq] at hs; done)) <;>
    (simp only [Option.some.injEq] at hs; subst hs; (try subst_vars)
     first
     | (refine lock_move h rfl rfl ?_ ?_ ?_ <;> lk_close)
     | (refine lock_acqCore h rfl ?_ rfl ?_ ?_ ?_ <;> lk_close)
     | (refine lock_relCore h rfl ?_ rfl ?_ ?_ ?_ <;> lk_close)
     | (refine lock_acqH h rfl rfl rfl ?_ ?_ ?_ <;> lk_close)
     | (refine lock_relH h rfl rfl rfl ?_ ?_ ?_ <;> lk_close))

theorem lockInv_run (s : St) (h : LockInv s) : ∀ sched, LockInv (run s sched) := by
  intro sched
  induction sched generalizing s with
  | nil => exact h
  | cons x xs ih =>
    obtain ⟨t, lab⟩ := x
    simp only [run]
    cases hs : step s t lab with
    | some s' => exact ih s' (lockInv_step h hs)
    | none => exact ih s h

end Conc
