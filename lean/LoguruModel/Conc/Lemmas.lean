import LoguruModel.Conc.Model
/-
C02 – the inductive invariants of the interleaving system and their preservation by every step.
Part 1: lock discipline (who holds which lock is determined by the program counters).
-/
namespace Conc

def holdsCore : Pc → Bool
  | .a1 | .a2 _ | .a3 _ | .a4 _ | .a6 _ | .a7 _ _ | .a8 _ => true
  | .r1 _ | .rErr | .rL _ | .rC _ _ _ | .rP _ _ | .s1 _ _ | .s2 _ _ | .s3 _ _ | .o1 => true
  | _ => false

def holdsH : Pc → Option Hid
  | .s1 h _ | .s2 h _ | .s3 h _ => some h
  | .e1 _ h _ _ | .e2 _ h _ _ _ | .e3 _ h _ _ | .e4 _ h _ _ => some h
  | _ => none

structure LockInv (s : St) : Prop where
  c1 : ∀ t, holdsCore (s.pc t) = true → s.coreLock = some t
  c2 : ∀ t, s.coreLock = some t → holdsCore (s.pc t) = true
  h1 : ∀ t h, holdsH (s.pc t) = some h → (s.hs h).lock = some t
  h2 : ∀ t h, (s.hs h).lock = some t → holdsH (s.pc t) = some h

theorem lockInv_init : LockInv ({} : St) := by
  constructor <;> simp [holdsCore, holdsH]

/-- a step that moves only `t`'s pc between two pcs with the same holdings and leaves locks alone -/
theorem lock_move {s s' : St} {t : Tid} {p' : Pc} (h : LockInv s)
    (hpc : s'.pc = upd s.pc t p') (hcl : s'.coreLock = s.coreLock)
    (hhl : ∀ k, (s'.hs k).lock = (s.hs k).lock)
    (hc : holdsCore p' = holdsCore (s.pc t)) (hh : holdsH p' = holdsH (s.pc t)) : LockInv s' := by
  constructor
  · intro u hu; rw [hpc] at hu; rw [hcl]
    by_cases e : u = t
    · subst e; simp at hu; exact h.c1 u (hc ▸ hu)
    · simp [e] at hu; exact h.c1 u hu
  · intro u hu; rw [hcl] at hu; rw [hpc]
    by_cases e : u = t
    · subst e; simp; rw [hc]; exact h.c2 u hu
    · simp [e]; exact h.c2 u hu
  · intro u k hu; rw [hpc] at hu; rw [hhl]
    by_cases e : u = t
    · subst e; simp at hu; exact h.h1 u k (hh ▸ hu)
    · simp [e] at hu; exact h.h1 u k hu
  · intro u k hu; rw [hhl] at hu; rw [hpc]
    by_cases e : u = t
    · subst e; simp; rw [hh]; exact h.h2 u k hu
    · simp [e]; exact h.h2 u k hu

theorem lock_acqCore {s s' : St} {t : Tid} {p' : Pc} (h : LockInv s)
    (hpc : s'.pc = upd s.pc t p') (hfree : s.coreLock = none) (hcl : s'.coreLock = some t)
    (hhl : ∀ k, (s'.hs k).lock = (s.hs k).lock)
    (hc : holdsCore p' = true) (hh : holdsH p' = holdsH (s.pc t)) : LockInv s' := by
  constructor
  · intro u hu; rw [hpc] at hu; rw [hcl]
    by_cases e : u = t
    · rw [e]
    · simp [e] at hu; have := h.c1 u hu; rw [hfree] at this; cases this
  · intro u hu; rw [hcl] at hu; rw [hpc]
    have : u = t := (Option.some.inj hu).symm
    subst this; simpa using hc
  · intro u k hu; rw [hpc] at hu; rw [hhl]
    by_cases e : u = t
    · subst e; simp at hu; exact h.h1 u k (hh ▸ hu)
    · simp [e] at hu; exact h.h1 u k hu
  · intro u k hu; rw [hhl] at hu; rw [hpc]
    by_cases e : u = t
    · subst e; simp; rw [hh]; exact h.h2 u k hu
    · simp [e]; exact h.h2 u k hu

theorem lock_relCore {s s' : St} {t : Tid} {p' : Pc} (h : LockInv s)
    (hpc : s'.pc = upd s.pc t p') (hold : holdsCore (s.pc t) = true) (hcl : s'.coreLock = none)
    (hhl : ∀ k, (s'.hs k).lock = (s.hs k).lock)
    (hc : holdsCore p' = false) (hh : holdsH p' = holdsH (s.pc t)) : LockInv s' := by
  have own := h.c1 t hold
  constructor
  · intro u hu; rw [hpc] at hu
    by_cases e : u = t
    · subst e; simp [hc] at hu
    · simp [e] at hu; have := h.c1 u hu; rw [own] at this; exact absurd (Option.some.inj this).symm e
  · intro u hu; rw [hcl] at hu; cases hu
  · intro u k hu; rw [hpc] at hu; rw [hhl]
    by_cases e : u = t
    · subst e; simp at hu; exact h.h1 u k (hh ▸ hu)
    · simp [e] at hu; exact h.h1 u k hu
  · intro u k hu; rw [hhl] at hu; rw [hpc]
    by_cases e : u = t
    · subst e; simp; rw [hh]; exact h.h2 u k hu
    · simp [e]; exact h.h2 u k hu

theorem lock_acqH {s s' : St} {t : Tid} {p' : Pc} {x : Hid} (h : LockInv s)
    (hpc : s'.pc = upd s.pc t p') (hcl : s'.coreLock = s.coreLock)
    (hfree : (s.hs x).lock = none) (hnone : holdsH (s.pc t) = none)
    (hx : (s'.hs x).lock = some t) (hhl : ∀ k, k ≠ x → (s'.hs k).lock = (s.hs k).lock)
    (hc : holdsCore p' = holdsCore (s.pc t)) (hh : holdsH p' = some x) : LockInv s' := by
  constructor
  · intro u hu; rw [hpc] at hu; rw [hcl]
    by_cases e : u = t
    · subst e; simp at hu; exact h.c1 u (hc ▸ hu)
    · simp [e] at hu; exact h.c1 u hu
  · intro u hu; rw [hcl] at hu; rw [hpc]
    by_cases e : u = t
    · subst e; simp; rw [hc]; exact h.c2 u hu
    · simp [e]; exact h.c2 u hu
  · intro u k hu; rw [hpc] at hu
    by_cases e : u = t
    · subst e; simp [hh] at hu; subst hu; exact hx
    · simp [e] at hu
      have old := h.h1 u k hu
      by_cases ek : k = x
      · subst ek; rw [hfree] at old; cases old
      · rw [hhl k ek]; exact old
  · intro u k hu; rw [hpc]
    by_cases ek : k = x
    · subst ek; rw [hx] at hu; have : u = t := (Option.some.inj hu).symm; subst this; simpa using hh
    · rw [hhl k ek] at hu
      have old := h.h2 u k hu
      by_cases e : u = t
      · subst e; rw [hnone] at old; cases old
      · simp [e]; exact old

theorem lock_relH {s s' : St} {t : Tid} {p' : Pc} {x : Hid} (h : LockInv s)
    (hpc : s'.pc = upd s.pc t p') (hcl : s'.coreLock = s.coreLock)
    (hold : holdsH (s.pc t) = some x)
    (hx : (s'.hs x).lock = none) (hhl : ∀ k, k ≠ x → (s'.hs k).lock = (s.hs k).lock)
    (hc : holdsCore p' = holdsCore (s.pc t)) (hh : holdsH p' = none) : LockInv s' := by
  have own := h.h1 t x hold
  constructor
  · intro u hu; rw [hpc] at hu; rw [hcl]
    by_cases e : u = t
    · subst e; simp at hu; exact h.c1 u (hc ▸ hu)
    · simp [e] at hu; exact h.c1 u hu
  · intro u hu; rw [hcl] at hu; rw [hpc]
    by_cases e : u = t
    · subst e; simp; rw [hc]; exact h.c2 u hu
    · simp [e]; exact h.c2 u hu
  · intro u k hu; rw [hpc] at hu
    by_cases e : u = t
    · subst e; simp [hh] at hu
    · simp [e] at hu
      have old := h.h1 u k hu
      by_cases ek : k = x
      · subst ek; rw [own] at old; exact absurd (Option.some.inj old).symm e
      · rw [hhl k ek]; exact old
  · intro u k hu; rw [hpc]
    by_cases ek : k = x
    · subst ek; rw [hx] at hu; cases hu
    · rw [hhl k ek] at hu
      have old := h.h2 u k hu
      by_cases e : u = t
      · subst e; rw [hold] at old; exact absurd (Option.some.inj old).symm ek
      · simp [e]; exact old

/-- closes the side conditions of the five lemmas above on a concrete arm of `step` -/
macro "lk_close" : tactic => `(tactic| first
  | rfl
  | assumption
  | (simp only [*]; rfl)
  | (intro k; first | rfl | (simp only [upd]; split <;> simp_all; done))
  | (intro k hk; simp [setPc, upd, hk]; done)
  | (intro k hk; simp [*, holdsH] at hk; simp [setPc, upd, hk]; done)
  | (simp [*, holdsCore, holdsH, setPc, upd]; done)
  | (simp_all [holdsCore, holdsH, setPc, upd]; done))

theorem lockInv_step {s s' : St} {t : Tid} {lab : Lab} (h : LockInv s) (hs : step s t lab = some s') :
    LockInv s' := by
  unfold step at hs
  split at hs <;> (try (simp only [reduceCtorEq] at hs; done)) <;> (repeat' split at hs) <;>
    (try (simp only [reduceCtorEq] at hs; done)) <;>
    (simp only [Option.some.injEq] at hs; subst hs; (try subst_vars)
     first
     | (refine lock_move h rfl rfl ?_ ?_ ?_ <;> lk_close)
     | (refine lock_acqCore h rfl ?_ rfl ?_ ?_ ?_ <;> lk_close)
     | (refine lock_relCore h rfl ?_ rfl ?_ ?_ ?_ <;> lk_close)
     | (refine lock_acqH h (hh := rfl) rfl rfl ?_ ?_ ?_ ?_ ?_ <;> lk_close)
     | (refine lock_relH (x := (holdsH (s.pc t)).getD 0) h rfl rfl ?_ ?_ ?_ ?_ ?_ <;> lk_close))

theorem lockInv_run (s : St) (h : LockInv s) : ∀ sched, LockInv (run s sched) := by
  intro sched
  induction sched generalizing s with
  | nil => exact h
  | cons x xs ih =>
    obtain ⟨t, lab⟩ := x
    simp only [run]
    cases hs : step s t lab with
    | some s' => exact ih s' (lockInv_step h hs)
    | none => exact ih s h

end Conc
