/-
C15 – "no fork position relative to the enqueue worker leaves a sink or stream interrupted mid-write in the
child": the writer thread of one `enqueue=True` handler and any number of forking threads, reduced to the one
lock that matters here (`_queue_lock`, taken by `acquire_locks()` before every fork).

The worker takes the lock, writes the message to the sink and – when the sink raises – prints the error report
on `sys.stderr`.  `reportUnderLock` (read from the source, Generated/QueueShape.lean) says whether that report is
printed while the lock is still held (the code: `try/except` inside `with lock`) or after it has been released.
-/
namespace ForkWorker

abbrev Tid := Nat

inductive Lab where
  | startFork | acqQ | fork | relQ
  | get | wAcq | writeOk | writeFails | reportRel | rel | report
  deriving DecidableEq, Repr

inductive Pc where
  | idle | f0 | f1 | f2          -- forker: wants the lock; holds it (the fork happens here); forked, still holds it
  deriving DecidableEq, Repr

inductive WPc where
  | w0 | w1 | w2 | w3 | w4       -- idle; has a message, wants the lock; writing; reporting under the lock; reporting after release
  deriving DecidableEq, Repr

structure St where
  lockQ : Option Tid := none
  pc : Tid → Pc := fun _ => .idle
  w : WPc := .w0
  /-- ghost: some fork happened while the worker was in the middle of output (sink write or error report) -/
  midOutputAtFork : Bool := false

def workerTid : Tid := 0

def upd (f : Nat → Pc) (k : Nat) (v : Pc) : Nat → Pc := fun u => if u = k then v else f u

@[simp] theorem upd_same (f : Nat → Pc) (k : Nat) (v : Pc) : upd f k v k = v := by simp [upd]
@[simp] theorem upd_other (f : Nat → Pc) (k : Nat) (v : Pc) (u : Nat) (h : u ≠ k) : upd f k v u = f u := by
  simp [upd, h]

def outputting : WPc → Bool
  | .w2 | .w3 | .w4 => true
  | _ => false

def stepW (reportUnderLock : Bool) (s : St) (lab : Lab) : Option St :=
  match s.w, lab with
  | .w0, .get => some { s with w := .w1 }
  | .w1, .wAcq => if s.lockQ = none then some { s with lockQ := some workerTid, w := .w2 } else none
  | .w2, .writeOk => some { s with lockQ := none, w := .w0 }
  | .w2, .writeFails =>
      if reportUnderLock then some { s with w := .w3 } else some { s with lockQ := none, w := .w4 }
  | .w3, .reportRel => some { s with lockQ := none, w := .w0 }
  | .w4, .report => some { s with w := .w0 }
  | _, _ => none

def stepP (s : St) (t : Tid) (lab : Lab) : Option St :=
  match s.pc t, lab with
  | .idle, .startFork => some { s with pc := upd s.pc t .f0 }
  | .f0, .acqQ => if s.lockQ = none then some { s with pc := upd s.pc t .f1, lockQ := some t } else none
  | .f1, .fork =>
      some { s with pc := upd s.pc t .f2, midOutputAtFork := s.midOutputAtFork || outputting s.w }
  | .f2, .relQ => some { s with pc := upd s.pc t .idle, lockQ := none }
  | _, _ => none

def step (reportUnderLock : Bool) (s : St) (t : Tid) (lab : Lab) : Option St :=
  if t = workerTid then stepW reportUnderLock s lab else stepP s t lab

def run (reportUnderLock : Bool) (s : St) : List (Tid × Lab) → St
  | [] => s
  | (t, lab) :: rest =>
    match step reportUnderLock s t lab with
    | some s' => run reportUnderLock s' rest
    | none => run reportUnderLock s rest

/-- the worker is outputting only while it holds the lock; a forker at / after the fork point holds it -/
structure Inv (s : St) : Prop where
  wl : outputting s.w = true → s.lockQ = some workerTid
  fl : ∀ t, t ≠ workerTid → (s.pc t = .f1 ∨ s.pc t = .f2) → s.lockQ = some t
  ok : s.midOutputAtFork = false

theorem inv_init : Inv ({} : St) := by
  constructor <;> simp [outputting]

theorem inv_stepW {s s' : St} {lab : Lab} (h : Inv s) (hs : stepW true s lab = some s') : Inv s' := by
  obtain ⟨wl, fl, ok⟩ := h
  unfold stepW at hs
  split at hs <;> (try (simp only [reduceCtorEq] at hs; done)) <;> (repeat' split at hs) <;>
    (try (simp only [reduceCtorEq] at hs; done)) <;>
    (simp only [Option.some.injEq] at hs; subst hs) <;>
    exact ⟨by simp_all [outputting],
           by intro u hu hp; have h2 := fl u hu hp; simp_all [outputting],
           by simp_all⟩

theorem inv_stepP {s s' : St} {t : Tid} {lab : Lab} (h : Inv s) (ht : t ≠ workerTid)
    (hs : stepP s t lab = some s') : Inv s' := by
  obtain ⟨wl, fl, ok⟩ := h
  have flt := fl t ht
  unfold stepP at hs
  split at hs <;> (try (simp only [reduceCtorEq] at hs; done)) <;> (repeat' split at hs) <;>
    (try (simp only [reduceCtorEq] at hs; done)) <;>
    (simp only [Option.some.injEq] at hs; subst hs) <;>
    exact ⟨by cases hw : s.w <;> simp_all [outputting],
           by intro u hu hp; have h2 := fl u hu; by_cases e : u = t <;> simp_all [upd],
           by cases hw : s.w <;> simp_all [outputting]⟩

theorem inv_step {s s' : St} {t : Tid} {lab : Lab} (h : Inv s) (hs : step true s t lab = some s') : Inv s' := by
  unfold step at hs
  split at hs
  · exact inv_stepW h hs
  · rename_i ht; exact inv_stepP h ht hs

theorem inv_run (sched : List (Tid × Lab)) : Inv (run true {} sched) := by
  suffices h : ∀ s, Inv s → Inv (run true s sched) from h {} inv_init
  induction sched with
  | nil => intro s h; exact h
  | cons x xs ih =>
    intro s h
    obtain ⟨t, lab⟩ := x
    simp only [run]
    cases hs : step true s t lab with
    | some s' => exact ih s' (inv_step h hs)
    | none => exact ih s h

end ForkWorker
