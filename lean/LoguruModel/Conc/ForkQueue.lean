/-
C15 – one `enqueue=True` handler with a BOUNDED pipe, emitters, the writer thread and forking threads.

This is the system in which defect F6 lives: `emit` holds the handler lock `_lock` while it blocks in
`queue.put` on a full pipe; the writer thread (`_queued_writer`) needs `_queue_lock` to write what it
took out of the pipe; `acquire_locks()` of a forking thread takes the core lock, then `_lock` and
`_queue_lock` in an order given by the parameter `handlerFirst` (true = the repaired code: every
handler lock before every queue lock; false = the order the WeakSet could produce before c2d0925).
-/
namespace ForkQueue

abbrev Tid := Nat

inductive Lab where
  | startEmit | startFork
  | acqH | put | relH
  | acqCore | acqFirst | acqSecond | fork | relQ | relHf | relCore
  | get | acqQ | writeRel
  deriving DecidableEq, Repr

def Lab.all : List Lab :=
  [.startEmit, .startFork, .acqH, .put, .relH, .acqCore, .acqFirst, .acqSecond, .fork, .relQ, .relHf,
   .relCore, .get, .acqQ, .writeRel]

theorem Lab.mem_all (l : Lab) : l ∈ Lab.all := by cases l <;> simp [Lab.all]

inductive Pc where
  | idle
  | e0 | e1 | e2                  -- emit: wants _lock; holds it, wants to put; put done
  | f0 | f1 | f2 | f3 | f4 | f5   -- fork: wants core; wants 1st; wants 2nd; fork point; released Q; released H
  deriving DecidableEq, Repr

inductive WPc where
  | w0 | w1 | w2                  -- about to get; got a message, wants _queue_lock; writing
  deriving DecidableEq, Repr

structure St where
  cap : Nat := 1
  pipe : Nat := 0
  coreLock : Option Tid := none
  lockH : Option Tid := none
  lockQ : Option Tid := none
  pc : Tid → Pc := fun _ => .idle
  w : WPc := .w0

def workerTid : Tid := 0

def upd (f : Nat → Pc) (k : Nat) (v : Pc) : Nat → Pc := fun u => if u = k then v else f u

@[simp] theorem upd_same (f : Nat → Pc) (k : Nat) (v : Pc) : upd f k v k = v := by simp [upd]
@[simp] theorem upd_other (f : Nat → Pc) (k : Nat) (v : Pc) (u : Nat) (h : u ≠ k) : upd f k v u = f u := by
  simp [upd, h]

def setPc (s : St) (t : Tid) (p : Pc) : St := { s with pc := upd s.pc t p }

/-- the writer thread -/
def stepW (s : St) (lab : Lab) : Option St :=
  match s.w, lab with
  | .w0, .get => if 0 < s.pipe then some { s with pipe := s.pipe - 1, w := .w1 } else none
  | .w1, .acqQ => if s.lockQ = none then some { s with lockQ := some workerTid, w := .w2 } else none
  | .w2, .writeRel => some { s with lockQ := none, w := .w0 }
  | _, _ => none

/-- emitters and forking threads -/
def stepP (handlerFirst : Bool) (s : St) (t : Tid) (lab : Lab) : Option St :=
  match s.pc t, lab with
  | .idle, .startEmit => some (setPc s t .e0)
  | .idle, .startFork => some (setPc s t .f0)
  | .e0, .acqH => if s.lockH = none then some { setPc s t .e1 with lockH := some t } else none
  | .e1, .put => if s.pipe < s.cap then some { setPc s t .e2 with pipe := s.pipe + 1 } else none
  | .e2, .relH => some { setPc s t .idle with lockH := none }
  | .f0, .acqCore => if s.coreLock = none then some { setPc s t .f1 with coreLock := some t } else none
  | .f1, .acqFirst =>
      if handlerFirst then
        (if s.lockH = none then some { setPc s t .f2 with lockH := some t } else none)
      else
        (if s.lockQ = none then some { setPc s t .f2 with lockQ := some t } else none)
  | .f2, .acqSecond =>
      if handlerFirst then
        (if s.lockQ = none then some { setPc s t .f3 with lockQ := some t } else none)
      else
        (if s.lockH = none then some { setPc s t .f3 with lockH := some t } else none)
  | .f3, .relQ => some { setPc s t .f4 with lockQ := none }
  | .f4, .relHf => some { setPc s t .f5 with lockH := none }
  | .f5, .relCore => some { setPc s t .idle with coreLock := none }
  | _, _ => none

def step (handlerFirst : Bool) (s : St) (t : Tid) (lab : Lab) : Option St :=
  if t = workerTid then stepW s lab else stepP handlerFirst s t lab

def run (handlerFirst : Bool) (s : St) : List (Tid × Lab) → St
  | [] => s
  | (t, lab) :: rest =>
    match step handlerFirst s t lab with
    | some s' => run handlerFirst s' rest
    | none => run handlerFirst s rest

/-- a thread with work to do: a producer in the middle of an operation, or the writer with something to
read or to write -/
def mid (s : St) (t : Tid) : Prop :=
  if t = workerTid then (s.w ≠ .w0 ∨ 0 < s.pipe) else s.pc t ≠ .idle

end ForkQueue
