/-
C02 – interleaving model of the registry / lock / stop protocol of `Logger.add`, `Logger.remove`,
`Logger._log` → `Handler.emit`, `Handler.stop` (non-enqueued handlers).

One transition per *shared access* (the granularity CPython's GIL guarantees and the granularity at
which harness/sched.py yields).  The transition function is driven by a label: `step s t lab` is the
state after thread `t` performs the transition labelled `lab`, or `none` when that transition is not
enabled (wrong program counter, lock held by someone else, value read differs from the state).
A schedule is ANY `List (Tid × Lab)`; `run` skips disabled elements.  Real traces are replayed on
this very function by `drivers/C02.lean` (acceptor), so the theorems of `Props/C02.lean` – proved
for every schedule – apply to every accepted real trace.

Over-approximations (sound for the safety theorems): whether `_log` returns early (min_level,
disabled module) and whether `emit` skips a handler (threshold, filter) are free choices (`early`,
`skip`); the threshold/activation logic itself is C01's.
-/
namespace Conc

abbrev Tid := Nat
abbrev Hid := Nat

inductive Op where
  | add | remove (h : Hid) | removeAll | log (m : Nat)
  | other      -- level()/enable()/disable()/configure(): take the core lock, may read the registry
  | complete   -- complete(): core lock held while every registered handler's lock is taken in turn
  | fork       -- os.fork(): the at-fork hooks of _locks_machinery run in the forking thread
  deriving DecidableEq, Repr

inductive Lab where
  | start (op : Op)
  | acqCore | relCore | acqH (h : Hid) | relH (h : Hid)
  | rCount (n : Nat) | wCount (n : Nat)
  | rReg (ids : List Hid) | wReg (ids : List Hid)
  | rStopped (h : Hid) (b : Bool) | wStopped (h : Hid)
  | wBegin (h : Hid) | wEnd (h : Hid) | sinkStop (h : Hid)
  | skip (h : Hid) | early | raise
  | forkAcq (order : List Hid)   -- acquire_locks(): core lock taken, handler locks will follow in `order`
  | forked                       -- os.fork() itself: the child is a copy of this state with this thread only
  deriving DecidableEq, Repr

inductive Pc where
  | idle
  -- add(): `with lock: id = count; count += 1` … `with lock: handlers = handlers.copy(); …; publish`
  | a0 | a1 | a2 (n : Nat) | a3 (n : Nat) | a4 (n : Nat) | a5 (n : Nat) | a6 (n : Nat)
  | a7 (n : Nat) (ids : List Hid) | a8 (n : Nat)
  -- fork: k0 before the core lock; k1 holds core + `got`, acquiring `todo` in order; k2 fork point;
  -- k3 after_in_parent: handler locks `got` being released, then the core lock
  | k0 | k1 (todo got : List Hid) | k2 (got : List Hid) | k3 (got : List Hid)
  -- level()/enable()/disable(): o0 before the lock, o1 locked, o2 locked and the registry read (level() reads
  -- it once, to update the handlers' pre-coloured formats)
  | o0 | o1 | o2
  -- complete(): c0 before the core lock, c1 locked, cL loop over the copied registry, cH holds h's lock
  -- (`Handler.tasks_to_complete` runs `sink.tasks_to_complete()` under `_protected_lock`)
  | c0 | c1 | cL (todo : List Hid) | cH (h : Hid) (todo : List Hid)
  -- remove(): r0 before the lock, r1 locked, rL loop head with the ids still to remove
  | r0 (tgt : Option Hid) | r1 (tgt : Option Hid) | rErr | rL (todo : List Hid)
  | rC (h : Hid) (todo : List Hid) (snap : List Hid)     -- copied the registry
  | rP (h : Hid) (todo : List Hid)                       -- published the reduced registry
  | s1 (h : Hid) (todo : List Hid)                       -- holds h's lock
  | s2 (h : Hid) (todo : List Hid)                       -- _stopped = True
  | s3 (h : Hid) (todo : List Hid)                       -- sink.stop() done
  -- _log(): l0 start, l1 registry seen non-empty, lL handler loop
  | l0 (m : Nat) | l1 (m : Nat) | lL (m : Nat) (todo : List Hid) (wr : List Hid)
  | e1 (m : Nat) (h : Hid) (todo : List Hid) (wr : List Hid)     -- holds h's lock
  | e2 (m : Nat) (h : Hid) (todo : List Hid) (wr : List Hid) (st : Bool)  -- read _stopped
  | e3 (m : Nat) (h : Hid) (todo : List Hid) (wr : List Hid)     -- inside sink.write
  | e4 (m : Nat) (h : Hid) (todo : List Hid) (wr : List Hid)     -- write done / skipped, still locked
  deriving DecidableEq, Repr

structure HS where
  lock : Option Tid := none
  stopped : Bool := false
  stops : Nat := 0
  deriving DecidableEq, Repr

structure St where
  coreLock : Option Tid := none
  count : Nat := 0
  reg : List Hid := []
  hs : Hid → HS := fun _ => {}
  pc : Tid → Pc := fun _ => .idle
  -- ghost state (never read by `step` to decide enabledness)
  allocated : List Hid := []            -- ids handed out by add(), newest first
  pub : List Hid := []                  -- ids ever published in the registry
  stopDone : List Hid := []             -- handlers whose stop() has returned (so before remove() returns)
  sink : Hid → List (Tid × Nat) := fun _ => []   -- messages written, newest first
  started : Tid → List Nat := fun _ => []        -- messages of the log calls a thread has begun, newest first
  -- ghost state of the CURRENT logging call of each thread (for "exactly once if stable", Conc/Exact.lean)
  pubAtStart : Tid → List Hid := fun _ => []     -- handlers that had been published when the call began
  snap : Tid → List Hid := fun _ => []           -- the registry snapshot the call iterates
  skipped : Tid → List Hid := fun _ => []        -- handlers the call skipped (threshold / filter: free choice)
  gone : Tid → List Hid := fun _ => []           -- handlers the call found stopped under their lock

def upd {α : Type} (f : Nat → α) (k : Nat) (v : α) : Nat → α := fun u => if u = k then v else f u

@[simp] theorem upd_same {α : Type} (f : Nat → α) (k : Nat) (v : α) : upd f k v k = v := by simp [upd]
@[simp] theorem upd_other {α : Type} (f : Nat → α) (k : Nat) (v : α) (u : Nat) (h : u ≠ k) :
    upd f k v u = f u := by simp [upd, h]

def setPc (s : St) (t : Tid) (p : Pc) : St := { s with pc := upd s.pc t p }

/-- the transition of thread `t` labelled `lab`, if enabled -/
def step (s : St) (t : Tid) (lab : Lab) : Option St :=
  match s.pc t, lab with
  -- ---------------------------------------------------------------- start of an operation
  | .idle, .start .add => some (setPc s t .a0)
  | .idle, .start (.remove h) => some (setPc s t (.r0 (some h)))
  | .idle, .start .removeAll => some (setPc s t (.r0 none))
  | .idle, .start (.log m) =>
      some { setPc s t (.l0 m) with started := upd s.started t (m :: s.started t), pubAtStart := upd s.pubAtStart t s.pub }
  | .idle, .start .other => some (setPc s t .o0)
  | .idle, .start .fork => some (setPc s t .k0)
  | .idle, .start .complete => some (setPc s t .c0)
  -- ---------------------------------------------------------------- fork (acquire_locks / release_locks)
  | .k0, .forkAcq order =>
      if s.coreLock = none then
        (if order.Nodup ∧ order.all (fun h => decide (h ∈ s.pub)) = true ∧ s.pub.all (fun h => decide (h ∈ order)) = true then
          some { setPc s t (.k1 order []) with coreLock := some t }
        else none)
      else none
  | .k1 (h :: todo) got, .acqH k =>
      if k = h then
        (if (s.hs h).lock = none then
          some { setPc s t (.k1 todo (h :: got)) with hs := upd s.hs h { s.hs h with lock := some t } }
        else none)
      else none
  | .k1 [] got, .forked => some (setPc s t (.k2 got))
  -- release_locks(): handler locks first (any order), the core lock last
  | .k2 got, .relH k =>
      if k ∈ got then some { setPc s t (.k3 (got.erase k)) with hs := upd s.hs k { s.hs k with lock := none } }
      else none
  | .k2 [], .relCore => some { setPc s t .idle with coreLock := none }
  | .k3 got, .relH k =>
      if k ∈ got then some { setPc s t (.k3 (got.erase k)) with hs := upd s.hs k { s.hs k with lock := none } }
      else none
  | .k3 [], .relCore => some { setPc s t .idle with coreLock := none }
  -- ---------------------------------------------------------------- level / enable / disable
  | .o0, .acqCore => if s.coreLock = none then some { setPc s t .o1 with coreLock := some t } else none
  | .o1, .rReg ids => if ids = s.reg then some (setPc s t .o2) else none
  | .o1, .relCore => some { setPc s t .idle with coreLock := none }
  | .o2, .relCore => some { setPc s t .idle with coreLock := none }
  -- ---------------------------------------------------------------- complete (non-enqueued handlers)
  | .c0, .acqCore => if s.coreLock = none then some { setPc s t .c1 with coreLock := some t } else none
  | .c1, .rReg ids => if ids = s.reg then some (setPc s t (.cL ids)) else none
  | .cL (h :: todo), .acqH k =>
      if k = h then
        (if (s.hs h).lock = none then
          some { setPc s t (.cH h todo) with hs := upd s.hs h { s.hs h with lock := some t } }
        else none)
      else none
  | .cH h todo, .relH k =>
      if k = h then some { setPc s t (.cL todo) with hs := upd s.hs h { s.hs h with lock := none } } else none
  | .cL [], .relCore => some { setPc s t .idle with coreLock := none }
  -- ---------------------------------------------------------------- add
  | .a0, .acqCore => if s.coreLock = none then some { setPc s t .a1 with coreLock := some t } else none
  | .a1, .rCount n => if n = s.count then some (setPc s t (.a2 n)) else none
  | .a2 n, .rCount k => if k = s.count then some (setPc s t (.a3 n)) else none
  | .a3 n, .wCount k =>
      if k = s.count + 1 then some { setPc s t (.a4 n) with count := k, allocated := n :: s.allocated }
      else none
  | .a4 n, .relCore => some { setPc s t (.a5 n) with coreLock := none }
  | .a5 n, .acqCore => if s.coreLock = none then some { setPc s t (.a6 n) with coreLock := some t } else none
  | .a6 n, .rReg ids => if ids = s.reg then some (setPc s t (.a7 n ids)) else none
  | .a7 n ids, .wReg v => if v = ids ++ [n] then some { setPc s t (.a8 n) with reg := v, pub := n :: s.pub } else none
  | .a8 _, .relCore => some { setPc s t .idle with coreLock := none }
  -- ---------------------------------------------------------------- remove
  | .r0 tgt, .acqCore => if s.coreLock = none then some { setPc s t (.r1 tgt) with coreLock := some t } else none
  | .r1 (some h), .rReg ids =>
      if ids = s.reg then (if h ∈ ids then some (setPc s t (.rL [h])) else some (setPc s t .rErr)) else none
  | .r1 none, .rReg ids => if ids = s.reg then some (setPc s t (.rL ids)) else none
  | .rErr, .raise => some (setPc s t (.rL []))
  | .rL (h :: todo), .rReg ids => if ids = s.reg then some (setPc s t (.rC h todo ids)) else none
  | .rC h todo snap, .wReg v =>
      if v = snap.erase h then some { setPc s t (.rP h todo) with reg := v } else none
  | .rP h todo, .acqH k =>
      if k = h then
        (if (s.hs h).lock = none then
          some { setPc s t (.s1 h todo) with hs := upd s.hs h { s.hs h with lock := some t } }
        else none)
      else none
  | .s1 h todo, .wStopped k =>
      if k = h then some { setPc s t (.s2 h todo) with hs := upd s.hs h { s.hs h with stopped := true } }
      else none
  | .s2 h todo, .sinkStop k =>
      if k = h then
        some { setPc s t (.s3 h todo) with hs := upd s.hs h { s.hs h with stops := (s.hs h).stops + 1 } }
      else none
  | .s3 h todo, .relH k =>
      if k = h then
        some { setPc s t (.rL todo) with hs := upd s.hs h { s.hs h with lock := none }, stopDone := h :: s.stopDone }
      else none
  | .rL [], .relCore => some { setPc s t .idle with coreLock := none }
  -- ---------------------------------------------------------------- log
  | .l0 m, .rReg ids => if ids = s.reg then (if ids = [] then some (setPc s t .idle) else some (setPc s t (.l1 m))) else none
  | .l1 _, .early => some (setPc s t .idle)
  | .l1 m, .rReg ids =>
      if ids = s.reg then
        some { setPc s t (.lL m ids []) with snap := upd s.snap t ids, skipped := upd s.skipped t [], gone := upd s.gone t [] }
      else none
  | .lL m (h :: todo) wr, .skip k =>
      if k = h then some { setPc s t (.lL m todo wr) with skipped := upd s.skipped t (h :: s.skipped t) } else none
  | .lL m (h :: todo) wr, .acqH k =>
      if k = h then
        (if (s.hs h).lock = none then
          some { setPc s t (.e1 m h todo wr) with hs := upd s.hs h { s.hs h with lock := some t } }
        else none)
      else none
  | .e1 m h todo wr, .rStopped k b =>
      if k = h then (if b = (s.hs h).stopped then some (setPc s t (.e2 m h todo wr b)) else none) else none
  | .e2 m h todo wr true, .relH k =>
      if k = h then
        some { setPc s t (.lL m todo wr) with hs := upd s.hs h { s.hs h with lock := none }, gone := upd s.gone t (h :: s.gone t) }
      else none
  | .e2 m h todo wr false, .wBegin k =>
      if k = h then some { setPc s t (.e3 m h todo wr) with sink := upd s.sink h ((t, m) :: s.sink h) } else none
  | .e3 m h todo wr, .wEnd k => if k = h then some (setPc s t (.e4 m h todo wr)) else none
  | .e4 m h todo wr, .relH k =>
      if k = h then
        some { setPc s t (.lL m todo (h :: wr)) with hs := upd s.hs h { s.hs h with lock := none } }
      else none
  | .lL _ [] _, .early => some (setPc s t .idle)      -- loop finished: return
  | _, _ => none

def run (s : St) : List (Tid × Lab) → St
  | [] => s
  | (t, lab) :: rest =>
    match step s t lab with
    | some s' => run s' rest
    | none => run s rest

/-- a thread is *blocked* when it is waiting for a lock somebody holds -/
def waitsCore : Pc → Bool
  | .a0 | .a5 _ | .r0 _ | .o0 | .k0 | .c0 => true
  | _ => false

def waitsH : Pc → Option Hid
  | .rP h _ => some h
  | .lL _ (h :: _) _ => some h
  | .k1 (h :: _) _ => some h
  | .cL (h :: _) => some h
  | _ => none

end Conc
