/-
C02 – "once enable()/disable() has returned every later logging call observes the new state".

The publication protocol of `Logger._change_activation` / the cache-miss path of `Logger._log`,
abstracted to ONE module name: rule sets are version numbers (`act` = the published
`core.activation_list`), `core.enabled` is a reference `en` to a dict OBJECT; each dict object
remembers the version it was built for (`birth`) and, if it has an entry for the module, the version
that entry was computed from.  A change (under the core lock) copies the published dict, rewrites its
entries for the new rule set, then publishes `activation_list` and `enabled` in the order given by
`actFirst` (true = the code: activation_list first).  A log call reads `core.enabled` (hit: uses the
entry), otherwise reads `core.enabled` again, then `core.activation_list`, and fills the dict it read.
-/
namespace Activation

abbrev Tid := Nat

structure Dict where
  birth : Nat := 0
  entry : Option Nat := none
  deriving DecidableEq, Repr

inductive Lab where
  | startChange | startLog
  | acq | copy | pubAct | pubEn | rel
  | readEn (d : Nat) | readEn2 (d : Nat) | readAct (v : Nat) | fill | done (v : Nat)
  deriving DecidableEq, Repr

inductive Pc where
  | idle
  | c0 | c1 | c2 (d : Nat) | c3 (d : Nat) | c4
  | l0 | l1 (d : Nat) | l2 (d : Nat) | l3 (d : Nat) (v : Nat) | l4 (v : Nat)
  deriving DecidableEq, Repr

structure St where
  lock : Option Tid := none
  act : Nat := 0                         -- published rule-set version
  en : Nat := 0                          -- published dict object
  dicts : Nat → Dict := fun _ => {}
  nextDict : Nat := 1
  pc : Tid → Pc := fun _ => .idle
  -- ghost
  returned : Nat := 0                    -- highest version whose change() has returned
  results : List (Nat × Nat) := []       -- (returned-at-start, version used) of completed log calls
  startRet : Tid → Nat := fun _ => 0     -- `returned` when the thread's current log call began
  published : List Nat := [0]            -- dict objects that have ever been `core.enabled`

def upd {α : Type} (f : Nat → α) (k : Nat) (v : α) : Nat → α := fun u => if u = k then v else f u

@[simp] theorem upd_same {α : Type} (f : Nat → α) (k : Nat) (v : α) : upd f k v k = v := by simp [upd]
@[simp] theorem upd_other {α : Type} (f : Nat → α) (k : Nat) (v : α) (u : Nat) (h : u ≠ k) :
    upd f k v u = f u := by simp [upd, h]

def setPc (s : St) (t : Tid) (p : Pc) : St := { s with pc := upd s.pc t p }

def step (actFirst : Bool) (s : St) (t : Tid) (lab : Lab) : Option St :=
  match s.pc t, lab with
  | .idle, .startChange => some (setPc s t .c0)
  | .idle, .startLog => some { setPc s t .l0 with startRet := upd s.startRet t s.returned }
  -- ---------------------------------------------------------------- _change_activation
  | .c0, .acq => if s.lock = none then some { setPc s t .c1 with lock := some t } else none
  | .c1, .copy =>
      -- enabled = core.enabled.copy(); … entries rewritten for the new rule set (version act + 1)
      let d := s.nextDict
      some { setPc s t (.c2 d) with
        dicts := upd s.dicts d { birth := s.act + 1, entry := ((s.dicts s.en).entry).map (fun _ => s.act + 1) },
        nextDict := d + 1 }
  | .c2 d, .pubAct => if actFirst then some { setPc s t (.c3 d) with act := s.act + 1 } else none
  | .c2 d, .pubEn => if actFirst then none else some { setPc s t (.c3 d) with en := d, published := d :: s.published }
  | .c3 d, .pubEn => if actFirst then some { setPc s t .c4 with en := d, published := d :: s.published } else none
  | .c3 _, .pubAct => if actFirst then none else some { setPc s t .c4 with act := s.act + 1 }
  | .c4, .rel => some { setPc s t .idle with lock := none, returned := s.act }
  -- ---------------------------------------------------------------- _log (activation part)
  | .l0, .readEn d =>
      if d = s.en then
        (match (s.dicts d).entry with
         | some v => some (setPc s t (.l4 v))          -- cache hit
         | none => some (setPc s t (.l1 d)))           -- KeyError
      else none
  | .l1 _, .readEn2 d => if d = s.en then some (setPc s t (.l2 d)) else none
  | .l2 d, .readAct v => if v = s.act then some (setPc s t (.l3 d v)) else none
  | .l3 d v, .fill =>
      some { setPc s t (.l4 v) with dicts := upd s.dicts d { s.dicts d with entry := some v } }
  | .l4 v, .done w =>
      if w = v then some { setPc s t .idle with results := (s.startRet t, v) :: s.results } else none
  | _, _ => none

def run (actFirst : Bool) (s : St) : List (Tid × Lab) → St
  | [] => s
  | (t, lab) :: rest =>
    match step actFirst s t lab with
    | some s' => run actFirst s' rest
    | none => run actFirst s rest

end Activation
