import LoguruModel.Conc.ForkQueue
/-
C15 – lock discipline of the bounded-pipe enqueue/fork system for the repaired lock order
(`handlerFirst = true`) and deadlock freedom.
-/
namespace ForkQueue

def holdsC : Pc → Bool
  | .f1 | .f2 | .f3 | .f4 | .f5 => true
  | _ => false

/-- with the handler lock first, a forking thread holds `_lock` from f2 to f4 -/
def holdsHt : Pc → Bool
  | .e1 | .e2 | .f2 | .f3 | .f4 => true
  | _ => false

structure Inv (s : St) : Prop where
  pw : s.pc workerTid = .idle
  c1 : ∀ t, t ≠ workerTid → holdsC (s.pc t) = true → s.coreLock = some t
  c2 : ∀ t, s.coreLock = some t → t ≠ workerTid ∧ holdsC (s.pc t) = true
  h1 : ∀ t, t ≠ workerTid → holdsHt (s.pc t) = true → s.lockH = some t
  h2 : ∀ t, s.lockH = some t → t ≠ workerTid ∧ holdsHt (s.pc t) = true
  q1 : ∀ t, t ≠ workerTid → s.pc t = .f3 → s.lockQ = some t
  q2 : s.w = .w2 → s.lockQ = some workerTid
  q3 : ∀ t, s.lockQ = some t → (t = workerTid ∧ s.w = .w2) ∨ (t ≠ workerTid ∧ s.pc t = .f3)

theorem inv_init (c : Nat) : Inv ({ cap := c } : St) := by
  constructor <;> simp [holdsC, holdsHt]

macro "fq_arms" hs:ident : tactic => `(tactic| (
  split at $hs:ident <;> (try (simp only [reduceCtorEq] at $hs:ident; done)) <;>
    (repeat' split at $hs:ident) <;> (try (simp only [reduceCtorEq] at $hs:ident; done)) <;>
    (simp only [Option.some.injEq] at $hs:ident; subst $hs:ident; (try subst_vars))))

theorem inv_stepW {s s' : St} {lab : Lab} (h : Inv s) (hs : stepW s lab = some s') : Inv s' := by
  obtain ⟨pw, c1, c2, h1, h2, q1, q2, q3⟩ := h
  unfold stepW at hs
  fq_arms hs
  · exact ⟨pw, c1, c2, h1, h2, q1, by simp, by intro t ht; have := q3 t ht; simp_all⟩
  · refine ⟨pw, c1, c2, h1, h2, ?_, by simp, by intro t ht; simp_all⟩
    intro t ht hp; have := q1 t ht hp; simp_all
  · refine ⟨pw, c1, c2, h1, h2, ?_, by simp, by intro t ht; simp at ht⟩
    intro t ht hp
    have a := q1 t ht hp
    have b := q2 (by assumption)
    rw [a] at b; exact absurd (Option.some.inj b) ht

theorem stepP_pw {s s' : St} {t : Tid} {lab : Lab} (h : Inv s) (ht : t ≠ workerTid)
    (hs : stepP true s t lab = some s') : s'.pc workerTid = .idle := by
  obtain ⟨pw, c1, c2, h1, h2, q1, q2, q3⟩ := h
  unfold stepP at hs
  fq_arms hs <;> (simp [setPc, upd, Ne.symm ht, pw])

theorem stepP_c1 {s s' : St} {t : Tid} {lab : Lab} (h : Inv s) (ht : t ≠ workerTid)
    (hs : stepP true s t lab = some s') : ∀ u, u ≠ workerTid → holdsC (s'.pc u) = true → s'.coreLock = some u := by
  obtain ⟨pw, c1, c2, h1, h2, q1, q2, q3⟩ := h
  unfold stepP at hs
  fq_arms hs <;> (have ct := c1 t ht; have ht2 := h1 t ht; have qt := q1 t ht; simp only [*] at ct ht2 qt; simp [holdsC, holdsHt] at ct ht2 qt; intro u hu hp; have := c1 u hu; have := c2 t; by_cases e : u = t <;> simp_all [setPc, upd, holdsC])

theorem stepP_c2 {s s' : St} {t : Tid} {lab : Lab} (h : Inv s) (ht : t ≠ workerTid)
    (hs : stepP true s t lab = some s') : ∀ u, s'.coreLock = some u → u ≠ workerTid ∧ holdsC (s'.pc u) = true := by
  obtain ⟨pw, c1, c2, h1, h2, q1, q2, q3⟩ := h
  unfold stepP at hs
  fq_arms hs <;> (have ct := c1 t ht; have ht2 := h1 t ht; have qt := q1 t ht; simp only [*] at ct ht2 qt; simp [holdsC, holdsHt] at ct ht2 qt; intro u hp; have := c2 u; by_cases e : u = t <;> simp_all [setPc, upd, holdsC])

theorem stepP_h1 {s s' : St} {t : Tid} {lab : Lab} (h : Inv s) (ht : t ≠ workerTid)
    (hs : stepP true s t lab = some s') : ∀ u, u ≠ workerTid → holdsHt (s'.pc u) = true → s'.lockH = some u := by
  obtain ⟨pw, c1, c2, h1, h2, q1, q2, q3⟩ := h
  unfold stepP at hs
  fq_arms hs <;> (have ct := c1 t ht; have ht2 := h1 t ht; have qt := q1 t ht; simp only [*] at ct ht2 qt; simp [holdsC, holdsHt] at ct ht2 qt; intro u hu hp; have := h1 u hu; have := h2 t; by_cases e : u = t <;> simp_all [setPc, upd, holdsHt])

theorem stepP_h2 {s s' : St} {t : Tid} {lab : Lab} (h : Inv s) (ht : t ≠ workerTid)
    (hs : stepP true s t lab = some s') : ∀ u, s'.lockH = some u → u ≠ workerTid ∧ holdsHt (s'.pc u) = true := by
  obtain ⟨pw, c1, c2, h1, h2, q1, q2, q3⟩ := h
  unfold stepP at hs
  fq_arms hs <;> (have ct := c1 t ht; have ht2 := h1 t ht; have qt := q1 t ht; simp only [*] at ct ht2 qt; simp [holdsC, holdsHt] at ct ht2 qt; intro u hp; have := h2 u; by_cases e : u = t <;> simp_all [setPc, upd, holdsHt])

theorem stepP_q1 {s s' : St} {t : Tid} {lab : Lab} (h : Inv s) (ht : t ≠ workerTid)
    (hs : stepP true s t lab = some s') : ∀ u, u ≠ workerTid → s'.pc u = .f3 → s'.lockQ = some u := by
  obtain ⟨pw, c1, c2, h1, h2, q1, q2, q3⟩ := h
  unfold stepP at hs
  fq_arms hs <;> (have ct := c1 t ht; have ht2 := h1 t ht; have qt := q1 t ht; simp only [*] at ct ht2 qt; simp [holdsC, holdsHt] at ct ht2 qt; intro u hu hp; have := q1 u hu; have := q3 t; by_cases e : u = t <;> simp_all [setPc, upd])

theorem stepP_q2 {s s' : St} {t : Tid} {lab : Lab} (h : Inv s) (ht : t ≠ workerTid)
    (hs : stepP true s t lab = some s') : s'.w = .w2 → s'.lockQ = some workerTid := by
  obtain ⟨pw, c1, c2, h1, h2, q1, q2, q3⟩ := h
  unfold stepP at hs
  fq_arms hs <;> (have ct := c1 t ht; have ht2 := h1 t ht; have qt := q1 t ht; simp only [*] at ct ht2 qt; simp [holdsC, holdsHt] at ct ht2 qt; intro hw; have := q2; simp_all [setPc, upd])

theorem stepP_q3 {s s' : St} {t : Tid} {lab : Lab} (h : Inv s) (ht : t ≠ workerTid)
    (hs : stepP true s t lab = some s') : ∀ u, s'.lockQ = some u → (u = workerTid ∧ s'.w = .w2) ∨ (u ≠ workerTid ∧ s'.pc u = .f3) := by
  obtain ⟨pw, c1, c2, h1, h2, q1, q2, q3⟩ := h
  unfold stepP at hs
  fq_arms hs <;> (have ct := c1 t ht; have ht2 := h1 t ht; have qt := q1 t ht; simp only [*] at ct ht2 qt; simp [holdsC, holdsHt] at ct ht2 qt; intro u hp; have := q3 u; by_cases e : u = t <;> simp_all [setPc, upd])

theorem inv_stepP {s s' : St} {t : Tid} {lab : Lab} (h : Inv s) (ht : t ≠ workerTid)
    (hs : stepP true s t lab = some s') : Inv s' :=
  ⟨stepP_pw h ht hs, stepP_c1 h ht hs, stepP_c2 h ht hs, stepP_h1 h ht hs, stepP_h2 h ht hs,
   stepP_q1 h ht hs, stepP_q2 h ht hs, stepP_q3 h ht hs⟩

theorem inv_step {s s' : St} {t : Tid} {lab : Lab} (h : Inv s) (hs : step true s t lab = some s') : Inv s' := by
  unfold step at hs
  split at hs
  · exact inv_stepW h hs
  · exact inv_stepP h (by assumption) hs

theorem inv_run (s : St) (h : Inv s) (sched : List (Tid × Lab)) : Inv (run true s sched) := by
  induction sched generalizing s with
  | nil => exact h
  | cons x xs ih =>
    obtain ⟨t, lab⟩ := x
    simp only [run]
    cases hs : step true s t lab with
    | some s' => exact ih s' (inv_step h hs)
    | none => exact ih s h

theorem step_cap {hf : Bool} {s s' : St} {t : Tid} {lab : Lab} (hs : step hf s t lab = some s') :
    s'.cap = s.cap := by
  unfold step at hs
  split at hs
  · unfold stepW at hs; fq_arms hs <;> rfl
  · unfold stepP at hs; fq_arms hs <;> rfl

theorem run_cap (hf : Bool) (s : St) (sched : List (Tid × Lab)) : (run hf s sched).cap = s.cap := by
  induction sched generalizing s with
  | nil => rfl
  | cons x xs ih =>
    obtain ⟨t, lab⟩ := x
    simp only [run]
    cases hs : step hf s t lab with
    | some s' => rw [ih s', step_cap hs]
    | none => exact ih s

end ForkQueue
