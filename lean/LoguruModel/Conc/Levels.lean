/-
C02 – "no logging call fails with an internal error" for the level table: `Logger.level()` creating a level at
run time, `Logger.add()` building a handler that pre-colours its format for every level it knows, and
`Logger._log` looking the level up and handing the record to the handlers, which index their pre-coloured
formats by level (`Handler.emit`: `self._precolorized_formats[level_id]` – a KeyError if the handler does not
know the level).

Level names are numbered in creation order (names are only ever added, under the core lock), so every table
is a count: `ansi` = number of names in `core.levels_ansi_codes`, `lookup` = number of names published in
`core.levels_lookup` (what `_log` consults), `known h` = number of names handler `h` has a pre-coloured format
for.  Two parameters are read from the source (Generated/ConcShape.lean):
* `lookupFirst`  – `level()` publishes the name in `levels_lookup` BEFORE it updates the handlers (the order
  of the code before fix 545c12a; refuted below) or after (the repaired order);
* `lockedConstruct` – `add()` builds the `Handler` (which snapshots the known levels) while holding the core
  lock under which it is then registered, or before taking it.
-/
namespace Levels

abbrev Tid := Nat
abbrev Hid := Nat

inductive Lab where
  | startLevel | startAdd | startRemove (h : Hid) | startLog (l : Nat)
  | acq | rel
  | setAnsi | pubLookup | readReg | upd (h : Hid)
  | construct | register | unreg
  | readLookup (n : Nat) | emit (h : Hid) | done
  deriving DecidableEq, Repr

inductive Pc where
  | idle
  | n0 | n1 | n2 | n3 | n4 (todo : List Hid) | n5   -- level(): wants lock; holds it; ansi set; published early; loop; published late
  | a0 | a1 | a2 (h : Hid) | a3 | b1 (h : Hid)       -- add(): wants lock; holds it; built; registered; built without the lock
  | r0 (h : Hid) | r1 (h : Hid) | r2                 -- remove(h)
  | l0 (l : Nat) | l1 (l : Nat) | l2 (l : Nat) (todo : List Hid)
  deriving DecidableEq, Repr

structure St where
  lock : Option Tid := none
  ansi : Nat := 0
  lookup : Nat := 0
  reg : List Hid := []
  known : Hid → Nat := fun _ => 0
  nextH : Nat := 0
  pc : Tid → Pc := fun _ => .idle
  err : Bool := false                 -- some emit indexed a level the handler did not know (KeyError)

def upd {α : Type} (f : Nat → α) (k : Nat) (v : α) : Nat → α := fun u => if u = k then v else f u

@[simp] theorem upd_same {α : Type} (f : Nat → α) (k : Nat) (v : α) : upd f k v k = v := by simp [upd]
@[simp] theorem upd_other {α : Type} (f : Nat → α) (k : Nat) (v : α) (u : Nat) (h : u ≠ k) :
    upd f k v u = f u := by simp [upd, h]

def setPc (s : St) (t : Tid) (p : Pc) : St := { s with pc := upd s.pc t p }

def step (lookupFirst lockedConstruct : Bool) (s : St) (t : Tid) (lab : Lab) : Option St :=
  match s.pc t, lab with
  | .idle, .startLevel => some (setPc s t .n0)
  | .idle, .startAdd => some (setPc s t .a0)
  | .idle, .startRemove h => some (setPc s t (.r0 h))
  | .idle, .startLog l => some (setPc s t (.l0 l))
  -- ---------------------------------------------------------------- level(name, no=…): a new name
  | .n0, .acq => if s.lock = none then some { setPc s t .n1 with lock := some t } else none
  | .n1, .setAnsi => some { setPc s t .n2 with ansi := s.ansi + 1 }
  | .n2, .pubLookup => if lookupFirst then some { setPc s t .n3 with lookup := s.ansi } else none
  | .n2, .readReg => if lookupFirst then none else some (setPc s t (.n4 s.reg))
  | .n3, .readReg => some (setPc s t (.n4 s.reg))
  | .n4 (h :: rest), .upd h' =>
      if h' = h then some { setPc s t (.n4 rest) with known := upd s.known h s.ansi } else none
  | .n4 [], .pubLookup => if lookupFirst then none else some { setPc s t .n5 with lookup := s.ansi }
  | .n4 [], .rel => if lookupFirst then some { setPc s t .idle with lock := none } else none
  | .n5, .rel => some { setPc s t .idle with lock := none }
  -- ---------------------------------------------------------------- add(): Handler(...) snapshots the levels
  | .a0, .acq =>
      if lockedConstruct then (if s.lock = none then some { setPc s t .a1 with lock := some t } else none) else none
  | .a0, .construct =>
      if lockedConstruct then none
      else some { setPc s t (.b1 s.nextH) with known := upd s.known s.nextH s.ansi, nextH := s.nextH + 1 }
  | .a1, .construct =>
      some { setPc s t (.a2 s.nextH) with known := upd s.known s.nextH s.ansi, nextH := s.nextH + 1 }
  | .b1 h, .acq => if s.lock = none then some { setPc s t (.a2 h) with lock := some t } else none
  | .a2 h, .register => some { setPc s t .a3 with reg := s.reg ++ [h] }
  | .a3, .rel => some { setPc s t .idle with lock := none }
  -- ---------------------------------------------------------------- remove(h)
  | .r0 h, .acq => if s.lock = none then some { setPc s t (.r1 h) with lock := some t } else none
  | .r1 h, .unreg => some { setPc s t .r2 with reg := s.reg.filter (· ≠ h) }
  | .r2, .rel => some { setPc s t .idle with lock := none }
  -- ---------------------------------------------------------------- _log at level number l (no lock)
  | .l0 l, .readLookup n =>
      if n = s.lookup then
        (if l < n then some (setPc s t (.l1 l)) else some (setPc s t .idle))   -- else: ValueError "does not exist"
      else none
  | .l1 l, .readReg => some (setPc s t (.l2 l s.reg))
  | .l1 _, .done => some (setPc s t .idle)                    -- below every threshold / module disabled
  | .l2 l (h :: rest), .emit h' =>
      if h' = h then some { setPc s t (.l2 l rest) with err := s.err || !(decide (l < s.known h)) } else none
  | .l2 _ [], .done => some (setPc s t .idle)
  | _, _ => none

def run (lookupFirst lockedConstruct : Bool) (s : St) : List (Tid × Lab) → St
  | [] => s
  | (t, lab) :: rest =>
    match step lookupFirst lockedConstruct s t lab with
    | some s' => run lookupFirst lockedConstruct s' rest
    | none => run lookupFirst lockedConstruct s rest

end Levels
