/-
Python list slicing `l[lo:hi]` (step 1) with CPython's index clamping (`PySlice_AdjustIndices`):
a negative bound counts from the end and is clamped at 0, a positive one is clamped at `len`.
Modelled, not verified: `harness/c13.py` compares `Py.slice` with real list slicing on a grid of
(lower, upper, length) triples.
-/
namespace Py

/-- `PySlice_AdjustIndices` for one bound of a step-1 slice of a sequence of length `n` -/
def clampIdx (n : Nat) (i : Int) : Nat :=
  if i < 0 then (n + i).toNat else min i.toNat n

/-- `l[lo:hi]`; `none` = bound omitted -/
def slice {α : Type} (lo hi : Option Int) (l : List α) : List α :=
  let a := match lo with | none => 0 | some i => clampIdx l.length i
  let b := match hi with | none => l.length | some j => clampIdx l.length j
  (l.take b).drop a

/-- `l[-k:]` for a positive `k` keeps the last `min k len` elements -/
theorem slice_neg_lower {α : Type} (k : Int) (hk : 0 < k) (l : List α) :
    slice (some (-k)) none l = l.drop (l.length - k.toNat) := by
  unfold slice clampIdx
  have h1 : (-k < 0) := by omega
  simp only [h1, if_true, List.take_length]
  congr 1
  omega

theorem slice_all {α : Type} (l : List α) : slice none none l = l := by
  simp [slice]

end Py
