import LoguruModel.Py.Basic
/-
PEP 567 `contextvars`, as far as one `ContextVar` is concerned (modelled, not verified; validated by
the `cv` correspondence stream of harness/c12.py against CPython's own `contextvars`).

* An *execution context* (a thread, an asyncio task, a `Context` object entered with `ctx.run`) is
  a number; every context owns an immutable mapping var ↦ value – for a single variable that is an
  `Option α` (`none` = the variable is unset in that context, `get()` then yields the default).
* `copy_context()` / `asyncio.create_task` copy the creator's *current* value; a new
  `threading.Thread` (Python < 3.14) and `Context()` start empty.
* `var.set(v)` returns a token remembering (identity, owning context, old value); `var.reset(tok)`
  raises `RuntimeError` for a token already used, `ValueError` for a token created in another
  context (checked in this order, as `PyContextVar_Reset` does), otherwise restores the old value.
-/
namespace Py.ContextVars

structure Token (α : Type) where
  id : Nat
  owner : Nat
  old : Option α
  deriving Repr

structure State (α : Type) where
  /-- value of the variable in every execution context -/
  vals : Nat → Option α
  /-- number of contexts created so far (ids `0 … n-1` exist) -/
  n : Nat
  /-- identities of the tokens already consumed by `reset` -/
  used : List Nat
  /-- next token identity -/
  next : Nat

variable {α : Type}

def init : State α := { vals := fun _ => none, n := 1, used := [], next := 0 }

/-- `var.get(default)` evaluated in context `c` -/
def get (s : State α) (c : Nat) : Option α := s.vals c

/-- `var.set(v)` evaluated in context `c` -/
def set (s : State α) (c : Nat) (v : α) : State α × Token α :=
  ({ s with vals := fun c' => if c' = c then some v else s.vals c', next := s.next + 1 },
   { id := s.next, owner := c, old := s.vals c })

/-- `var.reset(tok)` evaluated in context `c` -/
def reset (s : State α) (c : Nat) (t : Token α) : Except Py.Err (State α) :=
  if t.id ∈ s.used then .error .runtimeError
  else if t.owner ≠ c then .error .valueError
  else .ok { s with vals := fun c' => if c' = c then t.old else s.vals c', used := t.id :: s.used }

/-- a new execution context created from inside context `c`: `copy = true` is
`contextvars.copy_context()` (asyncio task creation, `asyncio.to_thread`), `copy = false` an empty
`Context()` (a plain new thread).  Returns the new context's id. -/
def spawn (s : State α) (c : Nat) (copy : Bool) : State α × Nat :=
  ({ s with vals := fun c' => if c' = s.n then (if copy then s.vals c else none) else s.vals c',
            n := s.n + 1 }, s.n)

end Py.ContextVars
