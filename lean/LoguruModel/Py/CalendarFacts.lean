import LoguruModel.Py.CalendarEra
/-
The calendar fact the monthly / yearly rotation theorems rest on: the civil date `civilOfDays z` names the month
that contains day `z` (as `daysOfCivil` delimits months).  Proved for EVERY day number `z : Int`: the era decomposition
and the month arithmetic by `omega`, the days of one era by CalendarEra.lean.
-/
namespace Py.Calendar

/-- THE calendar fact: the civil date of day `z` has a month in 1..12, and `z` lies in that month as `daysOfCivil`
delimits it – for every day number `z : Int`. -/
theorem civil_month_contains (z : Int) :
    1 ≤ (civilOfDays z).2.1 ∧ (civilOfDays z).2.1 ≤ 12 ∧
    daysOfCivil (civilOfDays z).1 (civilOfDays z).2.1 1 ≤ z ∧
    z + 1 ≤ daysOfCivil (if (civilOfDays z).2.1 = 12 then (civilOfDays z).1 + 1 else (civilOfDays z).1)
                        (if (civilOfDays z).2.1 = 12 then 1 else (civilOfDays z).2.1 + 1) 1 := by
  -- era decomposition
  obtain ⟨era, doeI, hz, h0, h1, hera⟩ : ∃ era doe : Int, z + 719468 = era * 146097 + doe ∧ 0 ≤ doe ∧ doe < 146097 ∧
      era = (z + 719468) / 146097 :=
    ⟨(z + 719468) / 146097, (z + 719468) - (z + 719468) / 146097 * 146097, by omega, by omega, by omega, rfl⟩
  obtain ⟨doe, rfl⟩ : ∃ n : Nat, doeI = n := ⟨doeI.toNat, by omega⟩
  have hP := eraDayOK_all doe (by omega)
  simp only [eraDayOK, Bool.and_eq_true, decide_eq_true_eq] at hP
  obtain ⟨⟨⟨⟨⟨hy, hys⟩, hmp⟩, hst⟩, hnx⟩, hsub⟩ := hP
  -- name the Nat quantities
  generalize hyoe : yoeN doe = yoe at *
  generalize hmpe : mpN doe = mp at *
  have hyoe' : yoe = (doe - doe/1460 + doe/36524 - doe/146096)/365 := by rw [← hyoe]; rfl
  have hdoy : doyN doe = doe - (365*yoe + yoe/4 - yoe/100) := by simp [doyN, ystartN, hyoe]
  have hmp' : mp = (5 * (doe - (365*yoe + yoe/4 - yoe/100)) + 2)/153 := by rw [← hmpe, mpN, hdoy]
  simp only [ystartN, startN] at hys hst
  have e1 : (z + 719468) / 146097 = era := hera.symm
  have e2 : z + 719468 - era * 146097 = (doe : Int) := by omega
  have e3 : ((doe : Int) - (doe : Int) / 1460 + (doe : Int) / 36524 - (doe : Int) / 146096) / 365 = (yoe : Int) := by omega
  have e4 : (doe : Int) - (365 * (yoe : Int) + (yoe : Int) / 4 - (yoe : Int) / 100) = ((doe - (365*yoe + yoe/4 - yoe/100) : Nat) : Int) := by omega
  have e5 : (5 * ((doe - (365*yoe + yoe/4 - yoe/100) : Nat) : Int) + 2) / 153 = (mp : Int) := by omega
  simp only [civilOfDays, e1, e2, e3, e4, e5]
  have hcases : mp = 0 ∨ mp = 1 ∨ mp = 2 ∨ mp = 3 ∨ mp = 4 ∨ mp = 5 ∨ mp = 6 ∨ mp = 7 ∨ mp = 8 ∨ mp = 9 ∨ mp = 10 ∨ mp = 11 := by omega
  clear e1 e2 e3 e4 e5 hmp' hdoy hmpe hyoe hyoe' hsub hera
  simp only [nextN, startN, ystartN] at hnx
  rcases hcases with rfl | rfl | rfl | rfl | rfl | rfl | rfl | rfl | rfl | rfl | rfl | rfl
  all_goals (simp [daysOfCivil] at hnx ⊢)
  all_goals (have hq : ((yoe : Int) + era * 400) / 400 = era := by omega)
  all_goals (try rw [hq])
  all_goals (try (have hq2 : (yoe : Int) + era * 400 - era * 400 = (yoe : Int) := by omega))
  all_goals (try rw [hq2])
  all_goals (first | (constructor <;> omega) | skip)
  split at hnx
  · have hq3 : ((yoe : Int) + era * 400 + 1) / 400 = era + 1 := by omega
    have hq4 : (yoe : Int) + era * 400 + 1 - (era + 1) * 400 = 0 := by omega
    rw [hq3, hq4]
    constructor <;> omega
  · have hq3 : ((yoe : Int) + era * 400 + 1) / 400 = era := by omega
    have hq4 : (yoe : Int) + era * 400 + 1 - era * 400 = ((yoe + 1 : Nat) : Int) := by omega
    rw [hq3, hq4]
    generalize yoe + 1 = y1 at *
    constructor <;> omega


end Py.Calendar
