import LoguruModel.Py.FormatSyntax
/-!
Reference semantics of `str.format(*args, **kwargs)` / `str.format_map(mapping)` (CPython 3.12
`unicode_format.h`: `build_string`, `output_markup`, `get_field_object`, `field_name_split`'s
auto-numbering, `render_field`) as a function of the parse result and of oracles for everything user
objects do (`__getattr__`, `__getitem__`, `repr/str/ascii`, `__format__`, mapping lookup).

Modelled, not verified: harness/c05.py runs `strFormat` against the real `str.format` on a symbolic
value universe (exact strings, exception classes, evaluation order).
-/
namespace Py.Fmt
open Py

/-- the oracles: what the arguments are and what user objects answer -/
structure Env (V : Type) where
  args : List V
  hasArgs : Bool                         -- false under `format_map` (positional fields are a ValueError)
  kwargs : Str → Except Err V            -- `mapping[key]` (normally `KeyError` when absent)
  getattr : V → Str → Except Err V
  getidx : V → Nat → Except Err V
  getkey : V → Str → Except Err V
  convert : Char → V → Except Err V      -- called with 'r', 's', 'a' only
  format : V → Str → Except Err Str      -- `format(value, spec)`

/-- `AutoNumber` state: ANS_INIT / ANS_AUTO (with `an_field_number`) / ANS_MANUAL -/
inductive AN where
  | init | auto (n : Nat) | manual
  deriving DecidableEq, Repr

def getArg {V} (env : Env V) (i : Nat) : Except Err V :=
  if env.hasArgs then (match env.args[i]? with | some v => .ok v | none => .error .indexError)
  else .error .valueError

/-- `field_name_split`'s auto-numbering decision – taken on the FIRST COMPONENT of the field name –
followed by the `args` / `kwargs` lookup of `get_field_object` -/
def lookupFirst {V} (env : Env V) (an : AN) : First → Except Err (V × AN)
  | .name [] =>
    match an with
    | .manual => .error .valueError
    | .init => (getArg env 0).map (fun v => (v, AN.auto 1))
    | .auto n => (getArg env n).map (fun v => (v, AN.auto (n + 1)))
  | .num i =>
    match an with
    | .auto _ => .error .valueError
    | _ => (getArg env i).map (fun v => (v, AN.manual))
  | .name k => (env.kwargs k).map (fun v => (v, an))

def applyStep {V} (env : Env V) (v : V) : Step → Except Err V
  | .attr n => env.getattr v n
  | .idx i => env.getidx v i
  | .key k => env.getkey v k

def applySteps {V} (env : Env V) : V → List Step → Except Err V
  | v, [] => .ok v
  | v, s :: ss => match applyStep env v s with
    | .ok v' => applySteps env v' ss
    | .error e => .error e

/-- the `.attr` / `[key]` walk; a syntax error in the rest of the name surfaces after the steps before it -/
def walk {V} (env : Env V) (v : V) (st : Steps) : Except Err V :=
  match applySteps env v st.1 with
  | .ok v' => if st.2.isSome then .error .valueError else .ok v'
  | .error e => .error e

def doConv {V} (env : Env V) (c : Option Char) (v : V) : Except Err V :=
  match c with
  | none => .ok v
  | some c => if c = 'r' ∨ c = 's' ∨ c = 'a' then env.convert c v else .error .valueError

/-- `get_field_object`: split the name, number/look up its first component, walk the rest -/
def getFieldObject {V} (env : Env V) (an : AN) (name : Str) : Except Err (V × AN) :=
  match lookupFirst env an (fieldNameSplit name).1 with
  | .error e => .error e
  | .ok (v, an1) =>
    match walk env v (fieldNameSplit name).2 with
    | .error e => .error e
    | .ok v => .ok (v, an1)

/-- `format_spec_needs_expanding` -/
def needsExpanding (spec : Str) : Bool := spec.contains '{'

def renderPieces {V} (self : Str → AN → Except Err (Str × AN)) (env : Env V) :
    List Piece → AN → Except Err (Str × AN)
  | [], an => .ok ([], an)
  | p :: ps, an =>
    match p.field with
    | none =>
      match renderPieces self env ps an with
      | .ok (r, an') => .ok (p.lit ++ r, an')
      | .error e => .error e
    | some f =>
      match getFieldObject env an f.name with
      | .error e => .error e
      | .ok (v, an1) =>
        match doConv env f.conv v with
        | .error e => .error e
        | .ok v =>
          match (if needsExpanding f.spec then self f.spec an1 else .ok (f.spec, an1)) with
          | .error e => .error e
          | .ok (spec, an2) =>
            match env.format v spec with
            | .error e => .error e
            | .ok s =>
              match renderPieces self env ps an2 with
              | .ok (r, an3) => .ok (p.lit ++ s ++ r, an3)
              | .error e => .error e

/-- `build_string` with `recursion_depth = d` -/
def buildString {V} (env : Env V) : Nat → Str → AN → Except Err (Str × AN)
  | 0, _, _ => .error .valueError                    -- "Max string recursion exceeded"
  | d + 1, t, an =>
    match renderPieces (buildString env d) env (parse t).1 an with
    | .error e => .error e
    | .ok r => if (parse t).2.isSome then .error .valueError else .ok r

/-- `t.format(*env.args, **env.kwargs)` (or `t.format_map(env.kwargs)` when `hasArgs = false`) -/
def strFormat {V} (env : Env V) (t : Str) : Except Err Str :=
  (buildString env 2 t .init).map (·.1)

end Py.Fmt
