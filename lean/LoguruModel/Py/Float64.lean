/-
IEEE-754 binary64 arithmetic as Python's `float` uses it, on exact rationals: every operation
computes the exact result and rounds it once to the nearest double, ties to even
(`float(str)` – correctly rounded by CPython's `strtod` –, `int → float`, `*`, `/`, `+`).
Values are `± m · 2^e` with `m < 2^53` (`m = 2^53` only transiently), subnormals are kept
(`e ≥ −1074`), results of magnitude `≥ 2^1024` become infinities.  No NaN payloads, no signed
zero distinctions beyond the sign bit.
-/
namespace Py.F64

/-- a double -/
inductive Val where
  | fin (neg : Bool) (m : Nat) (e : Int)   -- (−1)^neg · m · 2^e
  | inf (neg : Bool)
  | nan
  deriving Repr, DecidableEq

/-- `a / b` rounded to the nearest integer, ties to even (`b > 0`) -/
def rne (a b : Nat) : Nat :=
  let q := a / b
  let r2 := 2 * (a % b)
  if r2 < b then q else if b < r2 then q + 1 else if q % 2 = 0 then q else q + 1

/-- numerator and denominator of `a / (b · 2^e)` -/
def scaled (a b : Nat) (e : Int) : Nat × Nat :=
  if 0 ≤ e then (a, b * 2 ^ e.toNat) else (a * 2 ^ (-e).toNat, b)

/-- mantissa and exponent of the double nearest to `a / b` (`a, b > 0`): the exponent is chosen so
that `a / (b·2^e)` lies in `[2^52, 2^53)` (or `e = −1074` for subnormals), then the mantissa is
rounded half-even -/
def roundPos (a b : Nat) : Nat × Int :=
  let e0 : Int := (a.log2 : Int) - (b.log2 : Int) - 52
  let s0 := scaled a b e0            -- a/(b·2^e0) lies in (2^51, 2^53)
  let e1 := if s0.1 < s0.2 * 2 ^ 52 then e0 - 1 else e0
  let e := if e1 < -1074 then -1074 else e1
  let s := scaled a b e
  (rne s.1 s.2, e)

/-- is `m · 2^e < 2^1024`? (`m ≤ 2^53`) -/
def inRange (m : Nat) (e : Int) : Bool :=
  if e ≤ 0 then true else if 1024 < e then false else decide (m * 2 ^ e.toNat < 2 ^ 1024)

/-- the double nearest to `± a / b` (`b > 0`) -/
def ofRat (neg : Bool) (a b : Nat) : Val :=
  if a = 0 then .fin neg 0 0 else
  let r := roundPos a b
  if r.1 = 0 then .fin neg 0 0 else if inRange r.1 r.2 then .fin neg r.1 r.2 else .inf neg

/-- `float(n)` / the implicit conversion of an `int` operand (CPython raises OverflowError where
this returns an infinity) -/
def ofInt (n : Int) : Val := ofRat (decide (n < 0)) n.natAbs 1

/-- number of decimal digits of `n` (0 for 0) -/
def digits10 : Nat → Nat → Nat
  | 0, _ => 0
  | f + 1, n => if n = 0 then 0 else digits10 f (n / 10) + 1

/-- `float("<mant>e<e10>")` for a decimal literal `± mant · 10^e10`.  Literals far outside the range
of doubles are answered without building the power of ten (same value). -/
def ofDec (neg : Bool) (mant : Nat) (e10 : Int) : Val :=
  if mant = 0 then .fin neg 0 0 else
  let dg : Int := digits10 (mant.log2 + 2) mant
  if dg + e10 < -400 then .fin neg 0 0
  else if 400 < dg - 1 + e10 then .inf neg
  else if 0 ≤ e10 then ofRat neg (mant * 10 ^ e10.toNat) 1 else ofRat neg mant (10 ^ (-e10).toNat)

/-- exact value of a finite double as numerator / denominator -/
def toRat : Val → Option (Int × Nat)
  | .fin neg m e =>
    let s : Int := if neg then -1 else 1
    if 0 ≤ e then some (s * (m * 2 ^ e.toNat : Nat), 1) else some (s * m, 2 ^ (-e).toNat)
  | _ => none

def isZero : Val → Bool
  | .fin _ m _ => m == 0
  | _ => false

/-- IEEE multiplication -/
def mul : Val → Val → Val
  | .fin n1 m1 e1, .fin n2 m2 e2 =>
    let e := e1 + e2
    if 0 ≤ e then ofRat (n1 != n2) (m1 * m2 * 2 ^ e.toNat) 1 else ofRat (n1 != n2) (m1 * m2) (2 ^ (-e).toNat)
  | .nan, _ => .nan
  | _, .nan => .nan
  | .inf n1, .inf n2 => .inf (n1 != n2)
  | .inf n1, .fin n2 m _ => if m = 0 then .nan else .inf (n1 != n2)
  | .fin n1 m _, .inf n2 => if m = 0 then .nan else .inf (n1 != n2)

/-- IEEE division by a finite non-zero double (Python raises ZeroDivisionError for a zero divisor:
the caller excludes it) -/
def div : Val → Val → Val
  | .fin n1 m1 e1, .fin n2 m2 e2 =>
    if m2 = 0 then .nan else
    let e := e1 - e2
    if 0 ≤ e then ofRat (n1 != n2) (m1 * 2 ^ e.toNat) m2 else ofRat (n1 != n2) m1 (m2 * 2 ^ (-e).toNat)
  | .nan, _ => .nan
  | _, .nan => .nan
  | .inf n1, .fin n2 _ _ => .inf (n1 != n2)
  | .inf _, .inf _ => .nan
  | .fin n1 _ _, .inf n2 => .fin (n1 != n2) 0 0

/-- `math.floor` of a finite double -/
def floor? (v : Val) : Option Int := (toRat v).map fun q => q.1 / (q.2 : Int)

/-- the Python comparison `n > v` for an `int` n and a float v (exact, no conversion of `n`) -/
def intGt (n : Int) : Val → Bool
  | .fin neg m e =>
    let s : Int := if neg then -1 else 1
    if 0 ≤ e then decide (n > s * (m * 2 ^ e.toNat : Nat)) else decide (n * (2 ^ (-e).toNat : Nat) > s * m)
  | .inf neg => neg
  | .nan => false

/-- IEEE addition -/
def add : Val → Val → Val
  | .fin n1 m1 e1, .fin n2 m2 e2 =>
    let e := if e1 ≤ e2 then e1 else e2
    let a1 : Int := (if n1 then -1 else 1) * ((m1 * 2 ^ (e1 - e).toNat : Nat) : Int)
    let a2 : Int := (if n2 then -1 else 1) * ((m2 * 2 ^ (e2 - e).toNat : Nat) : Int)
    let sum := a1 + a2
    if sum = 0 then .fin (n1 && n2) 0 0
    else if 0 ≤ e then ofRat (decide (sum < 0)) (sum.natAbs * 2 ^ e.toNat) 1
    else ofRat (decide (sum < 0)) sum.natAbs (2 ^ (-e).toNat)
  | .nan, _ => .nan
  | _, .nan => .nan
  | .inf n1, .inf n2 => if n1 == n2 then .inf n1 else .nan
  | .inf n1, .fin _ _ _ => .inf n1
  | .fin _ _ _, .inf n2 => .inf n2

/-- C `modf` on a finite double: integral part (toward zero, as an integer) and fractional part (same sign, exact) -/
def modf (neg : Bool) (m : Nat) (e : Int) : Int × Val :=
  let s : Int := if neg then -1 else 1
  if 0 ≤ e then (s * ((m * 2 ^ e.toNat : Nat) : Int), .fin neg 0 0)
  else
    let d := 2 ^ (-e).toNat
    (s * ((m / d : Nat) : Int), .fin neg (m % d) e)

/-- outcome of `datetime.timedelta(seconds=<float>)` -/
inductive TdResult where
  | us (total : Int)      -- the interval in microseconds (before the range check of timedelta)
  | nan                   -- ValueError
  | overflow              -- OverflowError
  deriving Repr, DecidableEq

/-- `datetime.timedelta(seconds=x)` for a float `x`, as `_datetimemodule.c` computes it (`accum` + the final
rounding of the leftover): whole seconds exactly; the fractional part is multiplied by 1e6 IN FLOATING POINT, its integral
part is added, and what is left (a double in (−1, 1)) is rounded to the nearest microsecond, exact halves to the side
that makes the total even -/
def tdSeconds : Val → TdResult
  | .nan => .nan
  | .inf _ => .overflow
  | .fin neg m e =>
    let (ip, frac) := modf neg m e
    let x := ip * 1000000
    if isZero frac then .us x else
    match mul (ofInt 1000000) frac with
    | .fin n2 m2 e2 =>
      let (ip2, left) := modf n2 m2 e2
      let y := x + ip2
      match left with
      | .fin n3 m3 e3 =>
        if m3 = 0 then .us y else
        -- |left| compared with one half: m3 · 2^e3 ? 1/2  (e3 < 0 here)
        let k := (-e3).toNat
        let twice := 2 * m3
        let half := 2 ^ k
        let sgn : Int := if n3 then -1 else 1
        if twice < half then .us y
        else if half < twice then .us (y + sgn)
        else .us (if y % 2 = 0 then y else y + sgn)
      | _ => .nan
    | _ => .overflow


theorem rne_exact (c b : Nat) (hb : 0 < b) : rne (c * b) b = c := by
  unfold rne
  have h1 : c * b / b = c := Nat.mul_div_cancel c hb
  have h2 : c * b % b = 0 := Nat.mul_mod_left c b
  simp [h1, h2, hb]

/-! ### exactness: dyadic values with a 53-bit numerator are fixed points of the rounding -/

theorem two_pow_pos (n : Nat) : 0 < 2 ^ n := Nat.two_pow_pos n

theorem pow_cancel (x y q : Nat) (h : x * 2 ^ q = y * 2 ^ q) : x = y :=
  Nat.eq_of_mul_eq_mul_right (two_pow_pos q) h

/-- `scaled a b e` is `(a·2^y, b·2^x)` with `e = x − y` -/
theorem scaled_spec (a b : Nat) (e : Int) :
    ∃ x y : Nat, e = (x : Int) - y ∧ scaled a b e = (a * 2 ^ y, b * 2 ^ x) := by
  unfold scaled
  by_cases h : 0 ≤ e
  · exact ⟨e.toNat, 0, by omega, by simp [h]⟩
  · exact ⟨0, (-e).toNat, by omega, by simp [h]⟩

/-- if `a/b = V·2^(p−q)` and the exponent chosen is at most `p − q`, the scaled quotient is the integer `V·2^k` -/
theorem scaled_exact (a b V p q x y k : Nat) (H : a * 2 ^ q = V * b * 2 ^ p) (hk : p + y = q + x + k) :
    a * 2 ^ y = (V * 2 ^ k) * (b * 2 ^ x) := by
  apply pow_cancel _ _ q
  have h1 : a * 2 ^ y * 2 ^ q = (a * 2 ^ q) * 2 ^ y := by ac_rfl
  have h2 : V * 2 ^ k * (b * 2 ^ x) * 2 ^ q = V * b * (2 ^ q * 2 ^ x * 2 ^ k) := by ac_rfl
  have h3 : V * b * 2 ^ p * 2 ^ y = V * b * (2 ^ p * 2 ^ y) := by ac_rfl
  rw [h1, h2, H, h3, ← Nat.pow_add, ← Nat.pow_add, ← Nat.pow_add, hk]

/-- … and one exponent higher the scaled quotient is `V/2 < 2^52` -/
theorem scaled_half (a b V p q x y : Nat) (hb : 0 < b) (hV : V < 2 ^ 53) (H : a * 2 ^ q = V * b * 2 ^ p)
    (hk : x + q = p + 1 + y) : a * 2 ^ y < b * 2 ^ x * 2 ^ 52 := by
  have h1 : (a * 2 ^ y * 2) * 2 ^ q = (V * (b * 2 ^ x)) * 2 ^ q := by
    have e1 : (a * 2 ^ y * 2) * 2 ^ q = (a * 2 ^ q) * (2 ^ y * 2 ^ 1) := by rw [Nat.pow_one]; ac_rfl
    have e2 : (V * (b * 2 ^ x)) * 2 ^ q = V * b * (2 ^ x * 2 ^ q) := by ac_rfl
    have e3 : V * b * 2 ^ p * (2 ^ y * 2 ^ 1) = V * b * (2 ^ p * 2 ^ 1 * 2 ^ y) := by ac_rfl
    rw [e1, e2, H, e3, ← Nat.pow_add, ← Nat.pow_add, ← Nat.pow_add, hk]
  have h2 := pow_cancel _ _ q h1
  have hpos : 0 < b * 2 ^ x := Nat.mul_pos hb (two_pow_pos x)
  have h3 : V * (b * 2 ^ x) < 2 ^ 53 * (b * 2 ^ x) := Nat.mul_lt_mul_of_pos_right hV hpos
  have h4 : (2 : Nat) ^ 53 * (b * 2 ^ x) = (b * 2 ^ x * 2 ^ 52) * 2 := by
    have : (2 : Nat) ^ 53 = 2 ^ 52 * 2 := by decide
    rw [this]; ac_rfl
  omega

/-- EXACTNESS.  If `a / b = V · 2^(p − q)` with `V < 2^53` (a dyadic value whose numerator fits the
mantissa) and `p − q ≥ −1074` (not below the subnormal grid), rounding is the identity: the result
is `M · 2^e` with `e ≤ p − q` and `M = V · 2^(p − q − e)`. -/
theorem roundPos_exact (a b V p q : Nat) (ha : 0 < a) (hb : 0 < b) (hV : V < 2 ^ 53)
    (H : a * 2 ^ q = V * b * 2 ^ p) (hsub : (q : Int) ≤ p + 1074) :
    ∃ k : Nat, (roundPos a b).2 + k = (p : Int) - q ∧ (roundPos a b).1 = V * 2 ^ k := by
  have hla1 : 2 ^ a.log2 ≤ a := Nat.log2_self_le (by omega)
  have hlb2 : b < 2 ^ (b.log2 + 1) := Nat.lt_log2_self
  have hVpos : 0 < V := by
    cases V with
    | zero =>
      have h0 : 0 < a * 2 ^ q := Nat.mul_pos ha (two_pow_pos q)
      rw [H] at h0; simp at h0
    | succ n => omega
  -- the first estimate of the exponent is at most one too high
  have hA : (a.log2 : Int) - b.log2 - 52 ≤ (p : Int) - q + 1 := by
    by_cases hc : (a.log2 : Int) - b.log2 - 52 ≤ (p : Int) - q + 1
    · exact hc
    · exfalso
      have hn : b.log2 + 1 + p + 53 ≤ a.log2 + q := by omega
      have h1 : 2 ^ (b.log2 + 1 + p + 53) ≤ 2 ^ (a.log2 + q) := Nat.pow_le_pow_right (by decide) hn
      have h2 : 2 ^ (a.log2 + q) ≤ a * 2 ^ q := by
        rw [Nat.pow_add]; exact Nat.mul_le_mul_right _ hla1
      have h3 : V * b < 2 ^ 53 * 2 ^ (b.log2 + 1) := by
        calc V * b < 2 ^ 53 * b := Nat.mul_lt_mul_of_pos_right hV hb
          _ ≤ 2 ^ 53 * 2 ^ (b.log2 + 1) := Nat.mul_le_mul_left _ (Nat.le_of_lt hlb2)
      have h4 : V * b * 2 ^ p < 2 ^ 53 * 2 ^ (b.log2 + 1) * 2 ^ p := Nat.mul_lt_mul_of_pos_right h3 (two_pow_pos p)
      have h5 : 2 ^ 53 * 2 ^ (b.log2 + 1) * 2 ^ p = 2 ^ (b.log2 + 1 + p + 53) := by
        have : 2 ^ 53 * 2 ^ (b.log2 + 1) * 2 ^ p = 2 ^ (b.log2 + 1) * 2 ^ p * 2 ^ 53 := by ac_rfl
        rw [this, ← Nat.pow_add, ← Nat.pow_add]
      omega
  unfold roundPos
  simp only
  -- e1 ≤ p − q
  have hE1 : (if (scaled a b ((a.log2 : Int) - b.log2 - 52)).1 < (scaled a b ((a.log2 : Int) - b.log2 - 52)).2 * 2 ^ 52
      then (a.log2 : Int) - b.log2 - 52 - 1 else (a.log2 : Int) - b.log2 - 52) ≤ (p : Int) - q := by
    by_cases hlt : (a.log2 : Int) - b.log2 - 52 ≤ (p : Int) - q
    · split <;> omega
    · have heq : (a.log2 : Int) - b.log2 - 52 = (p : Int) - q + 1 := by omega
      obtain ⟨x, y, hxy, hs⟩ := scaled_spec a b ((a.log2 : Int) - b.log2 - 52)
      have := scaled_half a b V p q x y hb hV H (by omega)
      rw [hs]
      simp only [this, if_true]
      omega
  generalize (if (scaled a b ((a.log2 : Int) - b.log2 - 52)).1 < (scaled a b ((a.log2 : Int) - b.log2 - 52)).2 * 2 ^ 52
      then (a.log2 : Int) - b.log2 - 52 - 1 else (a.log2 : Int) - b.log2 - 52) = e1 at hE1 ⊢
  have hE : (if e1 < -1074 then -1074 else e1) ≤ (p : Int) - q := by split <;> omega
  generalize (if e1 < -1074 then (-1074 : Int) else e1) = e at hE ⊢
  obtain ⟨x, y, hxy, hs⟩ := scaled_spec a b e
  obtain ⟨k, hk⟩ : ∃ k : Nat, (p : Int) - q - e = k := ⟨((p : Int) - q - e).toNat, by omega⟩
  refine ⟨k, by omega, ?_⟩
  rw [hs]
  simp only
  rw [scaled_exact a b V p q x y k H (by omega)]
  exact rne_exact _ _ (Nat.mul_pos hb (two_pow_pos x))

/-- `v` is exactly `± V · 2^(p − q)`, in the form the rounding produces it (`m = V·2^k`, `e = p − q − k`) -/
def IsDy (v : Val) (neg : Bool) (V p q : Nat) : Prop :=
  ∃ (m : Nat) (e : Int) (k : Nat), v = .fin neg m e ∧ e + k = (p : Int) - q ∧ m = V * 2 ^ k

/-- rounding an exact quotient `a/b = V·2^(p−q)` (`0 < V < 2^53`, `−1074 ≤ p − q ≤ 0`) is exact -/
theorem ofRat_dy (neg : Bool) (a b V p q : Nat) (ha : 0 < a) (hb : 0 < b) (hV : V < 2 ^ 53)
    (H : a * 2 ^ q = V * b * 2 ^ p) (hsub : (q : Int) ≤ p + 1074) (hle : p ≤ q) :
    IsDy (ofRat neg a b) neg V p q := by
  obtain ⟨k, hk, hm⟩ := roundPos_exact a b V p q ha hb hV H hsub
  have hVpos : 0 < V := by
    cases V with
    | zero =>
      have h0 : 0 < a * 2 ^ q := Nat.mul_pos ha (two_pow_pos q)
      rw [H] at h0; simp at h0
    | succ n => omega
  have hm0 : (roundPos a b).1 ≠ 0 := by
    rw [hm]; exact Nat.ne_of_gt (Nat.mul_pos hVpos (two_pow_pos k))
  have hr : inRange (roundPos a b).1 (roundPos a b).2 = true := by
    unfold inRange
    have : (roundPos a b).2 ≤ 0 := by omega
    simp [this]
  refine ⟨(roundPos a b).1, (roundPos a b).2, k, ?_, hk, hm⟩
  unfold ofRat
  simp [Nat.ne_of_gt ha, hm0, hr]

/-- integers below `2^53` convert exactly -/
theorem ofNat_dy (n : Nat) (h0 : 0 < n) (hn : n < 2 ^ 53) : IsDy (ofInt (n : Int)) false n 0 0 := by
  have h1 : decide ((n : Int) < 0) = false := by simp
  have h2 : (n : Int).natAbs = n := by simp
  unfold ofInt
  rw [h1, h2]
  exact ofRat_dy false n 1 n 0 0 h0 (by decide) hn (by simp) (by omega) (Nat.le_refl _)

/-- the product of two exact values whose product still has a 53-bit numerator is exact -/
theorem mul_dy (x y : Val) (n1 n2 : Bool) (V1 p1 q1 V2 p2 q2 : Nat)
    (hx : IsDy x n1 V1 p1 q1) (hy : IsDy y n2 V2 p2 q2) (h1 : 0 < V1) (h2 : 0 < V2) (hV : V1 * V2 < 2 ^ 53)
    (hle : p1 + p2 ≤ q1 + q2) (hsub : ((q1 + q2 : Nat) : Int) ≤ (p1 + p2 : Nat) + 1074) :
    IsDy (mul x y) (n1 != n2) (V1 * V2) (p1 + p2) (q1 + q2) := by
  obtain ⟨m1, e1, k1, rfl, he1, rfl⟩ := hx
  obtain ⟨m2, e2, k2, rfl, he2, rfl⟩ := hy
  have hVV : 0 < V1 * V2 := Nat.mul_pos h1 h2
  have hpos : 0 < V1 * 2 ^ k1 * (V2 * 2 ^ k2) :=
    Nat.mul_pos (Nat.mul_pos h1 (two_pow_pos _)) (Nat.mul_pos h2 (two_pow_pos _))
  simp only [mul]
  by_cases hs : 0 ≤ e1 + e2
  · -- e1 + e2 ≥ 0 together with p ≤ q forces e1 + e2 = 0 and k1 = k2 = 0 … handled uniformly through the exponents
    simp only [hs, if_true]
    obtain ⟨j, hj⟩ : ∃ j : Nat, e1 + e2 = j := ⟨(e1 + e2).toNat, by omega⟩
    have hjj : (e1 + e2).toNat = j := by omega
    rw [hjj]
    have := ofRat_dy (n1 != n2) (V1 * 2 ^ k1 * (V2 * 2 ^ k2) * 2 ^ j) 1 (V1 * V2) (k1 + k2 + j) 0
      (Nat.mul_pos hpos (two_pow_pos j)) (by decide) hV
      (by rw [Nat.pow_add, Nat.pow_add]; simp only [Nat.pow_zero, Nat.mul_one]; ac_rfl) (by omega) (by omega)
    have hz : k1 + k2 + j = 0 := by omega
    obtain ⟨m, e, k, hv, hek, hmk⟩ := this
    exact ⟨m, e, k, hv, by omega, hmk⟩
  · simp only [hs, if_false]
    obtain ⟨j, hj⟩ : ∃ j : Nat, -(e1 + e2) = j := ⟨(-(e1 + e2)).toNat, by omega⟩
    have hjj : (-(e1 + e2)).toNat = j := by omega
    rw [hjj]
    have := ofRat_dy (n1 != n2) (V1 * 2 ^ k1 * (V2 * 2 ^ k2)) (2 ^ j) (V1 * V2) (k1 + k2) j
      hpos (two_pow_pos j) hV
      (by rw [Nat.pow_add]; ac_rfl) (by omega) (by omega)
    obtain ⟨m, e, k, hv, hek, hmk⟩ := this
    exact ⟨m, e, k, hv, by omega, hmk⟩

/-- dividing an exact value by an exact power of two is exact -/
theorem div_pow2_dy (x y : Val) (n1 n2 : Bool) (V1 p1 q1 p2 q2 : Nat)
    (hx : IsDy x n1 V1 p1 q1) (hy : IsDy y n2 1 p2 q2) (h1 : 0 < V1) (hV : V1 < 2 ^ 53)
    (hle : p1 + q2 ≤ q1 + p2) (hsub : ((q1 + p2 : Nat) : Int) ≤ (p1 + q2 : Nat) + 1074) :
    IsDy (div x y) (n1 != n2) V1 (p1 + q2) (q1 + p2) := by
  obtain ⟨m1, e1, k1, rfl, he1, rfl⟩ := hx
  obtain ⟨m2, e2, k2, rfl, he2, rfl⟩ := hy
  have hm2 : 1 * 2 ^ k2 ≠ 0 := Nat.ne_of_gt (Nat.mul_pos (by decide) (two_pow_pos k2))
  have hpos : 0 < V1 * 2 ^ k1 := Nat.mul_pos h1 (two_pow_pos _)
  simp only [div, hm2, if_false]
  by_cases hs : 0 ≤ e1 - e2
  · simp only [hs, if_true]
    obtain ⟨j, hj⟩ : ∃ j : Nat, e1 - e2 = j := ⟨(e1 - e2).toNat, by omega⟩
    have hjj : (e1 - e2).toNat = j := by omega
    rw [hjj]
    have := ofRat_dy (n1 != n2) (V1 * 2 ^ k1 * 2 ^ j) (1 * 2 ^ k2) V1 (k1 + j) k2
      (Nat.mul_pos hpos (two_pow_pos j)) (Nat.mul_pos (by decide) (two_pow_pos k2)) hV
      (by rw [Nat.pow_add]; ac_rfl) (by omega) (by omega)
    obtain ⟨m, e, k, hv, hek, hmk⟩ := this
    exact ⟨m, e, k, hv, by omega, hmk⟩
  · simp only [hs, if_false]
    obtain ⟨j, hj⟩ : ∃ j : Nat, -(e1 - e2) = j := ⟨(-(e1 - e2)).toNat, by omega⟩
    have hjj : (-(e1 - e2)).toNat = j := by omega
    rw [hjj]
    have := ofRat_dy (n1 != n2) (V1 * 2 ^ k1) (1 * 2 ^ k2 * 2 ^ j) V1 k1 (k2 + j)
      hpos (Nat.mul_pos (Nat.mul_pos (by decide) (two_pow_pos k2)) (two_pow_pos j)) hV
      (by rw [Nat.pow_add]; ac_rfl) (by omega) (by omega)
    obtain ⟨m, e, k, hv, hek, hmk⟩ := this
    exact ⟨m, e, k, hv, by omega, hmk⟩

/-- the exact value of such a double is what it says: `V · 2^p / 2^q` -/
theorem IsDy.toRat_eq (v : Val) (V p q : Nat) (h : IsDy v false V p q) (hle : p ≤ q) :
    ∃ num den, toRat v = some (num, den) ∧ 0 < den ∧ num * (2 ^ q : Nat) = (V * 2 ^ p : Nat) * (den : Int) := by
  obtain ⟨m, e, k, rfl, he, rfl⟩ := h
  simp only [toRat]
  by_cases hs : 0 ≤ e
  · have hk0 : k = 0 ∧ e = 0 ∧ p = q := by omega
    obtain ⟨rfl, rfl, rfl⟩ := hk0
    simp only [Int.le_refl, if_true]
    refine ⟨_, _, rfl, by decide, ?_⟩
    simp
  · simp only [hs, if_false]
    obtain ⟨j, hj⟩ : ∃ j : Nat, -e = j := ⟨(-e).toNat, by omega⟩
    have hjj : (-e).toNat = j := by omega
    rw [hjj]
    refine ⟨_, _, rfl, two_pow_pos j, ?_⟩
    have hq : q + k = p + j := by omega
    have : V * 2 ^ k * 2 ^ q = V * 2 ^ p * 2 ^ j := by
      have e1 : V * 2 ^ k * 2 ^ q = V * (2 ^ q * 2 ^ k) := by ac_rfl
      have e2 : V * 2 ^ p * 2 ^ j = V * (2 ^ p * 2 ^ j) := by ac_rfl
      rw [e1, e2, ← Nat.pow_add, ← Nat.pow_add, hq]
    simp only [Int.reduceNeg, Bool.false_eq_true, if_false, Int.one_mul]
    exact_mod_cast this

theorem digits10_le (f n : Nat) : digits10 f n ≤ f := by
  induction f generalizing n with
  | zero => simp [digits10]
  | succ f ih =>
    simp only [digits10]
    split
    · omega
    · have := ih (n / 10); omega

/-- a decimal integer literal below `2^53` is read exactly (`float("123")`) -/
theorem ofDec_nat_dy (n : Nat) (h0 : 0 < n) (hn : n < 2 ^ 53) : IsDy (ofDec false n 0) false n 0 0 := by
  have hl : n.log2 < 53 := (Nat.log2_lt (by omega)).mpr hn
  have hd := digits10_le (n.log2 + 2) n
  unfold ofDec
  have h1 : ¬ ((digits10 (n.log2 + 2) n : Int) + 0 < -400) := by omega
  have h2 : ¬ ((400 : Int) < (digits10 (n.log2 + 2) n : Int) - 1 + 0) := by omega
  simp only [Nat.ne_of_gt h0, if_false, h1, h2, Int.le_refl, if_true, Int.toNat_zero, Nat.pow_zero, Nat.mul_one]
  exact ofRat_dy false n 1 n 0 0 h0 (by decide) hn (by simp) (by omega) (Nat.le_refl _)

theorem ofInt_one_dy : IsDy (ofInt 1) false 1 0 0 := ofNat_dy 1 (by decide) (by decide)

theorem ofInt_eight_dy : IsDy (ofInt 8) false 1 3 0 := by
  obtain ⟨m, e, k, hv, he, hm⟩ := ofNat_dy 8 (by decide) (by decide)
  exact ⟨m, e, k + 3, hv, by omega, by rw [hm, Nat.pow_add]; omega⟩

/-- `0.0 + x` for a positive finite `x = m·2^e`: the exact sum handed to the rounding -/
theorem add_zero_left (m : Nat) (e : Int) (hm : 0 < m) :
    add (.fin false 0 0) (.fin false m e) =
      (if 0 ≤ e then ofRat false (m * 2 ^ e.toNat) 1 else ofRat false m (2 ^ (-e).toNat)) := by
  have hcast : ∀ x : Nat, 0 < x → ((x : Int) ≠ 0 ∧ ¬ ((x : Int) < 0) ∧ (x : Int).natAbs = x) := by
    intro x hx; exact ⟨by omega, by omega, Int.natAbs_natCast x⟩
  by_cases h : 0 ≤ e
  · have h2 := hcast (m * 2 ^ e.toNat) (Nat.mul_pos hm (two_pow_pos _))
    have e2 : (e - 0).toNat = e.toNat := by simp
    simp only [add, h, if_true, Int.sub_self, Int.toNat_zero, Nat.pow_zero, Nat.mul_one, Nat.zero_mul,
      Bool.false_eq_true, if_false, Int.one_mul, Int.natCast_zero, Int.zero_add, e2, Int.le_refl]
    simp only [h2.1, h2.2.1, h2.2.2, if_false, decide_false]
  · have h2 := hcast m hm
    simp only [add, h, if_false, Int.sub_self, Int.toNat_zero, Nat.pow_zero, Nat.mul_one, Nat.zero_mul,
      Bool.false_eq_true, Int.one_mul, Int.natCast_zero, Int.zero_add]
    simp only [h2.1, h2.2.1, h2.2.2, if_false, decide_false]

/-- `0.0 + x` for an exact value `x` (the first `seconds += …` of `parse_duration`, whose `seconds` starts as the int 0) -/
theorem add_zero_dy (y : Val) (V : Nat) (hy : IsDy y false V 0 0) (h1 : 0 < V) (hV : V < 2 ^ 53) :
    IsDy (add (.fin false 0 0) y) false V 0 0 := by
  obtain ⟨m, e, k, rfl, he, rfl⟩ := hy
  have hpos : 0 < V * 2 ^ k := Nat.mul_pos h1 (two_pow_pos k)
  rw [add_zero_left _ _ hpos]
  by_cases hk : k = 0
  · subst hk
    have : e = 0 := by omega
    subst this
    simp only [Int.le_refl, if_true, Int.toNat_zero, Nat.pow_zero, Nat.mul_one]
    exact ofRat_dy false V 1 V 0 0 h1 (by decide) hV (by simp) (by omega) (Nat.le_refl _)
  · have hneg : ¬ (0 : Int) ≤ e := by omega
    have e4 : (-e).toNat = k := by omega
    simp only [hneg, if_false, e4]
    exact ofRat_dy false (V * 2 ^ k) (2 ^ k) V 0 0 hpos (two_pow_pos k) hV (by simp) (by omega) (Nat.le_refl _)

/-- `timedelta(seconds=x)` for an exact whole number of seconds is that many million microseconds -/
theorem tdSeconds_whole (v : Val) (V : Nat) (h : IsDy v false V 0 0) : tdSeconds v = .us ((V : Int) * 1000000) := by
  obtain ⟨m, e, k, rfl, he, rfl⟩ := h
  by_cases hk : k = 0
  · subst hk
    have : e = 0 := by omega
    subst this
    simp [tdSeconds, modf, isZero]
  · have hneg : ¬ (0 : Int) ≤ e := by omega
    have e4 : (-e).toNat = k := by omega
    have hd : V * 2 ^ k / 2 ^ k = V := Nat.mul_div_cancel V (two_pow_pos k)
    have hm : V * 2 ^ k % 2 ^ k = 0 := Nat.mul_mod_left V (2 ^ k)
    simp only [tdSeconds, modf, hneg, if_false, e4, hd, hm, isZero, beq_self_eq_true, if_true,
      Bool.false_eq_true, Int.one_mul]

end Py.F64
