/-
IEEE-754 binary64 arithmetic as Python's `float` uses it, on exact rationals: every operation
computes the exact result and rounds it once to the nearest double, ties to even
(`float(str)` – correctly rounded by CPython's `strtod` –, `int → float`, `*`, `/`, `+`).
Values are `± m · 2^e` with `m < 2^53` (`m = 2^53` only transiently), subnormals are kept
(`e ≥ −1074`), results of magnitude `≥ 2^1024` become infinities.  No NaN payloads, no signed
zero distinctions beyond the sign bit.
-/
namespace Py.F64

/-- a double -/
inductive Val where
  | fin (neg : Bool) (m : Nat) (e : Int)   -- (−1)^neg · m · 2^e
  | inf (neg : Bool)
  | nan
  deriving Repr, DecidableEq

/-- `a / b` rounded to the nearest integer, ties to even (`b > 0`) -/
def rne (a b : Nat) : Nat :=
  let q := a / b
  let r2 := 2 * (a % b)
  if r2 < b then q else if b < r2 then q + 1 else if q % 2 = 0 then q else q + 1

/-- numerator and denominator of `a / (b · 2^e)` -/
def scaled (a b : Nat) (e : Int) : Nat × Nat :=
  if 0 ≤ e then (a, b * 2 ^ e.toNat) else (a * 2 ^ (-e).toNat, b)

/-- mantissa and exponent of the double nearest to `a / b` (`a, b > 0`): the exponent is chosen so
that `a / (b·2^e)` lies in `[2^52, 2^53)` (or `e = −1074` for subnormals), then the mantissa is
rounded half-even -/
def roundPos (a b : Nat) : Nat × Int :=
  let e0 : Int := (a.log2 : Int) - (b.log2 : Int) - 52
  let s0 := scaled a b e0            -- a/(b·2^e0) lies in (2^51, 2^53)
  let e1 := if s0.1 < s0.2 * 2 ^ 52 then e0 - 1 else e0
  let e := if e1 < -1074 then -1074 else e1
  let s := scaled a b e
  (rne s.1 s.2, e)

/-- is `m · 2^e < 2^1024`? (`m ≤ 2^53`) -/
def inRange (m : Nat) (e : Int) : Bool :=
  if e ≤ 0 then true else if 1024 < e then false else decide (m * 2 ^ e.toNat < 2 ^ 1024)

/-- the double nearest to `± a / b` (`b > 0`) -/
def ofRat (neg : Bool) (a b : Nat) : Val :=
  if a = 0 then .fin neg 0 0 else
  let r := roundPos a b
  if r.1 = 0 then .fin neg 0 0 else if inRange r.1 r.2 then .fin neg r.1 r.2 else .inf neg

/-- `float(n)` / the implicit conversion of an `int` operand (CPython raises OverflowError where
this returns an infinity) -/
def ofInt (n : Int) : Val := ofRat (decide (n < 0)) n.natAbs 1

/-- number of decimal digits of `n` (0 for 0) -/
def digits10 : Nat → Nat → Nat
  | 0, _ => 0
  | f + 1, n => if n = 0 then 0 else digits10 f (n / 10) + 1

/-- `float("<mant>e<e10>")` for a decimal literal `± mant · 10^e10`.  Literals far outside the range
of doubles are answered without building the power of ten (same value). -/
def ofDec (neg : Bool) (mant : Nat) (e10 : Int) : Val :=
  if mant = 0 then .fin neg 0 0 else
  let dg : Int := digits10 (mant.log2 + 2) mant
  if dg + e10 < -400 then .fin neg 0 0
  else if 400 < dg - 1 + e10 then .inf neg
  else if 0 ≤ e10 then ofRat neg (mant * 10 ^ e10.toNat) 1 else ofRat neg mant (10 ^ (-e10).toNat)

/-- exact value of a finite double as numerator / denominator -/
def toRat : Val → Option (Int × Nat)
  | .fin neg m e =>
    let s : Int := if neg then -1 else 1
    if 0 ≤ e then some (s * (m * 2 ^ e.toNat : Nat), 1) else some (s * m, 2 ^ (-e).toNat)
  | _ => none

def isZero : Val → Bool
  | .fin _ m _ => m == 0
  | _ => false

/-- IEEE multiplication -/
def mul : Val → Val → Val
  | .fin n1 m1 e1, .fin n2 m2 e2 =>
    let e := e1 + e2
    if 0 ≤ e then ofRat (n1 != n2) (m1 * m2 * 2 ^ e.toNat) 1 else ofRat (n1 != n2) (m1 * m2) (2 ^ (-e).toNat)
  | .nan, _ => .nan
  | _, .nan => .nan
  | .inf n1, .inf n2 => .inf (n1 != n2)
  | .inf n1, .fin n2 m _ => if m = 0 then .nan else .inf (n1 != n2)
  | .fin n1 m _, .inf n2 => if m = 0 then .nan else .inf (n1 != n2)

/-- IEEE division by a finite non-zero double (Python raises ZeroDivisionError for a zero divisor:
the caller excludes it) -/
def div : Val → Val → Val
  | .fin n1 m1 e1, .fin n2 m2 e2 =>
    if m2 = 0 then .nan else
    let e := e1 - e2
    if 0 ≤ e then ofRat (n1 != n2) (m1 * 2 ^ e.toNat) m2 else ofRat (n1 != n2) m1 (m2 * 2 ^ (-e).toNat)
  | .nan, _ => .nan
  | _, .nan => .nan
  | .inf n1, .fin n2 _ _ => .inf (n1 != n2)
  | .inf _, .inf _ => .nan
  | .fin n1 _ _, .inf n2 => .fin (n1 != n2) 0 0

/-- `math.floor` of a finite double -/
def floor? (v : Val) : Option Int := (toRat v).map fun q => q.1 / (q.2 : Int)

/-- the Python comparison `n > v` for an `int` n and a float v (exact, no conversion of `n`) -/
def intGt (n : Int) : Val → Bool
  | .fin neg m e =>
    let s : Int := if neg then -1 else 1
    if 0 ≤ e then decide (n > s * (m * 2 ^ e.toNat : Nat)) else decide (n * (2 ^ (-e).toNat : Nat) > s * m)
  | .inf neg => neg
  | .nan => false

theorem rne_exact (c b : Nat) (hb : 0 < b) : rne (c * b) b = c := by
  unfold rne
  have h1 : c * b / b = c := Nat.mul_div_cancel c hb
  have h2 : c * b % b = 0 := Nat.mul_mod_left c b
  simp [h1, h2, hb]

end Py.F64
