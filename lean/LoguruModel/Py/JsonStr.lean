import LoguruModel.Py.Basic
/-
JSON string escaping as CPython's `json` does it (`py_encode_basestring` / `..._ascii`, the C
accelerators behave identically), and a strict decoder (`json.decoder.py_scanstring`, strict mode:
raw control characters are rejected).  Modelled, not verified: tied to the real `json.dumps` /
`json.loads` by the correspondence streams of harness/c14.py.

Text is `List Char`; a Lean `Char` is a Unicode scalar value, so lone surrogates are outside.
-/
namespace Py.JsonStr
open Py

/-- one lower-case hex digit (`'%x'`), `n < 16` -/
def hexDig (n : Nat) : Char := Nat.digitChar n

/-- `'{0:04x}'.format(n)` for `n < 0x10000` -/
def hex4 (n : Nat) : Str :=
  [hexDig (n / 4096 % 16), hexDig (n / 256 % 16), hexDig (n / 16 % 16), hexDig (n % 16)]

/-- `ESCAPE_DCT` + `ESCAPE = [\x00-\x1f\\"\b\f\n\r\t]`: the replacement of one character when
`ensure_ascii=False`; everything from U+0020 on except `"` and `\` is copied verbatim. -/
def escVerbatim (c : Char) : Str :=
  if c = '"' then ['\\', '"']
  else if c = '\\' then ['\\', '\\']
  else if c = '\n' then ['\\', 'n']
  else if c = '\r' then ['\\', 'r']
  else if c = '\t' then ['\\', 't']
  else if c = '\x08' then ['\\', 'b']
  else if c = '\x0c' then ['\\', 'f']
  else if c.toNat < 0x20 then '\\' :: 'u' :: hex4 c.toNat
  else [c]

/-- `ESCAPE_ASCII = ([\\"]|[^\ -~])`: with `ensure_ascii=True` everything outside U+0020..U+007E is
written as `\uXXXX` (a surrogate pair above the BMP). -/
def escAscii (c : Char) : Str :=
  if c.toNat < 0x20 ∨ c = '"' ∨ c = '\\' then escVerbatim c
  else if c.toNat < 0x7f then [c]
  else if c.toNat < 0x10000 then '\\' :: 'u' :: hex4 c.toNat
  else
    let n := c.toNat - 0x10000
    ('\\' :: 'u' :: hex4 (0xd800 + n / 1024 % 1024)) ++ ('\\' :: 'u' :: hex4 (0xdc00 + n % 1024))

/-- replacement of one character under the `ensure_ascii` flag -/
def escapeChar (ensureAscii : Bool) (c : Char) : Str :=
  if ensureAscii then escAscii c else escVerbatim c

/-- the text between the quotes -/
def encodeBody (ensureAscii : Bool) (s : Str) : Str := s.flatMap (escapeChar ensureAscii)

/-- `encode_basestring(s)`: `'"' + ESCAPE.sub(replace, s) + '"'` -/
def encodeStr (ensureAscii : Bool) (s : Str) : Str := '"' :: (encodeBody ensureAscii s ++ ['"'])

/-! ### decoder -/

/-- hex digit value, both cases accepted (as `int(esc, 16)` does) -/
def hexVal? (c : Char) : Option Nat :=
  if '0' ≤ c ∧ c ≤ '9' then some (c.toNat - 48)
  else if 'a' ≤ c ∧ c ≤ 'f' then some (c.toNat - 87)
  else if 'A' ≤ c ∧ c ≤ 'F' then some (c.toNat - 55)
  else none

def hex4Val? (a b c d : Char) : Option Nat :=
  match hexVal? a, hexVal? b, hexVal? c, hexVal? d with
  | some a, some b, some c, some d => some (a * 4096 + b * 256 + c * 16 + d)
  | _, _, _, _ => none

/-- `BACKSLASH` table of json.decoder -/
def unescape? (e : Char) : Option Char :=
  if e = '"' then some '"'
  else if e = '\\' then some '\\'
  else if e = '/' then some '/'
  else if e = 'b' then some '\x08'
  else if e = 'f' then some '\x0c'
  else if e = 'n' then some '\n'
  else if e = 'r' then some '\r'
  else if e = 't' then some '\t'
  else none

def consFst (c : Char) (p : Str × Str) : Str × Str := (c :: p.1, p.2)

/-- `scanstring` after the opening quote: the decoded text and what follows the closing quote.
Strict: a raw character below U+0020 is an error.  `\uD800`–`\uDFFF` escapes are rejected
(surrogates are outside the model). -/
def decodeBody : Str → Option (Str × Str)
  | [] => none
  | c :: r =>
    if c = '"' then some ([], r)
    else if c = '\\' then
      match r with
      | [] => none
      | e :: r1 =>
        if e = 'u' then
          match r1 with
          | a :: b :: c2 :: d :: r2 =>
            match hex4Val? a b c2 d with
            | some n =>
              if 0xd800 ≤ n ∧ n < 0xe000 then none
              else (decodeBody r2).map (consFst (Char.ofNat n))
            | none => none
          | _ => none
        else
          match unescape? e with
          | some ch => (decodeBody r1).map (consFst ch)
          | none => none
    else if c.toNat < 0x20 then none
    else (decodeBody r).map (consFst c)

/-- a whole JSON string token: opening quote, body, closing quote -/
def decodeStr : Str → Option (Str × Str)
  | '"' :: r => decodeBody r
  | _ => none

end Py.JsonStr
