import LoguruModel.Py.Basic
/-!
`str.format` field syntax – a Lean transcription of CPython 3.12 `Objects/stringlib/unicode_format.h`:
`MarkupIterator_next` + `parse_field` (what `_string.formatter_parser` / `string.Formatter().parse`
iterate) and `field_name_split` + `FieldNameIterator_next` (`_string.formatter_field_name_split`).

Modelled, not verified: harness/c05.py compares both functions with the real CPython functions on a
template grammar with stray/doubled braces, brackets, conversions and nested specs (tuples yielded
before an error, and the error message, are compared too).

The C iterator is *lazy*: it yields the tuples that precede a syntax error and then raises.  The
result type keeps that: `Parsed = List Piece × Option PErr`.
-/
namespace Py.Fmt
open Py

/-- the `ValueError`s of `MarkupIterator_next` / `parse_field` (all are `ValueError` in Python) -/
inductive PErr where
  | singleClose     -- "Single '}' encountered in format string"
  | singleOpen      -- "Single '{' encountered in format string"
  | openInName      -- "unexpected '{' in field name"
  | endConv         -- "end of string while looking for conversion specifier"
  | expectedColon   -- "expected ':' after conversion specifier"
  | unmatchedSpec   -- "unmatched '{' in format spec"
  | expectedClose   -- "expected '}' before end of string"
  | fuel            -- never produced for fuel > length (see `parse`)
  deriving DecidableEq, Repr, Inhabited

def PErr.toString : PErr → String
  | .singleClose => "singleClose" | .singleOpen => "singleOpen" | .openInName => "openInName"
  | .endConv => "endConv" | .expectedColon => "expectedColon" | .unmatchedSpec => "unmatchedSpec"
  | .expectedClose => "expectedClose" | .fuel => "fuel"

/-- a replacement field: `field_name`, `format_spec` (`""` when absent), `conversion` (`None` when absent) -/
structure Field where
  name : Str
  spec : Str
  conv : Option Char
  deriving DecidableEq, Repr, Inhabited

/-- one tuple `(literal_text, field_name, format_spec, conversion)`; `field = none` ⇔ `field_name is None` -/
structure Piece where
  lit : Str
  field : Option Field
  deriving DecidableEq, Repr, Inhabited

abbrev Parsed := List Piece × Option PErr

def consP (p : Piece) (r : Parsed) : Parsed := (p :: r.1, r.2)

/-- outcome of the literal scan at the start of `MarkupIterator_next` -/
inductive LitRes where
  | done (lit : Str)                 -- input exhausted, no brace met
  | esc (lit : Str) (rest : Str)     -- `{{` or `}}`: `lit` ends with ONE brace, `rest` follows the pair
  | field (lit : Str) (rest : Str)   -- `{` followed by another character; `rest` starts after the `{`
  | err (e : PErr)
  deriving DecidableEq, Repr

def LitRes.push (c : Char) : LitRes → LitRes
  | .done l => .done (c :: l)
  | .esc l r => .esc (c :: l) r
  | .field l r => .field (c :: l) r
  | .err e => .err e

/-- "First, parse up until the first '{' or '}'.  This might include escaped braces." -/
def scanLit : Str → LitRes
  | [] => .done []
  | c :: cs =>
    if c = '{' then
      match cs with
      | [] => .err .singleOpen
      | d :: ds => if d = '{' then .esc ['{'] ds else .field [] (d :: ds)
    else if c = '}' then
      match cs with
      | [] => .err .singleClose
      | d :: ds => if d = '}' then .esc ['}'] ds else .err .singleClose
    else (scanLit cs).push c

def isTerm (c : Char) : Bool := c = '}' || c = ':' || c = '!'

def push3 (c : Char) : Except PErr (Str × Char × Str) → Except PErr (Str × Char × Str)
  | .ok (n, t, r) => .ok (c :: n, t, r)
  | .error e => .error e

/-- `parse_field`, first loop: the field name ends at `}`, `:` or `!` outside `[...]`; a `{` outside
`[...]` is an error; inside `[...]` everything up to the next `]` is skipped.
Result: (name, terminator, text after the terminator). -/
def scanName (inBr : Bool) : Str → Except PErr (Str × Char × Str)
  | [] => .error .expectedClose
  | c :: cs =>
    if inBr then push3 c (scanName (c != ']') cs)
    else if c = '{' then .error .openInName
    else if isTerm c then .ok ([], c, cs)
    else push3 c (scanName (c == '[') cs)

def push2 (c : Char) : Except PErr (Str × Str) → Except PErr (Str × Str)
  | .ok (s, r) => .ok (c :: s, r)
  | .error e => .error e

/-- `parse_field`, spec loop: brace counting (no `{{` escapes here); `extra` = C's `count - 1`.
Result: (spec, text after the closing brace). -/
def scanSpec (extra : Nat) : Str → Except PErr (Str × Str)
  | [] => .error .unmatchedSpec
  | c :: cs =>
    if c = '{' then push2 c (scanSpec (extra + 1) cs)
    else if c = '}' then
      match extra with
      | 0 => .ok ([], cs)
      | e + 1 => push2 c (scanSpec e cs)
    else push2 c (scanSpec extra cs)

/-- conversion `'\0'` means "no conversion" in C; `formatter_parser` then yields `None` -/
def mkConv (c : Char) : Option Char := if c = Char.ofNat 0 then none else some c

/-- `parse_field` on the text after the opening `{`; returns the field and the text after its `}` -/
def parseField (s : Str) : Except PErr (Field × Str) :=
  match scanName false s with
  | .error e => .error e
  | .ok (name, t, rest) =>
    if t = '}' then .ok ({ name := name, spec := [], conv := none }, rest)
    else if t = ':' then
      match scanSpec 0 rest with
      | .ok (spec, rest') => .ok ({ name := name, spec := spec, conv := none }, rest')
      | .error e => .error e
    else
      match rest with
      | [] => .error .endConv
      | cv :: r1 =>
        match r1 with
        | [] => .error .unmatchedSpec
        | d :: r2 =>
          if d = '}' then .ok ({ name := name, spec := [], conv := mkConv cv }, r2)
          else if d = ':' then
            match scanSpec 0 r2 with
            | .ok (spec, rest') => .ok ({ name := name, spec := spec, conv := mkConv cv }, rest')
            | .error e => .error e
          else .error .expectedColon

/-- the iteration of `formatter_parser`; every step consumes at least one character -/
def parseFuel : Nat → Str → Parsed
  | 0, _ => ([], some .fuel)
  | n + 1, s =>
    match scanLit s with
    | .done [] => ([], none)
    | .done l => ([{ lit := l, field := none }], none)
    | .esc l r => consP { lit := l, field := none } (parseFuel n r)
    | .field l r =>
      match parseField r with
      | .ok (f, r') => consP { lit := l, field := some f } (parseFuel n r')
      | .error e => ([], some e)
    | .err e => ([], some e)

/-- `list(string.Formatter().parse(s))`, with the syntax error (if any) that ends the iteration -/
def parse (s : Str) : Parsed := parseFuel (s.length + 1) s

/-! ### field names: `formatter_field_name_split` -/

def isAsciiDigit (c : Char) : Bool := '0' ≤ c && c ≤ '9'

/-- `str.isdigit()` restricted to ASCII (non-ASCII digits are outside the model) -/
def allDigits (s : Str) : Bool := !s.isEmpty && s.all isAsciiDigit

def digitsVal (s : Str) : Nat := s.foldl (fun a c => a * 10 + (c.toNat - '0'.toNat)) 0

/-- `get_integer`: `some n` for a non-empty all-digit text (overflow is outside the model) -/
def getInteger (s : Str) : Option Nat := if allDigits s then some (digitsVal s) else none

def notSep (c : Char) : Bool := c != '.' && c != '['

/-- the part up to the first `.` or `[` -/
def firstOf (s : Str) : Str := s.takeWhile notSep
def restOf (s : Str) : Str := s.dropWhile notSep

inductive Step where
  | attr (n : Str)      -- `.name`     -> getattr
  | idx (i : Nat)       -- `[123]`     -> obj[123]
  | key (k : Str)       -- `[text]`    -> obj["text"]
  deriving DecidableEq, Repr

inductive NErr where
  | emptyAttr        -- "Empty attribute in format string"
  | missingBracket   -- "Missing ']' in format string"
  | badFollow        -- "Only '.' or '[' may follow ']' in format field specifier"
  | fuel
  deriving DecidableEq, Repr

def NErr.toString : NErr → String
  | .emptyAttr => "emptyAttr" | .missingBracket => "missingBracket" | .badFollow => "badFollow" | .fuel => "fuel"

abbrev Steps := List Step × Option NErr

def consS (p : Step) (r : Steps) : Steps := (p :: r.1, r.2)

/-- `FieldNameIterator_next` iterated (lazy: steps before an error are yielded) -/
def stepsFuel : Nat → Str → Steps
  | 0, _ => ([], some .fuel)
  | _ + 1, [] => ([], none)
  | n + 1, c :: cs =>
    if c = '.' then
      let nm := cs.takeWhile notSep
      if nm.isEmpty then ([], some .emptyAttr) else consS (.attr nm) (stepsFuel n (cs.dropWhile notSep))
    else if c = '[' then
      let nm := cs.takeWhile (· != ']')
      match cs.dropWhile (· != ']') with
      | [] => ([], some .missingBracket)
      | _ :: after =>
        if nm.isEmpty then ([], some .emptyAttr)
        else consS (match getInteger nm with | some i => .idx i | none => .key nm) (stepsFuel n after)
    else ([], some .badFollow)

inductive First where
  | num (i : Nat)
  | name (s : Str)     -- possibly empty
  deriving DecidableEq, Repr

/-- `_string.formatter_field_name_split(name)` -/
def fieldNameSplit (name : Str) : First × Steps :=
  let f := firstOf name
  let r := restOf name
  ((match getInteger f with | some i => First.num i | none => First.name f), stepsFuel (r.length + 1) r)

end Py.Fmt
