import LoguruModel.Py.Basic
/-
Py/Glob – our reading of the CPython 3.12 pieces that `FileSink` calls for retention
(modelled, not verified; validated against the real functions by correspondence stream (i) of C10):

* `fnmatch.translate` / `fnmatch.fnmatchcase` for ONE path component: `*`, `?`, `[seq]`, `[!seq]`,
  the unterminated-`[` literal rule, the 3.12 range-chunk algorithm (empty ranges removed, the
  `[b-a!x]` quirk included), `re`'s character-set parser on the result;
* `glob.escape` (wrap each of `*?[` in brackets; POSIX: no drive);
* `glob.glob` (non-recursive, include_hidden=False) as a predicate on *files*: a pattern selects an
  entry iff their non-empty `/`-components correspond one to one, each name component matching the
  pattern component, with the hidden-file rule (`*`/`?`/`[` never match a leading dot unless the
  pattern component itself starts with a dot).  Multiple slashes are not distinguished (glob
  returns `a/bX` for `a//b*`: same file);
* `posixpath.splitext` (last dot of the last component, leading dots ignored).

The segment operations are generic in the element type so that the same functions serve on
characters (the code) and on template tokens (the specification of C10).
-/
namespace Py.Glob
open Py

/-! ### generic segment operations -/
section Generic
variable {α : Type}

/-- split at every separator: (first segment, remaining segments) -/
def splitG (isSep : α → Bool) : List α → List α × List (List α)
  | [] => ([], [])
  | a :: r =>
    let p := splitG isSep r
    if isSep a then ([], p.1 :: p.2) else (a :: p.1, p.2)

/-- the non-empty segments between separators -/
def compsG (isSep : α → Bool) (l : List α) : List (List α) :=
  let p := splitG isSep l
  (p.1 :: p.2).filter (fun s => !s.isEmpty)

/-- split before the last marked element (dot or separator): `some (before, mark :: after)`;
`none` without one -/
def splitLastDotG (isDot : α → Bool) : List α → Option (List α × List α)
  | [] => none
  | a :: r =>
    match splitLastDotG isDot r with
    | some p => some (a :: p.1, p.2)
    | none => if isDot a then some ([], a :: r) else none

/-- (everything up to and including the last separator, what follows it) -/
def splitLastSepG (isSep : α → Bool) (l : List α) : List α × List α :=
  match splitLastDotG isSep l with
  | some (b, x :: a) => (b ++ [x], a)
  | some (b, []) => (b, [])
  | none => ([], l)

/-- `genericpath._splitext` on one file name: the extension starts at the last dot provided some
non-dot element precedes it -/
def splitextFileG (isDot : α → Bool) (f : List α) : List α × List α :=
  match splitLastDotG isDot f with
  | some p => if p.1.any (fun a => !isDot a) then (p.1, p.2) else (f, [])
  | none => (f, [])

/-- `os.path.splitext` -/
def splitextG (isSep isDot : α → Bool) (p : List α) : List α × List α :=
  let d := splitLastSepG isSep p
  let s := splitextFileG isDot d.2
  (d.1 ++ s.1, s.2)

/-- all suffixes, longest first -/
def suffixes : List α → List (List α)
  | [] => [[]]
  | a :: r => (a :: r) :: suffixes r

def all2 {β : Type} (f : α → β → Bool) : List α → List β → Bool
  | [], [] => true
  | a :: as, b :: bs => f a b && all2 f as bs
  | _, _ => false

end Generic

def isSepC (c : Char) : Bool := c == '/'
def isDotC (c : Char) : Bool := c == '.'

/-- `os.path.splitext(p)` (POSIX) -/
def splitext (p : Str) : Str × Str := splitextG isSepC isDotC p
/-- non-empty path components -/
def comps (p : Str) : List Str := compsG isSepC p
def isAbs (p : Str) : Bool := match p with | '/' :: _ => true | _ => false

/-! ### glob.escape -/
def isMagic (c : Char) : Bool := c == '*' || c == '?' || c == '['
def escChar (c : Char) : Str := if isMagic c then ['[', c, ']'] else [c]
/-- `glob.escape` -/
def escape (s : Str) : Str := s.flatMap escChar
/-- `glob.has_magic` -/
def hasMagic (s : Str) : Bool := s.any isMagic

/-! ### fnmatch.translate for one component -/
inductive Tok where
  | star | any | never
  | cls (neg : Bool) (items : List (Char × Char))
  | lit (c : Char)
  deriving DecidableEq, Repr

def Tok.matchesChar : Tok → Char → Bool
  | .star, _ => false
  | .any, _ => true
  | .never, _ => false
  | .cls neg items, c => (items.any (fun r => decide (r.1 ≤ c) && decide (c ≤ r.2))) != neg
  | .lit d, c => c == d

/-- text up to the first `]` (excluded); `none` if there is none -/
def untilClose : Str → Option Str
  | [] => none
  | c :: r => if c = ']' then some [] else (untilClose r).map (c :: ·)

/-- the `stuff` of a bracket expression whose `[` has just been read: an optional `!`, an optional
`]`, then everything up to the next `]` -/
def findClose (r : Str) : Option Str :=
  match r with
  | '!' :: ']' :: t => (untilClose t).map (fun b => '!' :: ']' :: b)
  | '!' :: t => (untilClose t).map (fun b => '!' :: b)
  | ']' :: t => (untilClose t).map (fun b => ']' :: b)
  | t => untilClose t

/-- the hyphen scan of `translate`: a hyphen is a range operator unless it lies in the first
`skip` characters of the current chunk -/
def chunkGo : Nat → Str → Str → List Str
  | _, cur, [] => [cur]
  | skip, cur, c :: r =>
    if c = '-' ∧ skip = 0 then cur :: chunkGo 2 [] r else chunkGo (skip - 1) (cur ++ [c]) r

def chunks (s : Str) : List Str :=
  let cs := chunkGo (match s with | '!' :: _ => 2 | _ => 1) [] s
  match cs.reverse with
  | [] :: prev :: more => ((prev ++ ['-']) :: more).reverse
  | _ => cs

/-- "Remove empty ranges": right to left, `x-y` with `x > y` drops both end points -/
def mergeChunks : List Str → List Str
  | [] => []
  | c :: rest =>
    match mergeChunks rest with
    | [] => [c]
    | d :: ds =>
      match c.getLast?, d.head? with
      | some x, some y => if x > y then (c.dropLast ++ d.tail) :: ds else c :: d :: ds
      | _, _ => c :: d :: ds

/-- characters of the regex set with a flag "escaped by translate" (only matters for `-`) -/
def tagChunk (s : Str) : List (Char × Bool) :=
  s.map (fun c => (c, c == '-' || c == '\\' || c == '&' || c == '~' || c == '|'))

def joinTagged : List Str → List (Char × Bool)
  | [] => []
  | [c] => tagChunk c
  | c :: rest => tagChunk c ++ ('-', false) :: joinTagged rest

/-- `re`'s character-set parser: `x-y` with an unescaped hyphen is a range; a trailing hyphen is
a literal -/
def parseSet : List (Char × Bool) → List (Char × Char)
  | [] => []
  | [c] => [(c.1, c.1)]
  | [c, h] => [(c.1, c.1), (h.1, h.1)]
  | c :: h :: d :: r =>
    if h.1 = '-' ∧ h.2 = false then (c.1, d.1) :: parseSet r
    else (c.1, c.1) :: parseSet (h :: d :: r)

def classTok (stuff : Str) : Tok :=
  match joinTagged (mergeChunks (chunks stuff)) with
  | [] => .never
  | ('!', _) :: [] => .any
  | ('!', _) :: rest => .cls true (parseSet rest)
  | t => .cls false (parseSet t)

/-- `fnmatch.translate` as a token list; the first argument counts characters still to be skipped
(the body of a bracket expression already consumed) -/
def tr : Nat → Str → List Tok
  | _, [] => []
  | k + 1, _ :: r => tr k r
  | 0, c :: r =>
    if c = '*' then .star :: tr 0 r
    else if c = '?' then .any :: tr 0 r
    else if c = '[' then
      match findClose r with
      | some stuff => classTok stuff :: tr (stuff.length + 1) r
      | none => .lit '[' :: tr 0 r
    else .lit c :: tr 0 r

def translate (p : Str) : List Tok := tr 0 p

/-- matching of a translated pattern against a whole name (`(?s:…)\Z`) -/
def wild : List Tok → Str → Bool
  | [], n => n.isEmpty
  | .star :: ts, n => (suffixes n).any (fun m => wild ts m)
  | t :: ts, n =>
    match n with
    | [] => false
    | c :: n' => t.matchesChar c && wild ts n'

/-- `fnmatch.fnmatchcase(name, pat)` -/
def fnmatch (pat name : Str) : Bool := wild (translate pat) name

def isHidden (s : Str) : Bool := match s with | '.' :: _ => true | _ => false

/-- one component under `glob`: fnmatch plus the hidden-file rule.  (For a component without
magic characters glob tests existence of the literal name; `fnmatch_nomagic` shows this is the same
predicate.) -/
def compMatch (pc nc : Str) : Bool := fnmatch pc nc && (!isHidden nc || isHidden pc)

/-- does `glob.glob(p)` select the existing entry `n`? -/
def pathMatch (p n : Str) : Bool := (isAbs p == isAbs n) && all2 compMatch (comps p) (comps n)

end Py.Glob
