/-
Shared Python-semantics helpers (modelled, not verified; each is exercised by a correspondence
stream).  No imports: every Model file and every driver stays Mathlib-free.
-/
namespace Py

/-- The small error enum every model uses (DESIGN §1.3). -/
inductive Err where
  | valueError | typeError | keyError | indexError | attributeError | runtimeError | osError | other
  deriving DecidableEq, Repr, Inhabited

def Err.toString : Err → String
  | .valueError => "ValueError" | .typeError => "TypeError" | .keyError => "KeyError"
  | .indexError => "IndexError" | .attributeError => "AttributeError"
  | .runtimeError => "RuntimeError" | .osError => "OSError" | .other => "Other"

instance : ToString Err := ⟨Err.toString⟩

/-- Python `//` -/
@[inline] def floorDiv (a b : Int) : Int := Int.fdiv a b
/-- Python `%` -/
@[inline] def floorMod (a b : Int) : Int := Int.fmod a b

/-- Text inside models is `List Char` (kernel-reducible, structural induction); `String` only
appears at the driver boundary. -/
abbrev Str := List Char

/-- decimal digits of a natural number -/
def natStr (n : Nat) : Str := Nat.toDigits 10 n

/-- `str(v)` / `"%d" % v` for an int -/
def fmtD (v : Int) : Str := if v < 0 then '-' :: natStr v.natAbs else natStr v.natAbs

/-- `"%0Nd" % v` : sign, then zero padding up to total width `w` (Python/C semantics). -/
def fmtD0 (w : Nat) (v : Int) : Str :=
  let neg := v < 0
  let digits := natStr v.natAbs
  let body := w - (if neg then 1 else 0)
  (if neg then ['-'] else []) ++ List.replicate (body - digits.length) '0' ++ digits

/-- `sub in s` -/
def isInfix (sub s : Str) : Bool :=
  match s with
  | [] => sub.isEmpty
  | c :: cs => sub.isPrefixOf (c :: cs) || isInfix sub cs

def endsWith (s suf : Str) : Bool := suf.isSuffixOf s
def startsWith (s pre : Str) : Bool := pre.isPrefixOf s

/-- hex token codec of the line protocol: code points in hex joined by '.', "-" for empty. -/
def hexVal (c : Char) : Option Nat :=
  if '0' ≤ c ∧ c ≤ '9' then some (c.toNat - '0'.toNat)
  else if 'a' ≤ c ∧ c ≤ 'f' then some (c.toNat - 'a'.toNat + 10)
  else none

def parseHex (s : String) : Option Nat :=
  if s.isEmpty then none else
  s.toList.foldl (fun acc c => match acc, hexVal c with
    | some a, some d => some (a * 16 + d)
    | _, _ => none) (some 0)

def decTok (tok : String) : Option Str :=
  if tok = "-" then some [] else
  (tok.splitOn ".").foldl (fun acc h => match acc, parseHex h with
    | some a, some n => some (a ++ [Char.ofNat n])
    | _, _ => none) (some [])

def hexDigit (n : Nat) : Char :=
  if n < 10 then Char.ofNat ('0'.toNat + n) else Char.ofNat ('a'.toNat + n - 10)

def toHex (n : Nat) : String := String.ofList (Nat.toDigits 16 n)

def encTok (s : Str) : String :=
  if s.isEmpty then "-" else ".".intercalate (s.map (fun c => toHex c.toNat))

def parseInt (s : String) : Option Int := s.toInt?

end Py
