/-
Python's generator / coroutine / async-generator driver protocol over an ARBITRARY automaton
(modelled, not verified: validated on every run against real CPython 3.12 generator, coroutine and
async-generator objects by the `unwrapped` half of the C16 correspondence stream).

  * a wrapped callable's body is an automaton `{σ, step : σ → Input → ω → Outcome × σ × ω}`
    (`ω` = the world the body may touch: for C16 the logger's thread-local flag + emitted records);
  * `genStep`   – the generator-object protocol of CPython (`send/throw/close`, unstarted and
    exhausted objects, `StopIteration(value)`, PEP 479, "generator ignored GeneratorExit");
    `Kind.coroutine` selects the coroutine variants ("cannot reuse already awaited coroutine");
  * `delegate`  – one resumption of PEP 380's `RESULT = yield from <obj>` (= `await <coroutine>`):
    forwarding of send / throw, `GeneratorExit` turned into `close()` of the delegate;
  * `agenStep`  – the native async-generator protocol (`asend/athrow/aclose`) for bodies that do not
    suspend to the event loop between two yields; `mixinAclose` – `collections.abc.AsyncGenerator.aclose`.

No imports (Mathlib-free, kernel-reducible).
-/
namespace Py.Gen

/-- values crossing the protocol; `0` stands for `None` -/
abbrev Val := Nat

/-- an exception object: its class (index into a class universe; subclass tests are oracles of the
    users of this file) and its identity -/
structure Exc where
  cls : Nat
  id : Nat
  deriving DecidableEq, Repr

def clsGeneratorExit : Nat := 0
def clsStopIteration : Nat := 1
def clsStopAsyncIteration : Nat := 2
def clsTypeError : Nat := 3
def clsRuntimeError : Nat := 4

def Exc.isGenExit (e : Exc) : Bool := e.cls == clsGeneratorExit
def Exc.isStopIteration (e : Exc) : Bool := e.cls == clsStopIteration
def Exc.isStopAsync (e : Exc) : Bool := e.cls == clsStopAsyncIteration

inductive Kind where
  | generator | coroutine
  deriving DecidableEq, Repr

/-! exceptions the protocol itself creates (fresh objects in CPython; the `id` is a reserved tag) -/
/-- `TypeError("can't send non-None value to a just-started generator/coroutine")` -/
def errNonNone : Kind → Exc
  | .generator => ⟨clsTypeError, 10⟩
  | .coroutine => ⟨clsTypeError, 11⟩
/-- `RuntimeError("generator/coroutine ignored GeneratorExit")` -/
def errIgnored : Kind → Exc
  | .generator => ⟨clsRuntimeError, 20⟩
  | .coroutine => ⟨clsRuntimeError, 21⟩
/-- PEP 479: `RuntimeError("generator/coroutine raised StopIteration")` -/
def errRaisedStop : Kind → Exc
  | .generator => ⟨clsRuntimeError, 30⟩
  | .coroutine => ⟨clsRuntimeError, 31⟩
/-- `RuntimeError("cannot reuse already awaited coroutine")` -/
def errReuse : Exc := ⟨clsRuntimeError, 40⟩
/-- the `GeneratorExit` instance `close()` / `aclose()` throws -/
def genExit : Exc := ⟨clsGeneratorExit, 50⟩
/-- async generators -/
def errANonNone : Exc := ⟨clsTypeError, 12⟩
def errAIgnored : Exc := ⟨clsRuntimeError, 22⟩          -- native: "async generator ignored GeneratorExit"
def errMixinIgnored : Exc := ⟨clsRuntimeError, 23⟩      -- abc mixin: "asynchronous generator ignored GeneratorExit"
def errARaisedStop : Exc := ⟨clsRuntimeError, 32⟩       -- "async generator raised StopIteration"
def errARaisedStopAsync : Exc := ⟨clsRuntimeError, 33⟩  -- "async generator raised StopAsyncIteration"

/-- what resumes a suspended body: a value (`next` = `send None`) or an injected exception -/
inductive Input where
  | send (v : Val)
  | throw (e : Exc)
  deriving DecidableEq, Repr

/-- what a body does when resumed -/
inductive Outcome where
  | yield (v : Val)
  | ret (v : Val)
  | raise (e : Exc)
  deriving DecidableEq, Repr

/-- a callable's body: an arbitrary automaton -/
structure Auto (ω σ : Type) where
  step : σ → Input → ω → Outcome × σ × ω

/-- what a driver does to a generator / coroutine object -/
inductive Op where
  | send (v : Val)
  | throw (e : Exc)
  | close
  deriving DecidableEq, Repr

/-- what the driver observes: a yielded value, `StopIteration(v)`, an exception, or `close()`
    returning `None` -/
inductive Res where
  | yield (v : Val)
  | stop (v : Val)
  | raise (e : Exc)
  | closed
  deriving DecidableEq, Repr

inductive GState (σ : Type) where
  | unstarted (s : σ)
  | suspended (s : σ)
  | done
  deriving Repr

/-- a protocol-level object: anything with `send/throw/close` -/
structure Obj (ω τ : Type) where
  step : τ → Op → ω → Res × τ × ω

/-- PEP 479 -/
def pep479 (k : Kind) (e : Exc) : Exc := if e.isStopIteration then errRaisedStop k else e

def settle {ω σ : Type} (k : Kind) : Outcome × σ × ω → Res × GState σ × ω
  | (.yield v, s, w) => (.yield v, .suspended s, w)
  | (.ret v, _, w) => (.stop v, .done, w)
  | (.raise e, _, w) => (.raise (pep479 k e), .done, w)

def doneSend : Kind → Res
  | .generator => .stop 0
  | .coroutine => .raise errReuse

def doneThrow : Kind → Exc → Res
  | .generator, e => .raise e
  | .coroutine, _ => .raise errReuse

/-- `close()` of a suspended object after `GeneratorExit` was thrown in -/
def settleClose {ω σ : Type} (k : Kind) : Outcome × σ × ω → Res × GState σ × ω
  | (.yield _, s, w) => (.raise (errIgnored k), .suspended s, w)
  | (.ret _, _, w) => (.closed, .done, w)
  | (.raise e, _, w) => if e.isGenExit then (.closed, .done, w) else (.raise (pep479 k e), .done, w)

/-- the generator-object protocol (CPython `genobject.c`) -/
def genStep {ω σ : Type} (k : Kind) (a : Auto ω σ) : GState σ → Op → ω → Res × GState σ × ω
  | .unstarted s, .send v, w =>
      if v = 0 then settle k (a.step s (.send 0) w) else (.raise (errNonNone k), .unstarted s, w)
  | .unstarted _, .throw e, w => (.raise e, .done, w)
  | .unstarted _, .close, w => (.closed, .done, w)
  | .suspended s, .send v, w => settle k (a.step s (.send v) w)
  | .suspended s, .throw e, w => settle k (a.step s (.throw e) w)
  | .suspended s, .close, w => settleClose k (a.step s (.throw genExit) w)
  | .done, .send _, w => (doneSend k, .done, w)
  | .done, .throw e, w => (doneThrow k e, .done, w)
  | .done, .close, w => (.closed, .done, w)

def genObj {ω σ : Type} (k : Kind) (a : Auto ω σ) : Obj ω (GState σ) := ⟨genStep k a⟩

/-- drive an object with a sequence of operations -/
def run {ω τ : Type} (o : Obj ω τ) : τ → List Op → ω → List Res × τ × ω
  | t, [], w => ([], t, w)
  | t, op :: ops, w =>
    match o.step t op w with
    | (r, t', w') =>
      match run o t' ops w' with
      | (rs, t'', w'') => (r :: rs, t'', w'')

/-! ### PEP 380: one resumption of `RESULT = yield from obj`  (also `await obj`) -/

/-- the delegating generator yields, or the expression completes with a value, or an exception is
    raised at the `yield from` expression -/
inductive DRes where
  | yield (v : Val)
  | value (v : Val)
  | raise (e : Exc)
  deriving DecidableEq, Repr

def dconv {ω τ : Type} : Res × τ × ω → DRes × τ × ω
  | (.yield v, t, w) => (.yield v, t, w)
  | (.stop v, t, w) => (.value v, t, w)
  | (.raise e, t, w) => (.raise e, t, w)
  | (.closed, t, w) => (.value 0, t, w)

/-- `GeneratorExit` thrown into the delegating generator: `obj.close()`, then re-raise; an error of
    `close()` replaces it -/
def dclose {ω τ : Type} (e : Exc) : Res × τ × ω → DRes × τ × ω
  | (.raise e', t, w) => (.raise e', t, w)
  | (_, t, w) => (.raise e, t, w)

def delegate {ω τ : Type} (inner : Obj ω τ) (t : τ) (i : Input) (w : ω) : DRes × τ × ω :=
  match i with
  | .send v => dconv (inner.step t (.send v) w)
  | .throw e =>
    if e.isGenExit then dclose e (inner.step t .close w)
    else dconv (inner.step t (.throw e) w)

/-! ### async generators (bodies that do not suspend to the event loop between yields) -/

inductive AOp where
  | asend (v : Val)
  | athrow (e : Exc)
  | aclose
  deriving DecidableEq, Repr

/-- result of awaiting `asend/athrow/aclose`: a value (the yielded one; `athrow()` on a finished
    generator completes with `None`), `StopAsyncIteration`, an exception, or `aclose()` done -/
inductive ARes where
  | yield (v : Val)
  | stopAsync
  | raise (e : Exc)
  | closed
  deriving DecidableEq, Repr

def aconv (e : Exc) : Exc :=
  if e.isStopIteration then errARaisedStop else if e.isStopAsync then errARaisedStopAsync else e

/-- state of a native async generator.  `zombie`: suspended, but `aclose()` has been called on it and
    was ignored (CPython keeps `ag_closed` set): `asend` still resumes the body, `athrow`/`aclose`
    raise `StopAsyncIteration` without resuming it -/
inductive AState (σ : Type) where
  | unstarted (s : σ)
  | suspended (s : σ)
  | zombie (s : σ)
  | done
  deriving Repr

def asettle {ω σ : Type} (live : σ → AState σ) : Outcome × σ × ω → ARes × AState σ × ω
  | (.yield v, s, w) => (.yield v, live s, w)
  | (.ret _, _, w) => (.stopAsync, .done, w)
  | (.raise e, _, w) => (.raise (aconv e), .done, w)

def asettleClose {ω σ : Type} : Outcome × σ × ω → ARes × AState σ × ω
  | (.yield _, s, w) => (.raise errAIgnored, .zombie s, w)
  | (.ret _, _, w) => (.closed, .done, w)
  | (.raise e, _, w) => if e.isGenExit then (.closed, .done, w) else (.raise (aconv e), .done, w)

/-- native async-generator object (CPython 3.12 `genobject.c`, `async_gen_*`) -/
def agenStep {ω σ : Type} (a : Auto ω σ) : AState σ → AOp → ω → ARes × AState σ × ω
  | .unstarted s, .asend v, w =>
      if v = 0 then asettle .suspended (a.step s (.send 0) w) else (.raise errANonNone, .unstarted s, w)
  | .unstarted _, .athrow e, w => (.raise e, .done, w)
  | .unstarted _, .aclose, w => (.closed, .done, w)
  | .suspended s, .asend v, w => asettle .suspended (a.step s (.send v) w)
  | .suspended s, .athrow e, w => asettle .suspended (a.step s (.throw e) w)
  | .suspended s, .aclose, w => asettleClose (a.step s (.throw genExit) w)
  | .zombie s, .asend v, w => asettle .zombie (a.step s (.send v) w)
  | .zombie s, .athrow _, w => (.stopAsync, .zombie s, w)
  | .zombie s, .aclose, w => (.stopAsync, .zombie s, w)
  | .done, .asend _, w => (.stopAsync, .done, w)
  | .done, .athrow _, w => (.yield 0, .done, w)      -- 3.12: completes with None
  | .done, .aclose, w => (.closed, .done, w)

/-- `collections.abc.AsyncGenerator.aclose`:
    `try: await self.athrow(GeneratorExit)  except (GeneratorExit, StopAsyncIteration): pass
     else: raise RuntimeError("asynchronous generator ignored GeneratorExit")` -/
def mixinAclose {ω τ : Type} (athrow : τ → Exc → ω → ARes × τ × ω) (t : τ) (w : ω) : ARes × τ × ω :=
  match athrow t genExit w with
  | (.yield _, t', w') => (.raise errMixinIgnored, t', w')
  | (.stopAsync, t', w') => (.closed, t', w')
  | (.raise e, t', w') => if e.isGenExit || e.isStopAsync then (.closed, t', w') else (.raise e, t', w')
  | (.closed, t', w') => (.closed, t', w')

def arun {ω τ : Type} (step : τ → AOp → ω → ARes × τ × ω) : τ → List AOp → ω → List ARes × τ × ω
  | t, [], w => ([], t, w)
  | t, op :: ops, w =>
    match step t op w with
    | (r, t', w') =>
      match arun step t' ops w' with
      | (rs, t'', w'') => (r :: rs, t'', w'')

end Py.Gen
