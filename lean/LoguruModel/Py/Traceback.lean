import LoguruModel.Py.Basic
/-
Transcription of the chain ordering of CPython 3.12 `traceback.TracebackException`
(`__init__` with `compact=True` as used by `traceback.format_exception`, and `format(chain=True)`)
for exceptions that are not exception groups.  Modelled, not verified: `harness/c13.py` compares it
with the real `traceback.format_exception` on every generated group-free exception graph.

    _seen.add(id(exc_value))                                   # constructor
    queue = [(self, exc_value)]
    while queue:
        te, e = queue.pop()
        if e and e.__cause__ is not None and id(e.__cause__) not in _seen:   cause = TracebackException(…)
        else: cause = None                                     # the constructor adds id(e.__cause__) to _seen
        need_context = cause is None and e is not None and not e.__suppress_context__
        if e and e.__context__ is not None and need_context and id(e.__context__) not in _seen: context = …
        else: context = None
        te.__cause__ = cause; te.__context__ = context
        if cause: queue.append(…);  if context: queue.append(…)

    format():  while exc: if exc.__cause__ is not None: (cause_message, exc); exc = exc.__cause__
                          elif exc.__context__ is not None and not exc.__suppress_context__: (context_message, exc) …
                          else: (None, exc)
               for msg, exc in reversed(output): emit msg (if any); emit the exception
-/
namespace Py.Traceback

structure Node where
  truthy : Bool
  cause : Option Nat
  context : Option Nat
  suppress : Bool

/-- what `__init__` records for one exception -/
structure TE where
  id : Nat
  cause : Option Nat
  context : Option Nat
  suppress : Bool

def unseen (seen : List Nat) : Option Nat → Option Nat
  | some c => if c ∈ seen then none else some c
  | none => none

def initOne (x : Node) (e : Nat) (seen : List Nat) : TE × List Nat :=
  let cause := if x.truthy then unseen seen x.cause else none
  let seen1 := match cause with | some c => c :: seen | none => seen
  let needContext := cause.isNone && !x.suppress
  let context := if x.truthy && needContext then unseen seen1 x.context else none
  let seen2 := match context with | some c => c :: seen1 | none => seen1
  ({ id := e, cause := cause, context := context, suppress := x.suppress }, seen2)

/-- the `while queue` loop; without groups the queue never holds more than one entry -/
def walk (node : Nat → Option Node) : Nat → List Nat → Nat → List TE
  | 0, _, e => [{ id := e, cause := none, context := none, suppress := false }]
  | fuel + 1, seen, e =>
    match node e with
    | none => [{ id := e, cause := none, context := none, suppress := false }]
    | some x =>
      let r := initOne x e seen
      match r.1.cause, r.1.context with
      | some c, _ => r.1 :: walk node fuel r.2 c
      | none, some c => r.1 :: walk node fuel r.2 c
      | none, none => [r.1]

/-- the message `format()` attaches to an entry: `some true` = cause, `some false` = context -/
def link (te : TE) : Option Bool :=
  if te.cause.isSome then some true
  else if te.context.isSome && !te.suppress then some false
  else none

/-- `for msg, exc in reversed(output)`: the chained exception first, then the message, then `exc` -/
def formatFrom {α : Type} (render : Nat → Bool → List α) (msg : Bool → List α) : Bool → List TE → List α
  | _, [] => []
  | isRoot, te :: rest =>
    formatFrom render msg false rest ++
      (match link te with | some b => msg b | none => []) ++ render te.id isRoot

end Py.Traceback
