import LoguruModel.Py.Calendar
/-
The finite half of the calendar fact (see CalendarFacts.lean): for each of the 146 097 days of one 400-year era the
year-of-era and the March-based month that `civilOfDays` computes delimit an interval containing the day.  Checked by
kernel evaluation (`decide +kernel`, no axiom); kept in a file of its own because it takes minutes to check.
-/
namespace Py.Calendar

def yoeN (doe : Nat) : Nat := (doe - doe/1460 + doe/36524 - doe/146096)/365
def ystartN (yoe : Nat) : Nat := 365*yoe + yoe/4 - yoe/100
def doyN (doe : Nat) : Nat := doe - ystartN (yoeN doe)
def mpN (doe : Nat) : Nat := (5 * doyN doe + 2)/153
def startN (yoe mp : Nat) : Nat := ystartN yoe + (153*mp+2)/5
def nextN (yoe mp : Nat) : Nat :=
  if mp < 11 then startN yoe (mp+1) else (if yoe = 399 then 146097 else startN (yoe+1) 0)

/-- what is checked for one day-of-era -/
def eraDayOK (doe : Nat) : Bool :=
  decide (yoeN doe ≤ 399) && decide (ystartN (yoeN doe) ≤ doe) && decide (mpN doe ≤ 11) &&
  decide (startN (yoeN doe) (mpN doe) ≤ doe) && decide (doe + 1 ≤ nextN (yoeN doe) (mpN doe)) &&
  decide (doe/146096 ≤ doe - doe/1460 + doe/36524)

def eraOK : Bool :=
  (List.range 147).all fun a => (List.range 1000).all fun b => decide (1000*a+b ≥ 146097) || eraDayOK (1000*a+b)

set_option maxRecDepth 100000 in
theorem eraOK_true : eraOK = true := by decide +kernel

theorem eraDayOK_all (doe : Nat) (h : doe < 146097) : eraDayOK doe = true := by
  have h1 := eraOK_true
  unfold eraOK at h1
  rw [List.all_eq_true] at h1
  have h2 := h1 (doe / 1000) (by simp [List.mem_range]; omega)
  rw [List.all_eq_true] at h2
  have h3 := h2 (doe % 1000) (by simp [List.mem_range]; omega)
  have e : 1000 * (doe / 1000) + doe % 1000 = doe := by omega
  rw [e] at h3
  simp only [Bool.or_eq_true, decide_eq_true_eq] at h3
  rcases h3 with h3 | h3
  · omega
  · exact h3

end Py.Calendar
