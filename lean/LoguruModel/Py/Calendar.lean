/-
Proleptic Gregorian calendar arithmetic as `datetime` performs it (modelled; validated against
`datetime.date.fromordinal` for every day of years 1..9999 by the C07/C11 correspondence streams).
Day numbers count from 1970-01-01 = 0 (Hinnant's `days_from_civil` / `civil_from_days`).
-/
namespace Py.Calendar

def isLeap (y : Int) : Bool := (y % 4 == 0 && y % 100 != 0) || y % 400 == 0

def daysInMonth (y m : Int) : Int :=
  if m == 2 then (if isLeap y then 29 else 28)
  else if m == 4 || m == 6 || m == 9 || m == 11 then 30 else 31

/-- days since 1970-01-01 of the civil date (y, m, d) -/
def daysOfCivil (y m d : Int) : Int :=
  let y' := if m ≤ 2 then y - 1 else y
  let era := y' / 400   -- Lean's Int `/` floors for a positive divisor
  let yoe := y' - era * 400
  let mp := if m > 2 then m - 3 else m + 9
  let doy := (153 * mp + 2) / 5 + d - 1
  let doe := yoe * 365 + yoe / 4 - yoe / 100 + doy
  era * 146097 + doe - 719468

/-- civil date of a day number -/
def civilOfDays (z0 : Int) : Int × Int × Int :=
  let z := z0 + 719468
  let era := z / 146097
  let doe := z - era * 146097
  let yoe := (doe - doe / 1460 + doe / 36524 - doe / 146096) / 365
  let y := yoe + era * 400
  let doy := doe - (365 * yoe + yoe / 4 - yoe / 100)
  let mp := (5 * doy + 2) / 153
  let d := doy - (153 * mp + 2) / 5 + 1
  let m := if mp < 10 then mp + 3 else mp - 9
  (if m ≤ 2 then y + 1 else y, m, d)

/-- `date.weekday()`: Monday = 0.  1970-01-01 was a Thursday (3). -/
def weekdayOfDays (z : Int) : Int := (z + 3) % 7

/-- `timetuple().tm_yday`: 1-based ordinal day in the year -/
def yday (y m d : Int) : Int := daysOfCivil y m d - daysOfCivil y 1 1 + 1

def monthNameS (m : Int) : String :=
  match m with
  | 1 => "January" | 2 => "February" | 3 => "March" | 4 => "April" | 5 => "May" | 6 => "June"
  | 7 => "July" | 8 => "August" | 9 => "September" | 10 => "October" | 11 => "November"
  | 12 => "December" | _ => ""

def monthName (m : Int) : List Char := (monthNameS m).toList
def monthAbbr (m : Int) : List Char := (monthName m).take 3

def dayNameS (w : Int) : String :=
  match w with
  | 0 => "Monday" | 1 => "Tuesday" | 2 => "Wednesday" | 3 => "Thursday" | 4 => "Friday"
  | 5 => "Saturday" | 6 => "Sunday" | _ => ""

def dayName (w : Int) : List Char := (dayNameS w).toList
def dayAbbr (w : Int) : List Char := (dayName w).take 3

end Py.Calendar
