/-
C03 – coroutine sinks: "`await logger.complete()` waits for the tasks of its loop".

`AsyncSink.write` schedules one task per message on an event loop and remembers it; `complete()` takes – under the
handler lock, hence atomically with respect to `write` – a snapshot of the remembered tasks and then awaits, one
after the other, those that belong to the loop it is running on (`_complete_task` returns at once for a task of
another loop).  Tasks are numbered in creation order; an event loop runs (finishes) tasks at any time.

Round 5: CALLING `complete()` (the snapshot) and AWAITING its result are separate transitions – the call may happen in
another thread, in an executor, in a coroutine of another loop or before any loop runs (`callLoop : Option Nat` is the
loop running in the calling context, if any), and the object is awaited later in a coroutine of some loop `l`.
`loopAtAwait` (read from the source: `get_running_loop()` is evaluated inside `_complete_task`, i.e. when the object
is awaited) says which of the two decides what "its loop" is.
-/
namespace Async

abbrev Tid := Nat

structure Task where
  loop : Nat
  done : Bool
  deriving DecidableEq, Repr

inductive Lab where
  | write (loop : Nat)            -- a message is accepted: its task is created on `loop`
  | run (i : Nat)                 -- an event loop finishes task i
  | startComplete (callLoop : Option Nat)   -- `logger.complete()` is CALLED: snapshot of the tasks
  | beginAwait (loop : Nat)       -- the returned object is AWAITED in a coroutine running on `loop`
  | await                         -- next task of the snapshot: skipped (foreign loop), passed (done) or BLOCKED
  | finish                        -- every task of the snapshot has been dealt with: complete() returns
  deriving DecidableEq, Repr

inductive Pc where
  | idle
  | snap (n : Nat) (callLoop : Option Nat)   -- complete() has returned its object: snapshot = tasks 0..n-1
  | c (loop : Nat) (filt : Option Nat) (n : Nat) (pos : Nat)
      -- awaited on `loop`; tasks of a loop other than `filt` are skipped; next to examine: pos
  deriving DecidableEq, Repr

structure St where
  count : Nat := 0                            -- number of tasks ever created
  task : Nat → Task := fun _ => ⟨0, false⟩
  pc : Tid → Pc := fun _ => .idle
  /-- ghost: (loop, snapshot size) of every complete() that has returned -/
  returned : List (Nat × Nat) := []

def upd {α : Type} (f : Nat → α) (k : Nat) (v : α) : Nat → α := fun u => if u = k then v else f u

@[simp] theorem upd_same {α : Type} (f : Nat → α) (k : Nat) (v : α) : upd f k v k = v := by simp [upd]
@[simp] theorem upd_other {α : Type} (f : Nat → α) (k : Nat) (v : α) (u : Nat) (h : u ≠ k) :
    upd f k v u = f u := by simp [upd, h]

/-- `skipForeign` (read from the source): `_complete_task` returns at once for a task of another loop;
`loopAtAwait` (read from the source): "another loop" means another than the one running when the object is AWAITED
(otherwise: than the one running, if any, when complete() was CALLED) -/
def step (skipForeign loopAtAwait : Bool) (s : St) (t : Tid) (lab : Lab) : Option St :=
  match lab, s.pc t with
  | .write l, _ => some { s with count := s.count + 1, task := upd s.task s.count ⟨l, false⟩ }
  | .run i, _ => if i < s.count then some { s with task := upd s.task i { s.task i with done := true } } else none
  | .startComplete cl, .idle => some { s with pc := upd s.pc t (.snap s.count cl) }
  | .beginAwait l, .snap n cl =>
      some { s with pc := upd s.pc t (.c l (if loopAtAwait then some l else cl) n 0) }
  | .await, .c l f n pos =>
      if pos < n then
        (if some (s.task pos).loop ≠ f ∧ skipForeign then some { s with pc := upd s.pc t (.c l f n (pos + 1)) }
         else if (s.task pos).done then some { s with pc := upd s.pc t (.c l f n (pos + 1)) }
         else none)                               -- suspended until the task is done
      else none
  | .finish, .c l f n pos =>
      if pos = n then some { s with pc := upd s.pc t .idle, returned := (l, n) :: s.returned } else none
  | _, _ => none

def run (skipForeign loopAtAwait : Bool) (s : St) : List (Tid × Lab) → St
  | [] => s
  | (t, lab) :: rest =>
    match step skipForeign loopAtAwait s t lab with
    | some s' => run skipForeign loopAtAwait s' rest
    | none => run skipForeign loopAtAwait s rest

structure Inv (s : St) : Prop where
  /-- a snapshot lies within the created tasks -/
  snaps : ∀ t n cl, s.pc t = .snap n cl → n ≤ s.count
  /-- what a completer has passed is done (if it is of the loop it is awaited on), and its snapshot lies within the
  created tasks; with the loop read at await time the skipped tasks are exactly those of other loops -/
  pcs : ∀ t l f n pos, s.pc t = .c l f n pos → f = some l ∧ pos ≤ n ∧ n ≤ s.count ∧
          ∀ i, i < pos → (s.task i).loop = l → (s.task i).done = true
  /-- every awaited complete() that returned: all tasks of its loop in its snapshot are done -/
  ret : ∀ l n, (l, n) ∈ s.returned → n ≤ s.count ∧ ∀ i, i < n → (s.task i).loop = l → (s.task i).done = true

theorem inv_init : Inv ({} : St) := by
  constructor <;> simp

/-- facts about a snapshot survive any change that keeps created tasks' loops and never un-does `done` -/
theorem carry {s s' : St} {l n pos : Nat}
    (hc : s.count ≤ s'.count)
    (hm : ∀ i, i < s.count → (s'.task i).loop = (s.task i).loop ∧ ((s.task i).done = true → (s'.task i).done = true))
    (h : pos ≤ n ∧ n ≤ s.count ∧ ∀ i, i < pos → (s.task i).loop = l → (s.task i).done = true) :
    pos ≤ n ∧ n ≤ s'.count ∧ ∀ i, i < pos → (s'.task i).loop = l → (s'.task i).done = true := by
  obtain ⟨h1, h2, h3⟩ := h
  refine ⟨h1, by omega, ?_⟩
  intro i hi hl
  have := hm i (by omega)
  exact this.2 (h3 i hi (by rw [← this.1]; exact hl))

theorem inv_of_tasks {s s' : St} (h : Inv s) (hpc : s'.pc = s.pc) (hr : s'.returned = s.returned)
    (hc : s.count ≤ s'.count)
    (hm : ∀ i, i < s.count → (s'.task i).loop = (s.task i).loop ∧ ((s.task i).done = true → (s'.task i).done = true)) :
    Inv s' := by
  constructor
  · intro t n cl hq
    rw [hpc] at hq
    exact Nat.le_trans (h.snaps t n cl hq) hc
  · intro t l f n pos hq
    rw [hpc] at hq
    obtain ⟨hf, rest⟩ := h.pcs t l f n pos hq
    exact ⟨hf, carry hc hm rest⟩
  · intro l n hmem
    rw [hr] at hmem
    have := carry (pos := n) hc hm ⟨Nat.le_refl n, (h.ret l n hmem).1, (h.ret l n hmem).2⟩
    exact ⟨this.2.1, this.2.2⟩

/-- a step that changes only the moving thread's pc (and possibly `returned`) -/
theorem inv_of_pc {s s' : St} {t : Tid} {p : Pc} (h : Inv s) (hc : s'.count = s.count) (ht : s'.task = s.task)
    (hpc : s'.pc = upd s.pc t p)
    (h1 : ∀ n cl, p = .snap n cl → n ≤ s.count)
    (h2 : ∀ l f n pos, p = .c l f n pos → f = some l ∧ pos ≤ n ∧ n ≤ s.count ∧
      ∀ i, i < pos → (s.task i).loop = l → (s.task i).done = true)
    (h3 : ∀ l n, (l, n) ∈ s'.returned → (l, n) ∈ s.returned ∨
      (n ≤ s.count ∧ ∀ i, i < n → (s.task i).loop = l → (s.task i).done = true)) : Inv s' := by
  constructor
  · intro u n cl hu
    rw [hpc] at hu; rw [hc]
    by_cases e : u = t
    · subst e; simp only [upd_same] at hu; exact h1 n cl hu
    · rw [upd_other _ _ _ _ e] at hu; exact h.snaps u n cl hu
  · intro u l f n pos hu
    rw [hpc] at hu; rw [hc, ht]
    by_cases e : u = t
    · subst e; simp only [upd_same] at hu; exact h2 l f n pos hu
    · rw [upd_other _ _ _ _ e] at hu; exact h.pcs u l f n pos hu
  · intro l n hm
    rw [hc, ht]
    rcases h3 l n hm with hm | hm
    · exact h.ret l n hm
    · exact hm

theorem inv_step {sf : Bool} {s s' : St} {t : Tid} {lab : Lab} (h : Inv s) (hs : step sf true s t lab = some s') :
    Inv s' := by
  unfold step at hs
  split at hs
  · -- write
    simp only [Option.some.injEq] at hs; subst hs
    refine inv_of_tasks h rfl rfl (by simp) ?_
    intro i hi
    have : i ≠ s.count := by omega
    simp [upd, this]
  · -- run
    split at hs
    · simp only [Option.some.injEq] at hs; subst hs
      refine inv_of_tasks h rfl rfl (Nat.le_refl _) ?_
      intro i hi
      simp only [upd]
      split <;> simp_all
    · simp at hs
  · -- startComplete: the snapshot
    simp only [Option.some.injEq] at hs; subst hs
    refine inv_of_pc h rfl rfl rfl ?_ (by simp) (fun l n hm => Or.inl hm)
    intro n cl he
    simp only [Pc.snap.injEq] at he
    omega
  · -- beginAwait
    rename_i l n cl hq
    simp only [Option.some.injEq] at hs; subst hs
    refine inv_of_pc h rfl rfl rfl (by simp) ?_ (fun l n hm => Or.inl hm)
    intro l' f' n' pos' he
    simp only [Pc.c.injEq, if_true] at he
    obtain ⟨rfl, rfl, rfl, rfl⟩ := he
    exact ⟨rfl, Nat.zero_le _, h.snaps t n cl hq, by intro i hi; omega⟩
  · -- await
    rename_i l f n pos hq
    obtain ⟨hf, hp⟩ := h.pcs t l f n pos hq
    split at hs
    · rename_i hlt
      split at hs
      · rename_i hfor
        simp only [Option.some.injEq] at hs; subst hs
        refine inv_of_pc h rfl rfl rfl (by simp) ?_ (fun l n hm => Or.inl hm)
        intro l' f' n' pos' he
        simp only [Pc.c.injEq] at he
        obtain ⟨rfl, rfl, rfl, rfl⟩ := he
        refine ⟨hf, by omega, hp.2.1, ?_⟩
        intro i hi hl
        by_cases e2 : i = pos
        · subst e2
          exfalso
          apply hfor.1
          rw [hf, hl]
        · exact hp.2.2 i (by omega) hl
      · split at hs
        · rename_i hd
          simp only [Option.some.injEq] at hs; subst hs
          refine inv_of_pc h rfl rfl rfl (by simp) ?_ (fun l n hm => Or.inl hm)
          intro l' f' n' pos' he
          simp only [Pc.c.injEq] at he
          obtain ⟨rfl, rfl, rfl, rfl⟩ := he
          refine ⟨hf, by omega, hp.2.1, ?_⟩
          intro i hi hl
          by_cases e2 : i = pos
          · subst e2; exact hd
          · exact hp.2.2 i (by omega) hl
        · simp at hs
    · simp at hs
  · -- finish
    rename_i l f n pos hq
    obtain ⟨hf, hp⟩ := h.pcs t l f n pos hq
    split at hs
    · rename_i he
      simp only [Option.some.injEq] at hs; subst hs
      refine inv_of_pc h rfl rfl rfl (by simp) (by simp) ?_
      intro l' n' hmem
      simp only [List.mem_cons, Prod.mk.injEq] at hmem
      rcases hmem with ⟨rfl, rfl⟩ | hmem
      · subst he; exact Or.inr ⟨hp.2.1, hp.2.2⟩
      · exact Or.inl hmem
    · simp at hs
  · simp at hs

theorem inv_run (sf : Bool) (sched : List (Tid × Lab)) : Inv (run sf true {} sched) := by
  suffices h : ∀ s, Inv s → Inv (run sf true s sched) from h {} inv_init
  induction sched with
  | nil => intro s h; exact h
  | cons x xs ih =>
    intro s h
    obtain ⟨t, lab⟩ := x
    simp only [run]
    cases hs : step sf true s t lab with
    | some s' => exact ih s' (inv_step h hs)
    | none => exact ih s h

end Async
