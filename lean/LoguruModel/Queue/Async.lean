/-
C03 – coroutine sinks: "`await logger.complete()` waits for the tasks of its loop".

`AsyncSink.write` schedules one task per message on an event loop and remembers it; `complete()` takes – under the
handler lock, hence atomically with respect to `write` – a snapshot of the remembered tasks and then awaits, one
after the other, those that belong to the loop it is running on (`_complete_task` returns at once for a task of
another loop).  Tasks are numbered in creation order; an event loop runs (finishes) tasks at any time.
-/
namespace Async

abbrev Tid := Nat

structure Task where
  loop : Nat
  done : Bool
  deriving DecidableEq, Repr

inductive Lab where
  | write (loop : Nat)            -- a message is accepted: its task is created on `loop`
  | run (i : Nat)                 -- an event loop finishes task i
  | startComplete (loop : Nat)    -- `await logger.complete()` on `loop`: snapshot of the tasks
  | await                         -- next task of the snapshot: skipped (foreign loop), passed (done) or BLOCKED
  | finish                        -- every task of the snapshot has been dealt with: complete() returns
  deriving DecidableEq, Repr

inductive Pc where
  | idle
  | c (loop : Nat) (n : Nat) (pos : Nat)     -- completing on `loop`, snapshot = tasks 0..n-1, next to examine: pos
  deriving DecidableEq, Repr

structure St where
  count : Nat := 0                            -- number of tasks ever created
  task : Nat → Task := fun _ => ⟨0, false⟩
  pc : Tid → Pc := fun _ => .idle
  /-- ghost: (loop, snapshot size) of every complete() that has returned -/
  returned : List (Nat × Nat) := []

def upd {α : Type} (f : Nat → α) (k : Nat) (v : α) : Nat → α := fun u => if u = k then v else f u

@[simp] theorem upd_same {α : Type} (f : Nat → α) (k : Nat) (v : α) : upd f k v k = v := by simp [upd]
@[simp] theorem upd_other {α : Type} (f : Nat → α) (k : Nat) (v : α) (u : Nat) (h : u ≠ k) :
    upd f k v u = f u := by simp [upd, h]

/-- `skipForeign` (read from the source): `_complete_task` returns at once for a task of another loop -/
def step (skipForeign : Bool) (s : St) (t : Tid) (lab : Lab) : Option St :=
  match lab, s.pc t with
  | .write l, _ => some { s with count := s.count + 1, task := upd s.task s.count ⟨l, false⟩ }
  | .run i, _ => if i < s.count then some { s with task := upd s.task i { s.task i with done := true } } else none
  | .startComplete l, .idle => some { s with pc := upd s.pc t (.c l s.count 0) }
  | .await, .c l n pos =>
      if pos < n then
        (if (s.task pos).loop ≠ l ∧ skipForeign then some { s with pc := upd s.pc t (.c l n (pos + 1)) }
         else if (s.task pos).done then some { s with pc := upd s.pc t (.c l n (pos + 1)) }
         else none)                               -- suspended until the task is done
      else none
  | .finish, .c l n pos =>
      if pos = n then some { s with pc := upd s.pc t .idle, returned := (l, n) :: s.returned } else none
  | _, _ => none

def run (skipForeign : Bool) (s : St) : List (Tid × Lab) → St
  | [] => s
  | (t, lab) :: rest =>
    match step skipForeign s t lab with
    | some s' => run skipForeign s' rest
    | none => run skipForeign s rest

structure Inv (s : St) : Prop where
  /-- what a completer has passed is done (if it is of its loop), and its snapshot lies within the created tasks -/
  pcs : ∀ t l n pos, s.pc t = .c l n pos → pos ≤ n ∧ n ≤ s.count ∧
          ∀ i, i < pos → (s.task i).loop = l → (s.task i).done = true
  /-- every complete() that returned: all tasks of its loop in its snapshot are done -/
  ret : ∀ l n, (l, n) ∈ s.returned → n ≤ s.count ∧ ∀ i, i < n → (s.task i).loop = l → (s.task i).done = true

theorem inv_init : Inv ({} : St) := by
  constructor <;> simp

/-- facts about a snapshot survive any change that keeps created tasks' loops and never un-does `done` -/
theorem carry {s s' : St} {l n pos : Nat}
    (hc : s.count ≤ s'.count)
    (hm : ∀ i, i < s.count → (s'.task i).loop = (s.task i).loop ∧ ((s.task i).done = true → (s'.task i).done = true))
    (h : pos ≤ n ∧ n ≤ s.count ∧ ∀ i, i < pos → (s.task i).loop = l → (s.task i).done = true) :
    pos ≤ n ∧ n ≤ s'.count ∧ ∀ i, i < pos → (s'.task i).loop = l → (s'.task i).done = true := by
  obtain ⟨h1, h2, h3⟩ := h
  refine ⟨h1, by omega, ?_⟩
  intro i hi hl
  have := hm i (by omega)
  exact this.2 (h3 i hi (by rw [← this.1]; exact hl))

theorem inv_of_tasks {s s' : St} (h : Inv s) (hpc : s'.pc = s.pc) (hr : s'.returned = s.returned)
    (hc : s.count ≤ s'.count)
    (hm : ∀ i, i < s.count → (s'.task i).loop = (s.task i).loop ∧ ((s.task i).done = true → (s'.task i).done = true)) :
    Inv s' := by
  constructor
  · intro t l n pos hq
    rw [hpc] at hq
    exact carry hc hm (h.pcs t l n pos hq)
  · intro l n hmem
    rw [hr] at hmem
    have := carry (pos := n) hc hm ⟨Nat.le_refl n, (h.ret l n hmem).1, (h.ret l n hmem).2⟩
    exact ⟨this.2.1, this.2.2⟩

theorem inv_step {sf : Bool} {s s' : St} {t : Tid} {lab : Lab} (h : Inv s) (hs : step sf s t lab = some s') :
    Inv s' := by
  unfold step at hs
  split at hs
  · -- write
    simp only [Option.some.injEq] at hs; subst hs
    refine inv_of_tasks h rfl rfl (by simp) ?_
    intro i hi
    have : i ≠ s.count := by omega
    simp [upd, this]
  · -- run
    split at hs
    · simp only [Option.some.injEq] at hs; subst hs
      refine inv_of_tasks h rfl rfl (Nat.le_refl _) ?_
      intro i hi
      simp only [upd]
      split <;> simp_all
    · simp at hs
  · -- startComplete
    rename_i l hq
    simp only [Option.some.injEq] at hs; subst hs
    constructor
    · intro u l' n pos hu
      by_cases e : u = t
      · subst e; simp [upd] at hu
        obtain ⟨rfl, rfl, rfl⟩ := hu
        exact ⟨Nat.zero_le _, Nat.le_refl _, by intro i hi; omega⟩
      · simp [upd, e] at hu; exact h.pcs u l' n pos hu
    · exact h.ret
  · -- await
    rename_i l n pos hq
    have hp := h.pcs t l n pos hq
    split at hs
    · rename_i hlt
      split at hs
      · rename_i hf
        simp only [Option.some.injEq] at hs; subst hs
        constructor
        · intro u l' n' pos' hu
          by_cases e : u = t
          · subst e; simp [upd] at hu
            obtain ⟨rfl, rfl, rfl⟩ := hu
            refine ⟨by omega, hp.2.1, ?_⟩
            intro i hi hl
            by_cases e2 : i = pos
            · subst e2; exact absurd hl hf.1
            · exact hp.2.2 i (by omega) hl
          · simp [upd, e] at hu; exact h.pcs u l' n' pos' hu
        · exact h.ret
      · split at hs
        · rename_i hd
          simp only [Option.some.injEq] at hs; subst hs
          constructor
          · intro u l' n' pos' hu
            by_cases e : u = t
            · subst e; simp [upd] at hu
              obtain ⟨rfl, rfl, rfl⟩ := hu
              refine ⟨by omega, hp.2.1, ?_⟩
              intro i hi hl
              by_cases e2 : i = pos
              · subst e2; exact hd
              · exact hp.2.2 i (by omega) hl
            · simp [upd, e] at hu; exact h.pcs u l' n' pos' hu
          · exact h.ret
        · simp at hs
    · simp at hs
  · -- finish
    rename_i l n pos hq
    have hp := h.pcs t l n pos hq
    split at hs
    · rename_i he
      simp only [Option.some.injEq] at hs; subst hs
      constructor
      · intro u l' n' pos' hu
        by_cases e : u = t
        · subst e; simp [upd] at hu
        · simp [upd, e] at hu; exact h.pcs u l' n' pos' hu
      · intro l' n' hmem
        simp only [List.mem_cons, Prod.mk.injEq] at hmem
        rcases hmem with ⟨rfl, rfl⟩ | hmem
        · subst he; exact ⟨hp.2.1, hp.2.2⟩
        · exact h.ret l' n' hmem
    · simp at hs
  · simp at hs

theorem inv_run (sf : Bool) (sched : List (Tid × Lab)) : Inv (run sf {} sched) := by
  suffices h : ∀ s, Inv s → Inv (run sf s sched) from h {} inv_init
  induction sched with
  | nil => intro s h; exact h
  | cons x xs ih =>
    intro s h
    obtain ⟨t, lab⟩ := x
    simp only [run]
    cases hs : step sf s t lab with
    | some s' => exact ih s' (inv_step h hs)
    | none => exact ih s h

end Async
