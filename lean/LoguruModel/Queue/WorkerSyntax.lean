/-
C03 – the exception structure of the worker loop `Handler._queued_writer`, as a value.

`tools/extractors/queue_shape.py` reads the loop from the AST of the current source and writes it as a `Queue.Loop`
into `Generated/QueueShape.lean`; `Queue/Worker.lean` interprets it (Python's clause selection: the first `except`
clause naming a class of the raised exception's MRO wins) and proves, for EVERY exception class deriving from
`Exception`, that the loop reacts to an error of `queue.get()` / `sink.write()` the way `Queue.stepW` does.
-/
namespace Queue

/-- how control leaves an `except` clause of the worker loop -/
inductive Exit where
  | next      -- `continue`, or the end of the loop body: the next iteration
  | leave     -- `break` / `return`: the thread leaves the loop
  | escape    -- `raise`, or falling into code that uses the stale item: the exception / a wrong item goes on
  deriving DecidableEq, Repr

/-- one `except` clause -/
structure Clause where
  classes : List String     -- class names of the clause (`[]` = bare `except:`)
  report : Bool             -- the body calls `<error interceptor>.print(...)`
  underLock : Bool          -- … lexically inside `with <queue lock>`
  exit : Exit
  deriving DecidableEq, Repr

/-- the loop of `Handler._queued_writer` -/
structure Loop where
  forever : Bool                 -- `while True:` without `else`, nothing but the loop after the set-up assignments
  getClauses : List Clause       -- clauses of the `try` around `<item> = <queue>.get()`, in source order
  sentinelLeaves : Bool          -- then `if <item> is None: break`  (identity test, first)
  confirmNext : Bool             -- then `if <item> is True: <event>.set(); continue`  (identity test, second)
  writeClauses : List Clause     -- clauses of the `try` around `<sink>.write(<item>)`, in source order
  writeLast : Bool               -- that `try` (inside `with <queue lock>`) is the last statement of the loop body
  otherExits : Nat               -- `break` / `return` / `raise` statements of the loop outside the places above
  deriving DecidableEq, Repr

end Queue
