import LoguruModel.Queue.Model
/-
C03 – invariants of the producer / worker protocol.
-/
namespace Queue

/-- number of messages in the queue before the first occurrence of `x` (all of them if absent) -/
def cntBefore (x : Item) : List Item → Nat
  | [] => 0
  | i :: r => if i = x then 0 else (match i with | .msg _ _ => 1 | _ => 0) + cntBefore x r

theorem msgsOf_append (a b : List Item) : msgsOf (a ++ b) = msgsOf a ++ msgsOf b := by
  induction a with
  | nil => rfl
  | cons i r ih => cases i <;> simp [msgsOf, ih]

theorem cntBefore_append_mem (x : Item) (q : List Item) (i : Item) (h : x ∈ q) :
    cntBefore x (q ++ [i]) = cntBefore x q := by
  induction q with
  | nil => cases h
  | cons j r ih =>
    simp only [List.cons_append, cntBefore]
    by_cases e : j = x
    · simp [e]
    · simp only [e, if_false]
      have : x ∈ r := by
        rcases List.mem_cons.mp h with h | h
        · exact absurd h.symm e
        · exact h
      rw [ih this]

theorem cntBefore_not_mem (x : Item) (q : List Item) (h : x ∉ q) : cntBefore x q = (msgsOf q).length := by
  induction q with
  | nil => rfl
  | cons j r ih =>
    have hj : j ≠ x := fun e => h (e ▸ List.mem_cons_self)
    have hr : x ∉ r := fun e => h (List.mem_cons_of_mem _ e)
    simp only [cntBefore, hj, if_false, ih hr]
    cases j <;> simp [msgsOf] <;> omega

theorem cntBefore_append_self (x : Item) (q : List Item) (h : x ∉ q) :
    cntBefore x (q ++ [x]) = (msgsOf q).length := by
  induction q with
  | nil => simp [cntBefore, msgsOf]
  | cons j r ih =>
    have hj : j ≠ x := fun e => h (e ▸ List.mem_cons_self)
    have hr : x ∉ r := fun e => h (List.mem_cons_of_mem _ e)
    simp only [List.cons_append, cntBefore, hj, if_false, ih hr]
    cases j <;> simp [msgsOf] <;> omega

def holdsL : Pc → Bool
  | .e1 _ | .e2 _ _ | .e3 | .s1 | .s2 | .s3 | .s4 | .s5 => true
  | _ => false

def holdsConf : Pc → Bool
  | .c1 | .c2 _ | .c3 _ | .c4 _ => true
  | _ => false

def inStop : Pc → Bool
  | .s0 | .s1 | .s2 | .s3 | .s4 | .s5 => true
  | _ => false

/-- what the confirmation protocol guarantees at each stage of `complete_queue` -/
def confInv (s : St) : Pc → Prop
  | .c2 k =>
      (s.queue.count .confirm = 1 ∧ s.event = false ∧ s.w ≠ .confirming ∧
        s.handled.length + (heldOf s.w).length + cntBefore .confirm s.queue = k) ∨
      (s.queue.count .confirm = 0 ∧ s.event = false ∧ s.w = .confirming ∧ s.handled.length = k) ∨
      (s.queue.count .confirm = 0 ∧ s.event = true ∧ s.w ≠ .confirming ∧ k ≤ s.handled.length)
  | .c3 k => s.queue.count .confirm = 0 ∧ s.event = true ∧ s.w ≠ .confirming ∧ k ≤ s.handled.length
  | .c4 k => s.queue.count .confirm = 0 ∧ s.event = false ∧ s.w ≠ .confirming ∧ k ≤ s.handled.length
  | _ => s.queue.count .confirm = 0 ∧ s.event = false ∧ s.w ≠ .confirming

/-- FIFO, exactly once, whole: written ++ in-flight ++ queued = everything ever put, in put order -/
def Fifo (s : St) : Prop := hmsgs s.handled ++ heldOf s.w ++ msgsOf s.queue = s.putLog

theorem fifo_init : Fifo ({} : St) := by simp [Fifo, heldOf, msgsOf, hmsgs]

/-- the sink holds exactly the messages whose `sink.write` returned, in the order the worker handled them -/
def Wr (s : St) : Prop := s.sink = writtenOf s.handled

theorem wr_init : Wr ({} : St) := by simp [Wr, writtenOf]

theorem writtenOf_append (a b : List ((Tid × Nat) × Outcome)) : writtenOf (a ++ b) = writtenOf a ++ writtenOf b := by
  induction a with
  | nil => rfl
  | cons x r ih =>
    obtain ⟨e, o⟩ := x
    cases o <;> simp [writtenOf, ih]

theorem hmsgs_append (a b : List ((Tid × Nat) × Outcome)) : hmsgs (a ++ b) = hmsgs a ++ hmsgs b := by
  simp [hmsgs]

@[simp] theorem hmsgs_length (a : List ((Tid × Nat) × Outcome)) : (hmsgs a).length = a.length := by simp [hmsgs]

macro "w_arms" hs:ident : tactic => `(tactic| (
  unfold stepW at $hs:ident
  split at $hs:ident <;> (try (simp only [reduceCtorEq] at $hs:ident; done)) <;>
    (repeat' split at $hs:ident) <;> (try (simp only [reduceCtorEq] at $hs:ident; done)) <;>
    (simp only [Option.some.injEq] at $hs:ident; subst $hs:ident; (try subst_vars))))

macro "p_arms" hs:ident : tactic => `(tactic| (
  unfold stepP at $hs:ident
  split at $hs:ident <;> (try (simp only [reduceCtorEq] at $hs:ident; done)) <;>
    (repeat' split at $hs:ident) <;> (try (simp only [reduceCtorEq] at $hs:ident; done)) <;>
    (simp only [Option.some.injEq] at $hs:ident; subst $hs:ident; (try subst_vars))))

theorem fifo_stepW {s s' : St} {lab : Lab} (h : Fifo s) (hs : stepW s lab = some s') : Fifo s' := by
  unfold Fifo at *
  w_arms hs <;> simp_all [heldOf, msgsOf, hmsgs] <;> (try (rw [← h]; simp [msgsOf]))

theorem fifo_stepP {proc : Tid → Pid} {s s' : St} {t : Tid} {lab : Lab} (h : Fifo s)
    (hs : stepP proc s t lab = some s') : Fifo s' := by
  unfold Fifo at *
  p_arms hs <;> simp_all [setPc, heldOf, msgsOf, msgsOf_append, hmsgs] <;> (try (rw [← h]; simp [msgsOf]))

theorem wr_stepW {s s' : St} {lab : Lab} (h : Wr s) (hs : stepW s lab = some s') : Wr s' := by
  unfold Wr at *
  w_arms hs <;> simp_all [writtenOf_append, writtenOf]

theorem wr_stepP {proc : Tid → Pid} {s s' : St} {t : Tid} {lab : Lab} (h : Wr s)
    (hs : stepP proc s t lab = some s') : Wr s' := by
  unfold Wr at *
  p_arms hs <;> simp_all [setPc]

theorem wr_step {proc : Tid → Pid} {s s' : St} {t : Tid} {lab : Lab} (h : Wr s)
    (hs : step proc s t lab = some s') : Wr s' := by
  unfold step at hs
  split at hs
  · exact wr_stepW h hs
  · exact wr_stepP h hs

/-- the labels on which the worker meets an error that costs a message -/
def isErr : Lab → Bool
  | .getFail _ | .writeFail => true
  | _ => false

/-- everything handled so far has been written -/
def AllW (s : St) : Prop := ∀ x ∈ s.handled, x.2 = .written

theorem allw_init : AllW ({} : St) := by simp [AllW]

theorem writtenOf_allw (h : List ((Tid × Nat) × Outcome)) (ha : ∀ x ∈ h, x.2 = .written) : writtenOf h = hmsgs h := by
  induction h with
  | nil => rfl
  | cons x r ih =>
    obtain ⟨e, o⟩ := x
    have ho : o = .written := ha (e, o) List.mem_cons_self
    subst ho
    simp only [writtenOf, hmsgs, List.map_cons]
    rw [ih (fun y hy => ha y (List.mem_cons_of_mem _ hy))]
    rfl

theorem writtenOf_sublist (h : List ((Tid × Nat) × Outcome)) : (writtenOf h).Sublist (hmsgs h) := by
  induction h with
  | nil => exact List.Sublist.slnil
  | cons x r ih =>
    obtain ⟨e, o⟩ := x
    cases o
    · exact List.Sublist.cons_cons _ ih
    · exact List.Sublist.cons _ ih
    · exact List.Sublist.cons _ ih

theorem mem_hmsgs_cases (h : List ((Tid × Nat) × Outcome)) (e : Tid × Nat) (he : e ∈ hmsgs h) :
    e ∈ writtenOf h ∨ ∃ o, o ≠ .written ∧ (e, o) ∈ h := by
  induction h with
  | nil => simp [hmsgs] at he
  | cons x r ih =>
    obtain ⟨e', o⟩ := x
    simp only [hmsgs, List.map_cons, List.mem_cons] at he
    rcases he with rfl | he
    · cases o
      · left; simp [writtenOf]
      · right; exact ⟨.refused, by simp, List.mem_cons_self⟩
      · right; exact ⟨.unreadable, by simp, List.mem_cons_self⟩
    · rcases ih he with h1 | ⟨o', ho, hm⟩
      · left
        cases o <;> simp [writtenOf, h1]
      · right; exact ⟨o', ho, List.mem_cons_of_mem _ hm⟩

theorem allw_stepW {s s' : St} {lab : Lab} (hx : isErr lab = false) (h : AllW s) (hs : stepW s lab = some s') :
    AllW s' := by
  unfold AllW at *
  w_arms hs <;> simp_all [isErr] <;> grind

theorem allw_stepP {proc : Tid → Pid} {s s' : St} {t : Tid} {lab : Lab} (h : AllW s)
    (hs : stepP proc s t lab = some s') : AllW s' := by
  have e : s'.handled = s.handled := by p_arms hs <;> rfl
  unfold AllW at *
  rw [e]; exact h

theorem allw_step {proc : Tid → Pid} {s s' : St} {t : Tid} {lab : Lab} (hx : isErr lab = false) (h : AllW s)
    (hs : step proc s t lab = some s') : AllW s' := by
  unfold step at hs
  split at hs
  · exact allw_stepW hx h hs
  · exact allw_stepP h hs

theorem fifo_step {proc : Tid → Pid} {s s' : St} {t : Tid} {lab : Lab} (h : Fifo s)
    (hs : step proc s t lab = some s') : Fifo s' := by
  unfold step at hs
  split at hs
  · exact fifo_stepW h hs
  · exact fifo_stepP h hs

/-- confirmation protocol of `complete_queue` -/
structure Conf (s : St) : Prop where
  k1 : ∀ t, t ≠ workerTid → holdsConf (s.pc t) = true → s.confLock = some t
  k2 : ∀ t, s.confLock = some t → t ≠ workerTid ∧ holdsConf (s.pc t) = true
  cf1 : ∀ t, t ≠ workerTid → holdsConf (s.pc t) = true → confInv s (s.pc t)
  cf2 : s.confLock = none → s.queue.count .confirm = 0 ∧ s.event = false ∧ s.w ≠ .confirming
  cf3 : ∀ t k, (t, k) ∈ s.completed → k ≤ s.handled.length

theorem conf_init : Conf ({} : St) := by
  constructor <;> simp [holdsConf]

theorem cntBefore_of_count_pos (x : Item) (q : List Item) (i : Item) (h : q.count x = 1) :
    cntBefore x (q ++ [i]) = cntBefore x q :=
  cntBefore_append_mem x q i (List.count_pos_iff.mp (by omega))

theorem cntBefore_append_self' (x : Item) (q : List Item) (h : q.count x = 0) :
    cntBefore x (q ++ [x]) = (msgsOf q).length :=
  cntBefore_append_self x q (List.count_eq_zero.mp h)

/-- worker steps preserve the confirmation invariant -/
theorem conf_stepW {s s' : St} {lab : Lab} (h : Conf s) (hs : stepW s lab = some s') : Conf s' := by
  obtain ⟨k1, k2, cf1, cf2, cf3⟩ := h
  w_arms hs <;>
    (refine ⟨k1, k2, ?_, ?_, ?_⟩
     · intro u hu hc
       have old2 := cf1 u hu hc
       clear k1 k2 cf1 cf2 cf3
       cases hp : s.pc u <;> rw [hp] at hc old2 <;>
         simp_all [holdsConf, confInv, heldOf, cntBefore, List.count_cons] <;>
         (try omega) <;> (try grind)
     · intro hn
       have old := cf2 hn
       clear k1 k2 cf1 cf2 cf3
       simp_all [List.count_cons]
     · intro u k hk
       have := cf3 u k hk
       clear k1 k2 cf1 cf2 cf3
       simp_all <;> omega)

macro "conf_simp" : tactic => `(tactic| (
  intros
  simp_all [setPc, upd, holdsConf, confInv, heldOf, cntBefore, List.count_cons, List.count_append]))

theorem conf_k1P {proc : Tid → Pid} {s s' : St} {t : Tid} {lab : Lab} (h : Conf s) (ht : t ≠ workerTid)
    (hs : stepP proc s t lab = some s') :
    ∀ u, u ≠ workerTid → holdsConf (s'.pc u) = true → s'.confLock = some u := by
  obtain ⟨k1, k2, cf1, cf2, cf3⟩ := h
  p_arms hs <;> conf_simp <;> (try grind)

theorem conf_k2P {proc : Tid → Pid} {s s' : St} {t : Tid} {lab : Lab} (h : Conf s) (ht : t ≠ workerTid)
    (hs : stepP proc s t lab = some s') :
    ∀ u, s'.confLock = some u → u ≠ workerTid ∧ holdsConf (s'.pc u) = true := by
  obtain ⟨k1, k2, cf1, cf2, cf3⟩ := h
  p_arms hs <;>
    (intro u hu
     simp only [setPc] at hu ⊢
     first
     | (have hk := k2 u hu
        by_cases e : u = t
        · subst e; simp_all [holdsConf]
        · simp_all [upd])
     | (simp_all [upd, holdsConf]; done)
     | (have hk := k2 u; simp_all [upd, holdsConf]; done))

theorem conf_cf2P {proc : Tid → Pid} {s s' : St} {t : Tid} {lab : Lab} (h : Conf s) (ht : t ≠ workerTid)
    (hs : stepP proc s t lab = some s') :
    s'.confLock = none → s'.queue.count .confirm = 0 ∧ s'.event = false ∧ s'.w ≠ .confirming := by
  obtain ⟨k1, k2, cf1, cf2, cf3⟩ := h
  p_arms hs <;> conf_simp <;> (try grind)

theorem conf_cf3P {proc : Tid → Pid} {s s' : St} {t : Tid} {lab : Lab} (h : Conf s) (ht : t ≠ workerTid)
    (hs : stepP proc s t lab = some s') :
    ∀ u k, (u, k) ∈ s'.completed → k ≤ s'.handled.length := by
  obtain ⟨k1, k2, cf1, cf2, cf3⟩ := h
  p_arms hs <;> conf_simp <;> (try grind)

/-- the moving thread's own stage of `complete_queue` -/
theorem conf_cf1P_self {proc : Tid → Pid} {s s' : St} {t : Tid} {lab : Lab} (hf : Fifo s) (h : Conf s)
    (ht : t ≠ workerTid) (hs : stepP proc s t lab = some s') :
    holdsConf (s'.pc t) = true → confInv s' (s'.pc t) := by
  obtain ⟨k1, k2, cf1, cf2, cf3⟩ := h
  unfold Fifo at hf
  have hlen : s.handled.length + (heldOf s.w).length + (msgsOf s.queue).length = s.putLog.length := by
    rw [← hf]; simp [List.length_append]; omega
  clear hf
  have old := cf1 t ht
  have oldk := k2 t
  p_arms hs <;>
    (intro hc
     simp only [setPc, upd_same] at hc ⊢
     simp_all [holdsConf, confInv, heldOf, cntBefore, List.count_cons, List.count_append,
       cntBefore_append_self', msgsOf_append]
     all_goals (try omega)
     all_goals (try grind))

theorem confInv_congr {s s' : St} (q : Pc) (h1 : s'.queue = s.queue) (h2 : s'.event = s.event)
    (h3 : s'.w = s.w) (h4 : s'.handled = s.handled) : confInv s' q ↔ confInv s q := by
  cases q <;> simp [confInv, h1, h2, h3, h4]

/-- the other threads' stages are stable under a producer step -/
theorem conf_cf1P_other {proc : Tid → Pid} {s s' : St} {t : Tid} {lab : Lab} (h : Conf s)
    (ht : t ≠ workerTid) (hs : stepP proc s t lab = some s') :
    ∀ u, u ≠ workerTid → u ≠ t → holdsConf (s.pc u) = true → confInv s' (s.pc u) := by
  obtain ⟨k1, k2, cf1, cf2, cf3⟩ := h
  intro u hu e hc
  have old2 := cf1 u hu hc
  have lk := k1 u hu hc
  have tk := k1 t ht
  p_arms hs <;>
    first
    | exact (confInv_congr _ rfl rfl rfl rfl).mpr old2
    | (exfalso; simp_all [holdsConf]; done)
    | (cases hp : s.pc u <;> rw [hp] at hc old2 <;>
        simp_all [holdsConf, confInv, heldOf, cntBefore, List.count_cons, List.count_append,
          cntBefore_of_count_pos, setPc] <;> (try omega) <;>
        (try (rcases old2 with ⟨a, b, c, d⟩ | o | o
              · left; rw [cntBefore_of_count_pos _ _ _ a]; exact ⟨a, b, c, d⟩
              · exact Or.inr (Or.inl o)
              · exact Or.inr (Or.inr o))) <;> (try grind))

theorem stepP_pc {proc : Tid → Pid} {s s' : St} {t : Tid} {lab : Lab}
    (hs : stepP proc s t lab = some s') : ∀ u, u ≠ t → s'.pc u = s.pc u := by
  intro u e
  p_arms hs <;> simp [setPc, upd, e]

theorem stepW_pc {s s' : St} {lab : Lab} (hs : stepW s lab = some s') : s'.pc = s.pc := by
  w_arms hs <;> rfl

theorem conf_step {proc : Tid → Pid} {s s' : St} {t : Tid} {lab : Lab} (hf : Fifo s) (h : Conf s)
    (hs : step proc s t lab = some s') : Conf s' := by
  unfold step at hs
  split at hs
  · exact conf_stepW h hs
  · rename_i ht
    refine ⟨conf_k1P h ht hs, conf_k2P h ht hs, ?_, conf_cf2P h ht hs, conf_cf3P h ht hs⟩
    intro u hu hc
    by_cases e : u = t
    · subst e; exact conf_cf1P_self hf h ht hs hc
    · rw [stepP_pc hs u e] at hc ⊢
      exact conf_cf1P_other h ht hs u hu e hc

end Queue
