/-
C03 – interleaving model of one `enqueue=True` handler shared by several processes.

Shared across processes (multiprocessing primitives): the FIFO `queue`, the confirmation `event`, the
confirmation lock `confLock`.  Per process: its copy of the handler (`lock`, `stopped`).  Owner
process (pid 0) only: the worker thread, the sink and its `sinkStopped` flag.
Threads are `Nat`s with a fixed process `proc t` (any assignment: forked children and children that
received the logger by pickling start with `stopped = false` and fresh locks).  As in Conc.Model a
schedule is any `List (Tid × Lab)`; disabled transitions are skipped.

Transitions follow `Handler.emit` (lock, `_stopped` test, `queue.put`), `Handler.stop` (lock, set
`_stopped`; non-owner returns; owner puts the sentinel, joins the worker, stops the sink),
`Handler.complete_queue` (confirmation lock, put `True`, wait, clear) and `Handler._queued_writer`.

Error paths (round 5): `queue.put` may raise in `emit` (the record cannot be pickled: nothing enters the queue, the
lock is released – `putFail`); in the worker `queue.get()` may raise after consuming a message it cannot un-pickle
(`getFail`: the message is reported and skipped) or without consuming anything (`getRaise`), and `sink.write` may
raise (`writeFail`: reported, skipped).  Which message fails is a free choice of the schedule (any message may), so
the theorems hold for every pattern of failures; the ghost log `handled` records what the worker did with each
message.  That each of these errors sends the worker back to `loop` is what the loop of the CURRENT SOURCE does for
every exception class deriving from `Exception` (`Queue/Worker.lean`, `C03.model_error_steps_follow_source`).
-/
namespace Queue

abbrev Tid := Nat
abbrev Pid := Nat

inductive Item where
  | msg (t : Tid) (m : Nat)
  | confirm
  | sentinel
  deriving DecidableEq, Repr

inductive Lab where
  | startLog (m : Nat) | startStop | startComplete
  | acqL | relL | rStopped (b : Bool) | wStopped
  | put (i : Item)
  | putFail                 -- emit: `queue.put` raised (the record cannot be pickled): nothing entered the queue
  | join | sinkStop
  | acqConf | relConf | waitEvent | clearEvent
  -- worker
  | get (i : Item) | write | setEvent | exit
  | getFail (i : Item)      -- `queue.get()` consumed item i but raised while un-pickling it (error report, `continue`)
  | getRaise                -- `queue.get()` raised without consuming anything (error report, `continue`)
  | writeFail               -- `sink.write(message)` raised (error report under the queue lock, next iteration)
  deriving DecidableEq, Repr

/-- what the worker did with a message it took from the queue -/
inductive Outcome where
  | written      -- `sink.write` returned
  | refused      -- `sink.write` raised: reported on stderr, the worker goes on
  | unreadable   -- `queue.get()` raised while un-pickling it: reported on stderr, the worker goes on
  deriving DecidableEq, Repr

inductive Pc where
  | idle
  -- emit
  | e0 (m : Nat) | e1 (m : Nat) | e2 (m : Nat) (b : Bool) | e3
  -- stop
  | s0 | s1 | s2 | s3 | s4 | s5
  -- complete_queue
  | c0 | c1 | c2 (mark : Nat) | c3 (mark : Nat) | c4 (mark : Nat)
  deriving DecidableEq, Repr

/-- worker thread of the owner process -/
inductive WPc where
  | loop                      -- about to `queue.get()`
  | hold (t : Tid) (m : Nat)  -- got a message, about to write it under the queue lock
  | confirming                -- got `True`, about to set the event
  | done                      -- got the sentinel: left the loop
  deriving DecidableEq, Repr

structure St where
  queue : List Item := []
  event : Bool := false
  confLock : Option Tid := none
  lock : Pid → Option Tid := fun _ => none
  stopped : Pid → Bool := fun _ => false
  stopCalled : Pid → Bool := fun _ => false   -- stop() is called at most once per process (C02: stop_at_most_once)
  pc : Tid → Pc := fun _ => .idle
  w : WPc := .loop
  sink : List (Tid × Nat) := []        -- oldest first
  sinkStopped : Bool := false
  -- ghost
  handled : List ((Tid × Nat) × Outcome) := []   -- every message the worker is done with, oldest first
  putLog : List (Tid × Nat) := []      -- every message ever put, oldest first
  sentMark : Option Nat := none        -- |putLog| when the sentinel was put
  removed : Bool := false              -- the owner's stop() has returned
  completed : List (Tid × Nat) := []   -- (thread, mark) of every complete_queue() that has returned

def upd {α : Type} (f : Nat → α) (k : Nat) (v : α) : Nat → α := fun u => if u = k then v else f u

@[simp] theorem upd_same {α : Type} (f : Nat → α) (k : Nat) (v : α) : upd f k v k = v := by simp [upd]
@[simp] theorem upd_other {α : Type} (f : Nat → α) (k : Nat) (v : α) (u : Nat) (h : u ≠ k) :
    upd f k v u = f u := by simp [upd, h]

def setPc (s : St) (t : Tid) (p : Pc) : St := { s with pc := upd s.pc t p }

/-- the worker thread has this reserved thread id in schedules -/
def workerTid : Tid := 0

/-- messages of the queue, in order -/
def msgsOf : List Item → List (Tid × Nat)
  | [] => []
  | .msg t m :: r => (t, m) :: msgsOf r
  | _ :: r => msgsOf r

def heldOf : WPc → List (Tid × Nat)
  | .hold t m => [(t, m)]
  | _ => []

/-- the messages the worker is done with, in order -/
def hmsgs (h : List ((Tid × Nat) × Outcome)) : List (Tid × Nat) := h.map (·.1)

/-- those of them the sink has written -/
def writtenOf : List ((Tid × Nat) × Outcome) → List (Tid × Nat)
  | [] => []
  | (e, .written) :: r => e :: writtenOf r
  | _ :: r => writtenOf r

/-- a transition of the worker thread (`_queued_writer`) -/
def stepW (s : St) (lab : Lab) : Option St :=
  match s.w, lab with
  | .loop, .get i =>
    match s.queue with
    | [] => none                                   -- blocks on the empty queue
    | j :: rest =>
      if i = j then
        match j with
        | .msg u m => some { s with queue := rest, w := .hold u m }
        | .confirm => some { s with queue := rest, w := .confirming }
        | .sentinel => some { s with queue := rest, w := .done }
      else none
  | .loop, .getFail i =>
    match s.queue with
    | [] => none
    | j :: rest =>
      if i = j then
        match j with
        | .msg u m => some { s with queue := rest, handled := s.handled ++ [((u, m), .unreadable)] }
        | _ => none                                  -- `None` / `True` always un-pickle
      else none
  | .loop, .getRaise => some s
  | .hold u m, .write =>
    some { s with w := .loop, sink := s.sink ++ [(u, m)], handled := s.handled ++ [((u, m), .written)] }
  | .hold u m, .writeFail => some { s with w := .loop, handled := s.handled ++ [((u, m), .refused)] }
  | .confirming, .setEvent => some { s with w := .loop, event := true }
  | _, _ => none

/-- a transition of producer thread `t`; `proc` gives the process of each producer thread (0 = owner) -/
def stepP (proc : Tid → Pid) (s : St) (t : Tid) (lab : Lab) : Option St :=
  match s.pc t, lab with
  | .idle, .startLog m => some (setPc s t (.e0 m))
  | .idle, .startStop =>
    if s.stopCalled (proc t) = false then some { setPc s t .s0 with stopCalled := upd s.stopCalled (proc t) true } else none
  | .idle, .startComplete => some (setPc s t .c0)
  -- ------------------------------------------------------------ emit
  | .e0 m, .acqL => if s.lock (proc t) = none then some { setPc s t (.e1 m) with lock := upd s.lock (proc t) (some t) } else none
  | .e1 m, .rStopped b => if b = s.stopped (proc t) then some (setPc s t (.e2 m b)) else none
  | .e2 _ true, .relL => some { setPc s t .idle with lock := upd s.lock (proc t) none }
  | .e2 m false, .put i =>
    if i = .msg t m then
      some { setPc s t .e3 with queue := s.queue ++ [i], putLog := s.putLog ++ [(t, m)] }
    else none
  | .e2 _ false, .putFail => some (setPc s t .e3)
  | .e3, .relL => some { setPc s t .idle with lock := upd s.lock (proc t) none }
  -- ------------------------------------------------------------ stop
  | .s0, .acqL => if s.lock (proc t) = none then some { setPc s t .s1 with lock := upd s.lock (proc t) (some t) } else none
  | .s1, .wStopped => some { setPc s t .s2 with stopped := upd s.stopped (proc t) true }
  | .s2, .relL => if proc t ≠ 0 then some { setPc s t .idle with lock := upd s.lock (proc t) none } else none
  | .s2, .put i =>
    if proc t = 0 ∧ i = .sentinel then
      some { setPc s t .s3 with queue := s.queue ++ [i], sentMark := some s.putLog.length }
    else none
  | .s3, .join => if s.w = .done then some (setPc s t .s4) else none      -- blocks until the worker left
  | .s4, .sinkStop => some { setPc s t .s5 with sinkStopped := true }
  | .s5, .relL => some { setPc s t .idle with lock := upd s.lock (proc t) none, removed := true }
  -- ------------------------------------------------------------ complete_queue
  | .c0, .acqConf => if s.confLock = none then some { setPc s t .c1 with confLock := some t } else none
  | .c1, .put i =>
    if i = .confirm then some { setPc s t (.c2 s.putLog.length) with queue := s.queue ++ [i] } else none
  | .c2 k, .waitEvent => if s.event = true then some (setPc s t (.c3 k)) else none   -- blocks
  | .c3 k, .clearEvent => some { setPc s t (.c4 k) with event := false }
  | .c4 k, .relConf => some { setPc s t .idle with confLock := none, completed := (t, k) :: s.completed }
  | _, _ => none

/-- one transition -/
def step (proc : Tid → Pid) (s : St) (t : Tid) (lab : Lab) : Option St :=
  if t = workerTid then stepW s lab else stepP proc s t lab

def run (proc : Tid → Pid) (s : St) : List (Tid × Lab) → St
  | [] => s
  | (t, lab) :: rest =>
    match step proc s t lab with
    | some s' => run proc s' rest
    | none => run proc s rest

end Queue
