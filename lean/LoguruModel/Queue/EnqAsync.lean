/-
C03 – `Logger.complete()` on a handler that is BOTH `enqueue=True` and a coroutine sink.

A message accepted by a logging call enters the queue; the owner's worker thread takes the oldest one and calls
`AsyncSink.write`, which creates a task on the sink's event loop (or silently drops the message when there is no loop:
the code does so).  `Logger.complete()` does, for the handler, `complete_queue()` (returns when the worker is done with
everything put before the confirmation item: `C03.complete_is_barrier`) and `tasks_to_complete()` (snapshot of the
tasks created so far, under the queue lock); awaiting the result awaits the snapshot's tasks of the running loop.

`queueFirst` is read from the source (`Queue.ShapeGen.completeQueueBeforeTasks`): with `complete_queue()` BEFORE
`tasks_to_complete()` every message logged before `complete()` already has its task when the snapshot is taken; with
the opposite order a message still queued at the snapshot is missed (`swapped_order_witness`).
Tasks are numbered in creation order, messages in put order.
-/
namespace EnqAsync

abbrev Tid := Nat

structure Task where
  loop : Nat
  done : Bool
  deriving DecidableEq, Repr

inductive Lab where
  | log                           -- a message is accepted: `queue.put`
  | workerWrite (loop : Nat)      -- the worker takes the oldest message; `AsyncSink.write` creates its task on `loop`
  | workerDrop                    -- the worker takes the oldest message; no loop to schedule on: dropped (as the code does)
  | run (i : Nat)                 -- an event loop finishes task i
  | startComplete (loop : Nat)    -- `logger.complete()` called in a coroutine of `loop`; mark = messages put so far
  | barrier                       -- `complete_queue()` returns: the worker is done with the first `mark` messages
  | snapshot                      -- `tasks_to_complete()`: the tasks created so far
  | await                         -- next task of the snapshot: skipped (foreign loop), passed (done) or BLOCKED
  | finish                        -- `await` of the completer returns
  deriving DecidableEq, Repr

inductive Pc where
  | idle
  | c0 (loop mark : Nat)                 -- invoked
  | c1 (loop mark : Nat)                 -- queueFirst: barrier passed, snapshot not yet taken
  | d1 (loop mark n : Nat)               -- ¬queueFirst: snapshot taken, barrier not yet passed
  | c2 (loop mark n pos : Nat)           -- awaiting the snapshot 0..n-1, next to examine: pos
  deriving DecidableEq, Repr

structure St where
  put : Nat := 0                               -- messages accepted so far
  handled : Nat := 0                           -- messages the worker has taken (≤ put)
  taskOf : Nat → Option Nat := fun _ => none   -- message → its task (none: not yet handled, or dropped)
  count : Nat := 0                             -- tasks created so far
  task : Nat → Task := fun _ => ⟨0, false⟩
  pc : Tid → Pc := fun _ => .idle
  /-- ghost: (loop, mark) of every awaited complete() that has returned -/
  returned : List (Nat × Nat) := []

def upd {α : Type} (f : Nat → α) (k : Nat) (v : α) : Nat → α := fun u => if u = k then v else f u

@[simp] theorem upd_same {α : Type} (f : Nat → α) (k : Nat) (v : α) : upd f k v k = v := by simp [upd]
@[simp] theorem upd_other {α : Type} (f : Nat → α) (k : Nat) (v : α) (u : Nat) (h : u ≠ k) :
    upd f k v u = f u := by simp [upd, h]

def step (queueFirst : Bool) (s : St) (t : Tid) (lab : Lab) : Option St :=
  match lab, s.pc t with
  | .log, _ => some { s with put := s.put + 1 }
  | .workerWrite l, _ =>
      if s.handled < s.put then
        some { s with handled := s.handled + 1, taskOf := upd s.taskOf s.handled (some s.count),
                      count := s.count + 1, task := upd s.task s.count ⟨l, false⟩ }
      else none                                     -- the worker blocks on the empty queue
  | .workerDrop, _ => if s.handled < s.put then some { s with handled := s.handled + 1 } else none
  | .run i, _ => if i < s.count then some { s with task := upd s.task i { s.task i with done := true } } else none
  | .startComplete l, .idle => some { s with pc := upd s.pc t (.c0 l s.put) }
  | .barrier, .c0 l k =>
      if queueFirst ∧ k ≤ s.handled then some { s with pc := upd s.pc t (.c1 l k) } else none
  | .snapshot, .c1 l k => some { s with pc := upd s.pc t (.c2 l k s.count 0) }
  | .snapshot, .c0 l k => if queueFirst then none else some { s with pc := upd s.pc t (.d1 l k s.count) }
  | .barrier, .d1 l k n => if k ≤ s.handled then some { s with pc := upd s.pc t (.c2 l k n 0) } else none
  | .await, .c2 l k n pos =>
      if pos < n then
        (if (s.task pos).loop ≠ l then some { s with pc := upd s.pc t (.c2 l k n (pos + 1)) }
         else if (s.task pos).done then some { s with pc := upd s.pc t (.c2 l k n (pos + 1)) }
         else none)
      else none
  | .finish, .c2 l k n pos =>
      if pos = n then some { s with pc := upd s.pc t .idle, returned := (l, k) :: s.returned } else none
  | _, _ => none

def run (qf : Bool) (s : St) : List (Tid × Lab) → St
  | [] => s
  | (t, lab) :: rest =>
    match step qf s t lab with
    | some s' => run qf s' rest
    | none => run qf s rest

/-- "every message below `k` that got a task on loop `l` has that task among the first `n`, and …" -/
def covered (s : St) (k n : Nat) : Prop := ∀ m i, m < k → s.taskOf m = some i → i < n

def doneUpTo (s : St) (l pos : Nat) : Prop := ∀ i, i < pos → (s.task i).loop = l → (s.task i).done = true

structure Inv (s : St) : Prop where
  hp : s.handled ≤ s.put
  fresh : ∀ m, s.handled ≤ m → s.taskOf m = none
  bound : ∀ m i, s.taskOf m = some i → i < s.count
  nod1 : ∀ t l k n, s.pc t ≠ .d1 l k n
  c1 : ∀ t l k, s.pc t = .c1 l k → k ≤ s.handled
  c2 : ∀ t l k n pos, s.pc t = .c2 l k n pos →
        k ≤ s.handled ∧ pos ≤ n ∧ n ≤ s.count ∧ covered s k n ∧ doneUpTo s l pos
  ret : ∀ l k, (l, k) ∈ s.returned →
        k ≤ s.handled ∧ ∀ m i, m < k → s.taskOf m = some i → (s.task i).loop = l → (s.task i).done = true

theorem inv_init : Inv ({} : St) := by
  constructor <;> simp

/-- a step that changes only the moving thread's pc (and possibly `returned`) -/
theorem inv_pc_only {s s' : St} {t : Tid} {p : Pc} (h : Inv s)
    (e1 : s'.put = s.put) (e2 : s'.handled = s.handled) (e3 : s'.taskOf = s.taskOf) (e4 : s'.count = s.count)
    (e5 : s'.task = s.task) (e6 : s'.pc = upd s.pc t p)
    (hd : ∀ l k n, p ≠ .d1 l k n)
    (h1 : ∀ l k, p = .c1 l k → k ≤ s.handled)
    (h2 : ∀ l k n pos, p = .c2 l k n pos → k ≤ s.handled ∧ pos ≤ n ∧ n ≤ s.count ∧ covered s k n ∧ doneUpTo s l pos)
    (h3 : ∀ l k, (l, k) ∈ s'.returned → (l, k) ∈ s.returned ∨
      (k ≤ s.handled ∧ ∀ m i, m < k → s.taskOf m = some i → (s.task i).loop = l → (s.task i).done = true)) :
    Inv s' := by
  have hcov : ∀ k n, covered s' k n ↔ covered s k n := by intro k n; simp [covered, e3]
  have hdone : ∀ l pos, doneUpTo s' l pos ↔ doneUpTo s l pos := by intro l pos; simp [doneUpTo, e5]
  constructor
  · rw [e1, e2]; exact h.hp
  · rw [e2, e3]; exact h.fresh
  · rw [e3, e4]; exact h.bound
  · intro u l k n
    rw [e6]
    by_cases e : u = t
    · subst e; simp only [upd_same]; exact hd l k n
    · rw [upd_other _ _ _ _ e]; exact h.nod1 u l k n
  · intro u l k hu
    rw [e6] at hu; rw [e2]
    by_cases e : u = t
    · subst e; simp only [upd_same] at hu; exact h1 l k hu
    · rw [upd_other _ _ _ _ e] at hu; exact h.c1 u l k hu
  · intro u l k n pos hu
    rw [e6] at hu; rw [e2, e4, hcov, hdone]
    by_cases e : u = t
    · subst e; simp only [upd_same] at hu; exact h2 l k n pos hu
    · rw [upd_other _ _ _ _ e] at hu; exact h.c2 u l k n pos hu
  · intro l k hm
    rw [e2, e3, e5]
    rcases h3 l k hm with hm | hm
    · exact h.ret l k hm
    · exact hm

/-- a step of the worker or of an event loop: pcs and `returned` unchanged; the first `handled` messages keep their
tasks, created tasks keep their loop and never become un-done -/
theorem inv_world {s s' : St} (h : Inv s)
    (e1 : s'.handled ≤ s'.put) (e2 : s.handled ≤ s'.handled) (e4 : s.count ≤ s'.count)
    (e6 : s'.pc = s.pc) (e7 : s'.returned = s.returned)
    (hfresh : ∀ m, s'.handled ≤ m → s'.taskOf m = none)
    (hbound : ∀ m i, s'.taskOf m = some i → i < s'.count)
    (hkeep : ∀ m, m < s.handled → s'.taskOf m = s.taskOf m)
    (htask : ∀ i, i < s.count → (s'.task i).loop = (s.task i).loop ∧
      ((s.task i).done = true → (s'.task i).done = true)) :
    Inv s' := by
  constructor
  · exact e1
  · exact hfresh
  · exact hbound
  · intro u l k n; rw [e6]; exact h.nod1 u l k n
  · intro u l k hu; rw [e6] at hu; exact Nat.le_trans (h.c1 u l k hu) e2
  · intro u l k n pos hu
    rw [e6] at hu
    obtain ⟨a, b, c, d, f⟩ := h.c2 u l k n pos hu
    refine ⟨Nat.le_trans a e2, b, Nat.le_trans c e4, ?_, ?_⟩
    · intro m i hm hi
      rw [hkeep m (by omega)] at hi
      exact d m i hm hi
    · intro i hi hl
      have := htask i (by omega)
      exact this.2 (f i hi (by rw [← this.1]; exact hl))
  · intro l k hm
    rw [e7] at hm
    obtain ⟨a, b⟩ := h.ret l k hm
    refine ⟨Nat.le_trans a e2, ?_⟩
    intro m i hmk hi hl
    rw [hkeep m (by omega)] at hi
    have hb := h.bound m i hi
    have := htask i hb
    exact this.2 (b m i hmk hi (by rw [← this.1]; exact hl))

theorem inv_step {s s' : St} {t : Tid} {lab : Lab} (h : Inv s) (hs : step true s t lab = some s') : Inv s' := by
  unfold step at hs
  split at hs
  · -- log
    simp only [Option.some.injEq] at hs; subst hs
    exact inv_world h (Nat.le_succ_of_le h.hp) (Nat.le_refl _) (Nat.le_refl _) rfl rfl h.fresh h.bound
      (fun _ _ => rfl) (fun _ _ => ⟨rfl, id⟩)
  · -- workerWrite
    split at hs
    · rename_i hlt
      simp only [Option.some.injEq] at hs; subst hs
      refine inv_world h (by simp; omega) (Nat.le_succ _) (Nat.le_succ _) rfl rfl ?_ ?_ ?_ ?_
      · intro m hm
        have : m ≠ s.handled := by simp at hm; omega
        simp only [upd_other _ _ _ _ this]
        exact h.fresh m (by simp at hm; omega)
      · intro m i hi
        by_cases e : m = s.handled
        · subst e; simp at hi; simp; omega
        · simp only [upd_other _ _ _ _ e] at hi
          have := h.bound m i hi
          simp; omega
      · intro m hm
        have : m ≠ s.handled := by omega
        simp [upd_other _ _ _ _ this]
      · intro i hi
        have : i ≠ s.count := by omega
        simp [upd_other _ _ _ _ this]
    · simp at hs
  · -- workerDrop
    split at hs
    · rename_i hlt
      simp only [Option.some.injEq] at hs; subst hs
      refine inv_world h (by simp; omega) (Nat.le_succ _) (Nat.le_refl _) rfl rfl ?_ h.bound
        (fun _ _ => rfl) (fun _ _ => ⟨rfl, id⟩)
      intro m hm
      exact h.fresh m (by simp at hm; omega)
    · simp at hs
  · -- run
    split at hs
    · simp only [Option.some.injEq] at hs; subst hs
      refine inv_world h h.hp (Nat.le_refl _) (Nat.le_refl _) rfl rfl h.fresh h.bound (fun _ _ => rfl) ?_
      intro i hi
      simp only [upd]
      split <;> simp_all
    · simp at hs
  · -- startComplete
    simp only [Option.some.injEq] at hs; subst hs
    exact inv_pc_only h rfl rfl rfl rfl rfl rfl (by simp) (by simp) (by simp) (fun l k hm => Or.inl hm)
  · -- barrier from c0
    rename_i l k hq
    split at hs
    · rename_i hg
      simp only [Option.some.injEq] at hs; subst hs
      refine inv_pc_only h rfl rfl rfl rfl rfl rfl (by simp) ?_ (by simp) (fun l k hm => Or.inl hm)
      intro l' k' he
      simp only [Pc.c1.injEq] at he
      obtain ⟨_, rfl⟩ := he
      exact hg.2
    · simp at hs
  · -- snapshot from c1
    rename_i l k hq
    simp only [Option.some.injEq] at hs; subst hs
    refine inv_pc_only h rfl rfl rfl rfl rfl rfl (by simp) (by simp) ?_ (fun l k hm => Or.inl hm)
    intro l' k' n' pos' he
    simp only [Pc.c2.injEq] at he
    obtain ⟨rfl, rfl, rfl, rfl⟩ := he
    refine ⟨h.c1 t l k hq, Nat.zero_le _, Nat.le_refl _, ?_, ?_⟩
    · intro m i _ hi; exact h.bound m i hi
    · intro i hi; omega
  · -- snapshot from c0: disabled when the queue comes first
    simp at hs
  · -- barrier from d1: unreachable
    rename_i l k n hq
    exact absurd hq (h.nod1 t l k n)
  · -- await
    rename_i l k n pos hq
    obtain ⟨a, b, c, d, f⟩ := h.c2 t l k n pos hq
    split at hs
    · rename_i hlt
      split at hs
      · rename_i hf
        simp only [Option.some.injEq] at hs; subst hs
        refine inv_pc_only h rfl rfl rfl rfl rfl rfl (by simp) (by simp) ?_ (fun l k hm => Or.inl hm)
        intro l' k' n' pos' he
        simp only [Pc.c2.injEq] at he
        obtain ⟨rfl, rfl, rfl, rfl⟩ := he
        refine ⟨a, by omega, c, d, ?_⟩
        intro i hi hl
        by_cases e2 : i = pos
        · subst e2; exact absurd hl hf
        · exact f i (by omega) hl
      · split at hs
        · rename_i hd
          simp only [Option.some.injEq] at hs; subst hs
          refine inv_pc_only h rfl rfl rfl rfl rfl rfl (by simp) (by simp) ?_ (fun l k hm => Or.inl hm)
          intro l' k' n' pos' he
          simp only [Pc.c2.injEq] at he
          obtain ⟨rfl, rfl, rfl, rfl⟩ := he
          refine ⟨a, by omega, c, d, ?_⟩
          intro i hi hl
          by_cases e2 : i = pos
          · subst e2; exact hd
          · exact f i (by omega) hl
        · simp at hs
    · simp at hs
  · -- finish
    rename_i l k n pos hq
    obtain ⟨a, b, c, d, f⟩ := h.c2 t l k n pos hq
    split at hs
    · rename_i he
      simp only [Option.some.injEq] at hs; subst hs
      refine inv_pc_only h rfl rfl rfl rfl rfl rfl (by simp) (by simp) (by simp) ?_
      intro l' k' hm
      simp only [List.mem_cons, Prod.mk.injEq] at hm
      rcases hm with ⟨rfl, rfl⟩ | hm
      · right
        refine ⟨a, ?_⟩
        intro m i hmk hi hl
        exact f i (by rw [he]; exact d m i hmk hi) hl
      · exact Or.inl hm
    · simp at hs
  · simp at hs

theorem inv_run (sched : List (Tid × Lab)) : Inv (run true {} sched) := by
  suffices h : ∀ s, Inv s → Inv (run true s sched) from h {} inv_init
  induction sched with
  | nil => intro s h; exact h
  | cons x xs ih =>
    intro s h
    obtain ⟨t, lab⟩ := x
    simp only [run]
    cases hs : step true s t lab with
    | some s' => exact ih s' (inv_step h hs)
    | none => exact ih s h

end EnqAsync
