import LoguruModel.Queue.Lemmas
/-
C03 – sentinel protocol: the owner's stop() drains the queue, then the worker is gone.
-/
namespace Queue

def preSent : Pc → Bool
  | .s0 | .s1 | .s2 => true
  | _ => false

def postJoin : Pc → Bool
  | .s4 | .s5 => true
  | _ => false

def postSent : Pc → Bool
  | .s3 | .s4 | .s5 => true
  | _ => false

structure Sent (proc : Tid → Pid) (s : St) : Prop where
  a1 : s.sentMark = none → s.queue.count .sentinel = 0 ∧ s.w ≠ .done
  a2 : ∀ k, s.sentMark = some k →
        (s.queue.count .sentinel = 1 ∧ s.w ≠ .done ∧
          s.handled.length + (heldOf s.w).length + cntBefore .sentinel s.queue = k) ∨
        (s.queue.count .sentinel = 0 ∧ s.w = .done ∧ s.handled.length = k)
  a3 : ∀ t, t ≠ workerTid → proc t = 0 → preSent (s.pc t) = true → s.sentMark = none
  a4 : ∀ t, t ≠ workerTid → postJoin (s.pc t) = true → s.w = .done
  a5 : s.removed = true → s.w = .done ∧ s.sinkStopped = true
  a6 : ∀ t, t ≠ workerTid → postSent (s.pc t) = true → proc t = 0
  a7 : ∀ k, s.sentMark = some k → s.stopCalled 0 = true
  a8 : ∀ t, t ≠ workerTid → s.pc t = .s5 → s.sinkStopped = true
  b1 : ∀ t, t ≠ workerTid → inStop (s.pc t) = true → s.stopCalled (proc t) = true
  b2 : ∀ t u, t ≠ workerTid → u ≠ workerTid → inStop (s.pc t) = true → inStop (s.pc u) = true →
        proc t = proc u → t = u

theorem sent_init (proc : Tid → Pid) : Sent proc ({} : St) := by
  constructor <;> simp [preSent, postJoin, postSent, inStop]

theorem sent_stepW {proc : Tid → Pid} {s s' : St} {lab : Lab} (h : Sent proc s)
    (hs : stepW s lab = some s') : Sent proc s' := by
  obtain ⟨a1, a2, a3, a4, a5, a6, a7, a8, b1, b2⟩ := h
  w_arms hs <;>
    (refine ⟨?_, ?_, a3, ?_, ?_, a6, a7, a8, b1, b2⟩
     · intro hn; have := a1 hn; simp_all [List.count_cons]
     · intro k hk
       rcases a2 k hk with ⟨c, wd, e⟩ | ⟨c, wd, e⟩ <;>
         simp [*, heldOf, cntBefore, List.count_cons] at c wd e ⊢ <;> (try omega) <;> (try grind)
     · intro u hu hp; have := a4 u hu hp; simp_all
     · intro hr; have := a5 hr; simp_all)

macro "sent_simp" : tactic => `(tactic| (
  simp_all [setPc, upd, preSent, postJoin, postSent, inStop, heldOf, cntBefore, List.count_cons,
    List.count_append]))

theorem sent_a1P {proc : Tid → Pid} {s s' : St} {t : Tid} {lab : Lab} (h : Sent proc s) (ht : t ≠ workerTid)
    (hs : stepP proc s t lab = some s') :
    s'.sentMark = none → s'.queue.count .sentinel = 0 ∧ s'.w ≠ .done := by
  have a1 := h.a1
  p_arms hs <;>
    (intro hn
     first
     | exact a1 hn
     | (simp only [setPc] at hn ⊢
        have := a1 hn
        simp_all [List.count_append, List.count_cons]; done)
     | (simp [setPc] at hn; done))

theorem sent_a2P {proc : Tid → Pid} {s s' : St} {t : Tid} {lab : Lab} (hf : Fifo s) (h : Sent proc s)
    (ht : t ≠ workerTid) (hs : stepP proc s t lab = some s') :
    ∀ k, s'.sentMark = some k →
        (s'.queue.count .sentinel = 1 ∧ s'.w ≠ .done ∧
          s'.handled.length + (heldOf s'.w).length + cntBefore .sentinel s'.queue = k) ∨
        (s'.queue.count .sentinel = 0 ∧ s'.w = .done ∧ s'.handled.length = k) := by
  obtain ⟨a1, a2, a3, a4, a5, a6, a7, a8, b1, b2⟩ := h
  have hlen : s.putLog.length = s.handled.length + (heldOf s.w).length + (msgsOf s.queue).length := by
    unfold Fifo at hf; rw [← hf]; simp [List.length_append]; omega
  clear hf
  have a3t := a3 t ht
  p_arms hs <;>
    (intro k hk
     first
     | exact a2 k hk
     | (simp only [setPc] at hk ⊢
        rcases a2 k hk with ⟨c, wd, e⟩ | ⟨c, wd, e⟩
        · left
          simp only [List.count_append, List.count_cons, List.count_nil, reduceCtorEq, beq_iff_eq,
            if_false, Nat.add_zero, cntBefore_of_count_pos _ _ _ c]
          exact ⟨by simpa using c, wd, e⟩
        · right
          simp only [List.count_append, List.count_cons, List.count_nil, reduceCtorEq, beq_iff_eq,
            if_false, Nat.add_zero]
          exact ⟨by simpa using c, wd, e⟩)
     | (have := a1; sent_simp; (try (rw [cntBefore_append_self' _ _ (by simp_all)])); (try omega); (try grind)))

/-! frame lemmas for the clauses quantified over threads -/

theorem a4_frame {s s' : St} {t : Tid} {p' : Pc} (hpc : s'.pc = upd s.pc t p') (hw : s'.w = s.w)
    (hnew : postJoin p' = true → s.w = .done)
    (old : ∀ u, u ≠ workerTid → postJoin (s.pc u) = true → s.w = .done) :
    ∀ u, u ≠ workerTid → postJoin (s'.pc u) = true → s'.w = .done := by
  intro u hu hp
  rw [hw]; rw [hpc] at hp
  by_cases e : u = t
  · subst e; simp at hp; exact hnew hp
  · simp [e] at hp; exact old u hu hp

theorem a6_frame {proc : Tid → Pid} {s s' : St} {t : Tid} {p' : Pc} (hpc : s'.pc = upd s.pc t p')
    (hnew : postSent p' = true → proc t = 0)
    (old : ∀ u, u ≠ workerTid → postSent (s.pc u) = true → proc u = 0) :
    ∀ u, u ≠ workerTid → postSent (s'.pc u) = true → proc u = 0 := by
  intro u hu hp
  rw [hpc] at hp
  by_cases e : u = t
  · subst e; simp at hp; exact hnew hp
  · simp [e] at hp; exact old u hu hp

theorem a3_frame {proc : Tid → Pid} {s s' : St} {t : Tid} {p' : Pc} (hpc : s'.pc = upd s.pc t p')
    (hm : s'.sentMark = s.sentMark)
    (hnew : preSent p' = true → proc t = 0 → s.sentMark = none)
    (old : ∀ u, u ≠ workerTid → proc u = 0 → preSent (s.pc u) = true → s.sentMark = none) :
    ∀ u, u ≠ workerTid → proc u = 0 → preSent (s'.pc u) = true → s'.sentMark = none := by
  intro u hu hz hp
  rw [hm]; rw [hpc] at hp
  by_cases e : u = t
  · subst e; simp at hp; exact hnew hp hz
  · simp [e] at hp; exact old u hu hz hp

theorem b1_frame {proc : Tid → Pid} {s s' : St} {t : Tid} {p' : Pc} (hpc : s'.pc = upd s.pc t p')
    (hmono : ∀ q, s.stopCalled q = true → s'.stopCalled q = true)
    (hnew : inStop p' = true → s'.stopCalled (proc t) = true)
    (old : ∀ u, u ≠ workerTid → inStop (s.pc u) = true → s.stopCalled (proc u) = true) :
    ∀ u, u ≠ workerTid → inStop (s'.pc u) = true → s'.stopCalled (proc u) = true := by
  intro u hu hp
  rw [hpc] at hp
  by_cases e : u = t
  · subst e; simp at hp; exact hnew hp
  · simp [e] at hp; exact hmono _ (old u hu hp)

theorem b2_frame {proc : Tid → Pid} {s s' : St} {t : Tid} {p' : Pc} (ht : t ≠ workerTid)
    (hpc : s'.pc = upd s.pc t p')
    (hnew : inStop p' = true → inStop (s.pc t) = true ∨
      ∀ u, u ≠ workerTid → u ≠ t → inStop (s.pc u) = true → proc u ≠ proc t)
    (old : ∀ u v, u ≠ workerTid → v ≠ workerTid → inStop (s.pc u) = true → inStop (s.pc v) = true →
      proc u = proc v → u = v) :
    ∀ u v, u ≠ workerTid → v ≠ workerTid → inStop (s'.pc u) = true → inStop (s'.pc v) = true →
      proc u = proc v → u = v := by
  intro u v hu hv hpu hpv hpr
  rw [hpc] at hpu hpv
  by_cases eu : u = t
  · by_cases ev : v = t
    · rw [eu, ev]
    · subst eu
      simp at hpu; simp [ev] at hpv
      rcases hnew hpu with h | h
      · exact old u v hu hv h hpv hpr
      · exact absurd hpr.symm (h v hv ev hpv)
  · by_cases ev : v = t
    · subst ev
      simp at hpv; simp [eu] at hpu
      rcases hnew hpv with h | h
      · exact old u v hu hv hpu h hpr
      · exact absurd hpr (h u hu eu hpu)
    · simp [eu] at hpu; simp [ev] at hpv
      exact old u v hu hv hpu hpv hpr

theorem a8_frame {s s' : St} {t : Tid} {p' : Pc} (hpc : s'.pc = upd s.pc t p')
    (hmono : s.sinkStopped = true → s'.sinkStopped = true)
    (hnew : p' = .s5 → s'.sinkStopped = true)
    (old : ∀ u, u ≠ workerTid → s.pc u = .s5 → s.sinkStopped = true) :
    ∀ u, u ≠ workerTid → s'.pc u = .s5 → s'.sinkStopped = true := by
  intro u hu hp
  rw [hpc] at hp
  by_cases e : u = t
  · subst e; simp at hp; exact hnew hp
  · simp [e] at hp; exact hmono (old u hu hp)

theorem sent_a4P {proc : Tid → Pid} {s s' : St} {t : Tid} {lab : Lab} (h : Sent proc s) (ht : t ≠ workerTid)
    (hs : stepP proc s t lab = some s') :
    ∀ u, u ≠ workerTid → postJoin (s'.pc u) = true → s'.w = .done := by
  have a4 := h.a4
  p_arms hs <;>
    (refine a4_frame rfl rfl ?_ a4
     intro hp
     first
     | (simp [postJoin] at hp; done)
     | assumption
     | (refine a4 t ht ?_; simp [*, postJoin]; done))

theorem sent_a6P {proc : Tid → Pid} {s s' : St} {t : Tid} {lab : Lab} (h : Sent proc s) (ht : t ≠ workerTid)
    (hs : stepP proc s t lab = some s') :
    ∀ u, u ≠ workerTid → postSent (s'.pc u) = true → proc u = 0 := by
  have a6 := h.a6
  p_arms hs <;>
    (refine a6_frame rfl ?_ a6
     intro hp
     first
     | (simp [postSent] at hp; done)
     | (rename_i hc; exact hc.1)
     | (refine a6 t ht ?_; simp [*, postSent]; done))

theorem sent_a8P {proc : Tid → Pid} {s s' : St} {t : Tid} {lab : Lab} (h : Sent proc s) (ht : t ≠ workerTid)
    (hs : stepP proc s t lab = some s') :
    ∀ u, u ≠ workerTid → s'.pc u = .s5 → s'.sinkStopped = true := by
  have a8 := h.a8
  p_arms hs <;>
    (refine a8_frame rfl ?_ ?_ a8
     · first | exact id | (intro _; rfl)
     · intro hp
       first
       | (simp at hp; done)
       | rfl
       | (refine a8 t ht ?_; simp [*]; done))

theorem sent_b1P {proc : Tid → Pid} {s s' : St} {t : Tid} {lab : Lab} (h : Sent proc s) (ht : t ≠ workerTid)
    (hs : stepP proc s t lab = some s') :
    ∀ u, u ≠ workerTid → inStop (s'.pc u) = true → s'.stopCalled (proc u) = true := by
  have b1 := h.b1
  p_arms hs <;>
    (refine b1_frame rfl ?_ ?_ b1
     · first
       | exact fun _ hq => hq
       | (intro q hq; simp only [upd]; split <;> simp_all)
     · intro hp
       first
       | (simp [inStop] at hp; done)
       | (simp [upd]; done)
       | (refine b1 t ht ?_; simp [*, inStop]; done))

theorem sent_b2P {proc : Tid → Pid} {s s' : St} {t : Tid} {lab : Lab} (h : Sent proc s) (ht : t ≠ workerTid)
    (hs : stepP proc s t lab = some s') :
    ∀ u v, u ≠ workerTid → v ≠ workerTid → inStop (s'.pc u) = true → inStop (s'.pc v) = true →
      proc u = proc v → u = v := by
  have b1 := h.b1
  have b2 := h.b2
  p_arms hs <;>
    (refine b2_frame ht rfl ?_ b2
     intro hp
     first
     | (simp [inStop] at hp; done)
     | (left; simp [*, inStop]; done)
     | (right
        intro u hu _ hpu hpr
        have := b1 u hu hpu
        simp_all))

theorem sent_a3P {proc : Tid → Pid} {s s' : St} {t : Tid} {lab : Lab} (h : Sent proc s) (ht : t ≠ workerTid)
    (hs : stepP proc s t lab = some s') :
    ∀ u, u ≠ workerTid → proc u = 0 → preSent (s'.pc u) = true → s'.sentMark = none := by
  have a3 := h.a3
  have a7 := h.a7
  have b2 := h.b2
  p_arms hs <;>
    first
    | (refine a3_frame rfl rfl ?_ a3
       intro hp hz
       first
       | (simp [preSent] at hp; done)
       | (refine a3 t ht hz ?_; simp [*, preSent]; done)
       | (cases hm : s.sentMark with
          | none => rfl
          | some k =>
            have h7 := a7 k hm
            rename_i hc
            rw [hz] at hc; rw [hc] at h7; cases h7))
    | (intro u hu hz hp
       exfalso
       simp only [setPc] at hp
       by_cases e : u = t
       · subst e; simp [preSent] at hp
       · simp [upd, e] at hp
         have hu2 : inStop (s.pc u) = true := by
           cases hq : s.pc u <;> rw [hq] at hp <;> simp [preSent, inStop] at hp ⊢
         have ht2 : inStop (s.pc t) = true := by simp [*, inStop]
         rename_i hc
         exact e (b2 u t hu ht hu2 ht2 (by rw [hz, hc.1])))

theorem sent_a5P {proc : Tid → Pid} {s s' : St} {t : Tid} {lab : Lab} (h : Sent proc s) (ht : t ≠ workerTid)
    (hs : stepP proc s t lab = some s') :
    s'.removed = true → s'.w = .done ∧ s'.sinkStopped = true := by
  have a5 := h.a5
  have a4 := h.a4 t ht
  have a8 := h.a8 t ht
  p_arms hs <;>
    (intro hr
     first
     | exact a5 hr
     | (have := a5 hr; exact ⟨this.1, rfl⟩)
     | (refine ⟨a4 ?_, a8 ?_⟩ <;> simp [*, postJoin]; done))

theorem sent_a7P {proc : Tid → Pid} {s s' : St} {t : Tid} {lab : Lab} (h : Sent proc s) (ht : t ≠ workerTid)
    (hs : stepP proc s t lab = some s') :
    ∀ k, s'.sentMark = some k → s'.stopCalled 0 = true := by
  have a7 := h.a7
  have b1 := h.b1 t ht
  p_arms hs <;>
    (intro k hk
     first
     | exact a7 k hk
     | (have := a7 k hk; simp only [upd]; split <;> simp_all; done)
     | (rename_i hc; have := b1 (show inStop (s.pc t) = true by simp [*, inStop]); rw [hc.1] at this; exact this))

theorem sent_step {proc : Tid → Pid} {s s' : St} {t : Tid} {lab : Lab} (hf : Fifo s) (h : Sent proc s)
    (hs : step proc s t lab = some s') : Sent proc s' := by
  unfold step at hs
  split at hs
  · exact sent_stepW h hs
  · rename_i ht
    exact ⟨sent_a1P h ht hs, sent_a2P hf h ht hs, sent_a3P h ht hs, sent_a4P h ht hs, sent_a5P h ht hs,
      sent_a6P h ht hs, sent_a7P h ht hs, sent_a8P h ht hs, sent_b1P h ht hs, sent_b2P h ht hs⟩

end Queue
