import LoguruModel.Queue.Lemmas
/-
C03 – sentinel protocol: the owner's stop() drains the queue, then the worker is gone.
-/
namespace Queue

def preSent : Pc → Bool
  | .s0 | .s1 | .s2 => true
  | _ => false

def postJoin : Pc → Bool
  | .s4 | .s5 => true
  | _ => false

def postSent : Pc → Bool
  | .s3 | .s4 | .s5 => true
  | _ => false

structure Sent (proc : Tid → Pid) (s : St) : Prop where
  a1 : s.sentMark = none → s.queue.count .sentinel = 0 ∧ s.w ≠ .done
  a2 : ∀ k, s.sentMark = some k →
        (s.queue.count .sentinel = 1 ∧ s.w ≠ .done ∧
          s.sink.length + (heldOf s.w).length + cntBefore .sentinel s.queue = k) ∨
        (s.queue.count .sentinel = 0 ∧ s.w = .done ∧ s.sink.length = k)
  a3 : ∀ t, t ≠ workerTid → proc t = 0 → preSent (s.pc t) = true → s.sentMark = none
  a4 : ∀ t, t ≠ workerTid → postJoin (s.pc t) = true → s.w = .done
  a5 : s.removed = true → s.w = .done ∧ s.sinkStopped = true
  a6 : ∀ t, t ≠ workerTid → postSent (s.pc t) = true → proc t = 0
  a7 : ∀ k, s.sentMark = some k → s.stopCalled 0 = true
  b1 : ∀ t, t ≠ workerTid → inStop (s.pc t) = true → s.stopCalled (proc t) = true
  b2 : ∀ t u, t ≠ workerTid → u ≠ workerTid → inStop (s.pc t) = true → inStop (s.pc u) = true →
        proc t = proc u → t = u

theorem sent_init (proc : Tid → Pid) : Sent proc ({} : St) := by
  constructor <;> simp [preSent, postJoin, postSent, inStop]

theorem sent_stepW {proc : Tid → Pid} {s s' : St} {lab : Lab} (h : Sent proc s)
    (hs : stepW s lab = some s') : Sent proc s' := by
  obtain ⟨a1, a2, a3, a4, a5, a6, a7, b1, b2⟩ := h
  w_arms hs <;>
    (refine ⟨?_, ?_, a3, ?_, ?_, a6, a7, b1, b2⟩
     · intro hn; have := a1 hn; simp_all [List.count_cons]
     · intro k hk
       have := a2 k hk
       have := a1
       simp_all [heldOf, cntBefore, List.count_cons] <;> (try omega) <;> (try grind)
     · intro u hu hp; have := a4 u hu hp; simp_all
     · intro hr; have := a5 hr; simp_all)

end Queue
