import LoguruModel.Queue.Model
import LoguruModel.Queue.WorkerSyntax
/-
C03 – interpretation of the regenerated worker loop (`Queue.Loop`) and its agreement with `Queue.stepW`.

An exception is represented by the names of the classes of its MRO (`["FileNotFoundError", "OSError", "Exception",
"BaseException", "object"]`): the domain of the theorems is every such list, i.e. every exception class there is or
will be.  Python selects the first `except` clause one of whose classes is in the MRO.
-/
namespace Queue

/-- does the clause catch an exception with this MRO? -/
def Clause.catches (c : Clause) (mro : List String) : Bool :=
  c.classes.isEmpty || c.classes.any (fun n => mro.contains n)

/-- Python's clause selection -/
def dispatch : List Clause → List String → Option Clause
  | [], _ => none
  | c :: r, mro => if c.catches mro then some c else dispatch r mro

/-- what the loop does when the guarded call raises: the selected clause's exit; no clause = the exception escapes -/
def onRaise (cs : List Clause) (mro : List String) : Exit :=
  match dispatch cs mro with
  | some c => c.exit
  | none => .escape

/-- …and whether the error is reported (under the queue lock) -/
def reportsOnRaise (cs : List Clause) (mro : List String) : Bool :=
  match dispatch cs mro with
  | some c => c.report && c.underLock
  | none => false

/-- the state of the worker thread after leaving a clause that way -/
def wpcOf : Exit → WPc
  | .next => .loop
  | _ => .done

/-- a clause list is SAFE when every clause goes on with the next iteration after reporting under the lock, and one
of them names `Exception` (or is bare) -/
def safeClauses (cs : List Clause) : Bool :=
  cs.all (fun c => c.exit == .next && c.report && c.underLock) &&
  cs.any (fun c => c.classes.isEmpty || c.classes.contains "Exception")

theorem dispatch_mem {cs : List Clause} {mro : List String} {c : Clause} (h : dispatch cs mro = some c) : c ∈ cs := by
  induction cs with
  | nil => simp [dispatch] at h
  | cons d r ih =>
    simp only [dispatch] at h
    split at h
    · simp only [Option.some.injEq] at h; subst h; exact List.mem_cons_self
    · exact List.mem_cons_of_mem _ (ih h)

theorem dispatch_some_of_catch {cs : List Clause} {mro : List String}
    (h : ∃ c ∈ cs, c.catches mro = true) : ∃ c, dispatch cs mro = some c := by
  induction cs with
  | nil => obtain ⟨c, hc, _⟩ := h; cases hc
  | cons d r ih =>
    simp only [dispatch]
    split
    · exact ⟨d, rfl⟩
    · rename_i hd
      obtain ⟨c, hc, hcc⟩ := h
      rcases List.mem_cons.mp hc with rfl | hc
      · exact absurd hcc hd
      · exact ih ⟨c, hc, hcc⟩

/-- for EVERY exception deriving from `Exception`, safe clauses send the loop to its next iteration and report -/
theorem safe_onRaise (cs : List Clause) (hs : safeClauses cs = true) (mro : List String)
    (he : "Exception" ∈ mro) : onRaise cs mro = .next ∧ reportsOnRaise cs mro = true := by
  simp only [safeClauses, Bool.and_eq_true, List.all_eq_true, List.any_eq_true, Bool.or_eq_true,
    beq_iff_eq] at hs
  obtain ⟨hall, c0, hc0, hcls⟩ := hs
  have hcatch : c0.catches mro = true := by
    simp only [Clause.catches, Bool.or_eq_true, List.any_eq_true]
    rcases hcls with h | h
    · exact Or.inl h
    · exact Or.inr ⟨"Exception", by simpa using h, by simpa using he⟩
  obtain ⟨c, hd⟩ := dispatch_some_of_catch ⟨c0, hc0, hcatch⟩
  have hm := hall c (dispatch_mem hd)
  simp only [onRaise, reportsOnRaise, hd]
  exact ⟨hm.1.1, by simp [hm.1.2, hm.2]⟩

/-- the whole loop is SAFE: it runs for ever, both clause lists are safe, the control items are recognised by identity
in the right order, and there is no other `break` / `return` / `raise` – so the sentinel is the only way out -/
def safeLoop (l : Loop) : Bool :=
  l.forever && safeClauses l.getClauses && l.sentinelLeaves && l.confirmNext && safeClauses l.writeClauses &&
  l.writeLast && l.otherExits == 0

/-- AGREEMENT WITH THE MODEL: if the loop read from the source is safe, then for every exception class deriving from
`Exception` each error transition of `Queue.stepW` ends in the very worker state the source's clause selection gives -/
theorem stepW_errors_follow_loop (l : Loop) (hl : safeLoop l = true) (mro : List String) (he : "Exception" ∈ mro)
    (s s' : St) :
    (∀ i, stepW s (.getFail i) = some s' → s'.w = wpcOf (onRaise l.getClauses mro)) ∧
    (stepW s .getRaise = some s' → s'.w = wpcOf (onRaise l.getClauses mro)) ∧
    (stepW s .writeFail = some s' → s'.w = wpcOf (onRaise l.writeClauses mro)) := by
  simp only [safeLoop, Bool.and_eq_true] at hl
  obtain ⟨⟨⟨⟨⟨⟨_, hg⟩, _⟩, _⟩, hw⟩, _⟩, _⟩ := hl
  rw [(safe_onRaise _ hg mro he).1, (safe_onRaise _ hw mro he).1]
  refine ⟨?_, ?_, ?_⟩
  · intro i hs
    unfold stepW at hs
    split at hs <;> (try (simp only [reduceCtorEq] at hs; done))
    all_goals (repeat' split at hs)
    all_goals (try (simp only [reduceCtorEq] at hs; done))
    all_goals (simp only [Option.some.injEq] at hs; subst hs; simp_all [wpcOf])
  · intro hs
    unfold stepW at hs
    split at hs <;> (try (simp only [reduceCtorEq] at hs; done))
    all_goals (repeat' split at hs)
    all_goals (try (simp only [reduceCtorEq] at hs; done))
    all_goals (simp only [Option.some.injEq] at hs; subst hs; simp_all [wpcOf])
  · intro hs
    unfold stepW at hs
    split at hs <;> (try (simp only [reduceCtorEq] at hs; done))
    all_goals (repeat' split at hs)
    all_goals (try (simp only [reduceCtorEq] at hs; done))
    all_goals (simp only [Option.some.injEq] at hs; subst hs; simp_all [wpcOf])

/-- an UNSAFE shape (the clause `except (EOFError, OSError): break` in front of the generic one): a record whose
reconstruction raises `FileNotFoundError` makes the thread leave the loop, whereas the generic clause alone goes on -/
theorem narrow_break_clause_kills_worker :
    let bad : List Clause := [⟨["EOFError", "OSError"], false, false, .leave⟩, ⟨["Exception"], true, true, .next⟩]
    let mro := ["FileNotFoundError", "OSError", "Exception", "BaseException", "object"]
    onRaise bad mro = .leave ∧ safeClauses bad = false ∧
      onRaise [⟨["Exception"], true, true, .next⟩] mro = .next := by
  decide

end Queue
