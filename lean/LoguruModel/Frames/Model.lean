import LoguruModel.Frames.Base
import LoguruModel.Generated.Frames
/-!
Frames (C17) – the model of `Logger._log`'s frame selection and of the entry points that reach it.

A call stack is a `List Frame`, innermost first.  An entry point pushes the library frames the code
pushes (the chains come from the GENERATED tables `Gen.methods` / `Gen.catchRows`), `_log` selects
`get_frame(Gen.frameIndex depth)` where `depth` is read from the options the entry point hands
over (`Gen.depthIndex`, `OptExpr`, `Gen.catchDepth`), falls back to the generated placeholders
when `sys._getframe` raises ValueError and to `name = None` on KeyError, and builds the record from
the locals the generated `rec*` constants name.  The model mirrors the code as it is.
-/
namespace Frames
open Py

/-- `sys._getframe(n)`: the n-th frame of the stack, ValueError beyond it; a negative `n` yields
the innermost frame (CPython's loop `while (depth > 0)`), which `Int.toNat` mirrors. -/
def getFrame (stack : List Frame) (n : Int) : Except Err Frame :=
  match stack[n.toNat]? with
  | some f => .ok f
  | none => .error .valueError

/-- The locals of `_log` after the two try-blocks. -/
structure Locals where
  f_globals_name : Option (Option Str)   -- lookup of "__name__" in f_globals
  f_lineno : Int
  co_name : Str
  co_filename : Str
  deriving DecidableEq, Repr

/-- the `except ValueError:` branch: `f_globals = {}` (so the name lookup finds nothing) and the
three generated placeholders -/
def placeholderLocals : Locals :=
  { f_globals_name := none, f_lineno := Gen.placeholderLine,
    co_name := Gen.placeholderFunction, co_filename := Gen.placeholderFile }

/-- the `else:` branch: the four reads of the selected frame -/
def localsOfFrame (f : Frame) : Locals :=
  { f_globals_name := f.gname, f_lineno := f.line, co_name := f.func, co_filename := f.file }

/-- `try: frame = get_frame(depth + K) except ValueError: <placeholders> else: <reads>`.
Any other error propagates; a ValueError propagates too when the code has no such handler. -/
def selectLocals (stack : List Frame) (depth : Int) : Except Err Locals :=
  match getFrame stack (Gen.frameIndex depth) with
  | .ok f => .ok (localsOfFrame f)
  | .error .valueError =>
    if Gen.beyondStackHandled then .ok placeholderLocals else .error .valueError
  | .error e => .error e

/-- `try: name = f_globals["__name__"] except KeyError: name = None` -/
def lookupName (g : Option (Option Str)) : Except Err (Option Str) :=
  match g with
  | some v => .ok v
  | none => if Gen.missingNameIsNone then .ok none else .error .keyError

/-- evaluation of the local a record field is built from -/
def evalLocal (l : Locals) (name : Option Str) (ex : Exec) : Local → Val
  | .co_name => .str l.co_name
  | .f_lineno => .int l.f_lineno
  | .co_filename => .str l.co_filename
  | .name => .optStr name
  | .file_name => .str (basename l.co_filename)
  | .file_stem => .str (stem (basename l.co_filename))
  | .thread_ident => .int ex.threadId
  | .thread_name => .str ex.threadName
  | .process_ident => .int ex.processId
  | .process_name => .str ex.processName
  | .current_datetime => .int ex.now
  | .elapsed => .int (Gen.elapsed ex.now ex.start)
  | .other => .unknown

/-- the part of the record C17 talks about -/
structure Record where
  name : Val
  function : Val
  line : Val
  module : Val
  fileName : Val
  filePath : Val
  threadId : Val
  threadName : Val
  processId : Val
  processName : Val
  time : Val
  elapsed : Val
  deriving DecidableEq, Repr

/-- the `log_record` dict display: every field from the local the generated table names -/
def mkRecord (l : Locals) (name : Option Str) (ex : Exec) : Record :=
  let ev := evalLocal l name ex
  { name := ev Gen.recName, function := ev Gen.recFunction, line := ev Gen.recLine,
    module := ev Gen.recModule, fileName := ev Gen.recFileName, filePath := ev Gen.recFilePath,
    threadId := ev Gen.recThreadId, threadName := ev Gen.recThreadName,
    processId := ev Gen.recProcessId, processName := ev Gen.recProcessName,
    time := ev Gen.recTime, elapsed := ev Gen.recElapsed }

/-- `(exception, depth, record, ...) = options`: the depth slot, ValueError on a wrong arity -/
def unpackDepth (options : List Int) : Except Err Int :=
  if options.length ≠ Gen.optionNames.length then .error .valueError else
  match options[Gen.depthIndex]? with
  | some d => .ok d
  | none => .error .valueError

/-- `_log` from the unpacking of the options to the record (level/activation filtering is C01's). -/
def logCore (stack : List Frame) (options : List Int) (ex : Exec) : Except Err Record :=
  match unpackDepth options with
  | .error e => .error e
  | .ok depth =>
    match selectLocals stack depth with
    | .error e => .error e
    | .ok l =>
      match lookupName l.f_globals_name with
      | .error e => .error e
      | .ok name => .ok (mkRecord l name ex)

/-- The stack `_log` runs on: its own frame, the library frames of the entry point (innermost
first), then the user's stack.  `lib` maps a function name of `loguru/_logger.py` to its frame
(contents irrelevant: arbitrary). -/
def stackAtLog (lib : Str → Frame) (chain : List Str) (us : List Frame) : List Frame :=
  lib "_log".toList :: (chain.map lib ++ us)

/-- A public logging method called on a logger whose `_options` are `opts` (`1` stands for the
constant `True` the `exception()` method prepends; only the depth slot is ever read here). -/
def logViaMethod (lib : Str → Frame) (m : MethodRow) (opts : List Int) (us : List Frame) (ex : Exec) :
    Except Err Record :=
  logCore (stackAtLog lib m.chain us) (m.opts.eval 1 opts) ex

/-- `Catcher.__exit__`: `_, depth, _, *options = logger._options`, the decorator adjustment and the
`_frames` adjustment (`async with`: `__aexit__` calls `__exit__` with `_frames=1`),
`catch_options = [exc, depth, True, *options]`, then `_log`.  Slot 0 and 2 are overwritten. -/
def catchUnpackDepthIdx : Option Nat := Gen.catchUnpackPrefix.idxOf? "depth".toList
def catchRepackDepthIdx : Option Nat := Gen.catchRepackPrefix.idxOf? "depth".toList

def catchOptions (fromDecorator : Bool) (frames : Int) (opts : List Int) : Except Err (List Int) :=
  let n := Gen.catchUnpackPrefix.length
  if opts.length < n then .error .valueError else
  match catchUnpackDepthIdx, catchRepackDepthIdx with
  | some i, some j =>
    match opts[i]? with
    | some d =>
      let d' := Gen.catchDepth fromDecorator frames d
      .ok ((List.range Gen.catchRepackPrefix.length).map (fun k => if k = j then d' else 1) ++ opts.drop n)
    | none => .error .valueError
  | _, _ => .error .other

/-- A record produced by `catch()` (decorator shapes, `with`, `async with`). -/
def logViaCatch (lib : Str → Frame) (w : CatchRow) (opts : List Int) (us : List Frame) (ex : Exec) :
    Except Err Record :=
  match catchOptions w.fromDecorator w.frames opts with
  | .error e => .error e
  | .ok o => logCore (stackAtLog lib w.chain us) o ex

/-! ### `opt()`: the depth the derived logger carries -/

/-- depth option of the logger a return path of `opt(depth=d, …)` yields -/
def optDepth (fwd : DepthFwd) (d : Int) : Int :=
  match fwd with
  | .param => d
  | .default => Gen.optDepthDefault
  | .const k => k

/-- `_options` of the logger returned by `opt(depth=d, …)` on a logger whose options are `opts`
(`opt` rebuilds every slot but the last two from its arguments; only the depth slot is interpreted) -/
def optOptions (fwd : DepthFwd) (d : Int) (opts : List Int) : List Int :=
  opts.set Gen.initDepthIndex (optDepth fwd d)

/-! ### `sys._getframe` converts its argument to a C `int`

`sys._getframe(n)` parses `n` with the `i` format: an index outside `[-2³¹, 2³¹-1]` raises OverflowError (rendered
`.other`) before any frame is looked at.  `getFrame` above is the function on mathematical integers the index theorems
speak about; the `…C` variants mirror what the interpreter does for EVERY integer, and `logCoreC_eq_logCore` says they
coincide whenever `Gen.frameIndex depth` is a C int (always the case for a depth inside any real stack). -/

def cIntMax : Int := 2147483647
def cIntMin : Int := -2147483648

def getFrameC (stack : List Frame) (n : Int) : Except Err Frame :=
  if n < cIntMin ∨ cIntMax < n then .error .other else getFrame stack n

/-- `try: frame = get_frame(depth + K) except <handler types>: …` with the real `sys._getframe` -/
def selectLocalsC (stack : List Frame) (depth : Int) : Except Err Locals :=
  match getFrameC stack (Gen.frameIndex depth) with
  | .ok f => .ok (localsOfFrame f)
  | .error .valueError =>
    if Gen.beyondStackHandled then .ok placeholderLocals else .error .valueError
  | .error .other =>
    if Gen.overflowHandled then .ok placeholderLocals else .error .other
  | .error e => .error e

def logCoreC (stack : List Frame) (options : List Int) (ex : Exec) : Except Err Record :=
  match unpackDepth options with
  | .error e => .error e
  | .ok depth =>
    match selectLocalsC stack depth with
    | .error e => .error e
    | .ok l =>
      match lookupName l.f_globals_name with
      | .error e => .error e
      | .ok name => .ok (mkRecord l name ex)

def logViaMethodC (lib : Str → Frame) (m : MethodRow) (opts : List Int) (us : List Frame) (ex : Exec) :
    Except Err Record :=
  logCoreC (stackAtLog lib m.chain us) (m.opts.eval 1 opts) ex

def logViaCatchC (lib : Str → Frame) (w : CatchRow) (opts : List Int) (us : List Frame) (ex : Exec) :
    Except Err Record :=
  match catchOptions w.fromDecorator w.frames opts with
  | .error e => .error e
  | .ok o => logCoreC (stackAtLog lib w.chain us) o ex

/-! ### derived loggers: `Logger.__init__`, `bind`, `patch`, `opt` and the root logger of `loguru/__init__.py`

Every derivation ends in `Logger(<self>._core, a₁, …, a₉)`; the GENERATED tables `Gen.bindArgs`, `Gen.patchArgs`,
`Gen.optArgs`, `Gen.rootArgs` say where each `aₖ` comes from (an old slot, the `depth` parameter, a new value) and
`Gen.ctorSlots` says which constructor parameter `__init__` stores in which slot of `_options`. -/

/-- `map` in the `Except` monad, written out (so that it reduces on concrete tables) -/
def mapE {α β : Type} (f : α → Except Err β) : List α → Except Err (List β)
  | [] => .ok []
  | a :: as =>
    match f a with
    | .error e => .error e
    | .ok b =>
      match mapE f as with
      | .error e => .error e
      | .ok bs => .ok (b :: bs)

/-- the value of one constructor argument: `opts` = `_options` of the deriving logger, `d` = the method's `depth`
parameter, `fresh` = any new value (uninterpreted: only the depth slot is ever read) -/
def evalSrc (opts : List Int) (d fresh : Int) : Src → Except Err Int
  | .old i => match opts[i]? with
    | some v => .ok v
    | none => .error .indexError
  | .depthParam => .ok d
  | .fresh => .ok fresh

/-- `Logger.__init__(core, *args)`: TypeError on a wrong number of arguments; slot `k` of `_options` receives the
parameter `Gen.ctorSlots[k]` -/
def construct (args : List Int) : Except Err (List Int) :=
  if args.length ≠ Gen.ctorSlots.length then .error .typeError else
  mapE (fun p => match args[p]? with
    | some v => .ok v
    | none => .error .typeError) Gen.ctorSlots

/-- one derivation: evaluate the constructor arguments, then construct -/
def deriveWith (srcs : List Src) (d fresh : Int) (opts : List Int) : Except Err (List Int) :=
  match mapE (evalSrc opts d fresh) srcs with
  | .error e => .error e
  | .ok args => construct args

/-- a step of a derivation history: `bind(...)`, `patch(...)`, or `opt(depth=d, …)` leaving through a return path
that hands depth on as `fwd` (`Gen.optPaths`) -/
inductive Deriv where
  | bind | patch
  | opt (d : Int) (fwd : DepthFwd)
  deriving DecidableEq, Repr

def applyDeriv (fresh : Int) (opts : List Int) : Deriv → Except Err (List Int)
  | .bind => deriveWith Gen.bindArgs 0 fresh opts
  | .patch => deriveWith Gen.patchArgs 0 fresh opts
  | .opt d fwd => deriveWith Gen.optArgs (optDepth fwd d) fresh opts

/-- `logger.<d₁>(…).<d₂>(…)…` starting from a logger whose options are `opts` -/
def runDerivs (fresh : Int) : List Deriv → List Int → Except Err (List Int)
  | [], opts => .ok opts
  | x :: xs, opts =>
    match applyDeriv fresh opts x with
    | .error e => .error e
    | .ok o => runDerivs fresh xs o

/-- `_options` of `loguru.logger` as `loguru/__init__.py` constructs it -/
def rootOptions (fresh : Int) : Except Err (List Int) :=
  deriveWith Gen.rootArgs Gen.rootDepth fresh []

/-- `loguru.logger.<d₁>(…)…<dₙ>(…)` -/
def derivedFromRoot (fresh : Int) (ds : List Deriv) : Except Err (List Int) :=
  match rootOptions fresh with
  | .error e => .error e
  | .ok o => runDerivs fresh ds o

/-! ### a history of calls: when the calling thread / process are looked up -/

/-- the context a lookup policy yields: the call's own, the one of the thread's first logging call
(a value kept in `core.thread_locals`), or the one at import of `loguru._logger` -/
def lookupCtx (l : Lookup) (imported first now : Exec) : Option Exec :=
  match l with
  | .perCall => some now
  | .cachedPerThread => some first
  | .atImport => some imported
  | .other => none

/-- the context `_log` effectively reads at a call made in context `now` (thread fields through
`Gen.threadLookup`, process fields through `Gen.processLookup`, the clock always fresh) -/
def effectiveExec (imported first now : Exec) : Option Exec :=
  match lookupCtx Gen.threadLookup imported first now, lookupCtx Gen.processLookup imported first now with
  | some t, some p =>
    some { now with threadId := t.threadId, threadName := t.threadName,
                    processId := p.processId, processName := p.processName }
  | _, _ => none

/-- a sequence of logging calls, each made in its own context (threads and processes may change and
be renamed between calls); `cache` maps a thread id to the context of its first logging call -/
def runHistory (imported : Exec) : List (Int × Exec) → List Exec → List (Option Exec)
  | _, [] => []
  | cache, now :: rest =>
    match cache.lookup now.threadId with
    | some first => effectiveExec imported first now :: runHistory imported cache rest
    | none => effectiveExec imported now now :: runHistory imported ((now.threadId, now) :: cache) rest

/-- `effectiveExec` / `runHistory` for ANY lookup policies (the generated ones are `Gen.threadLookup`,
`Gen.processLookup`): used to refute the caching shapes, e.g. across `os.fork()`, where the child keeps the thread
ident (and every thread-local / module-level value) of the forking thread but is another process -/
def effectiveExecWith (lt lp : Lookup) (imported first now : Exec) : Option Exec :=
  match lookupCtx lt imported first now, lookupCtx lp imported first now with
  | some t, some p =>
    some { now with threadId := t.threadId, threadName := t.threadName,
                    processId := p.processId, processName := p.processName }
  | _, _ => none

def runHistoryWith (lt lp : Lookup) (imported : Exec) : List (Int × Exec) → List Exec → List (Option Exec)
  | _, [] => []
  | cache, now :: rest =>
    match cache.lookup now.threadId with
    | some first => effectiveExecWith lt lp imported first now :: runHistoryWith lt lp imported cache rest
    | none => effectiveExecWith lt lp imported now now :: runHistoryWith lt lp imported ((now.threadId, now) :: cache) rest

/-! ### one Catcher object used by several actors whose exits overlap

`logger.catch()` returns ONE object; nothing stops an application from entering it in several threads / tasks at once
(and the `Catcher(True)` a decoration creates is shared by every call of the decorated function).  A use through the
`with` protocol calls `__exit__` directly, a use through `async with` goes through `__aexit__`.  The steps of different
actors interleave arbitrarily.  `src` says where `__exit__` takes the extra-frame correction from (GENERATED:
`Gen.exitFramesSrc`): `.param` – an argument of the call; `.selfAttr` – an attribute `__aexit__` sets before and resets
after the call (the refuted shape). -/

inductive Proto where
  | sync | async
  deriving DecidableEq, Repr

/-- a step of actor `a`: `__aexit__` entered (before it calls `__exit__`), `__exit__` computes the depth and logs,
`__aexit__` left -/
inductive SStep where
  | enter (a : Nat) | exit (a : Nat) | leave (a : Nat)
  deriving DecidableEq, Repr

/-- the `_frames` value the `async with` row of the generated table passes -/
def asyncRowFrames : Int :=
  ((Gen.catchRows.find? (fun w => w.shape == "async with".toList)).map (·.frames)).getD Gen.exitFramesDefault

def protoFrames : Proto → Int
  | .sync => Gen.exitFramesDefault
  | .async => asyncRowFrames

/-- state = (the object's attribute, the depths computed so far, per actor) -/
def sharedStep (src : FramesSrc) (flag : Bool) (d : Int) (proto : Nat → Proto) :
    Int × List (Nat × Int) → SStep → Int × List (Nat × Int)
  | (extra, out), .enter a =>
    (if src = .selfAttr ∧ proto a = .async then asyncRowFrames else extra, out)
  | (extra, out), .exit a =>
    let fr := match src with
      | .param => protoFrames (proto a)
      | .selfAttr => extra
    (extra, out ++ [(a, Gen.catchDepth flag fr d)])
  | (extra, out), .leave a =>
    (if src = .selfAttr ∧ proto a = .async then Gen.exitFramesDefault else extra, out)

def runShared (src : FramesSrc) (flag : Bool) (d : Int) (proto : Nat → Proto) (sched : List SStep) :
    Int × List (Nat × Int) :=
  sched.foldl (sharedStep src flag d proto) (Gen.exitFramesDefault, [])

/-! ### `time`: when `aware_now()` looks the local UTC offset up

The record's `time` is the clock reading of the call combined with a tzinfo; `Gen.tzLookup` (GENERATED from
`loguru/_datetime.py`) says whether that tzinfo is derived from the reading itself (`.perCall`), kept from the first call or
built at import.  A history is the sequence of UTC offsets in force at the successive calls (the zone's rules, a DST
switch, `time.tzset()` between two calls). -/

/-- the value a lookup policy yields (generic version of `lookupCtx`) -/
def lookupVal {α : Type} (l : Lookup) (imported first now : α) : Option α :=
  match l with
  | .perCall => some now
  | .cachedPerThread => some first
  | .atImport => some imported
  | .other => none

/-- the offsets the records of a history of calls carry; `first` = the offset at the first call ever made -/
def runOffsets (l : Lookup) (imported : Int) : Option Int → List Int → List (Option Int)
  | _, [] => []
  | none, now :: rest => lookupVal l imported now now :: runOffsets l imported (some now) rest
  | some first, now :: rest => lookupVal l imported first now :: runOffsets l imported (some first) rest

/-! ### `get_frame_fallback` (interpreters without `sys._getframe`) -/

/-- the loop `for _ in range(n): [if frame is None: break]; frame = frame.f_back` on the chain of
`f_back` links: the state is the remaining stack (its head is `frame`, `[]` is `None`);
`None.f_back` is an AttributeError -/
def fallbackWalk (breaks : Bool) : Nat → List Frame → Except Err (List Frame)
  | 0, st => .ok st
  | _ + 1, [] => if breaks then .ok [] else .error .attributeError
  | n + 1, _ :: rest => fallbackWalk breaks n rest

/-- `get_frame_fallback(n)` seen from its caller (`stack` = the caller's stack, like `sys._getframe`);
`.ok none` = the function returns `None` -/
def getFrameFallback (stack : List Frame) (n : Nat) : Except Err (Option Frame) :=
  match fallbackWalk Gen.fallbackBreaksOnNone n stack with
  | .error e => .error e
  | .ok [] => if Gen.fallbackRaisesOnNone then .error .valueError else .ok none
  | .ok (f :: _) => .ok (some f)

end Frames
