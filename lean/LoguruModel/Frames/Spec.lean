import LoguruModel.Frames.Model
/-!
Frames (C17) – the specification the property is stated against: the record a given frame and
executing context *should* yield, and the placeholder record.
-/
namespace Frames.Spec
open Py Frames

/-- the record that identifies frame `f`, executed in context `ex` -/
def recordOf (f : Frame) (ex : Exec) : Record :=
  { name := .optStr (f.gname.bind id),
    function := .str f.func,
    line := .int f.line,
    module := .str (stem (basename f.file)),
    fileName := .str (basename f.file),
    filePath := .str f.file,
    threadId := .int ex.threadId, threadName := .str ex.threadName,
    processId := .int ex.processId, processName := .str ex.processName,
    time := .int ex.now,
    elapsed := .int (ex.now - ex.start) }

/-- the documented placeholders when the requested frame does not exist -/
def placeholderRecord (ex : Exec) : Record :=
  { name := .optStr none,
    function := .str "<unknown>".toList,
    line := .int 0,
    module := .str "<unknown>".toList,
    fileName := .str "<unknown>".toList,
    filePath := .str "<unknown>".toList,
    threadId := .int ex.threadId, threadName := .str ex.threadName,
    processId := .int ex.processId, processName := .str ex.processName,
    time := .int ex.now,
    elapsed := .int (ex.now - ex.start) }

/-- well-formed options tuple whose depth slot holds `d` -/
def OptionsWithDepth (opts : List Int) (d : Int) : Prop :=
  opts.length = 9 ∧ opts[1]? = some d

/-- the documented depth of a derived logger: that of the last `opt(depth=…)` of the history (`bind` and `patch`
keep it; every `opt()` call sets it anew), `d0` when the history has no `opt` -/
def specDepth : List Deriv → Int → Int
  | [], d0 => d0
  | .bind :: xs, d0 => specDepth xs d0
  | .patch :: xs, d0 => specDepth xs d0
  | .opt d _ :: xs, _ => specDepth xs d

/-- every `opt` step of the history leaves `opt()` through one of the return paths the source has -/
def PathsOfSource (ds : List Deriv) : Prop :=
  ∀ d fwd, Deriv.opt d fwd ∈ ds → fwd ∈ Gen.optPaths.map (·.2)

end Frames.Spec
