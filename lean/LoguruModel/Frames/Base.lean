import LoguruModel.Py.Basic
/-!
Frames (C17) – base types shared by the generated tables (`Generated/Frames.lean`, rewritten from
`/repo/loguru/_logger.py` on every run) and the hand model (`Frames/Model.lean`).
No Mathlib.  Text is `Py.Str = List Char`.
-/
namespace Frames
open Py

/-- A Python frame as far as `_log` reads it.
`gname` is the result of looking `"__name__"` up in `f_globals`:
`none` = key absent (KeyError), `some none` = the value `None`, `some (some s)` = a string. -/
structure Frame where
  gname : Option (Option Str)
  file : Str          -- f_code.co_filename
  func : Str          -- f_code.co_name
  line : Int          -- f_lineno
  deriving DecidableEq, Repr

/-- The executing context `_log` reads through `current_thread()`, `current_process()`,
`aware_now()` and the module constant `start_time` (times in integer microseconds). -/
structure Exec where
  threadId : Int
  threadName : Str
  processId : Int
  processName : Str
  now : Int
  start : Int
  deriving DecidableEq, Repr

/-- Values stored in a record (only the shapes C17 talks about). -/
inductive Val where
  | str (s : Str)
  | int (i : Int)
  | optStr (o : Option Str)     -- `name`: a string or `None`
  | unknown                     -- an expression the extractor does not know
  deriving DecidableEq, Repr

/-- The local variables / expressions of `_log` a record field can be built from.  The extractor
maps the *source text* of each `log_record` entry to one of these; anything else is `other`. -/
inductive Local where
  | co_name | f_lineno | co_filename | name
  | file_name            -- `file_name = basename(co_filename)`
  | file_stem            -- `splitext(file_name)[0]`
  | thread_ident | thread_name | process_ident | process_name
  | current_datetime     -- `aware_now()`
  | elapsed              -- `current_datetime - start_time`
  | other
  deriving DecidableEq, Repr

/-- WHEN `_log` obtains the calling thread / process object: on every call (`x = current_x()` in
`_log`'s own body), once per thread (kept in `core.thread_locals`), once at import (a module-level
object), or in a way the extractor does not understand. -/
inductive Lookup where
  | perCall | cachedPerThread | atImport | other
  deriving DecidableEq, Repr

/-- What a return path of `opt()` hands on as the depth option: its own `depth` parameter, nothing
(so the callee's default applies), or a constant. -/
inductive DepthFwd where
  | param | default | const (k : Int)
  deriving DecidableEq, Repr

/-- Where a positional argument of a `Logger(core, …)` call inside `bind` / `patch` / `opt` (or of the root
logger's construction in `loguru/__init__.py`) comes from: slot `i` of the deriving logger's `_options`
(directly, through a starred unpacking or through a slice), the method's own `depth` parameter, or
any other (new) value. -/
inductive Src where
  | old (i : Nat) | depthParam | fresh
  deriving DecidableEq, Repr

/-- Where `Catcher.__exit__` reads the extra-frame correction of the `async with` protocol from: a parameter of
the call (per-call state) or an attribute of the Catcher object (state shared by every user of the object). -/
inductive FramesSrc where
  | param | selfAttr
  deriving DecidableEq, Repr

/-- How a public logging method derives the options it hands to `_log` from `self._options`:
`selfOptions` = `__self._options` itself; `prependDrop p d` = a `p`-tuple of constants followed by
`__self._options[d:]` (the shape of `exception()`: `(True,) + __self._options[1:]`). -/
inductive OptExpr where
  | selfOptions
  | prependDrop (pre drop : Nat)
  deriving DecidableEq, Repr

def OptExpr.eval {α : Type} (e : OptExpr) (const : α) (opts : List α) : List α :=
  match e with
  | .selfOptions => opts
  | .prependDrop p d => List.replicate p const ++ opts.drop d

/-- One public logging method: its name, the functions between the user's call and `_log`
(innermost first: the direct caller of `_log` first) and its options expression. -/
structure MethodRow where
  name : Str
  chain : List Str
  opts : OptExpr
  deriving DecidableEq, Repr

/-- One way of reaching `_log` through `catch()`: shape name, the library functions on the stack
between `_log` and the user's frame (innermost first), the `from_decorator` flag of the
`Catcher` instance involved and the `_frames` argument `__exit__` is called with (its default for
the `with` protocol, the keyword `__aexit__` passes). -/
structure CatchRow where
  shape : Str
  chain : List Str
  fromDecorator : Bool
  frames : Int
  deriving DecidableEq, Repr

/-- posixpath.basename: the part after the last '/'. -/
def basenameGo (acc : Str) : Str → Str
  | [] => acc
  | c :: cs => if c = '/' then basenameGo [] cs else basenameGo (acc ++ [c]) cs

def basename (p : Str) : Str := basenameGo [] p

/-- all characters are dots (vacuously true for the empty text) -/
def allDots (s : Str) : Bool := s.all (· = '.')

/-- split at the last '.': `(before, after)`; `none` when there is no dot -/
def splitLastDot : Str → Option (Str × Str)
  | [] => none
  | c :: cs =>
    match splitLastDot cs with
    | some (a, b) => some (c :: a, b)
    | none => if c = '.' then some ([], cs) else none

/-- `os.path.splitext(name)[0]` for a name without '/' (genericpath._splitext with sep absent):
cut at the last dot unless everything before it is dots (leading dots do not start an extension). -/
def stem (name : Str) : Str :=
  match splitLastDot name with
  | none => name
  | some (a, _) => if allDots a then name else a

end Frames
