import LoguruModel.Exc.Lemmas
/-
C13 – layout of a flat exception group (round 5): a group whose members are plain exceptions without
chain links – what `asyncio.TaskGroup`, `except*` and `concurrent` helpers typically raise.
-/
namespace Exc
open Py

/-- neither a group nor chained to anything -/
def Leaf (x : Exn) : Prop := x.group = none ∧ x.cause = none ∧ x.context = none

theorem nextLink_leaf (x : Exn) (hc : x.cause = none) (hx : x.context = none) (s : List ExcId) : nextLink x s = none := by
  simp [nextLink, unseenOpt, hc, hx]

theorem fmt_leaf (h : Heap) (o : Opts) (b : Nat) (seen : List ExcId) (m : ExcId) (x : Exn) (a1 a2 : Bool) (n : Nat)
    (hx : h[m]? = some x) (hl : Leaf x) :
    fmt h o (b + 1) seen m a1 a2 n = .ok (renderOwn o m x a1 a2 n, addSeen seen m) := by
  obtain ⟨hg, hc, hcx⟩ := hl
  simp [fmt, hx, nextLink_leaf x hc hcx, hg]

/-- what one member contributes: its frames and closing lines, one level deeper -/
def ownOf (h : Heap) (o : Opts) (m : ExcId) (nesting : Nat) : List Piece :=
  match h[m]? with
  | some x => renderOwn o m x false false nesting
  | none => []

/-- the member part of a flat group, as the loop of `_format_exception` produces it -/
def flatPieces (h : Heap) (o : Opts) (nesting total : Nat) : Nat → List ExcId → List Piece
  | _, [] => []
  | n, m :: ms =>
    if n > Gen.groupWidth then [Piece.ruler none (n == 1) nesting, Piece.more (total - Gen.groupWidth) (nesting + 1)]
    else Piece.ruler (some n) (n == 1) nesting :: (ownOf h o m (nesting + 1) ++ flatPieces h o nesting total (n + 1) ms)

theorem members_flat (h : Heap) (o : Opts) (b nesting total : Nat) :
    ∀ (ms : List ExcId), (∀ m ∈ ms, ∃ y, h[m]? = some y ∧ Leaf y) →
      ∀ (n : Nat) (seen : List ExcId) (last : Option ExcId),
        ∃ s l, members h (fun s m => fmt h o (b + 1) s m false false (nesting + 1)) nesting total n ms seen last =
            .ok (flatPieces h o nesting total n ms, s, l) ∧
          (ms = [] → l = last) ∧ (ms ≠ [] → ∃ m ∈ ms, l = some m) := by
  intro ms
  induction ms with
  | nil => intro _ n seen last; exact ⟨seen, last, rfl, fun _ => rfl, fun hne => absurd rfl hne⟩
  | cons m ms ih =>
    intro hleaf n seen last
    obtain ⟨y, hy, hly⟩ := hleaf m (List.mem_cons_self ..)
    have hng : isGroup h m = false := by simp [isGroup, hy, hly.1]
    simp only [members, flatPieces]
    split
    · exact ⟨seen, some m, rfl, fun hh => (by cases hh), fun _ => ⟨m, List.mem_cons_self .., rfl⟩⟩
    · simp only [hng, Bool.and_false, Bool.false_eq_true, if_false, fmt_leaf h o b _ m y _ _ _ hy hly]
      obtain ⟨s, l, hrec, hnil, hcons⟩ := ih (fun m' hm' => hleaf m' (List.mem_cons_of_mem _ hm')) (n + 1)
        (addSeen seen m) (some m)
      refine ⟨s, l, ?_, fun hh => (by cases hh), fun _ => ?_⟩
      · simp [hrec, ownOf, hy]
      · cases ms with
        | nil => exact ⟨m, List.mem_cons_self .., hnil rfl⟩
        | cons m2 ms2 =>
          obtain ⟨m', hm', hl'⟩ := hcons (by simp)
          exact ⟨m', List.mem_cons_of_mem _ hm', hl'⟩

/-- the loop output in closed form: numbered separators 1, 2, … before the members, at most `groupWidth` of them,
then the "... / and k more" entry -/
theorem flatPieces_closed (h : Heap) (o : Opts) (nesting total : Nat) :
    ∀ (ms : List ExcId) (n : Nat), 1 ≤ n → n ≤ Gen.groupWidth + 1 →
      flatPieces h o nesting total n ms =
        ((ms.take (Gen.groupWidth + 1 - n)).zipIdx n).flatMap
            (fun p => Piece.ruler (some p.2) (p.2 == 1) nesting :: ownOf h o p.1 (nesting + 1)) ++
          (if Gen.groupWidth + 1 - n < ms.length then
            [Piece.ruler none false nesting, Piece.more (total - Gen.groupWidth) (nesting + 1)] else []) := by
  intro ms
  induction ms with
  | nil => intro n _ _; simp [flatPieces]
  | cons m ms ih =>
    intro n h1 h2
    simp only [flatPieces]
    split
    · rename_i hgt
      have : Gen.groupWidth + 1 - n = 0 := by omega
      have hn1 : (n == 1) = false := by
        have : n ≠ 1 := by simp [Gen.groupWidth] at hgt; omega
        simpa using this
      simp [this, hn1]
    · rename_i hle
      have hstep : Gen.groupWidth + 1 - n = (Gen.groupWidth + 1 - (n + 1)) + 1 := by omega
      rw [ih (n + 1) (by omega) (by omega), hstep, List.take_succ_cons, List.zipIdx_cons, List.flatMap_cons]
      simp only [List.length_cons, List.cons_append, List.append_assoc]
      congr 2
      congr 1
      have : (Gen.groupWidth + 1 - (n + 1) + 1 < ms.length + 1) = (Gen.groupWidth + 1 - (n + 1) < ms.length) := by
        simp
      simp only [this]

theorem close_of_leaf (h : Heap) (nesting : Nat) (l : Option ExcId) (hl : ∀ l', l = some l' → isGroup h l' = false) :
    (match l with
      | some l' => if (!isGroup h l' || nesting == Gen.groupDepth) = true then [Piece.groupEnd nesting] else []
      | none => [Piece.groupEnd nesting]) = [Piece.groupEnd nesting] := by
  cases l with
  | none => rfl
  | some l' => simp [hl l' rfl]

/-- a chain-free group of leaves at a nesting level ≥ 1 -/
theorem fmt_flat_group (h : Heap) (o : Opts) (b : Nat) (seen : List ExcId) (e : ExcId) (x : Exn) (a1 a2 : Bool)
    (nesting : Nat) (hx : h[e]? = some x) (ms : List ExcId) (hg : x.group = some ms) (hc : x.cause = none)
    (hcx : x.context = none) (hn : (nesting == 0) = false) (hleaf : ∀ m ∈ ms, ∃ y, h[m]? = some y ∧ Leaf y) :
    ∃ s, fmt h o (b + 2) seen e a1 a2 nesting =
      .ok (renderOwn o e x a1 a2 nesting ++ flatPieces h o nesting ms.length 1 ms ++ [Piece.groupEnd nesting], s) := by
  obtain ⟨s, l, hm, hnil, hcons⟩ := members_flat h o b nesting ms.length ms hleaf 1 (addSeen seen e) none
  have hl : ∀ l', l = some l' → isGroup h l' = false := by
    intro l' hl'
    cases ms with
    | nil => rw [hnil rfl] at hl'; cases hl'
    | cons m0 ms0 =>
      obtain ⟨m', hm', hlm⟩ := hcons (by simp)
      rw [hlm] at hl'; cases hl'
      obtain ⟨y, hy, hly⟩ := hleaf l' hm'
      simp [isGroup, hy, hly.1]
  refine ⟨s, ?_⟩
  rw [fmt]
  simp only [hx, nextLink_leaf x hc hcx, hg, hn, Bool.and_false, Bool.false_eq_true, if_false, hm,
    List.nil_append, List.append_assoc]
  cases l with
  | none => rfl
  | some l' => simp [hl l' rfl]

/-- the same group logged at top level: `_format_exception` calls itself once more with `group_nesting=1` -/
theorem fmt_flat_root_group (h : Heap) (o : Opts) (b : Nat) (e : ExcId) (x : Exn) (a1 a2 : Bool)
    (hx : h[e]? = some x) (ms : List ExcId) (hg : x.group = some ms) (hc : x.cause = none)
    (hcx : x.context = none) (hleaf : ∀ m ∈ ms, ∃ y, h[m]? = some y ∧ Leaf y) :
    ∃ s, fmt h o (b + 3) [] e a1 a2 0 =
      .ok (renderOwn o e x a1 a2 1 ++ flatPieces h o 1 ms.length 1 ms ++ [Piece.groupEnd 1], s) := by
  obtain ⟨s, hs⟩ := fmt_flat_group h o b (addSeen [] e) e x a1 a2 1 hx ms hg hc hcx rfl hleaf
  refine ⟨s, ?_⟩
  rw [fmt]
  simp only [hx, nextLink_leaf x hc hcx, hg, Option.isSome_some, beq_self_eq_true, Bool.and_self, if_true, hs,
    List.nil_append]

end Exc
