import LoguruModel.Exc.Model
import LoguruModel.Py.Slice
/-
C13 – `ExceptionFormatter._extract_frames`, statement by statement (round 5).

`Exc.extractFrames` (Model.lean) describes the result at list level.  Here the function is
transcribed as it is written – early return, the `infos` list, the upward `while frame:` loop with
`infos.insert(0, …)` and its `break`, the `infos[-1]` catch-point marking, the traceback loop, the
limit slice – and every decision and the slice are the kernels REGENERATED from the source
(`Gen.earlyReturn`, `Gen.walkCond`, `Gen.walkBreaks`, `Gen.markCond`, `Gen.limitApplies`,
`Gen.limitSlice` over `Py.slice`).  `extractLoop_eq` (FramesLemmas.lean) proves the two equal.
-/
namespace Exc
open Py

/-- `while frame: if include(frame): infos.insert(0, …); if <breaks>: break` / `frame = frame.f_back`
(`up` = the `f_back` chain, innermost first).  `Gen.parentWalkSkipsHidden` says whether the `break` is inside the
visibility test (it is); the other shape would leave the loop at the first caller whatever it is. -/
def walkUp (breaks : Bool) : List Frame → List Shown → List Shown
  | [], infos => infos
  | f :: up, infos =>
    if !f.hidden then
      let infos' := (⟨f, false⟩ : Shown) :: infos
      if breaks then infos' else walkUp breaks up infos'
    else if breaks && !Gen.parentWalkSkipsHidden then infos
    else walkUp breaks up infos

/-- `(info, frame) = infos[-1]; function += catch_point_identifier; infos[-1] = …` -/
def setLastMark : List Shown → List Shown
  | [] => []
  | [s] => [⟨s.fr, true⟩]
  | s :: t :: rest => s :: setLastMark (t :: rest)

/-- `while tb: if include(tb.tb_frame): infos.append(…); tb = tb.tb_next` -/
def appendTb : List Shown → List Frame → List Shown
  | infos, [] => infos
  | infos, f :: rest => appendTb (if !f.hidden then infos ++ [⟨f, false⟩] else infos) rest

/-- the `infos` list just before the limit is applied (`t0` = the first traceback entry) -/
def infosLoop (o : Opts) (isFirst fromDec : Bool) (t0 : Frame) (rest parents : List Frame) : List Shown :=
  let infos0 : List Shown := if !t0.hidden then [⟨t0, false⟩] else []
  let infos1 :=
    if Gen.walkCond o.backtrace isFirst fromDec then
      let w := walkUp (Gen.walkBreaks o.backtrace isFirst fromDec) parents infos0
      if Gen.markCond (!w.isEmpty) o.backtrace isFirst fromDec then setLastMark w else w
    else infos0
  appendTb infos1 rest

/-- `_extract_frames(tb, is_first, limit=sys.tracebacklimit, from_decorator=…)`; `tb = []` is `tb is None` -/
def extractLoop (o : Opts) (isFirst fromDec : Bool) (tb parents : List Frame) : List Shown :=
  if Gen.earlyReturn tb.isEmpty o.limit.isNone (o.limit.getD 0) then [] else
  match tb with
  | [] => []
  | t0 :: rest =>
    let infos := infosLoop o isFirst fromDec t0 rest parents
    if Gen.limitApplies o.limit.isNone then Gen.limitSlice (o.limit.getD 0) infos else infos

/-! ### reading a folded frame list back (what `harness/c13.py` oracle 5 does with a report) -/

abbrev FrameKey := Str × Int × Str × Bool

/-- expand `[Previous line repeated n more times]` into n further copies of the frame line above it; value
lines and everything else are skipped -/
def expandFolded : Option FrameKey → List Piece → List FrameKey
  | _, [] => []
  | _, .frame f m _ :: ps => (f.file, f.line, f.func, m) :: expandFolded (some (f.file, f.line, f.func, m)) ps
  | last, .repeated n _ :: ps =>
    (match last with | some k => List.replicate n k | none => []) ++ expandFolded last ps
  | last, _ :: ps => expandFolded last ps

end Exc
