import LoguruModel.Exc.Spec
/-
C13 – helper lemmas (invariants of `members` / `fmt` proved by induction on the budget).
-/
namespace Exc
open Py

/-! ### a predicate on pieces is preserved by the whole formatter -/

theorem members_all (P : Piece → Prop) (h : Heap) (f : List ExcId → ExcId → Res) (nesting total : Nat)
    (hf : ∀ s m r s', f s m = .ok (r, s') → ∀ p ∈ r, P p)
    (hr : ∀ n b d, P (Piece.ruler n b d)) (hm : ∀ n d, P (Piece.more n d)) (hd : ∀ d, P (Piece.maxDepth d)) :
    ∀ (ms : List ExcId) (n : Nat) (seen : List ExcId) (last : Option ExcId) ps s l,
      members h f nesting total n ms seen last = .ok (ps, s, l) → ∀ p ∈ ps, P p := by
  intro ms
  induction ms with
  | nil => intro n seen last ps s l he; simp [members] at he; obtain ⟨rfl, _, _⟩ := he; simp
  | cons m ms ih =>
    intro n seen last ps s l he
    simp only [members] at he
    split at he
    · simp at he; obtain ⟨rfl, _, _⟩ := he
      intro p hp; simp at hp; rcases hp with rfl | rfl
      · exact hr _ _ _
      · exact hm _ _
    · split at he
      · split at he
        · rename_i ps' s' l' hrec
          simp at he; obtain ⟨rfl, _, _⟩ := he
          intro p hp; simp at hp; rcases hp with rfl | rfl | hp
          · exact hr _ _ _
          · exact hd _
          · exact ih _ _ _ _ _ _ hrec p hp
        · simp at he
      · split at he
        · simp at he
        · rename_i r s1 hfm
          split at he
          · rename_i ps' s' l' hrec
            simp at he; obtain ⟨rfl, _, _⟩ := he
            intro p hp; simp at hp; rcases hp with rfl | hp | hp
            · exact hr _ _ _
            · exact hf _ _ _ _ hfm p hp
            · exact ih _ _ _ _ _ _ hrec p hp
          · simp at he

theorem fmt_all (P : Piece → Prop) (h : Heap) (o : Opts)
    (hown : ∀ e x isFirst fromDec n, ∀ p ∈ renderOwn o e x isFirst fromDec n, P p)
    (hc : ∀ d, P (Piece.causeMsg d)) (hx : ∀ d, P (Piece.contextMsg d))
    (hr : ∀ n b d, P (Piece.ruler n b d)) (hm : ∀ n d, P (Piece.more n d)) (hd : ∀ d, P (Piece.maxDepth d))
    (he : ∀ d, P (Piece.groupEnd d)) :
    ∀ (budget : Nat) (seen : List ExcId) (e : ExcId) (isFirst fromDec : Bool) (nesting : Nat) ps s,
      fmt h o budget seen e isFirst fromDec nesting = .ok (ps, s) → ∀ p ∈ ps, P p := by
  intro budget
  induction budget with
  | zero =>
    intro seen e isFirst fromDec nesting ps s hf
    simp only [fmt] at hf
    split at hf
    · simp at hf; obtain ⟨rfl, _⟩ := hf; simp
    · simp at hf
  | succ b ih =>
    intro seen e isFirst fromDec nesting ps s hf
    simp only [fmt] at hf
    split at hf
    · simp at hf; obtain ⟨rfl, _⟩ := hf; simp
    · rename_i x hx'
      -- the chain part
      have hchain : ∀ co s2,
          (match nextLink x (addSeen seen e) with
            | none => (Except.ok ([], addSeen seen e) : Res)
            | some (isCause, c) =>
              match fmt h o b (addSeen seen e) c false false nesting with
              | .error err => .error err
              | .ok (r, s) => .ok (r ++ [if isCause then Piece.causeMsg nesting else Piece.contextMsg nesting], s))
            = .ok (co, s2) → ∀ p ∈ co, P p := by
        intro co s2 hco
        split at hco
        · simp at hco; obtain ⟨rfl, _⟩ := hco; simp
        · split at hco
          · simp at hco
          · rename_i r s' hrec
            simp at hco; obtain ⟨rfl, _⟩ := hco
            intro p hp; simp at hp
            rcases hp with hp | rfl
            · exact ih _ _ _ _ _ _ _ hrec p hp
            · split
              · exact hc _
              · exact hx _
      split at hf
      · simp at hf
      · rename_i co s2 hco
        have hcoP := hchain co s2 hco
        split at hf
        · split at hf
          · simp at hf
          · rename_i r s' hrec
            simp at hf; obtain ⟨rfl, _⟩ := hf
            intro p hp; simp at hp
            rcases hp with hp | hp
            · exact hcoP p hp
            · exact ih _ _ _ _ _ _ _ hrec p hp
        · split at hf
          · simp at hf; obtain ⟨rfl, _⟩ := hf
            intro p hp; simp at hp
            rcases hp with hp | hp
            · exact hcoP p hp
            · exact hown _ _ _ _ _ p hp
          · rename_i ms hms
            split at hf
            · simp at hf
            · rename_i mps s' last hmem
              simp at hf; obtain ⟨rfl, _⟩ := hf
              have hmemP := members_all P h _ nesting ms.length
                (fun s m r s' hfm => ih s m false false (nesting + 1) r s' hfm) hr hm hd ms 1 s2 none mps s' last hmem
              intro p hp
              simp only [List.mem_append] at hp
              rcases hp with hp | hp | hp | hp
              · exact hcoP p hp
              · exact hown _ _ _ _ _ p hp
              · exact hmemP p hp
              · split at hp
                · split at hp
                  · simp at hp; subst hp; exact he _
                  · simp at hp
                · simp at hp; subst hp; exact he _

/-! ### folding -/

theorem foldFrames_all (P : Piece → Prop) (o : Opts) (d : Nat)
    (hfp : ∀ s, ∀ p ∈ framePieces o d s, P p) (hrep : ∀ n, P (Piece.repeated n d)) :
    ∀ (fs : List Shown) last count, ∀ p ∈ foldFrames o d last count fs, P p := by
  intro fs
  induction fs with
  | nil =>
    intro last count p hp
    simp only [foldFrames, skipPieces] at hp
    split at hp
    · simp at hp; subst hp; exact hrep _
    · simp at hp
  | cons s rest ih =>
    intro last count p hp
    simp only [foldFrames] at hp
    split at hp
    · split at hp
      · exact ih _ _ p hp
      · simp only [List.mem_append] at hp
        rcases hp with hp | hp
        · exact hfp _ p hp
        · exact ih _ _ p hp
    · simp only [List.mem_append, skipPieces] at hp
      rcases hp with (hp | hp) | hp
      · split at hp
        · simp at hp; subst hp; exact hrep _
        · simp at hp
      · exact hfp _ p hp
      · exact ih _ _ p hp

theorem renderOwn_all (P : Piece → Prop) (o : Opts)
    (hfp : ∀ d s, ∀ p ∈ framePieces o d s, P p) (hrep : ∀ n d, P (Piece.repeated n d))
    (hpfx : P Piece.pfx) (hintro : ∀ g d b, P (Piece.intro g d b)) (honly : ∀ e d, P (Piece.excOnly e d)) :
    ∀ e x isFirst fromDec n, ∀ p ∈ renderOwn o e x isFirst fromDec n, P p := by
  intro e x isFirst fromDec n p hp
  simp only [renderOwn, List.mem_append] at hp
  rcases hp with ((hp | hp) | hp) | hp
  · split at hp
    · simp at hp; subst hp; exact hpfx
    · simp at hp
  · split at hp
    · simp at hp
    · simp at hp; subst hp; exact hintro _ _ _
  · exact foldFrames_all P o n (hfp n) (fun k => hrep k n) _ _ _ p hp
  · simp at hp; subst hp; exact honly _ _

/-! ### erasing variable values (non-interference) -/

def eraseShown (s : Shown) : Shown := ⟨eraseFrame s.fr, s.mark⟩

theorem visible_erase (fs : List Frame) : visible (fs.map eraseFrame) = (visible fs).map eraseFrame := by
  induction fs with
  | nil => rfl
  | cons f fs ih =>
    simp only [visible, List.map_cons, List.filter_cons] at *
    have : (eraseFrame f).hidden = f.hidden := rfl
    rw [this]
    split <;> simp [ih]

theorem unmarked_erase (fs : List Frame) : unmarked (fs.map eraseFrame) = (unmarked fs).map eraseShown := by
  simp [unmarked, eraseShown, List.map_map, Function.comp_def]

theorem markLast_erase : ∀ fs : List Frame, markLast (fs.map eraseFrame) = (markLast fs).map eraseShown
  | [] => rfl
  | [f] => rfl
  | f :: g :: rest => by
    have ih := markLast_erase (g :: rest)
    simp only [List.map_cons, markLast] at *
    simp [ih, eraseShown]

theorem applyLimit_map {α β : Type} (f : α → β) (limit : Option Int) (l : List α) :
    applyLimit limit (l.map f) = (applyLimit limit l).map f := by
  cases limit <;> simp [applyLimit, List.map_drop]

theorem extractFrames_erase (o : Opts) (a b : Bool) (tb ps : List Frame) :
    extractFrames o a b (tb.map eraseFrame) (ps.map eraseFrame) = (extractFrames o a b tb ps).map eraseShown := by
  cases tb with
  | nil => rfl
  | cons t0 rest =>
    simp only [extractFrames, List.map_cons]
    split
    · rfl
    · have h1 : visible [eraseFrame t0] = (visible [t0]).map eraseFrame := visible_erase [t0]
      rw [← applyLimit_map, h1, visible_erase, visible_erase]
      congr 1
      simp only [List.map_append, unmarked_erase]
      congr 1
      split
      · rw [← List.map_take, ← List.map_append, unmarked_erase]
      · split
        · rw [← List.map_reverse, ← List.map_append, markLast_erase]
        · rfl

theorem framePieces_erase (o : Opts) (hd : o.diagnose = false) (d : Nat) (s : Shown) :
    framePieces o d (eraseShown s) = framePieces o d s := by
  simp [framePieces, hd, eraseShown, eraseFrame]

theorem foldFrames_erase (o : Opts) (hd : o.diagnose = false) (d : Nat) :
    ∀ (fs : List Shown) last count,
      foldFrames o d last count (fs.map eraseShown) = foldFrames o d last count fs := by
  intro fs
  induction fs with
  | nil => intro last count; rfl
  | cons s rest ih =>
    intro last count
    have hk : (eraseShown s).key = s.key := rfl
    simp only [List.map_cons, foldFrames, hk, framePieces_erase o hd, ih]

theorem renderOwn_erase (o : Opts) (hd : o.diagnose = false) (e : ExcId) (x : Exn) (a b : Bool) (n : Nat) :
    renderOwn o e (eraseExn x) a b n = renderOwn o e x a b n := by
  simp only [renderOwn, eraseExn, extractFrames_erase, foldFrames_erase o hd, List.isEmpty_map]

theorem members_congr (h h' : Heap) (f g : List ExcId → ExcId → Res) (nesting total : Nat)
    (hfg : ∀ s m, f s m = g s m) (hg : ∀ m, isGroup h m = isGroup h' m) :
    ∀ (ms : List ExcId) n seen last,
      members h f nesting total n ms seen last = members h' g nesting total n ms seen last := by
  intro ms
  induction ms with
  | nil => intro n seen last; rfl
  | cons m ms ih =>
    intro n seen last
    simp only [members, hfg, hg, ih]

theorem getElem?_eraseVals (h : Heap) (e : ExcId) : (eraseVals h)[e]? = (h[e]?).map eraseExn := by
  simp [eraseVals]

theorem isGroup_erase (h : Heap) (m : ExcId) : isGroup (eraseVals h) m = isGroup h m := by
  simp only [isGroup, getElem?_eraseVals]
  cases h[m]? <;> simp [eraseExn]

theorem fmt_erase (h : Heap) (o : Opts) (hd : o.diagnose = false) :
    ∀ budget seen e a b n, fmt (eraseVals h) o budget seen e a b n = fmt h o budget seen e a b n := by
  intro budget
  induction budget with
  | zero =>
    intro seen e a b n
    simp only [fmt, getElem?_eraseVals]
    cases h[e]? <;> simp
  | succ k ih =>
    intro seen e a b n
    simp only [fmt, getElem?_eraseVals]
    cases hx : h[e]? with
    | none => simp
    | some x =>
      have hn : nextLink (eraseExn x) (addSeen seen e) = nextLink x (addSeen seen e) := rfl
      have hgrp : (eraseExn x).group = x.group := rfl
      have hm : ∀ (ms : List ExcId) s2,
          members (eraseVals h) (fun s m => fmt h o k s m false false (n + 1)) n ms.length 1 ms s2 none
            = members h (fun s m => fmt h o k s m false false (n + 1)) n ms.length 1 ms s2 none :=
        fun ms s2 => members_congr _ _ _ _ _ _ (fun _ _ => rfl) (isGroup_erase h) ms 1 s2 none
      simp only [Option.map_some, hn, hgrp, ih, renderOwn_erase o hd, hm, isGroup_erase]

/-! ### the termination measure: heap exceptions not yet in `seen` -/

theorem countP_range_lt (p q : Nat → Bool) (n c : Nat) (hc : c < n) (hpc : p c = true) (hqc : q c = false)
    (himp : ∀ i, q i = true → p i = true) : (List.range n).countP q < (List.range n).countP p := by
  induction n with
  | zero => omega
  | succ n ih =>
    rw [List.range_succ, List.countP_append, List.countP_append]
    have hle : (List.range n).countP q ≤ (List.range n).countP p :=
      List.countP_mono_left (fun i _ hi => himp i hi)
    by_cases hcn : c = n
    · subst hcn
      simp [hpc, hqc]; omega
    · have := ih (by omega)
      have h1 : List.countP q [n] ≤ List.countP p [n] := List.countP_mono_left (fun i _ hi => himp i hi)
      omega

theorem unseenCount_cons_lt (h : Heap) (seen : List ExcId) (c : ExcId) (hc : c < h.length) (hns : c ∉ seen) :
    unseenCount h (c :: seen) < unseenCount h seen := by
  unfold unseenCount
  apply countP_range_lt _ _ _ c hc
  · simpa using hns
  · simp
  · intro i hi
    simp only [List.contains_cons, Bool.not_or, Bool.and_eq_true] at hi
    exact hi.2

theorem unseenCount_mono (h : Heap) (s s' : List ExcId) (hsub : ∀ i, i ∈ s → i ∈ s') :
    unseenCount h s' ≤ unseenCount h s := by
  unfold unseenCount
  apply List.countP_mono_left
  intro i _ hi
  simp only [Bool.not_eq_true', List.contains_eq_mem, decide_eq_false_iff_not] at hi ⊢
  exact fun hm => hi (hsub i hm)

theorem addSeen_of_not_mem (seen : List ExcId) (c : ExcId) (hc : c ∉ seen) : addSeen seen c = c :: seen := by
  simp [addSeen, hc]

theorem mem_addSeen (seen : List ExcId) (e i : ExcId) : i ∈ addSeen seen e ↔ i = e ∨ i ∈ seen := by
  unfold addSeen
  split
  · constructor
    · exact Or.inr
    · rintro (rfl | h) <;> assumption
  · simp

/-! ### `nextLink` (loguru) against `initOne`/`link` (CPython) -/

theorem link_agree (x : Exn) (e : ExcId) (s : List ExcId) :
    let r := Traceback.initOne ⟨x.truthy, x.cause, x.context, x.suppress⟩ e s
    match nextLink x s with
    | none => r.1.cause = none ∧ r.1.context = none ∧ r.1.id = e
    | some (true, c) => r.1.cause = some c ∧ r.2 = c :: s ∧ Traceback.link r.1 = some true ∧ c ∉ s ∧ r.1.id = e
    | some (false, c) => r.1.cause = none ∧ r.1.context = some c ∧ r.2 = c :: s ∧
        Traceback.link r.1 = some false ∧ c ∉ s ∧ r.1.id = e := by
  obtain ⟨truthy, cause, context, suppress, group, tb, parents⟩ := x
  cases truthy <;> cases suppress <;> cases cause <;> cases context <;>
    simp [nextLink, Traceback.initOne, unseenOpt, Traceback.unseen, Traceback.link, Gen.causeFirst] <;>
    (repeat' split) <;> simp_all <;> grind

/-! ### loguru's recursive chain walk = CPython's iterative one (heaps without groups) -/

theorem fmt_dangling (h : Heap) (o : Opts) (budget : Nat) (seen : List ExcId) (e : ExcId) (a b : Bool) (n : Nat)
    (he : h[e]? = none) : fmt h o budget seen e a b n = .ok ([], seen) := by
  cases budget <;> simp [fmt, he]

theorem walk_dangling (h : Heap) (fuel : Nat) (seen : List ExcId) (e : ExcId) (he : h[e]? = none) :
    Traceback.walk (node h) fuel seen e = [{ id := e, cause := none, context := none, suppress := false }] := by
  cases fuel <;> simp [Traceback.walk, node, he]

theorem fmt_eq_walk (h : Heap) (o : Opts) (hgf : groupFree h) (fromDec : Bool) :
    ∀ (budget fuel : Nat) (seen : List ExcId) (e : ExcId) (isFirst : Bool),
      unseenCount h (addSeen seen e) < budget → unseenCount h (addSeen seen e) < fuel →
      ∃ s', fmt h o budget seen e isFirst (isFirst && fromDec) 0 =
        .ok (Traceback.formatFrom (renderStd h o fromDec) chainMsg isFirst
              (Traceback.walk (node h) fuel (addSeen seen e) e), s') := by
  intro budget
  induction budget with
  | zero => intro fuel seen e isFirst hb; omega
  | succ b ih =>
    intro fuel seen e isFirst hb hf
    cases fuel with
    | zero => omega
    | succ f =>
      cases hx : h[e]? with
      | none =>
        refine ⟨seen, ?_⟩
        rw [fmt_dangling h o _ _ _ _ _ _ hx, walk_dangling h _ _ _ hx]
        simp [Traceback.formatFrom, Traceback.link, renderStd, hx]
      | some x =>
        have hgrp : x.group = none := hgf x (List.mem_of_getElem? hx)
        have hnode : node h e = some ⟨x.truthy, x.cause, x.context, x.suppress⟩ := by simp [node, hx]
        have hla := link_agree x e (addSeen seen e)
        simp only [fmt, hx, hgrp, Traceback.walk, hnode]
        cases hn : nextLink x (addSeen seen e) with
        | none =>
          rw [hn] at hla
          obtain ⟨h1, h2, h3⟩ := hla
          refine ⟨addSeen seen e, ?_⟩
          simp [h1, h2, h3, Traceback.formatFrom, Traceback.link, renderStd, hx]
        | some lc =>
          obtain ⟨isCause, c⟩ := lc
          rw [hn] at hla
          -- the recursive call on the chained exception
          have hrec : ∀ (hc : c ∉ addSeen seen e),
              ∃ s', fmt h o b (addSeen seen e) c false false 0 =
                .ok (Traceback.formatFrom (renderStd h o fromDec) chainMsg false
                      (Traceback.walk (node h) f (c :: addSeen seen e) c), s') := by
            intro hc
            cases hcx : h[c]? with
            | none =>
              refine ⟨addSeen seen e, ?_⟩
              rw [fmt_dangling h o _ _ _ _ _ _ hcx, walk_dangling h _ _ _ hcx]
              simp [Traceback.formatFrom, Traceback.link, renderStd, hcx]
            | some y =>
              have hclt : c < h.length := by
                have := List.getElem?_eq_some_iff.mp hcx
                exact this.1
              have hlt := unseenCount_cons_lt h (addSeen seen e) c hclt hc
              have := ih f (addSeen seen e) c false
                (by rw [addSeen_of_not_mem _ _ hc]; omega) (by rw [addSeen_of_not_mem _ _ hc]; omega)
              simpa [addSeen_of_not_mem _ _ hc] using this
          cases isCause with
          | true =>
            obtain ⟨h1, h2, h3, h4, h5⟩ := hla
            obtain ⟨s', hs'⟩ := hrec h4
            refine ⟨s', ?_⟩
            simp [hs', h1, h2, h3, h5, Traceback.formatFrom, chainMsg, renderStd, hx]
          | false =>
            obtain ⟨h1, h2, h3, h4, h5, h6⟩ := hla
            obtain ⟨s', hs'⟩ := hrec h5
            refine ⟨s', ?_⟩
            simp [hs', h1, h2, h3, h4, h6, Traceback.formatFrom, chainMsg, renderStd, hx]

theorem unseenCount_le_length (h : Heap) (s : List ExcId) : unseenCount h s ≤ h.length := by
  unfold unseenCount
  have := List.countP_le_length (p := fun i => !(s.contains i)) (l := List.range h.length)
  simpa using this

end Exc
