import LoguruModel.Exc.Spec
/-
C13 – helper lemmas (invariants of `members` / `fmt` proved by induction on the budget).
-/
namespace Exc
open Py

/-! ### a predicate on pieces is preserved by the whole formatter -/

theorem members_all (P : Piece → Prop) (h : Heap) (f : List ExcId → ExcId → Res) (nesting total : Nat)
    (hf : ∀ s m r s', f s m = .ok (r, s') → ∀ p ∈ r, P p)
    (hr : ∀ n b d, P (Piece.ruler n b d)) (hm : ∀ n d, P (Piece.more n d)) (hd : ∀ d, P (Piece.maxDepth d)) :
    ∀ (ms : List ExcId) (n : Nat) (seen : List ExcId) (last : Option ExcId) ps s l,
      members h f nesting total n ms seen last = .ok (ps, s, l) → ∀ p ∈ ps, P p := by
  intro ms
  induction ms with
  | nil => intro n seen last ps s l he; simp [members] at he; obtain ⟨rfl, _, _⟩ := he; simp
  | cons m ms ih =>
    intro n seen last ps s l he
    simp only [members] at he
    split at he
    · simp at he; obtain ⟨rfl, _, _⟩ := he
      intro p hp; simp at hp; rcases hp with rfl | rfl
      · exact hr _ _ _
      · exact hm _ _
    · split at he
      · split at he
        · rename_i ps' s' l' hrec
          simp at he; obtain ⟨rfl, _, _⟩ := he
          intro p hp; simp at hp; rcases hp with rfl | rfl | hp
          · exact hr _ _ _
          · exact hd _
          · exact ih _ _ _ _ _ _ hrec p hp
        · simp at he
      · split at he
        · simp at he
        · rename_i r s1 hfm
          split at he
          · rename_i ps' s' l' hrec
            simp at he; obtain ⟨rfl, _, _⟩ := he
            intro p hp; simp at hp; rcases hp with rfl | hp | hp
            · exact hr _ _ _
            · exact hf _ _ _ _ hfm p hp
            · exact ih _ _ _ _ _ _ hrec p hp
          · simp at he

theorem fmt_all (P : Piece → Prop) (h : Heap) (o : Opts)
    (hown : ∀ e x isFirst fromDec n, ∀ p ∈ renderOwn o e x isFirst fromDec n, P p)
    (hc : ∀ d, P (Piece.causeMsg d)) (hx : ∀ d, P (Piece.contextMsg d))
    (hr : ∀ n b d, P (Piece.ruler n b d)) (hm : ∀ n d, P (Piece.more n d)) (hd : ∀ d, P (Piece.maxDepth d))
    (he : ∀ d, P (Piece.groupEnd d)) :
    ∀ (budget : Nat) (seen : List ExcId) (e : ExcId) (isFirst fromDec : Bool) (nesting : Nat) ps s,
      fmt h o budget seen e isFirst fromDec nesting = .ok (ps, s) → ∀ p ∈ ps, P p := by
  intro budget
  induction budget with
  | zero =>
    intro seen e isFirst fromDec nesting ps s hf
    simp only [fmt] at hf
    split at hf
    · simp at hf; obtain ⟨rfl, _⟩ := hf; simp
    · simp at hf
  | succ b ih =>
    intro seen e isFirst fromDec nesting ps s hf
    simp only [fmt] at hf
    split at hf
    · simp at hf; obtain ⟨rfl, _⟩ := hf; simp
    · rename_i x hx'
      -- the chain part
      have hchain : ∀ co s2,
          (match nextLink x (addSeen seen e) with
            | none => (Except.ok ([], addSeen seen e) : Res)
            | some (isCause, c) =>
              match fmt h o b (addSeen seen e) c false false nesting with
              | .error err => .error err
              | .ok (r, s) => .ok (r ++ [if isCause then Piece.causeMsg nesting else Piece.contextMsg nesting], s))
            = .ok (co, s2) → ∀ p ∈ co, P p := by
        intro co s2 hco
        split at hco
        · simp at hco; obtain ⟨rfl, _⟩ := hco; simp
        · split at hco
          · simp at hco
          · rename_i r s' hrec
            simp at hco; obtain ⟨rfl, _⟩ := hco
            intro p hp; simp at hp
            rcases hp with hp | rfl
            · exact ih _ _ _ _ _ _ _ hrec p hp
            · split
              · exact hc _
              · exact hx _
      split at hf
      · simp at hf
      · rename_i co s2 hco
        have hcoP := hchain co s2 hco
        split at hf
        · split at hf
          · simp at hf
          · rename_i r s' hrec
            simp at hf; obtain ⟨rfl, _⟩ := hf
            intro p hp; simp at hp
            rcases hp with hp | hp
            · exact hcoP p hp
            · exact ih _ _ _ _ _ _ _ hrec p hp
        · split at hf
          · simp at hf; obtain ⟨rfl, _⟩ := hf
            intro p hp; simp at hp
            rcases hp with hp | hp
            · exact hcoP p hp
            · exact hown _ _ _ _ _ p hp
          · rename_i ms hms
            split at hf
            · simp at hf
            · rename_i mps s' last hmem
              simp at hf; obtain ⟨rfl, _⟩ := hf
              have hmemP := members_all P h _ nesting ms.length
                (fun s m r s' hfm => ih s m false false (nesting + 1) r s' hfm) hr hm hd ms 1 s2 none mps s' last hmem
              intro p hp
              simp only [List.mem_append] at hp
              rcases hp with hp | hp | hp | hp
              · exact hcoP p hp
              · exact hown _ _ _ _ _ p hp
              · exact hmemP p hp
              · split at hp
                · split at hp
                  · simp at hp; subst hp; exact he _
                  · simp at hp
                · simp at hp; subst hp; exact he _

/-! ### splitting a value into display lines -/

theorem splitOnChar_ne_nil (c : Char) (s : Str) : splitOnChar c s ≠ [] := by
  induction s with
  | nil => simp [splitOnChar]
  | cons x xs ih =>
    simp only [splitOnChar]
    split
    · simp
    · split <;> simp

/-- characters on all lines + one separator between consecutive lines = the text -/
theorem splitOnChar_size (c : Char) (s : Str) :
    ((splitOnChar c s).map List.length).sum + (splitOnChar c s).length = s.length + 1 := by
  induction s with
  | nil => simp [splitOnChar]
  | cons x xs ih =>
    simp only [splitOnChar]
    split
    · rename_i h; exact absurd h (splitOnChar_ne_nil c xs)
    · rename_i l ls h
      rw [h] at ih
      split <;> simp_all <;> omega

theorem intercalate_length (c : Char) : ∀ ls : List Str, ls ≠ [] →
    ([c].intercalate ls).length + 1 = (ls.map List.length).sum + ls.length
  | [], h => absurd rfl h
  | [l], _ => by simp [List.intercalate]
  | l :: m :: rest, _ => by
    have ih := intercalate_length c (m :: rest) (by simp)
    simp only [List.intercalate, List.intersperse, List.flatten_cons, List.length_append, List.map_cons,
      List.sum_cons, List.length_cons, List.length_nil] at *
    omega

theorem splitOnChar_replicate_sep (c : Char) (n : Nat) :
    splitOnChar c (List.replicate n c) = List.replicate (n + 1) [] := by
  induction n with
  | zero => rfl
  | succ n ih => simp [List.replicate_succ, splitOnChar, ih]

/-! ### folding -/

theorem foldFrames_all (P : Piece → Prop) (o : Opts) (d : Nat)
    (hfp : ∀ s, ∀ p ∈ framePieces o d s, P p) (hrep : ∀ n, P (Piece.repeated n d)) :
    ∀ (fs : List Shown) last count, ∀ p ∈ foldFrames o d last count fs, P p := by
  intro fs
  induction fs with
  | nil =>
    intro last count p hp
    simp only [foldFrames, skipPieces] at hp
    split at hp
    · simp at hp; subst hp; exact hrep _
    · simp at hp
  | cons s rest ih =>
    intro last count p hp
    simp only [foldFrames] at hp
    split at hp
    · split at hp
      · exact ih _ _ p hp
      · simp only [List.mem_append] at hp
        rcases hp with hp | hp
        · exact hfp _ p hp
        · exact ih _ _ p hp
    · simp only [List.mem_append, skipPieces] at hp
      rcases hp with (hp | hp) | hp
      · split at hp
        · simp at hp; subst hp; exact hrep _
        · simp at hp
      · exact hfp _ p hp
      · exact ih _ _ p hp

theorem renderOwn_all (P : Piece → Prop) (o : Opts)
    (hfp : ∀ d s, ∀ p ∈ framePieces o d s, P p) (hrep : ∀ n d, P (Piece.repeated n d))
    (hpfx : P Piece.pfx) (hintro : ∀ g d b, P (Piece.intro g d b)) (honly : ∀ e d, P (Piece.excOnly e d)) :
    ∀ e x isFirst fromDec n, ∀ p ∈ renderOwn o e x isFirst fromDec n, P p := by
  intro e x isFirst fromDec n p hp
  simp only [renderOwn, List.mem_append] at hp
  rcases hp with ((hp | hp) | hp) | hp
  · split at hp
    · simp at hp; subst hp; exact hpfx
    · simp at hp
  · split at hp
    · simp at hp
    · simp at hp; subst hp; exact hintro _ _ _
  · exact foldFrames_all P o n (hfp n) (fun k => hrep k n) _ _ _ p hp
  · simp at hp; subst hp; exact honly _ _

/-! ### erasing variable values (non-interference) -/

def eraseShown (s : Shown) : Shown := ⟨eraseFrame s.fr, s.mark⟩

theorem visible_erase (fs : List Frame) : visible (fs.map eraseFrame) = (visible fs).map eraseFrame := by
  induction fs with
  | nil => rfl
  | cons f fs ih =>
    simp only [visible, List.map_cons, List.filter_cons] at *
    have : (eraseFrame f).hidden = f.hidden := rfl
    rw [this]
    split <;> simp [ih]

theorem unmarked_erase (fs : List Frame) : unmarked (fs.map eraseFrame) = (unmarked fs).map eraseShown := by
  simp [unmarked, eraseShown, List.map_map, Function.comp_def]

theorem markLast_erase : ∀ fs : List Frame, markLast (fs.map eraseFrame) = (markLast fs).map eraseShown
  | [] => rfl
  | [f] => rfl
  | f :: g :: rest => by
    have ih := markLast_erase (g :: rest)
    simp only [List.map_cons, markLast] at *
    simp [ih, eraseShown]

theorem applyLimit_map {α β : Type} (f : α → β) (limit : Option Int) (l : List α) :
    applyLimit limit (l.map f) = (applyLimit limit l).map f := by
  cases limit <;> simp [applyLimit, List.map_drop]

theorem parentOnlyFrames_eq (ps : List Frame) : parentOnlyFrames ps = (visible ps).take 1 := by
  simp [parentOnlyFrames, Gen.parentWalkSkipsHidden]

theorem extractFrames_erase (o : Opts) (a b : Bool) (tb ps : List Frame) :
    extractFrames o a b (tb.map eraseFrame) (ps.map eraseFrame) = (extractFrames o a b tb ps).map eraseShown := by
  cases tb with
  | nil => rfl
  | cons t0 rest =>
    simp only [extractFrames, List.map_cons]
    split
    · rfl
    · have h1 : visible [eraseFrame t0] = (visible [t0]).map eraseFrame := visible_erase [t0]
      rw [← applyLimit_map, h1, visible_erase, visible_erase]
      congr 1
      simp only [List.map_append, unmarked_erase]
      congr 1
      split
      · rw [parentOnlyFrames_eq, parentOnlyFrames_eq, visible_erase, ← List.map_take, ← List.map_append, unmarked_erase]
      · split
        · rw [← List.map_reverse, ← List.map_append, markLast_erase]
        · rfl

theorem framePieces_erase (o : Opts) (hd : o.diagnose = false) (d : Nat) (s : Shown) :
    framePieces o d (eraseShown s) = framePieces o d s := by
  simp [framePieces, hd, eraseShown, eraseFrame]

theorem foldFrames_erase (o : Opts) (hd : o.diagnose = false) (d : Nat) :
    ∀ (fs : List Shown) last count,
      foldFrames o d last count (fs.map eraseShown) = foldFrames o d last count fs := by
  intro fs
  induction fs with
  | nil => intro last count; rfl
  | cons s rest ih =>
    intro last count
    have hk : (eraseShown s).key = s.key := rfl
    simp only [List.map_cons, foldFrames, hk, framePieces_erase o hd, ih]

theorem renderOwn_erase (o : Opts) (hd : o.diagnose = false) (e : ExcId) (x : Exn) (a b : Bool) (n : Nat) :
    renderOwn o e (eraseExn x) a b n = renderOwn o e x a b n := by
  simp only [renderOwn, eraseExn, extractFrames_erase, foldFrames_erase o hd, List.isEmpty_map]

theorem members_congr (h h' : Heap) (f g : List ExcId → ExcId → Res) (nesting total : Nat)
    (hfg : ∀ s m, f s m = g s m) (hg : ∀ m, isGroup h m = isGroup h' m) :
    ∀ (ms : List ExcId) n seen last,
      members h f nesting total n ms seen last = members h' g nesting total n ms seen last := by
  intro ms
  induction ms with
  | nil => intro n seen last; rfl
  | cons m ms ih =>
    intro n seen last
    simp only [members, hfg, hg, ih]

theorem getElem?_eraseVals (h : Heap) (e : ExcId) : (eraseVals h)[e]? = (h[e]?).map eraseExn := by
  simp [eraseVals]

theorem isGroup_erase (h : Heap) (m : ExcId) : isGroup (eraseVals h) m = isGroup h m := by
  simp only [isGroup, getElem?_eraseVals]
  cases h[m]? <;> simp [eraseExn]

theorem fmt_erase (h : Heap) (o : Opts) (hd : o.diagnose = false) :
    ∀ budget seen e a b n, fmt (eraseVals h) o budget seen e a b n = fmt h o budget seen e a b n := by
  intro budget
  induction budget with
  | zero =>
    intro seen e a b n
    simp only [fmt, getElem?_eraseVals]
    cases h[e]? <;> simp
  | succ k ih =>
    intro seen e a b n
    simp only [fmt, getElem?_eraseVals]
    cases hx : h[e]? with
    | none => simp
    | some x =>
      have hn : nextLink (eraseExn x) (addSeen seen e) = nextLink x (addSeen seen e) := rfl
      have hgrp : (eraseExn x).group = x.group := rfl
      have hm : ∀ (ms : List ExcId) s2,
          members (eraseVals h) (fun s m => fmt h o k s m false false (n + 1)) n ms.length 1 ms s2 none
            = members h (fun s m => fmt h o k s m false false (n + 1)) n ms.length 1 ms s2 none :=
        fun ms s2 => members_congr _ _ _ _ _ _ (fun _ _ => rfl) (isGroup_erase h) ms 1 s2 none
      simp only [Option.map_some, hn, hgrp, ih, renderOwn_erase o hd, hm, isGroup_erase]

/-! ### the termination measure: heap exceptions not yet in `seen` -/

theorem countP_range_lt (p q : Nat → Bool) (n c : Nat) (hc : c < n) (hpc : p c = true) (hqc : q c = false)
    (himp : ∀ i, q i = true → p i = true) : (List.range n).countP q < (List.range n).countP p := by
  induction n with
  | zero => omega
  | succ n ih =>
    rw [List.range_succ, List.countP_append, List.countP_append]
    have hle : (List.range n).countP q ≤ (List.range n).countP p :=
      List.countP_mono_left (fun i _ hi => himp i hi)
    by_cases hcn : c = n
    · subst hcn
      simp [hpc, hqc]; omega
    · have := ih (by omega)
      have h1 : List.countP q [n] ≤ List.countP p [n] := List.countP_mono_left (fun i _ hi => himp i hi)
      omega

theorem unseenCount_cons_lt (h : Heap) (seen : List ExcId) (c : ExcId) (hc : c < h.length) (hns : c ∉ seen) :
    unseenCount h (c :: seen) < unseenCount h seen := by
  unfold unseenCount
  apply countP_range_lt _ _ _ c hc
  · simpa using hns
  · simp
  · intro i hi
    simp only [List.contains_cons, Bool.not_or, Bool.and_eq_true] at hi
    exact hi.2

theorem unseenCount_mono (h : Heap) (s s' : List ExcId) (hsub : ∀ i, i ∈ s → i ∈ s') :
    unseenCount h s' ≤ unseenCount h s := by
  unfold unseenCount
  apply List.countP_mono_left
  intro i _ hi
  simp only [Bool.not_eq_true', List.contains_eq_mem, decide_eq_false_iff_not] at hi ⊢
  exact fun hm => hi (hsub i hm)

theorem addSeen_of_not_mem (seen : List ExcId) (c : ExcId) (hc : c ∉ seen) : addSeen seen c = c :: seen := by
  simp [addSeen, hc]

theorem mem_addSeen (seen : List ExcId) (e i : ExcId) : i ∈ addSeen seen e ↔ i = e ∨ i ∈ seen := by
  unfold addSeen
  split
  · constructor
    · exact Or.inr
    · rintro (rfl | h) <;> assumption
  · simp

/-! ### `nextLink` (loguru) against `initOne`/`link` (CPython) -/

theorem link_agree (x : Exn) (e : ExcId) (s : List ExcId) :
    let r := Traceback.initOne ⟨x.truthy, x.cause, x.context, x.suppress⟩ e s
    match nextLink x s with
    | none => r.1.cause = none ∧ r.1.context = none ∧ r.1.id = e
    | some (true, c) => r.1.cause = some c ∧ r.2 = c :: s ∧ Traceback.link r.1 = some true ∧ c ∉ s ∧ r.1.id = e
    | some (false, c) => r.1.cause = none ∧ r.1.context = some c ∧ r.2 = c :: s ∧
        Traceback.link r.1 = some false ∧ c ∉ s ∧ r.1.id = e := by
  obtain ⟨truthy, cause, context, suppress, group, tb, parents⟩ := x
  cases truthy <;> cases suppress <;> cases cause <;> cases context <;>
    simp [nextLink, Traceback.initOne, unseenOpt, Traceback.unseen, Traceback.link, Gen.causeFirst] <;>
    (repeat' split) <;> simp_all <;> grind

/-! ### loguru's recursive chain walk = CPython's iterative one (heaps without groups) -/

theorem fmt_dangling (h : Heap) (o : Opts) (budget : Nat) (seen : List ExcId) (e : ExcId) (a b : Bool) (n : Nat)
    (he : h[e]? = none) : fmt h o budget seen e a b n = .ok ([], seen) := by
  cases budget <;> simp [fmt, he]

theorem walk_dangling (h : Heap) (fuel : Nat) (seen : List ExcId) (e : ExcId) (he : h[e]? = none) :
    Traceback.walk (node h) fuel seen e = [{ id := e, cause := none, context := none, suppress := false }] := by
  cases fuel <;> simp [Traceback.walk, node, he]

theorem fmt_eq_walk (h : Heap) (o : Opts) (hgf : groupFree h) (fromDec : Bool) :
    ∀ (budget fuel : Nat) (seen : List ExcId) (e : ExcId) (isFirst : Bool),
      unseenCount h (addSeen seen e) < budget → unseenCount h (addSeen seen e) < fuel →
      ∃ s', fmt h o budget seen e isFirst (isFirst && fromDec) 0 =
        .ok (Traceback.formatFrom (renderStd h o fromDec) chainMsg isFirst
              (Traceback.walk (node h) fuel (addSeen seen e) e), s') := by
  intro budget
  induction budget with
  | zero => intro fuel seen e isFirst hb; omega
  | succ b ih =>
    intro fuel seen e isFirst hb hf
    cases fuel with
    | zero => omega
    | succ f =>
      cases hx : h[e]? with
      | none =>
        refine ⟨seen, ?_⟩
        rw [fmt_dangling h o _ _ _ _ _ _ hx, walk_dangling h _ _ _ hx]
        simp [Traceback.formatFrom, Traceback.link, renderStd, hx]
      | some x =>
        have hgrp : x.group = none := hgf x (List.mem_of_getElem? hx)
        have hnode : node h e = some ⟨x.truthy, x.cause, x.context, x.suppress⟩ := by simp [node, hx]
        have hla := link_agree x e (addSeen seen e)
        simp only [fmt, hx, hgrp, Traceback.walk, hnode]
        cases hn : nextLink x (addSeen seen e) with
        | none =>
          rw [hn] at hla
          obtain ⟨h1, h2, h3⟩ := hla
          refine ⟨addSeen seen e, ?_⟩
          simp [h1, h2, h3, Traceback.formatFrom, Traceback.link, renderStd, hx]
        | some lc =>
          obtain ⟨isCause, c⟩ := lc
          rw [hn] at hla
          -- the recursive call on the chained exception
          have hrec : ∀ (hc : c ∉ addSeen seen e),
              ∃ s', fmt h o b (addSeen seen e) c false false 0 =
                .ok (Traceback.formatFrom (renderStd h o fromDec) chainMsg false
                      (Traceback.walk (node h) f (c :: addSeen seen e) c), s') := by
            intro hc
            cases hcx : h[c]? with
            | none =>
              refine ⟨addSeen seen e, ?_⟩
              rw [fmt_dangling h o _ _ _ _ _ _ hcx, walk_dangling h _ _ _ hcx]
              simp [Traceback.formatFrom, Traceback.link, renderStd, hcx]
            | some y =>
              have hclt : c < h.length := by
                have := List.getElem?_eq_some_iff.mp hcx
                exact this.1
              have hlt := unseenCount_cons_lt h (addSeen seen e) c hclt hc
              have := ih f (addSeen seen e) c false
                (by rw [addSeen_of_not_mem _ _ hc]; omega) (by rw [addSeen_of_not_mem _ _ hc]; omega)
              simpa [addSeen_of_not_mem _ _ hc] using this
          cases isCause with
          | true =>
            obtain ⟨h1, h2, h3, h4, h5⟩ := hla
            obtain ⟨s', hs'⟩ := hrec h4
            refine ⟨s', ?_⟩
            simp [hs', h1, h2, h3, h5, Traceback.formatFrom, chainMsg, renderStd, hx]
          | false =>
            obtain ⟨h1, h2, h3, h4, h5, h6⟩ := hla
            obtain ⟨s', hs'⟩ := hrec h5
            refine ⟨s', ?_⟩
            simp [hs', h1, h2, h3, h4, h6, Traceback.formatFrom, chainMsg, renderStd, hx]

theorem unseenCount_le_length (h : Heap) (s : List ExcId) : unseenCount h s ≤ h.length := by
  unfold unseenCount
  have := List.countP_le_length (p := fun i => !(s.contains i)) (l := List.range h.length)
  simpa using this

/-! ### `seen` only grows -/

theorem members_seen_mono (h : Heap) (f : List ExcId → ExcId → Res) (nesting total : Nat)
    (hf : ∀ s m r s', f s m = .ok (r, s') → ∀ i ∈ s, i ∈ s') :
    ∀ (ms : List ExcId) (n : Nat) (seen : List ExcId) (last : Option ExcId) ps s l,
      members h f nesting total n ms seen last = .ok (ps, s, l) → ∀ i ∈ seen, i ∈ s := by
  intro ms
  induction ms with
  | nil => intro n seen last ps s l he; simp [members] at he; obtain ⟨_, rfl, _⟩ := he; simp
  | cons m ms ih =>
    intro n seen last ps s l he
    simp only [members] at he
    split at he
    · simp at he; obtain ⟨_, rfl, _⟩ := he; simp
    · split at he
      · split at he
        · rename_i ps' s' l' hrec
          simp at he; obtain ⟨_, rfl, _⟩ := he
          exact ih _ _ _ _ _ _ hrec
        · simp at he
      · split at he
        · simp at he
        · rename_i r s1 hfm
          split at he
          · rename_i ps' s' l' hrec
            simp at he; obtain ⟨_, rfl, _⟩ := he
            intro i hi
            exact ih _ _ _ _ _ _ hrec i (hf _ _ _ _ hfm i hi)
          · simp at he

theorem fmt_seen_mono (h : Heap) (o : Opts) :
    ∀ (budget : Nat) (seen : List ExcId) (e : ExcId) (isFirst fromDec : Bool) (nesting : Nat) ps s,
      fmt h o budget seen e isFirst fromDec nesting = .ok (ps, s) → ∀ i ∈ seen, i ∈ s := by
  intro budget
  induction budget with
  | zero =>
    intro seen e isFirst fromDec nesting ps s hf
    simp only [fmt] at hf
    split at hf
    · simp at hf; obtain ⟨_, rfl⟩ := hf; simp
    · simp at hf
  | succ b ih =>
    intro seen e isFirst fromDec nesting ps s hf
    simp only [fmt] at hf
    split at hf
    · simp at hf; obtain ⟨_, rfl⟩ := hf; simp
    · rename_i x hx'
      have hadd : ∀ i ∈ seen, i ∈ addSeen seen e := fun i hi => (mem_addSeen seen e i).2 (Or.inr hi)
      split at hf
      · simp at hf
      · rename_i co s2 hco
        have hs2 : ∀ i ∈ addSeen seen e, i ∈ s2 := by
          split at hco
          · simp at hco; obtain ⟨_, rfl⟩ := hco; simp
          · split at hco
            · simp at hco
            · rename_i r s' hrec
              simp at hco; obtain ⟨_, rfl⟩ := hco
              exact ih _ _ _ _ _ _ _ hrec
        split at hf
        · split at hf
          · simp at hf
          · rename_i r s' hrec
            simp at hf; obtain ⟨_, rfl⟩ := hf
            intro i hi
            exact ih _ _ _ _ _ _ _ hrec i (hs2 i (hadd i hi))
        · split at hf
          · simp at hf; obtain ⟨_, rfl⟩ := hf
            intro i hi; exact hs2 i (hadd i hi)
          · rename_i ms hms
            split at hf
            · simp at hf
            · rename_i mps s' last hmem
              simp at hf; obtain ⟨_, rfl⟩ := hf
              have := members_seen_mono h _ nesting ms.length
                (fun s m r s' hfm => ih s m false false (nesting + 1) r s' hfm) ms 1 s2 none mps _ last hmem
              intro i hi; exact this i (hs2 i (hadd i hi))

theorem nextLink_not_mem (x : Exn) (s : List ExcId) (b : Bool) (c : ExcId) (hn : nextLink x s = some (b, c)) :
    c ∉ s := by
  have := link_agree x 0 s
  rw [hn] at this
  cases b
  · exact this.2.2.2.2.1
  · exact this.2.2.2.1

/-! ### the budget that suffices -/

/-- exception groups are well-founded (`exceptions` is an immutable tuple built from existing
exceptions): members have a smaller rank than their group, ranks are bounded by `R` -/
structure Ranked (h : Heap) (rank : ExcId → Nat) (R : Nat) : Prop where
  le : ∀ i, rank i ≤ R
  lt : ∀ g x ms m, h[g]? = some x → x.group = some ms → m ∈ ms → rank m < rank g

/-- recursion depth `_format_exception` can reach from this call: lexicographic in (exceptions not
yet seen, group rank, "still at nesting 0") -/
def depthBound (h : Heap) (rank : ExcId → Nat) (R : Nat) (seen : List ExcId) (e : ExcId) (nesting : Nat) : Nat :=
  unseenCount h (addSeen seen e) * (2 * R + 3) + 2 * rank e + (if nesting = 0 then 1 else 0)

theorem members_total (h : Heap) (f : List ExcId → ExcId → Res) (nesting total : Nat) (S0 : List ExcId) :
    ∀ (ms : List ExcId),
      (∀ s m, m ∈ ms → (∀ i ∈ S0, i ∈ s) → ∃ r s', f s m = .ok (r, s') ∧ ∀ i ∈ s, i ∈ s') →
      ∀ (n : Nat) (seen : List ExcId) (last : Option ExcId), (∀ i ∈ S0, i ∈ seen) →
        ∃ out, members h f nesting total n ms seen last = .ok out := by
  intro ms
  induction ms with
  | nil => intro _ n seen last _; exact ⟨_, rfl⟩
  | cons m ms ih =>
    intro hf n seen last hsub
    have ih' := ih (fun s m' hm' hs => hf s m' (List.mem_cons_of_mem _ hm') hs)
    simp only [members]
    split
    · exact ⟨_, rfl⟩
    · split
      · obtain ⟨out, ho⟩ := ih' (n + 1) seen (some m) hsub
        obtain ⟨ps, s, l⟩ := out
        simp [ho]
      · obtain ⟨r, s1, hfm, hmono⟩ := hf seen m (List.mem_cons_self ..) hsub
        obtain ⟨out, ho⟩ := ih' (n + 1) s1 (some m) (fun i hi => hmono i (hsub i hi))
        obtain ⟨ps, s, l⟩ := out
        simp [hfm, ho]

theorem fmt_total (h : Heap) (o : Opts) (rank : ExcId → Nat) (R : Nat) (hr : Ranked h rank R) :
    ∀ (budget : Nat) (seen : List ExcId) (e : ExcId) (isFirst fromDec : Bool) (nesting : Nat),
      depthBound h rank R seen e nesting < budget →
      ∃ out, fmt h o budget seen e isFirst fromDec nesting = .ok out := by
  intro budget
  induction budget with
  | zero => intro seen e isFirst fromDec nesting hb; omega
  | succ b ih =>
    intro seen e isFirst fromDec nesting hb
    cases hx : h[e]? with
    | none => exact ⟨_, fmt_dangling h o _ _ _ _ _ _ hx⟩
    | some x =>
      unfold depthBound at hb
      generalize hK : 2 * R + 3 = K at hb
      have hre := hr.le e
      -- a call on `c` with a `seen` that extends `addSeen seen e` and does not contain `c`
      have hchain : ∀ c, c ∉ addSeen seen e → ∀ a1 a2, ∃ out, fmt h o b (addSeen seen e) c a1 a2 nesting = .ok out := by
        intro c hc a1 a2
        cases hcx : h[c]? with
        | none => exact ⟨_, fmt_dangling h o _ _ _ _ _ _ hcx⟩
        | some y =>
          have hclt : c < h.length := (List.getElem?_eq_some_iff.mp hcx).1
          have hlt := unseenCount_cons_lt h (addSeen seen e) c hclt hc
          apply ih
          unfold depthBound
          rw [addSeen_of_not_mem _ _ hc, hK]
          have hrc := hr.le c
          have hmul : (unseenCount h (c :: addSeen seen e) + 1) * K ≤ unseenCount h (addSeen seen e) * K :=
            Nat.mul_le_mul_right K hlt
          rw [Nat.add_mul, Nat.one_mul] at hmul
          split <;> split at hb <;> omega
      simp only [fmt, hx]
      -- the chain part succeeds and returns a larger `seen`
      split
      · rename_i err heq
        exfalso
        split at heq
        · simp at heq
        · rename_i isCause c hn
          obtain ⟨⟨r, s⟩, hrs⟩ := hchain c (nextLink_not_mem x _ _ _ hn) false false
          rw [hrs] at heq
          simp at heq
      rename_i co s2 heq
      have hco2 : ∀ i ∈ addSeen seen e, i ∈ s2 := by
        split at heq
        · simp at heq; obtain ⟨_, rfl⟩ := heq; simp
        · split at heq
          · simp at heq
          · rename_i r s' hrec
            simp at heq; obtain ⟨_, rfl⟩ := heq
            exact fmt_seen_mono h o _ _ _ _ _ _ _ _ hrec
      have hu2 : ∀ s, (∀ i ∈ s2, i ∈ s) → unseenCount h s ≤ unseenCount h (addSeen seen e) :=
        fun s hs => unseenCount_mono h _ _ (fun i hi => hs i (hco2 i hi))
      split
      · -- root group: same exception again at nesting 1
        rename_i hg
        have hn0 : nesting = 0 := by simp at hg; exact hg.2
        have : ∃ out, fmt h o b s2 e isFirst fromDec 1 = .ok out := by
          apply ih
          unfold depthBound
          rw [hK]
          have hle := hu2 (addSeen s2 e) (fun i hi => (mem_addSeen s2 e i).2 (Or.inr hi))
          have hmul : unseenCount h (addSeen s2 e) * K ≤ unseenCount h (addSeen seen e) * K :=
            Nat.mul_le_mul_right K hle
          simp only [hn0, if_true] at hb
          simp; omega
        obtain ⟨⟨r, s⟩, hrs⟩ := this
        simp [hrs]
      · cases hgrp : x.group with
        | none => exact ⟨_, rfl⟩
        | some ms =>
          simp only
          have hmem := members_total h (fun s m => fmt h o b s m false false (nesting + 1)) nesting ms.length s2 ms
            (by
              intro s m hm hs
              have hlt := hr.lt e x ms m hx hgrp hm
              have : ∃ out, fmt h o b s m false false (nesting + 1) = .ok out := by
                apply ih
                unfold depthBound
                rw [hK]
                have hle := hu2 (addSeen s m) (fun i hi => (mem_addSeen s m i).2 (Or.inr (hs i hi)))
                have hmul : unseenCount h (addSeen s m) * K ≤ unseenCount h (addSeen seen e) * K :=
                  Nat.mul_le_mul_right K hle
                simp
                split at hb <;> omega
              obtain ⟨⟨r, s'⟩, hrs⟩ := this
              exact ⟨r, s', hrs, fmt_seen_mono h o _ _ _ _ _ _ _ _ hrs⟩)
            1 s2 none (fun i hi => hi)
          obtain ⟨⟨ps, s, l⟩, hout⟩ := hmem
          simp [hout]

/-! ### `_extract_frames` -/

theorem markLast_fr : ∀ l : List Frame, (markLast l).map (·.fr) = l
  | [] => rfl
  | [_] => rfl
  | f :: g :: rest => by
    have := markLast_fr (g :: rest)
    simp only [markLast, List.map_cons] at *
    rw [this]

theorem unmarked_fr (l : List Frame) : (unmarked l).map (·.fr) = l := by
  simp [unmarked, List.map_map, Function.comp_def]

theorem unmarked_mark (l : List Frame) : ∀ s ∈ unmarked l, s.mark = false := by
  intro s hs; simp [unmarked] at hs; obtain ⟨_, _, rfl⟩ := hs; rfl

theorem markLast_marks : ∀ l : List Frame, (markLast l).map (·.mark) = (List.replicate (l.length - 1) false) ++ (if l.isEmpty then [] else [true])
  | [] => rfl
  | [_] => rfl
  | f :: g :: rest => by
    have := markLast_marks (g :: rest)
    simp only [markLast, List.map_cons, List.length_cons] at *
    rw [this]
    simp [List.replicate_succ]

theorem mem_applyLimit {α : Type} (limit : Option Int) (l : List α) (a : α) (h : a ∈ applyLimit limit l) : a ∈ l := by
  cases limit with
  | none => exact h
  | some k => exact List.mem_of_mem_drop h

/-- the caller frames `_extract_frames` puts in front of the traceback's own frames -/
def callerFrames (o : Opts) (isFirst fromDec : Bool) (parents : List Frame) : List Frame :=
  if fromDec && !o.backtrace then (visible parents).take 1
  else if o.backtrace && isFirst then (visible parents).reverse
  else []

theorem foldFrames_sublist (o : Opts) (d : Nat) :
    ∀ (fs : List Shown) last count,
      ((foldFrames o d last count fs).filterMap Piece.frameInfo?).Sublist (fs.map (fun s => (s.fr.info, s.mark))) := by
  intro fs
  induction fs with
  | nil =>
    intro last count
    simp only [foldFrames, skipPieces]
    split <;> simp [Piece.frameInfo?]
  | cons s rest ih =>
    intro last count
    have hfp : (framePieces o d s).filterMap Piece.frameInfo? = [(s.fr.info, s.mark)] := by
      simp only [framePieces, List.filterMap_cons, Piece.frameInfo?]
      split <;> simp [List.filterMap_map, Function.comp_def, Piece.frameInfo?]
    have hsk : ∀ c, (skipPieces c d).filterMap Piece.frameInfo? = [] := by
      intro c; simp only [skipPieces]; split <;> simp [Piece.frameInfo?]
    simp only [foldFrames, List.map_cons]
    split
    · split
      · exact List.Sublist.cons _ (ih _ _)
      · rw [List.filterMap_append, hfp]
        exact List.Sublist.cons_cons _ (ih _ _)
    · rw [List.filterMap_append, List.filterMap_append, hfp, hsk]
      exact List.Sublist.cons_cons _ (ih _ _)

end Exc
