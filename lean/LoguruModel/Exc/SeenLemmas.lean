import LoguruModel.Exc.Lemmas
/-
C13 – what the `seen` set does (round 5): on heaps without groups every exception is rendered once
(cycles included); on ALL heaps the cycle guard never drops a chained exception – whatever it marks is
in the report, and the report is closed under the cause / context links the standard follows.
-/
namespace Exc
open Py

def Piece.excId? : Piece → Option ExcId
  | .excOnly e _ => some e
  | _ => none

/-! ### heaps without groups: each exception once -/

theorem foldFrames_no_excOnly (o : Opts) (d : Nat) (fs : List Shown) (last : Option (Str × Int × Str × Bool)) (count : Nat) :
    (foldFrames o d last count fs).filterMap Piece.excId? = [] := by
  rw [List.filterMap_eq_nil_iff]
  apply foldFrames_all (fun p => Piece.excId? p = none) o d
  · intro s p hp
    simp only [framePieces, List.mem_cons] at hp
    rcases hp with rfl | hp
    · rfl
    · split at hp
      · simp only [List.mem_map] at hp; obtain ⟨_, _, rfl⟩ := hp; rfl
      · simp at hp
  · intro n; rfl

theorem renderOwn_excIds (o : Opts) (e : ExcId) (x : Exn) (a b : Bool) (n : Nat) :
    (renderOwn o e x a b n).filterMap Piece.excId? = [e] := by
  simp only [renderOwn, List.filterMap_append, foldFrames_no_excOnly]
  have h1 : (if a = true then [Piece.pfx] else []).filterMap Piece.excId? = [] := by split <;> rfl
  have h2 : (if (extractFrames o a b x.tb x.parents).isEmpty = true then []
      else [Piece.intro x.group.isSome n (n == 1)]).filterMap Piece.excId? = [] := by split <;> rfl
  rw [h1, h2]; rfl

theorem renderStd_excIds (h : Heap) (o : Opts) (fromDec : Bool) (e : ExcId) (isRoot : Bool) :
    (renderStd h o fromDec e isRoot).filterMap Piece.excId? = if (h[e]?).isSome then [e] else [] := by
  unfold renderStd
  cases h[e]? with
  | none => rfl
  | some x => simpa using renderOwn_excIds o e x _ _ 0

theorem formatFrom_excIds (h : Heap) (o : Opts) (fromDec : Bool) :
    ∀ (tes : List Traceback.TE) (isRoot : Bool),
      (Traceback.formatFrom (renderStd h o fromDec) chainMsg isRoot tes).filterMap Piece.excId? =
        ((tes.map (·.id)).reverse).filter (fun e => (h[e]?).isSome) := by
  intro tes
  induction tes with
  | nil => intro _; rfl
  | cons te rest ih =>
    intro isRoot
    simp only [Traceback.formatFrom, List.filterMap_append, ih, renderStd_excIds, List.map_cons, List.reverse_cons,
      List.filter_append]
    have hmsg : ∀ b, (chainMsg b).filterMap Piece.excId? = [] := by
      intro b; simp only [chainMsg]; split <;> rfl
    cases hl : Traceback.link te <;> by_cases hx : (h[te.id]?).isSome <;> simp [hx, hmsg]

theorem initOne_facts (x : Traceback.Node) (e : Nat) (seen : List Nat) :
    (Traceback.initOne x e seen).1.id = e ∧
    (∀ c, (Traceback.initOne x e seen).1.cause = some c → c ∉ seen ∧ (Traceback.initOne x e seen).2 = c :: seen) ∧
    ((Traceback.initOne x e seen).1.cause = none → ∀ c, (Traceback.initOne x e seen).1.context = some c →
      c ∉ seen ∧ (Traceback.initOne x e seen).2 = c :: seen) := by
  obtain ⟨truthy, cause, context, suppress⟩ := x
  cases truthy <;> cases suppress <;> cases cause <;> cases context <;>
    simp [Traceback.initOne, Traceback.unseen] <;> (repeat' split) <;> simp_all

/-- CPython's walk never visits an exception twice -/
theorem walk_ids (nd : Nat → Option Traceback.Node) :
    ∀ (fuel : Nat) (seen : List Nat) (e : Nat), e ∈ seen →
      ∃ rest, (Traceback.walk nd fuel seen e).map (·.id) = e :: rest ∧ (∀ i ∈ rest, i ∉ seen) ∧ rest.Nodup := by
  intro fuel
  induction fuel with
  | zero => intro seen e _; exact ⟨[], by simp [Traceback.walk]⟩
  | succ f ih =>
    intro seen e he
    simp only [Traceback.walk]
    cases hn : nd e with
    | none => exact ⟨[], by simp⟩
    | some x =>
      obtain ⟨hid, hc, hx⟩ := initOne_facts x e seen
      simp only
      have step : ∀ c, c ∉ seen → (Traceback.initOne x e seen).2 = c :: seen →
          ∃ rest, ((Traceback.initOne x e seen).1 :: Traceback.walk nd f (Traceback.initOne x e seen).2 c).map (·.id)
            = e :: rest ∧ (∀ i ∈ rest, i ∉ seen) ∧ rest.Nodup := by
        intro c hcs h2
        obtain ⟨rest', hr, hns, hnd⟩ := ih (c :: seen) c (List.mem_cons_self ..)
        refine ⟨c :: rest', ?_, ?_, ?_⟩
        · simp [h2, hr, hid]
        · intro i hi
          simp only [List.mem_cons] at hi
          rcases hi with rfl | hi
          · exact hcs
          · exact fun hs => hns i hi (List.mem_cons_of_mem _ hs)
        · exact List.nodup_cons.mpr ⟨fun hm => hns c hm (List.mem_cons_self ..), hnd⟩
      cases hca : (Traceback.initOne x e seen).1.cause with
      | some c =>
        obtain ⟨h1, h2⟩ := hc c hca
        simpa using step c h1 h2
      | none =>
        cases hcx : (Traceback.initOne x e seen).1.context with
        | some c =>
          obtain ⟨h1, h2⟩ := hx hca c hcx
          simpa using step c h1 h2
        | none => exact ⟨[], by simp [hid]⟩

theorem stdFormat_excIds_nodup (h : Heap) (o : Opts) (root : ExcId) (fromDec : Bool) :
    ((stdFormat h o root fromDec).filterMap Piece.excId?).Nodup := by
  unfold stdFormat
  rw [formatFrom_excIds]
  obtain ⟨rest, hr, hns, hnd⟩ := walk_ids (node h) (h.length + 1) [root] root (List.mem_cons_self ..)
  rw [hr]
  have hn : (root :: rest).Nodup := List.nodup_cons.mpr ⟨fun hm => hns root hm (List.mem_cons_self ..), hnd⟩
  have hrev : (root :: rest).reverse.Nodup := by
    rw [List.Nodup, List.pairwise_reverse]
    exact hn.imp (fun hab => Ne.symm hab)
  exact List.Nodup.sublist List.filter_sublist hrev

/-! ### all heaps: the cycle guard never drops a chained exception -/

/-- exception `i` has its closing lines in the report -/
def Rendered (ps : List Piece) (i : ExcId) : Prop := ∃ d, Piece.excOnly i d ∈ ps

/-- the links the standard follows out of `i` – its `__cause__`; without one, its `__context__` unless suppressed –
lead into `s` (for a truthy exception; ids without an exception behind them are ignored) -/
def LinksIn (h : Heap) (i : ExcId) (s : List ExcId) : Prop :=
  ∀ x, h[i]? = some x → x.truthy = true →
    (∀ c y, x.cause = some c → h[c]? = some y → c ∈ s) ∧
    (x.cause = none → x.suppress = false → ∀ d y, x.context = some d → h[d]? = some y → d ∈ s)

theorem Rendered.mono {a b : List Piece} {i : ExcId} (hab : ∀ p ∈ a, p ∈ b) : Rendered a i → Rendered b i :=
  fun ⟨d, hd⟩ => ⟨d, hab _ hd⟩

theorem LinksIn.mono {h : Heap} {i : ExcId} {s s' : List ExcId} (hss : ∀ j ∈ s, j ∈ s') :
    LinksIn h i s → LinksIn h i s' :=
  fun hl x hx ht => ⟨fun c y hc hy => hss _ ((hl x hx ht).1 c y hc hy),
    fun hn hs d y hd hy => hss _ ((hl x hx ht).2 hn hs d y hd hy)⟩

theorem nextLink_spec (x : Exn) (seen : List ExcId) :
    match nextLink x seen with
    | none => x.truthy = true →
        (∀ c, x.cause = some c → c ∈ seen) ∧ (x.suppress = false → ∀ d, x.context = some d → d ∈ seen)
    | some (true, c) => x.cause = some c
    | some (false, c) => (∀ c', x.cause = some c' → c' ∈ seen) ∧ x.suppress = false ∧ x.context = some c := by
  obtain ⟨truthy, cause, context, suppress, group, tb, parents⟩ := x
  cases truthy <;> cases suppress <;> cases cause <;> cases context <;>
    simp [nextLink, unseenOpt, Gen.causeFirst] <;> (repeat' split) <;> simp_all

theorem renderOwn_rendered (o : Opts) (e : ExcId) (x : Exn) (a b : Bool) (n : Nat) :
    Rendered (renderOwn o e x a b n) e := ⟨n, by simp [renderOwn]⟩

/-- what one call guarantees: everything newly marked is rendered and has its links inside the final set -/
def Closed (h : Heap) (seen : List ExcId) (ps : List Piece) (s : List ExcId) : Prop :=
  ∀ i ∈ s, i ∈ seen ∨ (Rendered ps i ∧ LinksIn h i s)

theorem members_closed (h : Heap) (f : List ExcId → ExcId → Res) (nesting total : Nat)
    (hf : ∀ s m r s', f s m = .ok (r, s') → Closed h s r s' ∧ ∀ i ∈ s, i ∈ s') :
    ∀ (ms : List ExcId) (n : Nat) (seen : List ExcId) (last : Option ExcId) ps s l,
      members h f nesting total n ms seen last = .ok (ps, s, l) → Closed h seen ps s := by
  intro ms
  induction ms with
  | nil => intro n seen last ps s l he; simp [members] at he; obtain ⟨_, rfl, _⟩ := he; exact fun i hi => Or.inl hi
  | cons m ms ih =>
    intro n seen last ps s l he
    simp only [members] at he
    split at he
    · simp at he; obtain ⟨_, rfl, _⟩ := he; exact fun i hi => Or.inl hi
    · split at he
      · split at he
        · rename_i ps' s' l' hrec
          simp at he; obtain ⟨rfl, rfl, _⟩ := he
          intro i hi
          rcases ih _ _ _ _ _ _ hrec i hi with h1 | ⟨h1, h2⟩
          · exact Or.inl h1
          · exact Or.inr ⟨h1.mono (fun p hp => by simp [hp]), h2⟩
        · simp at he
      · split at he
        · simp at he
        · rename_i r s1 hfm
          split at he
          · rename_i ps' s' l' hrec
            simp at he; obtain ⟨rfl, rfl, _⟩ := he
            have hmono := members_seen_mono h f nesting total (fun s m r s' hh => (hf s m r s' hh).2)
              ms _ s1 _ ps' s' l' hrec
            intro i hi
            rcases ih _ _ _ _ _ _ hrec i hi with h1 | ⟨h1, h2⟩
            · rcases (hf _ _ _ _ hfm).1 i h1 with h3 | ⟨h3, h4⟩
              · exact Or.inl h3
              · exact Or.inr ⟨h3.mono (fun p hp => by simp [hp]), h4.mono hmono⟩
            · exact Or.inr ⟨h1.mono (fun p hp => by simp [hp]), h2⟩
          · simp at he

theorem fmt_closed (h : Heap) (o : Opts) :
    ∀ (budget : Nat) (seen : List ExcId) (e : ExcId) (isFirst fromDec : Bool) (nesting : Nat) ps s,
      fmt h o budget seen e isFirst fromDec nesting = .ok (ps, s) →
        Closed h seen ps s ∧ ∀ x, h[e]? = some x → e ∈ s ∧ Rendered ps e ∧ LinksIn h e s := by
  intro budget
  induction budget with
  | zero =>
    intro seen e isFirst fromDec nesting ps s hf
    simp only [fmt] at hf
    split at hf
    · rename_i hx; simp at hf; obtain ⟨_, rfl⟩ := hf
      exact ⟨fun i hi => Or.inl hi, fun x hx' => by simp [hx] at hx'⟩
    · simp at hf
  | succ b ih =>
    intro seen e isFirst fromDec nesting ps s hf
    simp only [fmt] at hf
    split at hf
    · rename_i hx; simp at hf; obtain ⟨_, rfl⟩ := hf
      exact ⟨fun i hi => Or.inl hi, fun x hx' => by simp [hx] at hx'⟩
    · rename_i x hx
      have hadd : ∀ i ∈ seen, i ∈ addSeen seen e := fun i hi => (mem_addSeen seen e i).2 (Or.inr hi)
      have hself : e ∈ addSeen seen e := (mem_addSeen seen e e).2 (Or.inl rfl)
      split at hf
      · simp at hf
      · rename_i co s2 hco
        -- the chain part
        have hchain : Closed h (addSeen seen e) co s2 ∧ (∀ i ∈ addSeen seen e, i ∈ s2) ∧ LinksIn h e s2 := by
          have hspec := nextLink_spec x (addSeen seen e)
          split at hco
          · rename_i hn
            simp at hco; obtain ⟨rfl, rfl⟩ := hco
            rw [hn] at hspec
            refine ⟨fun i hi => Or.inl hi, fun i hi => hi, ?_⟩
            intro x' hx' ht
            rw [hx] at hx'; cases hx'
            exact ⟨fun c y hc _ => (hspec ht).1 c hc, fun _ hs d y hd _ => (hspec ht).2 hs d hd⟩
          · rename_i isCause c hn
            split at hco
            · simp at hco
            · rename_i r s' hrec
              simp at hco; obtain ⟨rfl, rfl⟩ := hco
              obtain ⟨hc1, hc2⟩ := ih _ _ _ _ _ _ _ hrec
              have hmono := fmt_seen_mono h o _ _ _ _ _ _ _ _ hrec
              rw [hn] at hspec
              refine ⟨?_, hmono, ?_⟩
              · intro i hi
                rcases hc1 i hi with h1 | ⟨h1, h2⟩
                · exact Or.inl h1
                · exact Or.inr ⟨h1.mono (fun p hp => by simp [hp]), h2⟩
              · intro x' hx' ht
                rw [hx] at hx'; cases hx'
                cases isCause with
                | true =>
                  simp only at hspec
                  refine ⟨fun c' y hc' hy => ?_, fun hnone => by rw [hnone] at hspec; cases hspec⟩
                  rw [hspec] at hc'; cases hc'
                  exact (hc2 y hy).1
                | false =>
                  simp only at hspec
                  obtain ⟨hs1, hs2, hs3⟩ := hspec
                  refine ⟨fun c' y hc' _ => hmono _ (hs1 c' hc'), fun _ _ d y hd hy => ?_⟩
                  rw [hs3] at hd; cases hd
                  exact (hc2 y hy).1
        obtain ⟨hcl, hsub, hlinks⟩ := hchain
        split at hf
        · -- root group: the same exception again at nesting 1
          split at hf
          · simp at hf
          · rename_i r s' hrec
            simp at hf; obtain ⟨rfl, rfl⟩ := hf
            obtain ⟨hr1, hr2⟩ := ih _ _ _ _ _ _ _ hrec
            have hmono := fmt_seen_mono h o _ _ _ _ _ _ _ _ hrec
            obtain ⟨he1, he2, he3⟩ := hr2 x hx
            have hown : e ∈ s' ∧ Rendered (co ++ r) e ∧ LinksIn h e s' :=
              ⟨he1, he2.mono (fun p hp => by simp [hp]), he3⟩
            refine ⟨?_, fun x' _ => hown⟩
            intro i hi
            rcases hr1 i hi with h1 | ⟨h1, h2⟩
            · rcases hcl i h1 with h3 | ⟨h3, h4⟩
              · rcases (mem_addSeen seen e i).1 h3 with rfl | h5
                · exact Or.inr ⟨hown.2.1, hown.2.2⟩
                · exact Or.inl h5
              · exact Or.inr ⟨h3.mono (fun p hp => by simp [hp]), h4.mono hmono⟩
            · exact Or.inr ⟨h1.mono (fun p hp => by simp [hp]), h2⟩
        · split at hf
          · simp at hf; obtain ⟨rfl, rfl⟩ := hf
            refine ⟨?_, fun x' _ => ⟨hsub e hself, ?_, hlinks⟩⟩
            · intro i hi
              rcases hcl i hi with h3 | ⟨h3, h4⟩
              · rcases (mem_addSeen seen e i).1 h3 with rfl | h5
                · exact Or.inr ⟨Rendered.mono (fun p hp => by simp [hp])
                    (renderOwn_rendered o i x isFirst fromDec nesting), hlinks⟩
                · exact Or.inl h5
              · exact Or.inr ⟨h3.mono (fun p hp => by simp [hp]), h4⟩
            · exact Rendered.mono (fun p hp => by simp [hp]) (renderOwn_rendered o e x isFirst fromDec nesting)
          · rename_i ms hms
            split at hf
            · simp at hf
            · rename_i mps s' last hmem
              simp at hf; obtain ⟨rfl, rfl⟩ := hf
              have hfprop : ∀ s m r s', fmt h o b s m false false (nesting + 1) = .ok (r, s') →
                  Closed h s r s' ∧ ∀ i ∈ s, i ∈ s' :=
                fun s m r s' hh => ⟨(ih _ _ _ _ _ _ _ hh).1, fmt_seen_mono h o _ _ _ _ _ _ _ _ hh⟩
              have hm1 := members_closed h _ nesting ms.length hfprop ms 1 s2 none mps s' last hmem
              have hmono := members_seen_mono h _ nesting ms.length (fun s m r s' hh => (hfprop s m r s' hh).2)
                ms 1 s2 none mps s' last hmem
              refine ⟨?_, fun x' _ => ⟨hmono e (hsub e hself), ?_, hlinks.mono hmono⟩⟩
              · intro i hi
                rcases hm1 i hi with h1 | ⟨h1, h2⟩
                · rcases hcl i h1 with h3 | ⟨h3, h4⟩
                  · rcases (mem_addSeen seen e i).1 h3 with rfl | h5
                    · exact Or.inr ⟨Rendered.mono (fun p hp => by simp [hp])
                        (renderOwn_rendered o i x isFirst fromDec nesting), hlinks.mono hmono⟩
                    · exact Or.inl h5
                  · exact Or.inr ⟨h3.mono (fun p hp => by simp [hp]), h4.mono hmono⟩
                · exact Or.inr ⟨h1.mono (fun p hp => by simp [hp]), h2⟩
              · exact Rendered.mono (fun p hp => by simp [hp]) (renderOwn_rendered o e x isFirst fromDec nesting)

/-! ### conversely: whatever is rendered has been marked -/

theorem rendered_iff (ps : List Piece) (i : ExcId) : Rendered ps i ↔ i ∈ ps.filterMap Piece.excId? := by
  simp only [Rendered, List.mem_filterMap]
  constructor
  · rintro ⟨d, hd⟩; exact ⟨_, hd, rfl⟩
  · rintro ⟨p, hp, hpi⟩
    cases p <;> simp [Piece.excId?] at hpi
    subst hpi; exact ⟨_, hp⟩

theorem members_ids_mem (h : Heap) (f : List ExcId → ExcId → Res) (nesting total : Nat)
    (hf : ∀ s m r s', f s m = .ok (r, s') → (∀ i ∈ r.filterMap Piece.excId?, i ∈ s') ∧ ∀ i ∈ s, i ∈ s') :
    ∀ (ms : List ExcId) (n : Nat) (seen : List ExcId) (last : Option ExcId) ps s l,
      members h f nesting total n ms seen last = .ok (ps, s, l) → ∀ i ∈ ps.filterMap Piece.excId?, i ∈ s := by
  intro ms
  induction ms with
  | nil => intro n seen last ps s l he; simp [members] at he; obtain ⟨rfl, _, _⟩ := he; simp
  | cons m ms ih =>
    intro n seen last ps s l he
    simp only [members] at he
    split at he
    · simp at he; obtain ⟨rfl, _, _⟩ := he; simp [Piece.excId?]
    · split at he
      · split at he
        · rename_i ps' s' l' hrec
          simp at he; obtain ⟨rfl, rfl, _⟩ := he
          intro i hi
          change i ∈ ps'.filterMap Piece.excId? at hi
          exact ih _ _ _ _ _ _ hrec i hi
        · simp at he
      · split at he
        · simp at he
        · rename_i r s1 hfm
          split at he
          · rename_i ps' s' l' hrec
            simp at he; obtain ⟨rfl, rfl, _⟩ := he
            have hmono := members_seen_mono h f nesting total (fun s m r s' hh => (hf s m r s' hh).2)
              ms _ s1 _ ps' s' l' hrec
            intro i hi
            simp only [List.filterMap_cons, Piece.excId?, List.filterMap_append, List.mem_append] at hi
            rcases hi with hi | hi
            · exact hmono i ((hf _ _ _ _ hfm).1 i hi)
            · exact ih _ _ _ _ _ _ hrec i hi
          · simp at he

theorem fmt_ids_mem (h : Heap) (o : Opts) :
    ∀ (budget : Nat) (seen : List ExcId) (e : ExcId) (isFirst fromDec : Bool) (nesting : Nat) ps s,
      fmt h o budget seen e isFirst fromDec nesting = .ok (ps, s) → ∀ i ∈ ps.filterMap Piece.excId?, i ∈ s := by
  intro budget
  induction budget with
  | zero =>
    intro seen e isFirst fromDec nesting ps s hf
    simp only [fmt] at hf
    split at hf
    · simp at hf; obtain ⟨rfl, _⟩ := hf; simp
    · simp at hf
  | succ b ih =>
    intro seen e isFirst fromDec nesting ps s hf
    simp only [fmt] at hf
    split at hf
    · simp at hf; obtain ⟨rfl, _⟩ := hf; simp
    · rename_i x hx
      have hself : e ∈ addSeen seen e := (mem_addSeen seen e e).2 (Or.inl rfl)
      split at hf
      · simp at hf
      · rename_i co s2 hco
        have hchain : (∀ i ∈ co.filterMap Piece.excId?, i ∈ s2) ∧ (∀ i ∈ addSeen seen e, i ∈ s2) := by
          split at hco
          · simp at hco; obtain ⟨rfl, rfl⟩ := hco; simp
          · split at hco
            · simp at hco
            · rename_i r s' hrec
              simp at hco; obtain ⟨rfl, rfl⟩ := hco
              refine ⟨?_, fmt_seen_mono h o _ _ _ _ _ _ _ _ hrec⟩
              intro i hi
              have hmsg : ∀ bb : Bool, Piece.excId? (if bb = true then Piece.causeMsg nesting else Piece.contextMsg nesting) = none := by
                intro bb; cases bb <;> rfl
              simp only [List.filterMap_append, List.filterMap_cons, hmsg, List.filterMap_nil, List.append_nil] at hi
              exact ih _ _ _ _ _ _ _ hrec i hi
        obtain ⟨hcoS, hsub⟩ := hchain
        have hown : ∀ i ∈ (renderOwn o e x isFirst fromDec nesting).filterMap Piece.excId?, i ∈ s2 := by
          intro i hi; rw [renderOwn_excIds] at hi; simp at hi; subst hi; exact hsub _ hself
        split at hf
        · split at hf
          · simp at hf
          · rename_i r s' hrec
            simp at hf; obtain ⟨rfl, rfl⟩ := hf
            have hmono := fmt_seen_mono h o _ _ _ _ _ _ _ _ hrec
            intro i hi
            simp only [List.filterMap_append, List.mem_append] at hi
            rcases hi with hi | hi
            · exact hmono i (hcoS i hi)
            · exact ih _ _ _ _ _ _ _ hrec i hi
        · split at hf
          · simp at hf; obtain ⟨rfl, rfl⟩ := hf
            intro i hi
            simp only [List.filterMap_append, List.mem_append] at hi
            rcases hi with hi | hi
            · exact hcoS i hi
            · exact hown i hi
          · rename_i ms hms
            split at hf
            · simp at hf
            · rename_i mps s' last hmem
              simp at hf; obtain ⟨rfl, rfl⟩ := hf
              have hfprop : ∀ s m r s', fmt h o b s m false false (nesting + 1) = .ok (r, s') →
                  (∀ i ∈ r.filterMap Piece.excId?, i ∈ s') ∧ ∀ i ∈ s, i ∈ s' :=
                fun s m r s' hh => ⟨ih _ _ _ _ _ _ _ hh, fmt_seen_mono h o _ _ _ _ _ _ _ _ hh⟩
              have hm1 := members_ids_mem h _ nesting ms.length hfprop ms 1 s2 none mps s' last hmem
              have hmono := members_seen_mono h _ nesting ms.length (fun s m r s' hh => (hfprop s m r s' hh).2)
                ms 1 s2 none mps s' last hmem
              intro i hi
              simp only [List.filterMap_append, List.mem_append] at hi
              rcases hi with hi | hi | hi | hi
              · exact hmono i (hcoS i hi)
              · exact hmono i (hown i hi)
              · exact hm1 i hi
              · exfalso
                split at hi
                · split at hi <;> simp [Piece.excId?] at hi
                · simp [Piece.excId?] at hi

end Exc
