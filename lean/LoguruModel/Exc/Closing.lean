import LoguruModel.Py.Basic
import LoguruModel.Generated.Exc
/-
C13 – the closing line of one exception in `_format_exception` (round 5): the only place where the
formatter runs `__str__` of the exception object itself.

    if self._diagnose and frames:
        try:    has_message = bool(str(exc_value))
        except Exception: has_message = True
        if issubclass(exc_type, AssertionError) and final_source and not has_message:
            error_message += ": " + final_source

`str(exc_value)` is user code: an oracle `Except Err Str`.  Both tests, the presence of the `try` and the
value chosen when `__str__` raises are REGENERATED (`Gen.closingGuard`, `Gen.assertAppend`, `Gen.strGuarded`,
`Gen.hasMessageOnError`).  Everything else of the closing lines is `traceback.format_exception_only`
(opaque `excOnly` piece).
-/
namespace Exc
open Py

/-- what the block reads of the exception object -/
structure ExcObj where
  isAssertion : Bool            -- `issubclass(exc_type, AssertionError)`
  str : Except Err Str          -- outcome of `str(exc_value)`

/-- `has_message`, for a formatter whose `str(exc_value)` is (`guarded`) or is not inside the `try` -/
def hasMessageWith (guarded : Bool) (x : ExcObj) : Except Err Bool :=
  match x.str with
  | .ok s => .ok (!s.isEmpty)
  | .error e => if guarded then .ok Gen.hasMessageOnError else .error e

/-- is `": " + final_source` appended to the standard exception-only line? -/
def assertSuffixWith (guarded : Bool) (diagnose framesNonEmpty finalSourceNonEmpty : Bool) (x : ExcObj) : Except Err Bool :=
  if Gen.closingGuard diagnose framesNonEmpty then
    match hasMessageWith guarded x with
    | .error e => .error e
    | .ok hm => .ok (Gen.assertAppend x.isAssertion finalSourceNonEmpty hm)
  else .ok false

/-- the code as it is -/
def assertSuffix : Bool → Bool → Bool → ExcObj → Except Err Bool := assertSuffixWith Gen.strGuarded

end Exc
