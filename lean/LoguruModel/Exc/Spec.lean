import LoguruModel.Exc.Model
import LoguruModel.Py.Traceback
/-
C13 – specification side: the standard ordering (`Py/Traceback.lean`) instantiated on a heap, and
the abstract descriptions the property theorems are stated against.
-/
namespace Exc
open Py

def node (h : Heap) (e : ExcId) : Option Traceback.Node :=
  match h[e]? with
  | some x => some { truthy := x.truthy, cause := x.cause, context := x.context, suppress := x.suppress }
  | none => none

/-- what one exception contributes (frames + exception-only), as the model renders it -/
def renderStd (h : Heap) (o : Opts) (fromDec : Bool) (e : ExcId) (isRoot : Bool) : List Piece :=
  match h[e]? with
  | some x => renderOwn o e x isRoot (isRoot && fromDec) 0
  | none => []

def chainMsg (isCause : Bool) : List Piece := [if isCause then Piece.causeMsg 0 else Piece.contextMsg 0]

/-- the standard chain ordering for a heap without exception groups -/
def stdFormat (h : Heap) (o : Opts) (root : ExcId) (fromDec : Bool) : List Piece :=
  Traceback.formatFrom (renderStd h o fromDec) chainMsg true (Traceback.walk (node h) (h.length + 1) [root] root)

def groupFree (h : Heap) : Prop := ∀ x ∈ h, x.group = none

/-- number of heap exceptions not yet in `seen` – the termination measure of the chain walk -/
def unseenCount (h : Heap) (seen : List ExcId) : Nat :=
  (List.range h.length).countP (fun i => !(seen.contains i))

/-- heaps that differ only in the values of variables -/
def eraseFrame (f : Frame) : Frame := { f with vals := [] }
def eraseExn (x : Exn) : Exn := { x with tb := x.tb.map eraseFrame, parents := x.parents.map eraseFrame }
def eraseVals (h : Heap) : Heap := h.map eraseExn

def Piece.valueLen : Piece → Nat
  | .value t _ => t.length
  | _ => 0

def Piece.frameInfo? : Piece → Option (FrameInfo × Bool)
  | .frame f m _ => some (f, m)
  | _ => none

end Exc
