import LoguruModel.Exc.Lemmas
/-
C13 – `ExceptionFormatter._format_list` statement by statement (round 5): the loop with its counter and
`last_source`, every test and counter update REGENERATED from the source (`Gen.flInit`, `flFlushTest`, `flFlushArg`,
`flSameTest`, `flStep`, `flContinueTest`, `flRestart`, `flFinalTest`, `flFinalArg`).

    for *source, line in frames:
        if source != last_source and count > 3:  result.append(skip_message(count - 3))
        if source == last_source:
            count += 1
            if count > 3: continue
        else:
            count = 1
        result.append(source_message(*source, line)); last_source = source
    if count > 3: result.append(skip_message(count - 3))
-/
namespace Exc
open Py

def flFlush (same : Bool) (count : Int) (d : Nat) : List Piece :=
  if Gen.flFlushTest same count then [Piece.repeated (Gen.flFlushArg count).toNat d] else []

def formatListLoop (o : Opts) (d : Nat) : Option (Str × Int × Str × Bool) → Int → List Shown → List Piece
  | _, count, [] => if Gen.flFinalTest count then [Piece.repeated (Gen.flFinalArg count).toNat d] else []
  | last, count, s :: rest =>
    let same := decide (some s.key = last)
    if Gen.flSameTest same then
      if Gen.flContinueTest (Gen.flStep count) then
        flFlush same count d ++ formatListLoop o d last (Gen.flStep count) rest               -- `continue`
      else
        flFlush same count d ++ framePieces o d s ++ formatListLoop o d (some s.key) (Gen.flStep count) rest
    else
      flFlush same count d ++ framePieces o d s ++ formatListLoop o d (some s.key) (Gen.flRestart count) rest

/-- the loop over the regenerated kernels is the folding model the theorems are about -/
theorem formatListLoop_eq (o : Opts) (d : Nat) :
    ∀ (fs : List Shown) (last : Option (Str × Int × Str × Bool)) (n : Nat),
      formatListLoop o d last (n : Int) fs = foldFrames o d last n fs := by
  intro fs
  induction fs with
  | nil =>
    intro last n
    simp only [formatListLoop, foldFrames, skipPieces, Gen.flFinalTest, Gen.flFinalArg, Gen.foldAfter]
    by_cases h : n > 3
    · have h' : (n : Int) > 3 := by omega
      have h2 : ((n : Int) - 3).toNat = n - 3 := by omega
      simp [h, h', h2]
    · have h' : ¬ (n : Int) > 3 := by omega
      simp [h, h']
  | cons s rest ih =>
    intro last n
    simp only [formatListLoop, foldFrames, Gen.flSameTest, Gen.flStep, Gen.flContinueTest, Gen.flRestart, flFlush,
      Gen.flFlushTest, Gen.flFlushArg, skipPieces, Gen.foldAfter]
    have hcast : ((n : Int) + 1) = ((n + 1 : Nat) : Int) := by omega
    have h1 : ((1 : Int)) = ((1 : Nat) : Int) := rfl
    by_cases hs : some s.key = last
    · simp only [hs, decide_true, Bool.not_true, Bool.false_and, Bool.false_eq_true, if_false, if_true, List.nil_append]
      have e1 : formatListLoop o d last ((n : Int) + 1) rest = foldFrames o d last (n + 1) rest := by
        rw [hcast]; exact ih _ _
      by_cases hgt : n + 1 > 3
      · have : (n : Int) + 1 > 3 := by omega
        simp [hgt, this, e1]
      · have : ¬ (n : Int) + 1 > 3 := by omega
        simp [hgt, this, e1]
    · simp only [hs, decide_false, Bool.not_false, Bool.true_and, Bool.false_eq_true, if_false]
      have e1 : formatListLoop o d (some s.key) (1 : Int) rest = foldFrames o d (some s.key) 1 rest := by
        rw [h1]; exact ih _ _
      by_cases hgt : n > 3
      · have h' : (n : Int) > 3 := by omega
        have h2 : ((n : Int) - 3).toNat = n - 3 := by omega
        simp [hgt, h', h2, e1]
      · have h' : ¬ (n : Int) > 3 := by omega
        simp [hgt, h', e1]

end Exc
