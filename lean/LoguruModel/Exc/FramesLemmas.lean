import LoguruModel.Exc.Frames
import LoguruModel.Exc.Lemmas
/-
C13 – the statement-level `_extract_frames` (`extractLoop`, built from the regenerated kernels)
computes what the list-level model `extractFrames` says.
-/
set_option linter.unusedSimpArgs false
namespace Exc
open Py

theorem unmarked_append (a b : List Frame) : unmarked (a ++ b) = unmarked a ++ unmarked b := by
  simp [unmarked]

theorem unmarked_reverse (a : List Frame) : unmarked a.reverse = (unmarked a).reverse := by
  simp [unmarked]

theorem appendTb_eq : ∀ (rest : List Frame) (infos : List Shown),
    appendTb infos rest = infos ++ unmarked (visible rest)
  | [], infos => by simp [appendTb, visible, unmarked]
  | f :: rest, infos => by
    rw [appendTb, appendTb_eq rest]
    cases hf : f.hidden <;> simp [visible, unmarked, hf]

/-- without `break` the walk prepends all non-hidden callers, outermost first -/
theorem walkUp_all : ∀ (ps : List Frame) (infos : List Shown),
    walkUp false ps infos = (unmarked (visible ps)).reverse ++ infos
  | [], infos => by simp [walkUp, visible, unmarked]
  | f :: ps, infos => by
    rw [walkUp]
    cases hf : f.hidden
    · simp [walkUp_all ps, visible, unmarked, hf]
    · simp [walkUp_all ps, visible, hf]

/-- with `break` the walk prepends the first non-hidden caller only -/
theorem walkUp_one : ∀ (ps : List Frame) (infos : List Shown),
    walkUp true ps infos = unmarked (parentOnlyFrames ps) ++ infos
  | [], infos => by simp [walkUp, parentOnlyFrames, visible, unmarked]
  | f :: ps, infos => by
    rw [walkUp]
    have ih := walkUp_one ps infos
    simp only [parentOnlyFrames_eq] at ih ⊢
    cases hf : f.hidden
    · simp [visible, unmarked, hf]
    · simp [Gen.parentWalkSkipsHidden, visible, hf, ih]

theorem setLastMark_unmarked : ∀ l : List Frame, setLastMark (unmarked l) = markLast l
  | [] => rfl
  | [_] => rfl
  | f :: g :: rest => by
    have ih := setLastMark_unmarked (g :: rest)
    simp only [unmarked, List.map_cons, setLastMark, markLast] at *
    rw [ih]

theorem unmarked_eq_nil_markLast (l : List Frame) (h : unmarked l = []) : unmarked l = markLast l := by
  cases l <;> simp_all [unmarked, markLast]

theorem markLast_snoc : ∀ (l : List Frame) (t : Frame), markLast (l ++ [t]) = unmarked l ++ [⟨t, true⟩]
  | [], t => rfl
  | [f], t => rfl
  | f :: g :: rest, t => by
    have ih := markLast_snoc (g :: rest) t
    simp only [List.cons_append, markLast, unmarked, List.map_cons] at *
    rw [ih]

theorem setLastMark_nonempty_or (w : List Shown) :
    (if (!w.isEmpty) = true then setLastMark w else w) = setLastMark w := by
  cases w <;> simp [setLastMark]

/-- the regenerated slice `infos[-limit:]` keeps the last `limit` entries -/
theorem limitSlice_eq_applyLimit {α : Type} (k : Int) (hk : 0 < k) (l : List α) :
    Gen.limitSlice k l = applyLimit (some k) l := by
  simp only [Gen.limitSlice, applyLimit]
  exact Py.slice_neg_lower k hk l

theorem earlyReturn_eq_limitBlocks (limit : Option Int) :
    Gen.earlyReturn false limit.isNone (limit.getD 0) = limitBlocks limit := by
  cases limit with
  | none => simp [Gen.earlyReturn, limitBlocks]
  | some k =>
    -- whichever way the source spells "limit is not positive" (`<= 0`, `not > 0`, `< 1`, `not >= 1`)
    by_cases h : k ≤ 0
    · have h1 : ¬ 0 < k := by omega
      have h2 : k < 1 := by omega
      have h3 : ¬ 1 ≤ k := by omega
      simp [Gen.earlyReturn, limitBlocks, h, h1, h2, h3]
    · have h1 : 0 < k := by omega
      have h2 : ¬ k < 1 := by omega
      have h3 : 1 ≤ k := by omega
      simp [Gen.earlyReturn, limitBlocks, h, h1, h2, h3]

/-- the list-level description of `infos` before the limit -/
def infosSpec (o : Opts) (isFirst fromDec : Bool) (t0 : Frame) (rest parents : List Frame) : List Shown :=
  (if fromDec && !o.backtrace then unmarked (parentOnlyFrames parents ++ visible [t0])
   else if o.backtrace && isFirst then markLast ((visible parents).reverse ++ visible [t0])
   else unmarked (visible [t0])) ++ unmarked (visible rest)

theorem infosLoop_eq (o : Opts) (isFirst fromDec : Bool) (t0 : Frame) (rest parents : List Frame) :
    infosLoop o isFirst fromDec t0 rest parents = infosSpec o isFirst fromDec t0 rest parents := by
  unfold infosLoop infosSpec
  simp only [appendTb_eq]
  congr 1
  have h0 : (if (!t0.hidden) = true then [(⟨t0, false⟩ : Shown)] else []) = unmarked (visible [t0]) := by
    cases ht : t0.hidden <;> simp [visible, unmarked, ht]
  rw [h0]
  cases hb : o.backtrace <;> cases hi : isFirst <;> cases hd : fromDec <;>
    simp [Gen.walkCond, Gen.walkBreaks, Gen.markCond, walkUp_one, walkUp_all,
      ← unmarked_reverse, ← unmarked_append, setLastMark_unmarked] <;>
    exact unmarked_eq_nil_markLast _

theorem extractFrames_cons (o : Opts) (isFirst fromDec : Bool) (t0 : Frame) (rest parents : List Frame) :
    extractFrames o isFirst fromDec (t0 :: rest) parents =
      if limitBlocks o.limit then [] else applyLimit o.limit (infosSpec o isFirst fromDec t0 rest parents) := rfl

/-- **the statement-level transcription equals the list-level model** – for every mode, entry point, limit,
traceback and caller chain -/
theorem extractLoop_eq (o : Opts) (isFirst fromDec : Bool) (tb parents : List Frame) :
    extractLoop o isFirst fromDec tb parents = extractFrames o isFirst fromDec tb parents := by
  cases tb with
  | nil => simp [extractLoop, extractFrames]
  | cons t0 rest =>
    rw [extractFrames_cons]
    simp only [extractLoop, List.isEmpty_cons, earlyReturn_eq_limitBlocks, infosLoop_eq]
    cases hlb : limitBlocks o.limit
    · cases hl : o.limit with
      | none => simp [Gen.limitApplies, applyLimit]
      | some k =>
        have hk : 0 < k := by
          simp [limitBlocks, hl] at hlb; omega
        simp [Gen.limitApplies, limitSlice_eq_applyLimit k hk]
    · simp

/-! ### folding repeated frames loses nothing -/

/-- the copies `_format_list` still owes for the current run of identical frames -/
def pendingRepeats (last : Option FrameKey) (count : Nat) : List FrameKey :=
  match last with
  | some k => List.replicate (count - Gen.foldAfter) k
  | none => []

theorem expandFolded_values (last : Option FrameKey) (vs : List Val) (f : Val → Piece)
    (hf : ∀ v, ∃ t d, f v = Piece.value t d) (X : List Piece) :
    expandFolded last (vs.map f ++ X) = expandFolded last X := by
  induction vs with
  | nil => rfl
  | cons v vs ih =>
    obtain ⟨t, d, hv⟩ := hf v
    simp only [List.map_cons, List.cons_append, hv, expandFolded]
    exact ih

theorem expandFolded_framePieces (o : Opts) (d : Nat) (s : Shown) (last : Option FrameKey) (X : List Piece) :
    expandFolded last (framePieces o d s ++ X) = s.key :: expandFolded (some s.key) X := by
  simp only [framePieces, List.cons_append, expandFolded, Shown.key]
  congr 1
  split
  · exact expandFolded_values _ _ _ (fun v => ⟨_, _, rfl⟩) X
  · rfl

theorem expandFolded_skip (last : Option FrameKey) (count d : Nat) (X : List Piece) :
    expandFolded last (skipPieces count d ++ X) = pendingRepeats last count ++ expandFolded last X := by
  simp only [skipPieces, pendingRepeats]
  split
  · cases last <;> simp [expandFolded]
  · rename_i h
    have : count - Gen.foldAfter = 0 := by omega
    cases last <;> simp [this]

/-- invariant of the `_format_list` loop: reading the output back gives the owed copies of the current run
followed by every remaining frame -/
theorem expandFolded_foldFrames (o : Opts) (d : Nat) :
    ∀ (fs : List Shown) (last : Option FrameKey) (count : Nat), (last = none → count = 0) →
      expandFolded last (foldFrames o d last count fs) = pendingRepeats last count ++ fs.map Shown.key := by
  intro fs
  induction fs with
  | nil =>
    intro last count _
    have := expandFolded_skip last count d []
    simpa [foldFrames, expandFolded] using this
  | cons s rest ih =>
    intro last count hnone
    simp only [foldFrames, List.map_cons]
    split
    · rename_i hlast
      subst hlast
      split
      · rename_i hgt
        rw [ih _ _ (by simp)]
        simp only [pendingRepeats]
        have : count + 1 - Gen.foldAfter = (count - Gen.foldAfter) + 1 := by omega
        rw [this, List.replicate_succ']
        simp
      · rename_i hle
        rw [expandFolded_framePieces, ih _ _ (by simp)]
        simp only [pendingRepeats]
        have h1 : count + 1 - Gen.foldAfter = 0 := by omega
        have h2 : count - Gen.foldAfter = 0 := by omega
        simp [h1, h2]
    · rw [List.append_assoc, expandFolded_skip, expandFolded_framePieces, ih _ _ (by simp)]
      simp [pendingRepeats, Gen.foldAfter]

end Exc
