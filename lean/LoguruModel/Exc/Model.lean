import LoguruModel.Py.Basic
import LoguruModel.Generated.Exc
/-
C13 – model of `loguru/_better_exceptions.py` (`ExceptionFormatter`), DESIGN §4 C13.

* An exception *heap* is a finite map `ExcId ↦ Exn` (a list indexed by id); `cause`/`context`
  are arbitrary ids, so arbitrary graphs – cycles included – are heaps.
* Output is structured (`List Piece`); the column layout of value arrows, ANSI colouring and the
  text of `traceback.format_exception_only` are abstracted (`excOnly id`).
* `_format_exception` is transcribed with its shared mutable `seen` set threaded as state and with
  an explicit **stack budget**: every recursive call (`yield from self._format_exception(...)`)
  consumes one unit, an exhausted budget is Python's `RecursionError` (finding F12).
* User code (`repr` of frame variables, `bool(exc)`) is an oracle stored in the heap.
-/
namespace Exc
open Py

abbrev ExcId := Nat

/-- a variable value: the outcome of `repr(v)` (an `Exception` raised by `__repr__` is the error
case) and `type(v).__name__` -/
structure Val where
  repr : Except Err Str
  typeName : Str

/-- what a traceback line shows of a frame -/
structure FrameInfo where
  file : Str
  line : Int
  func : Str
  source : Str            -- `linecache.getline(...).strip()`
  deriving DecidableEq, Repr

structure Frame where
  info : FrameInfo
  hidden : Bool           -- `co_filename == hidden_frames_filename` (loguru's own wrapper frames)
  vals : List Val         -- values of the names of the source line, resolved in locals then globals

structure Exn where
  truthy : Bool                    -- `bool(exc_value)` (`if exc_value:` guards the chain walk)
  cause : Option ExcId
  context : Option ExcId
  suppress : Bool
  group : Option (List ExcId)      -- `value.exceptions` for exception groups
  tb : List Frame                  -- traceback, outermost first; `[]` = no traceback
  parents : List Frame             -- `tb.tb_frame.f_back` chain, innermost first

abbrev Heap := List Exn

structure Opts where
  backtrace : Bool
  diagnose : Bool
  colorize : Bool
  limit : Option Int               -- `sys.tracebacklimit`
  maxLen : Nat

inductive Piece where
  | pfx                                                   -- `self._prefix`
  | intro (grouped : Bool) (depth : Nat) (plus : Bool)    -- "[Exception Group ]Traceback (most recent call last):"
  | frame (f : FrameInfo) (mark : Bool) (depth : Nat)     -- location line (+ source line); mark = catch point
  | value (text : Str) (depth : Nat)                      -- one displayed variable value
  | repeated (n : Nat) (depth : Nat)                      -- "[Previous line repeated n more times]"
  | causeMsg (depth : Nat)
  | contextMsg (depth : Nat)
  | excOnly (e : ExcId) (depth : Nat)                     -- `traceback.format_exception_only`
  | ruler (n : Option Nat) (first : Bool) (depth : Nat)   -- "+---------------- n ----------------"
  | more (n : Nat) (depth : Nat)                          -- "and n more exceptions"
  | maxDepth (depth : Nat)                                -- "... (max_group_depth is 10)"
  | groupEnd (depth : Nat)                                -- "+------------------------------------"
  deriving DecidableEq, Repr

/-! ### `_format_value` -/

/-- `repr(v)` guarded by `except Exception` -/
def reprOr (v : Val) : Str :=
  match v.repr with
  | .ok s => s
  | .error _ => Gen.unprintablePre ++ v.typeName ++ Gen.unprintablePost

/-- `if len(v) > max_length: v = v[: max_length - 3] + "..."` -/
def truncate (maxLen : Nat) (s : Str) : Str :=
  if Gen.tooLong s.length maxLen then s.take (maxLen - Gen.cut) ++ Gen.ellipsis else s

def formatValue (maxLen : Nat) (v : Val) : Str := truncate maxLen (reprOr v)

/-- Python `s.split(c)` for a one-character separator -/
def splitOnChar (c : Char) : Str → List Str
  | [] => [[]]
  | x :: xs =>
    match splitOnChar c xs with
    | [] => [[]]
    | l :: ls => if x = c then [] :: l :: ls else (x :: l) :: ls

/-- the lines one displayed value occupies in the report (`_format_relevant_values`:
`value_lines = value.split("\n")`, one report line each) -/
def displayLines (maxLen : Nat) (v : Val) : List Str := splitOnChar Gen.valueLineSep (formatValue maxLen v)

/-- the shape refuted by `C13.per_line_truncation_unbounded` (seeded change C13-d): the limit applied
to each line of the repr separately -/
def truncatePerLine (maxLen : Nat) (s : Str) : Str :=
  [Gen.valueLineSep].intercalate ((splitOnChar Gen.valueLineSep s).map (truncate maxLen))

/-! ### `_extract_frames` -/

structure Shown where
  fr : Frame
  mark : Bool

def visible (fs : List Frame) : List Frame := fs.filter (fun f => !f.hidden)

def unmarked (fs : List Frame) : List Shown := fs.map (fun f => ⟨f, false⟩)

/-- `infos[-1]` gets the catch-point identifier -/
def markLast : List Frame → List Shown
  | [] => []
  | [f] => [⟨f, true⟩]
  | f :: g :: rest => ⟨f, false⟩ :: markLast (g :: rest)

/-- `infos[-limit:]` for a positive limit -/
def applyLimit {α : Type} (limit : Option Int) (l : List α) : List α :=
  match limit with
  | none => l
  | some k => l.drop (l.length - k.toNat)

def limitBlocks (limit : Option Int) : Bool :=
  match limit with
  | none => false
  | some k => decide (k ≤ 0)

/-- the decorator case without backtrace (`get_parent_only`): walk the callers upward and stop at the first
one that is not hidden; if the `break` sat outside the visibility test only the immediate caller would be looked at -/
def parentOnlyFrames (parents : List Frame) : List Frame :=
  if Gen.parentWalkSkipsHidden then (visible parents).take 1 else visible (parents.take 1)

def extractFrames (o : Opts) (isFirst fromDec : Bool) (tb parents : List Frame) : List Shown :=
  match tb with
  | [] => []
  | t0 :: rest =>
    if limitBlocks o.limit then [] else
    let head := visible [t0]
    let parentOnly := fromDec && !o.backtrace
    let infos0 : List Shown :=
      if parentOnly then unmarked (parentOnlyFrames parents ++ head)
      else if o.backtrace && isFirst then markLast ((visible parents).reverse ++ head)
      else unmarked head
    applyLimit o.limit (infos0 ++ unmarked (visible rest))

/-! ### `_format_list` (repeated-frame folding) and the per-frame value lines -/

/-- the `*source` key compared by `_format_list`: file, line, function name (with the mark) -/
def Shown.key (s : Shown) : Str × Int × Str × Bool := (s.fr.info.file, s.fr.info.line, s.fr.info.func, s.mark)

def framePieces (o : Opts) (d : Nat) (s : Shown) : List Piece :=
  Piece.frame s.fr.info s.mark d ::
    (if o.diagnose && !s.fr.info.source.isEmpty then
      s.fr.vals.reverse.map (fun v => Piece.value (formatValue o.maxLen v) d)
    else [])

def skipPieces (count d : Nat) : List Piece :=
  if count > Gen.foldAfter then [Piece.repeated (count - Gen.foldAfter) d] else []

def foldFrames (o : Opts) (d : Nat) : Option (Str × Int × Str × Bool) → Nat → List Shown → List Piece
  | _, count, [] => skipPieces count d
  | last, count, s :: rest =>
    if some s.key = last then
      if count + 1 > Gen.foldAfter then foldFrames o d last (count + 1) rest
      else framePieces o d s ++ foldFrames o d (some s.key) (count + 1) rest
    else
      skipPieces count d ++ framePieces o d s ++ foldFrames o d (some s.key) 1 rest

/-! ### `_format_exception` -/

def isGroup (h : Heap) (e : ExcId) : Bool :=
  match h[e]? with
  | some x => x.group.isSome
  | none => false

def unseenOpt (seen : List ExcId) (c : Option ExcId) : Option ExcId :=
  match c with
  | some c => if c ∈ seen then none else some c
  | none => none

/-- the `if … __cause__ … elif … __context__ …` block: which exception is rendered first, and with
which message (`true` = cause) -/
def nextLink (x : Exn) (seen : List ExcId) : Option (Bool × ExcId) :=
  if !x.truthy then none else
  let viaCause := (unseenOpt seen x.cause).map (fun c => (true, c))
  let viaContext := if x.suppress then none else (unseenOpt seen x.context).map (fun c => (false, c))
  if Gen.causeFirst then viaCause <|> viaContext else viaContext <|> viaCause

def addSeen (seen : List ExcId) (e : ExcId) : List ExcId := if e ∈ seen then seen else e :: seen

abbrev Res := Except Err (List Piece × List ExcId)

/-- the `for n, exc in enumerate(value.exceptions, start=1)` loop; `f` renders one member.
Returns the pieces, the `seen` set and the last `exc` the loop looked at. -/
def members (h : Heap) (f : List ExcId → ExcId → Res) (nesting total : Nat) :
    Nat → List ExcId → List ExcId → Option ExcId → Except Err (List Piece × List ExcId × Option ExcId)
  | _, [], seen, last => .ok ([], seen, last)
  | n, m :: ms, seen, _ =>
    if n > Gen.groupWidth then
      .ok ([Piece.ruler none (n == 1) nesting, Piece.more (total - Gen.groupWidth) (nesting + 1)], seen, some m)
    else if nesting == Gen.groupDepth && isGroup h m then
      match members h f nesting total (n + 1) ms seen (some m) with
      | .ok (ps, s, l) => .ok (Piece.ruler (some n) (n == 1) nesting :: Piece.maxDepth (nesting + 1) :: ps, s, l)
      | .error e => .error e
    else
      match f seen m with
      | .error e => .error e
      | .ok (r, s1) =>
        match members h f nesting total (n + 1) ms s1 (some m) with
        | .ok (ps, s, l) => .ok (Piece.ruler (some n) (n == 1) nesting :: (r ++ ps), s, l)
        | .error e => .error e

/-- frames, exception-only and (for groups) the members of one exception at one nesting level -/
def renderOwn (o : Opts) (e : ExcId) (x : Exn) (isFirst fromDec : Bool) (nesting : Nat) : List Piece :=
  let frames := extractFrames o isFirst fromDec x.tb x.parents
  (if isFirst then [Piece.pfx] else []) ++
  (if frames.isEmpty then [] else [Piece.intro x.group.isSome nesting (nesting == 1)]) ++
  foldFrames o nesting none 0 frames ++ [Piece.excOnly e nesting]

/-- `_format_exception(value, tb, seen=…, is_first=…, from_decorator=…, group_nesting=…)`.
`budget` is the number of nested generator frames still available. -/
def fmt (h : Heap) (o : Opts) : Nat → List ExcId → ExcId → Bool → Bool → Nat → Res
  | 0, seen, e, _, _, _ =>
    match h[e]? with
    | none => .ok ([], seen)                          -- dangling id (impossible in Python)
    | some _ => .error .runtimeError                  -- RecursionError
  | budget + 1, seen, e, isFirst, fromDec, nesting =>
    match h[e]? with
    | none => .ok ([], seen)
    | some x =>
      let seen1 := addSeen seen e
      let chain : Res :=
        match nextLink x seen1 with
        | none => .ok ([], seen1)
        | some (isCause, c) =>
          match fmt h o budget seen1 c false false nesting with
          | .error err => .error err
          | .ok (r, s) => .ok (r ++ [if isCause then Piece.causeMsg nesting else Piece.contextMsg nesting], s)
      match chain with
      | .error err => .error err
      | .ok (chainOut, seen2) =>
        if x.group.isSome && nesting == 0 then
          match fmt h o budget seen2 e isFirst fromDec 1 with
          | .error err => .error err
          | .ok (r, s) => .ok (chainOut ++ r, s)
        else
          let own := renderOwn o e x isFirst fromDec nesting
          match x.group with
          | none => .ok (chainOut ++ own, seen2)
          | some ms =>
            match members h (fun s m => fmt h o budget s m false false (nesting + 1)) nesting ms.length 1 ms seen2 none with
            | .error err => .error err
            | .ok (ps, s, last) =>
              let close :=
                match last with
                | some l => if !isGroup h l || nesting == Gen.groupDepth then [Piece.groupEnd nesting] else []
                | none => [Piece.groupEnd nesting]
              .ok (chainOut ++ own ++ ps ++ close, s)

/-- `ExceptionFormatter.format_exception(type, value, tb, from_decorator=…)` -/
def formatException (h : Heap) (o : Opts) (budget : Nat) (root : ExcId) (fromDec : Bool) : Except Err (List Piece) :=
  match fmt h o budget [] root true fromDec 0 with
  | .ok (ps, _) => .ok ps
  | .error e => .error e

/-! ### `Logger.catch`: which `from_decorator` flag each use of ONE catch object reports

`guard = logger.catch(...)` is a `Catcher(Gen.catchContextFlag)`.  Using it in `with` runs its own
`__exit__`, which reports the object's flag; using it as a decorator runs the function under a FRESH
`Catcher(Gen.catchWrapperFlag)`, leaving `guard` untouched. -/

inductive Use where
  | decorator | context
  deriving DecidableEq, Repr

structure Catcher where
  fromDecorator : Bool

/-- one use of the shared object: its state afterwards and the flag handed to the formatter -/
def useStep (obj : Catcher) : Use → Catcher × Bool
  | .decorator => (obj, Gen.catchWrapperFlag)
  | .context => (obj, obj.fromDecorator)

def runUses (obj : Catcher) : List Use → List Bool
  | [] => []
  | u :: us => (useStep obj u).2 :: runUses (useStep obj u).1 us

/-- the shape refuted by `C13.shared_flag_leaks` (seeded change C13-g: `catcher = self;
catcher._from_decorator = True`): the decorator use writes the flag into the shared object -/
def useStepShared (obj : Catcher) : Use → Catcher × Bool
  | .decorator => (⟨Gen.catchWrapperFlag⟩, Gen.catchWrapperFlag)
  | .context => (obj, obj.fromDecorator)

def runUsesShared (obj : Catcher) : List Use → List Bool
  | [] => []
  | u :: us => (useStepShared obj u).2 :: runUsesShared (useStepShared obj u).1 us

end Exc
