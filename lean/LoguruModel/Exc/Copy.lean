import LoguruModel.Exc.Spec
/-
C13 – handlers that are copied (round 5, seeded change C13-o).  `copy.deepcopy(logger)`, a pickle round trip
and a logger sent to a spawned child re-create every handler, and with it its `ExceptionFormatter`.  What the
re-created formatter gets for the modelled options is REGENERATED as `Gen.rebuild` (identity when the class has no
copy hook; otherwise read off the argument tuple of its `__reduce__` through `__init__`).
-/
namespace Exc
open Py

/-- the options of the formatter of a copied handler -/
def rebuildOpts (o : Opts) : Opts :=
  let r := Gen.rebuild o.backtrace o.diagnose o.colorize o.maxLen
  { o with backtrace := r.1, diagnose := r.2.1, colorize := r.2.2.1, maxLen := r.2.2.2 }

/-- the refuted shape (seeded change C13-o): a `__reduce__` listing the attributes in assignment order
(`_colorize, _diagnose, _backtrace, …`) for a constructor `(colorize, backtrace, diagnose, …)` -/
def swappedOpts (o : Opts) : Opts := { o with backtrace := o.diagnose, diagnose := o.backtrace }

def hasValue (ps : List Piece) : Bool := ps.any fun p => match p with | .value _ _ => true | _ => false

end Exc
